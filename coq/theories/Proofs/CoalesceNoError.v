(* C09 over the coalescing transition system (Model/Coalesce.v), i.e. over every
   interleaving of arrivals, disconnects, evictions, origin answers and hand-overs of
   any number of clients: since the shared fetch no longer fails for cache reasons
   (an entry that vanished under its revalidation and a store that failed with the
   body both take the ErrNotCacheable route), NO client ever receives the proxy's own
   error, whoever hangs up and whenever the entry is evicted. *)
From Reservoir Require Import Base.Prelude Model.Coalesce Proofs.Coalesce.

Definition ok_ph (p : phase) : Prop := p <> Post (PHave RError) /\ p <> Done RError.

Definition ne_inv (s : state) : Prop :=
  (forall c, ok_ph (ph s c)) /\
  match flight_ s with Some f => fl_stage f <> SResult FError | None => True end.

Lemma ne_inv_init ks : ne_inv (init ks).
Proof. unfold ne_inv, ok_ph; cbn. split; [intros; split; discriminate|exact I]. Qed.

Ltac client_split Hcl :=
  let c0 := fresh "c0" in
  intros c0; pose proof (Hcl c0) as [? ?]; unfold upd, ok_ph;
  try match goal with |- context [c0 =? ?c] => destruct (c0 =? c) eqn:? end;
  split; try discriminate; try assumption; try congruence.

Lemma ne_inv_step s a s' : ne_inv s -> lts_step s a = Some s' -> ne_inv s'.
Proof.
  intros (Hcl & Hfl) Hstep.
  destruct a; step_cases Hstep; unfold ne_inv; state_cbn;
    repeat match goal with E : flight_ _ = _ |- _ => rewrite E in Hfl end; state_cbn.
  all: try (split; [client_split Hcl|cbn; try discriminate; try exact I; try assumption; try congruence]; fail).
  - (* FlightReturn: the flight's result is handed to every waiting caller *)
    split; [|exact I]. intros c0. pose proof (Hcl c0) as [H1 H2]. unfold ok_ph.
    destruct (ph s c0) eqn:Ec; try (split; assumption).
    destruct r; cbn; try (split; discriminate). congruence.
  - (* Respond: a caller that holds a response delivers it *)
    split; [|exact Hfl]. intros c0. pose proof (Hcl c0) as [H1 H2]. pose proof (Hcl c) as [H3 _].
    unfold upd, ok_ph. destruct (c0 =? c) eqn:Ec; [|split; assumption].
    split; [discriminate|]. intros Hd. inversion Hd; subst r. congruence.
Qed.

Theorem coalesced_never_error : forall ks tr s,
  run (init ks) tr = Some s -> forall c, ph s c <> Done RError.
Proof.
  intros ks tr s Hrun c.
  assert (H : ne_inv s).
  { eapply (run_invariant_all ne_inv); [exact ne_inv_step|apply ne_inv_init|exact Hrun]. }
  destruct H as [Hcl _]. apply (Hcl c).
Qed.
