From Reservoir Require Import Base.Prelude Model.ByteSize.
From Coq Require Import ZifyBool.
Ltac Zify.zify_post_hook ::= Z.div_mod_to_equations.

(* ---------------------------------------------------------------------- *)
(* decimal strings                                                         *)

Lemma dec_acc_app a s t : dec_acc a (s ++ t) = dec_acc (dec_acc a s) t.
Proof. revert a; induction s as [|c s IH]; intros a; cbn [dec_acc app]; [reflexivity|apply IH]. Qed.

Lemma dec_acc_snoc a s d : dec_acc a (s ++ [d]) = dec_acc a s * 10 + (d - 48).
Proof. rewrite dec_acc_app. reflexivity. Qed.

Lemma is_digit_range c : is_digit c = true <-> 48 <= c <= 57.
Proof. unfold is_digit. lia. Qed.

Lemma dec_acc_mono a s : 0 <= a -> all_digits s = true -> a <= dec_acc a s.
Proof.
  revert a; induction s as [|c s IH]; intros a Ha Hs; cbn [dec_acc]; [lia|].
  unfold all_digits in Hs. cbn [forallb] in Hs. apply andb_true_iff in Hs as [Hc Hs].
  apply is_digit_range in Hc.
  specialize (IH (a * 10 + (c - 48)) ltac:(lia) Hs). lia.
Qed.

Lemma dec_acc_linear a s : dec_acc a s = a * 10 ^ zlen s + dec_acc 0 s.
Proof.
  revert a; induction s as [|c s IH]; intros a; cbn [dec_acc].
  - unfold zlen; simpl. lia.
  - rewrite IH. rewrite (IH (0 * 10 + (c - 48))).
    unfold zlen. cbn [length]. rewrite Nat2Z.inj_succ, Z.pow_succ_r by lia. lia.
Qed.

(* the reversed (least significant first) value *)
Fixpoint dec_rev (l : str) : Z :=
  match l with
  | [] => 0
  | d :: r => (d - 48) + 10 * dec_rev r
  end.

Lemma dec_value_rev l : dec_value (rev l) = dec_rev l.
Proof.
  unfold dec_value. induction l as [|d r IH]; cbn [rev dec_rev]; [reflexivity|].
  rewrite dec_acc_snoc, IH. lia.
Qed.

Lemma digits_rev_value fuel : forall n,
  0 <= n < 2 ^ Z.of_nat fuel -> dec_rev (digits_rev fuel n) = n.
Proof.
  induction fuel as [|f IH]; intros n Hn.
  - simpl in Hn. simpl. lia.
  - cbn [digits_rev dec_rev]. rewrite Nat2Z.inj_succ, Z.pow_succ_r in Hn by lia.
    destruct (n <? 10) eqn:E.
    + cbn [dec_rev]. lia.
    + rewrite IH; lia.
Qed.

Lemma digits_rev_digits fuel : forall n, 0 <= n -> forallb is_digit (digits_rev fuel n) = true.
Proof.
  induction fuel as [|f IH]; intros n Hn; cbn [digits_rev forallb]; [reflexivity|].
  apply andb_true_iff; split.
  - apply is_digit_range. lia.
  - destruct (n <? 10) eqn:E; [reflexivity|]. apply IH. lia.
Qed.

Lemma digits_rev_nonempty fuel n : digits_rev (S fuel) n <> [].
Proof. cbn [digits_rev]. discriminate. Qed.

Lemma log2_fuel n : 0 <= n -> n < 2 ^ Z.of_nat (S (Z.to_nat (Z.log2 n))).
Proof.
  intros Hn. rewrite Nat2Z.inj_succ, Z2Nat.id by apply Z.log2_nonneg.
  destruct (Z.eq_dec n 0) as [->|Hz]; [simpl; lia|].
  apply Z.log2_spec. lia.
Qed.

Lemma fmt_nat_value n : 0 <= n -> dec_value (fmt_nat n) = n.
Proof.
  intros Hn. unfold fmt_nat. rewrite dec_value_rev. apply digits_rev_value.
  split; [lia|apply log2_fuel; lia].
Qed.

Lemma forallb_rev {A} (p : A -> bool) l : forallb p (rev l) = forallb p l.
Proof.
  induction l as [|x l IH]; [reflexivity|]. cbn [rev forallb].
  rewrite forallb_app, IH. cbn [forallb]. destruct (p x), (forallb p l); reflexivity.
Qed.

Lemma fmt_nat_digits n : 0 <= n -> all_digits (fmt_nat n) = true.
Proof.
  intros Hn. unfold all_digits, fmt_nat. rewrite forallb_rev. apply digits_rev_digits. lia.
Qed.

Lemma fmt_nat_nonempty n : fmt_nat n <> [].
Proof.
  unfold fmt_nat. intros H. apply (f_equal (@rev Z)) in H. rewrite rev_involutive in H.
  simpl in H. discriminate.
Qed.

(* ---------------------------------------------------------------------- *)
(* units                                                                   *)

Lemma unit_of_cases c u : unit_of c = Some u ->
  (c = 66 /\ u = 1) \/ (c = 75 /\ u = 2^10) \/ (c = 77 /\ u = 2^20) \/ (c = 71 /\ u = 2^30) \/ (c = 84 /\ u = 2^40).
Proof.
  unfold unit_of.
  destruct (c =? 66) eqn:E1; [intros H; inversion H; lia|].
  destruct (c =? 75) eqn:E2; [intros H; inversion H; lia|].
  destruct (c =? 77) eqn:E3; [intros H; inversion H; lia|].
  destruct (c =? 71) eqn:E4; [intros H; inversion H; lia|].
  destruct (c =? 84) eqn:E5; [intros H; inversion H; lia|].
  discriminate.
Qed.

Lemma unit_of_pos c u : unit_of c = Some u -> 1 <= u <= 2^40.
Proof. intros H. apply unit_of_cases in H. lia. Qed.

Lemma unit_not_digit c u : unit_of c = Some u -> is_digit c = false.
Proof. intros H. apply unit_of_cases in H. unfold is_digit. lia. Qed.

Lemma pick_unit_spec b : forall c u, pick_unit units_desc b = (c, u) ->
  unit_of c = Some u /\ (0 <= b -> Z.rem b u = 0).
Proof.
  intros c u. unfold units_desc. cbn [pick_unit].
  repeat match goal with
  | |- context [if ?g then _ else _] => let E := fresh "E" in destruct g eqn:E
  end; intros H; inversion H; subst; (split; [reflexivity|]); intros Hb;
  try (apply andb_true_iff in E as [_ E]; apply Z.eqb_eq in E; exact E);
  try (apply andb_true_iff in E0 as [_ E0]; apply Z.eqb_eq in E0; exact E0);
  try (apply andb_true_iff in E1 as [_ E1]; apply Z.eqb_eq in E1; exact E1);
  try (apply andb_true_iff in E2 as [_ E2]; apply Z.eqb_eq in E2; exact E2);
  try (apply andb_true_iff in E3 as [_ E3]; apply Z.eqb_eq in E3; exact E3);
  apply Z.rem_1_r.
Qed.

(* ---------------------------------------------------------------------- *)
(* Parse                                                                   *)

(* digits in front: the loop consumes them all as long as the value fits *)
Lemma bs_loop_digits ds : forall num seen rest,
  0 <= num -> all_digits ds = true -> dec_acc num ds <= max_int64 ->
  bs_loop num seen (ds ++ rest) =
  bs_loop (dec_acc num ds) (seen || negb (str_eqb ds [])) rest.
Proof.
  induction ds as [|c ds IH]; intros num seen rest Hn Hd Hfit.
  - cbn. rewrite orb_false_r. reflexivity.
  - unfold all_digits in Hd. cbn [forallb] in Hd. apply andb_true_iff in Hd as [Hc Hd].
    cbn [app bs_loop dec_acc]. rewrite Hc.
    pose proof Hc as Hc'. apply is_digit_range in Hc'.
    cbn [dec_acc] in Hfit.
    pose proof (dec_acc_mono (num * 10 + (c - 48)) ds ltac:(lia) Hd) as Hm.
    destruct ((max_int64 - (c - 48)) / 10 <? num) eqn:G.
    { unfold max_int64 in *. lia. }
    rewrite wrap64_id by (unfold min_int64, max_int64 in *; lia).
    rewrite IH by (try assumption; lia).
    cbn [str_eqb]. rewrite orb_true_l. cbn. rewrite orb_true_r. reflexivity.
Qed.

Theorem bs_parse_complete ds c u :
  ds <> [] -> all_digits ds = true -> unit_of c = Some u ->
  dec_value ds * u <= max_int64 ->
  bs_parse (ds ++ [c]) = Ok (dec_value ds * u).
Proof.
  intros Hne Hd Hu Hfit. unfold bs_parse.
  destruct (ds ++ [c]) eqn:E; [destruct ds; discriminate|]. rewrite <- E. clear E.
  pose proof (unit_of_pos _ _ Hu) as Hup.
  pose proof (dec_acc_mono 0 ds ltac:(lia) Hd) as Hge. fold (dec_value ds) in Hge.
  rewrite bs_loop_digits; try assumption; try lia.
  2:{ fold (dec_value ds). nia. }
  fold (dec_value ds). cbn [bs_loop].
  rewrite (unit_not_digit _ _ Hu), Hu.
  assert (Hs : negb (str_eqb ds []) = true).
  { destruct ds; [contradiction|reflexivity]. }
  rewrite Hs. cbn [orb negb].
  destruct (max_int64 / u <? dec_value ds) eqn:G.
  { unfold max_int64 in *. apply Z.ltb_lt in G.
    assert (max_int64 / u * u <= max_int64) by (unfold max_int64; nia).
    unfold max_int64 in *.
    assert (dec_value ds * u >= (max_int64 / u + 1) * u) by (unfold max_int64; nia).
    unfold max_int64 in *. nia. }
  rewrite wrap64_id; [reflexivity|]. unfold min_int64, max_int64 in *. nia.
Qed.

Lemma bs_loop_sound s : forall num seen n,
  0 <= num <= max_int64 ->
  bs_loop num seen s = Ok n ->
  exists ds c u, s = ds ++ [c] /\ all_digits ds = true /\ (seen = true \/ ds <> []) /\
                 unit_of c = Some u /\ n = dec_acc num ds * u /\ 0 <= n <= max_int64.
Proof.
  induction s as [|c r IH]; intros num seen n Hn H; cbn [bs_loop] in H; [discriminate|].
  destruct (is_digit c) eqn:Hc.
  - apply is_digit_range in Hc as Hc'.
    destruct ((max_int64 - (c - 48)) / 10 <? num) eqn:G; [discriminate|].
    assert (Hfit : 0 <= num * 10 + (c - 48) <= max_int64) by (unfold max_int64 in *; lia).
    rewrite wrap64_id in H by (unfold min_int64, max_int64 in *; lia).
    apply IH in H; [|assumption].
    destruct H as (ds & c' & u & -> & Hd & _ & Hu & -> & Hr).
    exists (c :: ds), c', u. repeat split; try assumption; try lia.
    + unfold all_digits. cbn [forallb]. rewrite Hc. exact Hd.
    + right. discriminate.
  - destruct (unit_of c) as [u|] eqn:Hu; [|discriminate].
    destruct (negb seen) eqn:Hs; [discriminate|].
    destruct r as [|x r]; [|discriminate].
    destruct (max_int64 / u <? num) eqn:G; [discriminate|].
    pose proof (unit_of_pos _ _ Hu) as Hup.
    assert (Hfit : 0 <= num * u <= max_int64).
    { apply Z.ltb_ge in G. split; [nia|].
      assert (max_int64 / u * u <= max_int64) by (unfold max_int64; nia). nia. }
    rewrite wrap64_id in H by (unfold min_int64, max_int64 in *; lia).
    inversion H; subst n.
    exists [], c, u. cbn [app dec_acc]. repeat split; try assumption; try lia.
    left. destruct seen; [reflexivity|discriminate].
Qed.

Theorem bs_parse_sound_lemma s n :
  bs_parse s = Ok n ->
  exists ds c u, s = ds ++ [c] /\ ds <> [] /\ all_digits ds = true /\ unit_of c = Some u /\
                 n = dec_value ds * u /\ 0 <= n < 2^63.
Proof.
  unfold bs_parse. destruct s as [|c0 r0] eqn:Es; [discriminate|]. rewrite <- Es. intros H.
  apply bs_loop_sound in H; [|unfold max_int64; lia].
  destruct H as (ds & c & u & -> & Hd & Hs & Hu & -> & Hr).
  exists ds, c, u. repeat split; try assumption; try (unfold max_int64 in Hr; lia).
  destruct Hs as [Hs|Hs]; [discriminate|assumption].
Qed.

Theorem bs_parse_no_panic s : bs_parse s <> Panic.
Proof.
  unfold bs_parse. destruct s as [|c0 r0] eqn:Es; [discriminate|]. rewrite <- Es. clear Es c0 r0.
  generalize 0 false. induction s as [|c r IH]; intros num seen; cbn [bs_loop]; [discriminate|].
  destruct (is_digit c).
  - destruct (_ <? num); [discriminate|apply IH].
  - destruct (unit_of c); [|discriminate]. destruct (negb seen); [discriminate|].
    destruct r; [|discriminate]. destruct (_ <? num); discriminate.
Qed.

(* ---------------------------------------------------------------------- *)
(* String then Parse                                                       *)

Theorem bs_roundtrip_lemma n : 0 <= n < 2^63 -> bs_parse (bs_string n) = Ok n.
Proof.
  intros Hn. unfold bs_string.
  destruct (pick_unit units_desc n) as [c u] eqn:P.
  apply pick_unit_spec in P as [Hu Hrem]. specialize (Hrem ltac:(lia)).
  pose proof (unit_of_pos _ _ Hu) as Hup.
  assert (Hq : 0 <= Z.quot n u) by (apply Z.quot_pos; lia).
  assert (Hmul : Z.quot n u * u = n).
  { pose proof (Z.quot_rem' n u). lia. }
  unfold fmt_int. destruct (Z.quot n u <? 0) eqn:E; [lia|].
  rewrite bs_parse_complete with (u := u).
  - rewrite fmt_nat_value by lia. rewrite Hmul. reflexivity.
  - apply fmt_nat_nonempty.
  - apply fmt_nat_digits. lia.
  - exact Hu.
  - rewrite fmt_nat_value by lia. unfold max_int64. lia.
Qed.

(* the printed form is itself in the documented shape *)
Theorem bs_string_shape n : 0 <= n < 2^63 ->
  exists ds c u, bs_string n = ds ++ [c] /\ ds <> [] /\ all_digits ds = true /\
                 unit_of c = Some u /\ dec_value ds * u = n.
Proof.
  intros Hn. pose proof (bs_roundtrip_lemma n Hn) as H.
  apply bs_parse_sound_lemma in H. destruct H as (ds & c & u & E & Hne & Hd & Hu & Hv & _).
  exists ds, c, u. repeat split; try assumption. lia.
Qed.

(* different sizes print differently (String is injective on valid sizes) *)
Theorem bs_string_inj a b : 0 <= a < 2^63 -> 0 <= b < 2^63 -> bs_string a = bs_string b -> a = b.
Proof.
  intros Ha Hb E. pose proof (bs_roundtrip_lemma a Ha) as H1. pose proof (bs_roundtrip_lemma b Hb) as H2.
  rewrite E in H1. congruence.
Qed.
