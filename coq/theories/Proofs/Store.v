(* Proofs about Model/Store.v: the accounting invariant (C12) and handle
   integrity / no resurrection (C01), for every action list. *)
From Reservoir Require Import Base.Prelude Base.Amap Model.Store.

Ltac prj :=
  cbn [s_ents s_wr s_fs s_ino s_hs s_bs s_mb s_me s_nh s_ni s_now
       set_ents set_wr set_fs set_ino set_hs add_size add_count publish set_nh set_ni set_now
       do_reopen init fst snd] in *.

Lemma nkey_inj k k' : nkey k = nkey k' -> k = k'.
Proof. unfold nkey. lia. Qed.
Lemma ntmp_inj k k' : ntmp k = ntmp k' -> k = k'.
Proof. unfold ntmp. lia. Qed.
Lemma nkey_ntmp k k' : nkey k <> ntmp k'.
Proof. unfold nkey, ntmp. lia. Qed.

Lemma eqb_nkey k k' : (nkey k =? nkey k') = (k =? k').
Proof. unfold nkey. destruct (k =? k') eqn:E; [apply Z.eqb_eq in E; subst; apply Z.eqb_refl|apply Z.eqb_neq in E; apply Z.eqb_neq; lia]. Qed.
Lemma eqb_ntmp k k' : (ntmp k =? ntmp k') = (k =? k').
Proof. unfold ntmp. destruct (k =? k') eqn:E; [apply Z.eqb_eq in E; subst; apply Z.eqb_refl|apply Z.eqb_neq in E; apply Z.eqb_neq; lia]. Qed.
Lemma eqb_nkey_ntmp k k' : (nkey k =? ntmp k') = false.
Proof. apply Z.eqb_neq. apply nkey_ntmp. Qed.
Lemma eqb_ntmp_nkey k k' : (ntmp k =? nkey k') = false.
Proof. apply Z.eqb_neq. intros H. symmetry in H. revert H. apply nkey_ntmp. Qed.

Lemma ahas_true {V} k (m : list (Z * V)) : ahas k m = true <-> exists v, aget k m = Some v.
Proof. unfold ahas. destruct (aget k m); split; intros H; eauto; try discriminate. destruct H; discriminate. Qed.
Lemma ahas_false {V} k (m : list (Z * V)) : ahas k m = false <-> aget k m = None.
Proof. unfold ahas. destruct (aget k m); split; intros H; auto; discriminate. Qed.

(* ------------------------------------------------------------------ *)
(* The invariant *)

Record Inv (b : backend) (s : st) : Prop := {
  i_nd_e : NoDup (akeys (s_ents s));
  i_nd_f : NoDup (akeys (s_fs s));
  i_bs : s_bs s = asum e_size (s_ents s);
  i_me : s_me s = zlen (s_ents s);
  i_mb : s_mb s = s_bs s;
  i_mem : b = Mem -> (forall k e, aget k (s_ents s) = Some e -> e_size e = zlen (e_data e)) /\ s_fs s = [];
  i_f1 : b = File -> forall k e, aget k (s_ents s) = Some e ->
         exists i, aget (nkey k) (s_fs s) = Some i /\ zlen (inode_bytes s i) = e_size e;
  i_f2 : forall n i, aget n (s_fs s) = Some i ->
         (exists k e, n = nkey k /\ aget k (s_ents s) = Some e) \/
         (exists k w, n = ntmp k /\ aget k (s_wr s) = Some w /\ w_ino w = i);
  i_f3 : b = File -> forall k w, aget k (s_wr s) = Some w -> aget (ntmp k) (s_fs s) = Some (w_ino w);
  i_inj : forall n n' i, aget n (s_fs s) = Some i -> aget n' (s_fs s) = Some i -> n = n';
  i_lt_fs : forall n i, aget n (s_fs s) = Some i -> i < s_ni s;
  i_lt_h : forall h i off sz obj, aget h (s_hs s) = Some (HFile i off sz obj) -> i < s_ni s;
  i_h_wr : b = File -> forall h i off sz obj k w,
           aget h (s_hs s) = Some (HFile i off sz obj) -> aget k (s_wr s) = Some w -> i <> w_ino w;
  i_h_lt : forall h x, aget h (s_hs s) = Some x -> h < s_nh s
}.

Lemma inv_init b : Inv b init.
Proof.
  constructor; prj; simpl; try (intros; discriminate); try constructor; auto; intros; discriminate.
Qed.

Lemma inode_bytes_ext s s' i : s_ino s' = s_ino s -> inode_bytes s' i = inode_bytes s i.
Proof. unfold inode_bytes. intros ->. reflexivity. Qed.

Lemma e_size_nonneg b s k e : Inv b s -> aget k (s_ents s) = Some e -> 0 <= e_size e.
Proof.
  intros I H. destruct b.
  - destruct (i_mem _ _ I eq_refl) as [M _]. rewrite (M _ _ H). apply zlen_nonneg.
  - destruct (i_f1 _ _ I eq_refl _ _ H) as [i [_ E]]. rewrite <- E. apply zlen_nonneg.
Qed.

(* a name of the form <hex> is in the directory exactly for the keys with an entry *)
Lemma file_entry_of_name s k i :
  Inv File s -> aget (nkey k) (s_fs s) = Some i ->
  exists e, aget k (s_ents s) = Some e /\ zlen (inode_bytes s i) = e_size e.
Proof.
  intros I H. destruct (i_f2 _ _ I _ _ H) as [[k0 [e [E1 E2]]]|[k0 [w [E1 _]]]].
  - apply nkey_inj in E1. subst k0. exists e. split; auto.
    destruct (i_f1 _ _ I eq_refl _ _ E2) as [i' [E3 E4]]. congruence.
  - exfalso. eapply nkey_ntmp; eauto.
Qed.

(* ------------------------------------------------------------------ *)
(* removal *)

Lemma remove_entry_frame b s k :
  let s' := fst (remove_entry b s k) in
  s_wr s' = s_wr s /\ s_ino s' = s_ino s /\ s_hs s' = s_hs s /\ s_nh s' = s_nh s /\ s_ni s' = s_ni s /\ s_now s' = s_now s.
Proof.
  unfold remove_entry. destruct b.
  - destruct (aget k (s_ents s)); prj; auto 10.
  - destruct (aget (nkey k) (s_fs s)); prj; auto 10.
Qed.

Lemma remove_entry_inv b s k : Inv b s -> Inv b (fst (remove_entry b s k)).
Proof.
  intros I. unfold remove_entry. destruct b.
  - (* memory *)
    destruct (aget k (s_ents s)) as [e|] eqn:E; prj; auto.
    destruct (i_mem _ _ I eq_refl) as [M FS].
    constructor; prj; try (intros; discriminate).
    + apply NoDup_adel, I.
    + apply I.
    + rewrite asum_adel by apply I. rewrite E. cbn [oget]. rewrite (i_bs _ _ I). lia.
    + rewrite zlen_adel by apply I. rewrite E. cbn [ocount]. rewrite (i_me _ _ I). lia.
    + rewrite (i_mb _ _ I). lia.
    + intros _. split; auto. intros k' e'. rewrite aget_adel. destruct (k' =? k); [discriminate|]. apply M.
    + rewrite FS. intros; discriminate.
    + apply I.
    + apply I.
    + apply I.
    + apply I.
  - (* file *)
    destruct (aget (nkey k) (s_fs s)) as [i|] eqn:E; prj.
    + destruct (file_entry_of_name _ _ _ I E) as [e [E2 E3]].
      constructor; prj; try (intros; discriminate).
      * apply NoDup_adel, I.
      * apply NoDup_adel, I.
      * rewrite asum_adel by apply I. rewrite E2. cbn [oget]. rewrite (i_bs _ _ I). lia.
      * rewrite zlen_adel by apply I. rewrite E2. cbn [ocount]. rewrite (i_me _ _ I). lia.
      * rewrite (i_mb _ _ I). lia.
      * intros _ k' e'. rewrite aget_adel. destruct (k' =? k) eqn:K; [discriminate|]. intros H.
        destruct (i_f1 _ _ I eq_refl _ _ H) as [i' [F1 F2]]. exists i'. split.
        -- rewrite aget_adel, eqb_nkey, K. exact F1.
        -- erewrite inode_bytes_ext; [exact F2|reflexivity].
      * intros n i'. rewrite aget_adel. destruct (n =? nkey k) eqn:N; [discriminate|]. intros H.
        destruct (i_f2 _ _ I _ _ H) as [[k0 [e0 [A B]]]|R]; [left|right; exact R].
        exists k0, e0. split; auto. rewrite aget_adel. destruct (k0 =? k) eqn:K; auto.
        apply Z.eqb_eq in K. subst. rewrite Z.eqb_refl in N. discriminate.
      * intros _ k' w H. rewrite aget_adel, eqb_ntmp_nkey. apply (i_f3 _ _ I eq_refl _ _ H).
      * intros n n' i'. rewrite !aget_adel. destruct (n =? nkey k); [discriminate|]. destruct (n' =? nkey k); [discriminate|]. apply I.
      * intros n i'. rewrite aget_adel. destruct (n =? nkey k); [discriminate|]. apply I.
      * apply I.
      * apply (i_h_wr _ _ I).
      * apply I.
    + (* no file: the key has no entry either *)
      assert (N : aget k (s_ents s) = None).
      { destruct (aget k (s_ents s)) as [e|] eqn:E2; auto.
        destruct (i_f1 _ _ I eq_refl _ _ E2) as [i [F _]]. congruence. }
      rewrite (adel_notin _ _ N). destruct s; exact I.
Qed.

Lemma try_remove_inv b s k : Inv b s -> Inv b (try_remove b s k).
Proof. intros I. unfold try_remove. destruct (pending s k); auto. apply remove_entry_inv; auto. Qed.

Lemma remove_all_inv b ks : forall s, Inv b s -> Inv b (remove_all b s ks).
Proof.
  unfold remove_all. induction ks as [|k r IH]; simpl; intros s I; auto. apply IH, try_remove_inv, I.
Qed.

Lemma try_remove_frame b s k :
  let s' := try_remove b s k in
  s_wr s' = s_wr s /\ s_ino s' = s_ino s /\ s_hs s' = s_hs s /\ s_nh s' = s_nh s /\ s_ni s' = s_ni s /\ s_now s' = s_now s.
Proof. unfold try_remove. destruct (pending s k); [auto 10|apply remove_entry_frame]. Qed.

Lemma remove_all_frame b ks : forall s,
  let s' := remove_all b s ks in
  s_wr s' = s_wr s /\ s_ino s' = s_ino s /\ s_hs s' = s_hs s /\ s_nh s' = s_nh s /\ s_ni s' = s_ni s /\ s_now s' = s_now s.
Proof.
  unfold remove_all. induction ks as [|k r IH]; simpl; intros s; [auto 10|].
  destruct (IH (try_remove b s k)) as (A & B & C & D & E & F).
  destruct (try_remove_frame b s k) as (A' & B' & C' & D' & E' & F').
  repeat split; congruence.
Qed.

Lemma publish_inv b s : Inv b s -> Inv b (publish s).
Proof.
  intros I. constructor; prj; try apply I. reflexivity.
Qed.

Lemma evict_set_inv b s ks : Inv b s -> Inv b (evict_set b s ks).
Proof. intros I. apply publish_inv, remove_all_inv, I. Qed.

Lemma evict_set_frame b s ks :
  let s' := evict_set b s ks in
  s_wr s' = s_wr s /\ s_ino s' = s_ino s /\ s_hs s' = s_hs s /\ s_nh s' = s_nh s /\ s_ni s' = s_ni s /\ s_now s' = s_now s.
Proof. unfold evict_set. prj. apply remove_all_frame. Qed.

(* ------------------------------------------------------------------ *)
(* rewriting with the map laws *)
Ltac amap :=
  repeat (rewrite ?aget_aset, ?aget_adel, ?eqb_nkey, ?eqb_ntmp, ?eqb_nkey_ntmp, ?eqb_ntmp_nkey in * ).
Ltac zeq :=
  repeat match goal with
         | |- context [?a =? ?b] => destruct (Z.eqb_spec a b); subst
         | H : context [?a =? ?b] |- _ => destruct (Z.eqb_spec a b); subst
         end.

Lemma inode_bytes_set s i d j :
  inode_bytes (set_ino s (aset i d (s_ino s))) j = if j =? i then d else inode_bytes s j.
Proof. unfold inode_bytes. prj. rewrite aget_aset. destruct (j =? i); auto. Qed.

Lemma open_handle_inv b s x :
  Inv b s ->
  (forall i off sz obj, x = HFile i off sz obj ->
     i < s_ni s /\ (b = File -> forall k w, aget k (s_wr s) = Some w -> i <> w_ino w)) ->
  Inv b (fst (open_handle s x)).
Proof.
  intros I Hx. unfold open_handle. constructor; prj; try apply I.
  - intros h i off sz obj. amap. zeq.
    + intros H. inversion H; subst. eapply Hx; eauto.
    + apply I.
  - intros Hb h i off sz obj k w. amap. zeq.
    + intros H. inversion H; subst. destruct (Hx _ _ _ _ eq_refl) as [_ P]. eapply P; eauto.
    + apply (i_h_wr _ _ I eq_refl).
  - intros h y. amap. zeq.
    + intros _. lia.
    + intros H. pose proof (i_h_lt _ _ I _ _ H). lia.
Qed.

Lemma tmp_absent s k : Inv File s -> pending s k = false -> aget (ntmp k) (s_fs s) = None.
Proof.
  intros I P. destruct (aget (ntmp k) (s_fs s)) as [i|] eqn:E; auto.
  destruct (i_f2 _ _ I _ _ E) as [[k0 [e [A _]]]|[k0 [w [A [B _]]]]].
  - exfalso. symmetry in A. revert A. apply nkey_ntmp.
  - apply ntmp_inj in A. subst. unfold pending in P. apply ahas_false in P. congruence.
Qed.

Lemma create_tmp_inv s k ex ob :
  Inv File s -> pending s k = false ->
  Inv File (set_wr (set_ni (set_ino (set_fs s (aset (ntmp k) (s_ni s) (s_fs s))) (aset (s_ni s) [] (s_ino s))) (s_ni s + 1))
                   (aset k {| w_buf := []; w_ino := s_ni s; w_exp := ex; w_obj := ob |} (s_wr s))).
Proof.
  intros I P. pose proof (tmp_absent _ _ I P) as T.
  unfold pending in P. apply ahas_false in P.
  constructor; prj; try apply I; try (intros; discriminate).
  - apply NoDup_aset, I.
  - intros _ k' e H. destruct (i_f1 _ _ I eq_refl _ _ H) as [i [A B]]. exists i. split.
    + amap. exact A.
    + pose proof (i_lt_fs _ _ I _ _ A).
      unfold inode_bytes in *. prj. amap. zeq; [lia|exact B].
  - intros n i. amap. zeq.
    + intros H. inversion H; subst. right. eexists k, _. split; [reflexivity|]. amap. rewrite Z.eqb_refl. split; reflexivity.
    + intros H. destruct (i_f2 _ _ I _ _ H) as [L|[k0 [w [A [B C]]]]]; [left; exact L|right].
      exists k0, w. split; auto. amap. zeq; [congruence|auto].
  - intros _ k' w. amap. zeq.
    + intros H. inversion H; subst. reflexivity.
    + apply (i_f3 _ _ I eq_refl).
  - intros n n' i. amap. zeq; intros H1 H2; auto.
    + inversion H1; subst. pose proof (i_lt_fs _ _ I _ _ H2). lia.
    + inversion H2; subst. pose proof (i_lt_fs _ _ I _ _ H1). lia.
    + eapply (i_inj _ _ I); eauto.
  - intros n i. amap. zeq.
    + intros H. inversion H. lia.
    + intros H. pose proof (i_lt_fs _ _ I _ _ H). lia.
  - intros h i off sz obj H. pose proof (i_lt_h _ _ I _ _ _ _ _ H). lia.
  - intros _ h i off sz obj k' w H. amap. zeq.
    + intros H2. inversion H2; subst. cbn [w_ino]. pose proof (i_lt_h _ _ I _ _ _ _ _ H). lia.
    + apply (i_h_wr _ _ I eq_refl _ _ _ _ _ _ _ H).
Qed.

Lemma set_wr_mem_inv s v : Inv Mem s -> Inv Mem (set_wr s v).
Proof.
  intros I. destruct (i_mem _ _ I eq_refl) as [M FS].
  constructor; prj; try apply I; try discriminate.
  intros n i. rewrite FS. discriminate.
Qed.

Lemma pending_frame s s' k : s_wr s' = s_wr s -> pending s' k = pending s k.
Proof. unfold pending. intros ->. reflexivity. Qed.

Lemma do_begin_inv b lim s k ex ob ev : Inv b s -> Inv b (fst (do_begin b lim s k ex ob ev)).
Proof.
  intros I. unfold do_begin. destruct (pending s k) eqn:P; [exact I|].
  destruct b.
  - set (s1 := if lim <=? s_bs s then evict_set Mem s (filter (fun x => negb (x =? k)) ev) else s).
    assert (I1 : Inv Mem s1) by (subst s1; destruct (lim <=? s_bs s); [apply evict_set_inv|]; auto).
    destruct ((lim <=? s_bs s) && (lim <=? s_bs s1)); prj; [exact I1|].
    apply set_wr_mem_inv, I1.
  - set (s1 := if lim <=? s_bs s then evict_set File s ev else s).
    assert (I1 : Inv File s1) by (subst s1; destruct (lim <=? s_bs s); [apply evict_set_inv|]; auto).
    assert (P1 : pending s1 k = false).
    { rewrite <- P. apply pending_frame. subst s1. destruct (lim <=? s_bs s); auto. apply evict_set_frame. }
    rewrite (tmp_absent _ _ I1 P1). prj. apply create_tmp_inv; auto.
Qed.

(* the inode a pending store writes to is not the inode of any entry *)
Lemma pending_ino_fresh s k w k' i :
  Inv File s -> aget k (s_wr s) = Some w -> aget (nkey k') (s_fs s) = Some i -> i <> w_ino w.
Proof.
  intros I W F E. subst i. pose proof (i_f3 _ _ I eq_refl _ _ W) as T.
  pose proof (i_inj _ _ I _ _ _ F T) as X. revert X. apply nkey_ntmp.
Qed.

Lemma pending_ino_distinct s k w k' w' :
  Inv File s -> aget k (s_wr s) = Some w -> aget k' (s_wr s) = Some w' -> w_ino w = w_ino w' -> k = k'.
Proof.
  intros I W W' E. pose proof (i_f3 _ _ I eq_refl _ _ W) as T. pose proof (i_f3 _ _ I eq_refl _ _ W') as T'.
  rewrite E in T. apply ntmp_inj. eapply (i_inj _ _ I); eauto.
Qed.

Lemma do_write_inv b s k c : Inv b s -> Inv b (fst (do_write b s k c)).
Proof.
  intros I. unfold do_write. destruct (aget k (s_wr s)) as [w|] eqn:W; [|exact I].
  destruct b; prj.
  - apply set_wr_mem_inv, I.
  - constructor; prj; try apply I; try discriminate.
    + intros _ k' e H. destruct (i_f1 _ _ I eq_refl _ _ H) as [i [A B]]. exists i. split; auto.
      rewrite inode_bytes_set. pose proof (pending_ino_fresh _ _ _ _ _ I W A). zeq; [contradiction|exact B].
Qed.

Lemma drop_tmp_inv s k w :
  Inv File s -> aget k (s_wr s) = Some w ->
  Inv File (set_fs (set_wr s (adel k (s_wr s))) (adel (ntmp k) (s_fs s))).
Proof.
  intros I W. constructor; prj; try apply I; try discriminate.
  - apply NoDup_adel, I.
  - intros _ k' e H. destruct (i_f1 _ _ I eq_refl _ _ H) as [i [A B]]. exists i. split; [amap; exact A|exact B].
  - intros n i. amap. zeq; [discriminate|]. intros H.
    destruct (i_f2 _ _ I _ _ H) as [L|[k0 [w0 [A [B C]]]]]; [left; exact L|right].
    exists k0, w0. split; auto. amap. zeq; [contradiction|auto].
  - intros _ k' w'. amap. zeq; [discriminate|]. apply (i_f3 _ _ I eq_refl).
  - intros n n' i. amap. zeq; try discriminate. apply I.
  - intros n i. amap. zeq; [discriminate|]. apply I.
  - intros _ h i off sz obj k' w' H. amap. zeq; [discriminate|]. apply (i_h_wr _ _ I eq_refl _ _ _ _ _ _ _ H).
Qed.

Lemma do_abort_inv b s k : Inv b s -> Inv b (fst (do_abort b s k)).
Proof.
  intros I. unfold do_abort. destruct (aget k (s_wr s)) as [w|] eqn:W; [|exact I].
  destruct b; prj.
  - apply set_wr_mem_inv, I.
  - eapply drop_tmp_inv; eauto.
Qed.

Lemma account_store_frame s old size :
  let s' := account_store s old size in
  s_ents s' = s_ents s /\ s_wr s' = s_wr s /\ s_fs s' = s_fs s /\ s_ino s' = s_ino s /\ s_hs s' = s_hs s /\
  s_nh s' = s_nh s /\ s_ni s' = s_ni s /\ s_now s' = s_now s.
Proof. unfold account_store. destruct old; prj; auto 10. Qed.

Lemma do_commit_inv b s k : Inv b s -> Inv b (fst (do_commit b s k)).
Proof.
  intros I. unfold do_commit. destruct (aget k (s_wr s)) as [w|] eqn:W; [|exact I].
  destruct b.
  - (* memory *)
    destruct (i_mem _ _ I eq_refl) as [M FS].
    match goal with |- context [open_handle ?s3 ?x] =>
      assert (I3 : Inv Mem s3); [|pose proof (open_handle_inv Mem s3 x I3) as OH; destruct (open_handle s3 x); prj; apply OH; intros; discriminate]
    end.
    unfold account_store. prj.
    destruct (aget k (s_ents s)) as [o|] eqn:O; constructor; prj; try apply I; try discriminate.
    + apply NoDup_aset, I.
    + rewrite asum_aset by apply I. rewrite O. cbn [oget e_size]. rewrite (i_bs _ _ I). lia.
    + rewrite zlen_aset by apply I. rewrite O. cbn [ocount]. rewrite (i_me _ _ I). lia.
    + rewrite (i_mb _ _ I). lia.
    + intros _. split; auto. intros k' e'. amap. zeq; [intros H; inversion H; reflexivity|apply M].
    + intros n i. rewrite FS. discriminate.
    + apply NoDup_aset, I.
    + rewrite asum_aset by apply I. rewrite O. cbn [oget e_size]. rewrite (i_bs _ _ I). lia.
    + rewrite zlen_aset by apply I. rewrite O. cbn [ocount]. rewrite (i_me _ _ I). lia.
    + rewrite (i_mb _ _ I). lia.
    + intros _. split; auto. intros k' e'. amap. zeq; [intros H; inversion H; reflexivity|apply M].
    + intros n i. rewrite FS. discriminate.
  - (* file *)
    destruct (zlen (inode_bytes s (w_ino w)) =? 0) eqn:Z0; prj.
    { eapply drop_tmp_inv; eauto. }
    apply Z.eqb_neq in Z0.
    pose proof (i_f3 _ _ I eq_refl _ _ W) as T.
    match goal with |- context [open_handle ?s4 ?x] =>
      assert (I4 : Inv File s4); [|pose proof (open_handle_inv File s4 x I4) as OH; destruct (open_handle s4 x) eqn:OE; prj; apply OH]
    end.
    + unfold account_store. prj.
      destruct (aget k (s_ents s)) as [o|] eqn:O;
      (constructor; prj;
       [ apply NoDup_aset, I
       | apply NoDup_aset, NoDup_adel, I
       | rewrite asum_aset by apply I; rewrite O; cbn [oget e_size]; rewrite (i_bs _ _ I); lia
       | rewrite zlen_aset by apply I; rewrite O; cbn [ocount]; rewrite (i_me _ _ I); lia
       | rewrite (i_mb _ _ I); lia
       | discriminate
       | intros _ k' e'; amap; zeq;
         [ intros H; inversion H; subst; cbn [e_size]; exists (w_ino w); split; reflexivity
         | intros H; destruct (i_f1 _ _ I eq_refl _ _ H) as [i [A B]]; exists i; split; [exact A|exact B] ]
       | intros n i; amap; zeq;
         [ intros _; left; eexists k, _; split; [reflexivity|amap; rewrite Z.eqb_refl; reflexivity]
         | discriminate
         | intros H; destruct (i_f2 _ _ I _ _ H) as [[k0 [e0 [A B]]]|[k0 [w0 [A [B C]]]]];
           [ left; destruct (Z.eqb_spec k0 k); [subst; contradiction|];
             exists k0, e0; split; auto; amap; zeq; [contradiction|auto]
           | right; exists k0, w0; split; auto; amap; zeq; [contradiction|auto] ] ]
       | intros _ k' w'; amap; zeq; [discriminate|]; apply (i_f3 _ _ I eq_refl)
       | intros n n' i; amap; zeq; intros H1 H2; auto; try discriminate;
         [ inversion H1; subst; exfalso; assert (n' = ntmp k) by (eapply (i_inj _ _ I); eauto); contradiction
         | inversion H2; subst; exfalso; assert (n = ntmp k) by (eapply (i_inj _ _ I); eauto); contradiction
         | eapply (i_inj _ _ I); eauto ]
       | intros n i; amap; zeq; [intros H; inversion H; subst; eapply (i_lt_fs _ _ I); eauto|discriminate|apply I]
       | apply I
       | intros _ h i off sz obj k' w' H; amap; zeq; [discriminate|]; apply (i_h_wr _ _ I eq_refl _ _ _ _ _ _ _ H)
       | apply I ]).
    + intros i off sz obj E. inversion E; subst.
      match goal with |- context [s_ni (account_store ?a ?b ?c)] =>
        destruct (account_store_frame a b c) as (_ & FW & _ & _ & _ & _ & FN & _) end.
      rewrite FN, FW. prj. split.
      * eapply (i_lt_fs _ _ I); eauto.
      * intros _ k' w'. amap. zeq; [discriminate|]. intros W' E2. apply n. symmetry. eapply (pending_ino_distinct s); eauto.
Qed.

Lemma do_get_inv b s k : Inv b s -> Inv b (fst (do_get b s k)).
Proof.
  intros I. unfold do_get. destruct (pending s k); [exact I|].
  destruct (aget k (s_ents s)) as [e|] eqn:E; [|exact I].
  destruct b.
  - match goal with |- context [open_handle ?s3 ?x] =>
      pose proof (open_handle_inv Mem s3 x I) as OH; destruct (open_handle s3 x); prj; apply OH; intros; discriminate end.
  - destruct (aget (nkey k) (s_fs s)) as [i|] eqn:F; [|exact I].
    match goal with |- context [open_handle ?s3 ?x] =>
      pose proof (open_handle_inv File s3 x I) as OH; destruct (open_handle s3 x); prj; apply OH end.
    intros i' off sz obj X. inversion X; subst. split.
    + eapply (i_lt_fs _ _ I); eauto.
    + intros _ k' w W. eapply pending_ino_fresh; eauto.
Qed.

Lemma set_hs_inv b s h x :
  Inv b s ->
  (forall i off sz obj, x = HFile i off sz obj -> exists off', aget h (s_hs s) = Some (HFile i off' sz obj)) ->
  (exists y, aget h (s_hs s) = Some y) ->
  Inv b (set_hs s (aset h x (s_hs s))).
Proof.
  intros I Hx [y Hy]. constructor; prj; try apply I.
  - intros h' i off sz obj. amap. zeq; [|apply I].
    intros H. inversion H; subst. destruct (Hx _ _ _ _ eq_refl) as [off' O]. eapply (i_lt_h _ _ I); eauto.
  - intros Hb h' i off sz obj k w. amap. zeq; [|apply (i_h_wr _ _ I eq_refl)].
    intros H. inversion H; subst. destruct (Hx _ _ _ _ eq_refl) as [off' O]. eapply (i_h_wr _ _ I eq_refl); eauto.
  - intros h' z. amap. zeq; [|apply I]. intros _. eapply (i_h_lt _ _ I); eauto.
Qed.

Lemma do_read_inv b s h n : Inv b s -> Inv b (fst (do_read s h n)).
Proof.
  intros I. unfold do_read. destruct (aget h (s_hs s)) as [[data off size obj|i off size obj]|] eqn:H; prj; [| |exact I].
  - apply set_hs_inv; eauto. intros; discriminate.
  - apply set_hs_inv; eauto. intros i' off' sz' obj' X. inversion X; subst. eauto.
Qed.

Lemma do_close_inv b s h : Inv b s -> Inv b (fst (do_close b s h)).
Proof.
  intros I. unfold do_close. destruct b; prj; [exact I|].
  constructor; prj; try apply I.
  - intros h' i off sz obj. amap. zeq; [discriminate|apply I].
  - intros _ h' i off sz obj k w. amap. zeq; [discriminate|apply (i_h_wr _ _ I eq_refl)].
  - intros h' x. amap. zeq; [discriminate|apply I].
Qed.

Lemma do_delete_inv b s k : Inv b s -> Inv b (fst (do_delete b s k)).
Proof.
  intros I. unfold do_delete. destruct (pending s k); [exact I|].
  pose proof (remove_entry_inv b s k I). destruct (remove_entry b s k). exact H.
Qed.

Lemma do_update_inv b s k ex : Inv b s -> Inv b (fst (do_update s k ex)).
Proof.
  intros I. unfold do_update. destruct (pending s k); [exact I|].
  destruct (aget k (s_ents s)) as [e|] eqn:E; [|exact I]. prj.
  constructor; prj; try apply I.
  - apply NoDup_aset, I.
  - rewrite asum_aset by apply I. rewrite E. cbn [oget e_size]. rewrite (i_bs _ _ I). lia.
  - rewrite zlen_aset by apply I. rewrite E. cbn [ocount]. rewrite (i_me _ _ I). lia.
  - intros Hb. destruct (i_mem _ _ I Hb) as [M FS]. split; auto.
    intros k' e'. amap. zeq; [|apply M]. intros H. inversion H; subst. cbn [e_size e_data]. eapply M; eauto.
  - intros Hb k' e'. amap. zeq; [|apply (i_f1 _ _ I eq_refl)].
    intros H. inversion H; subst. cbn [e_size]. apply (i_f1 _ _ I eq_refl _ _ E).
  - intros n i H. destruct (i_f2 _ _ I _ _ H) as [[k0 [e0 [A B]]]|R]; [left|right; exact R].
    destruct (Z.eqb_spec k0 k).
    + subst. eexists k, _. split; auto. amap. rewrite Z.eqb_refl. reflexivity.
    + exists k0, e0. split; auto. amap. zeq; [contradiction|auto].
Qed.

Lemma do_reopen_inv b s : Inv b (do_reopen s).
Proof.
  constructor; prj; simpl; try (intros; discriminate); try constructor; auto; intros; discriminate.
Qed.

Theorem step_inv b lim s a : Inv b s -> Inv b (fst (step b lim s a)).
Proof.
  intros I. destruct a; cbn [step].
  - apply do_begin_inv; auto.
  - apply do_write_inv; auto.
  - apply do_abort_inv; auto.
  - apply do_commit_inv; auto.
  - apply do_get_inv; auto.
  - apply do_read_inv; auto.
  - apply do_close_inv; auto.
  - apply do_delete_inv; auto.
  - apply do_update_inv; auto.
  - prj. constructor; prj; try apply I.
  - prj. unfold do_cleanup. apply publish_inv, remove_all_inv, I.
  - prj. apply evict_set_inv, I.
  - prj. apply do_reopen_inv.
Qed.

Lemma run_from_inv b lim l : forall s, Inv b s -> Inv b (run_from b lim s l).
Proof.
  unfold run_from. induction l as [|a r IH]; simpl; intros s I; auto. apply IH, step_inv, I.
Qed.

Theorem run_inv b lim l : Inv b (run b lim l).
Proof. apply run_from_inv, inv_init. Qed.

(* ------------------------------------------------------------------ *)
(* C12: the counters describe what is actually stored *)

Lemma get_data_ok b s k e :
  Inv b s -> aget k (s_ents s) = Some e -> exists d, get_data b s k e = Some d /\ zlen d = e_size e.
Proof.
  intros I H. unfold get_data. destruct b.
  - exists (e_data e). split; auto. symmetry. destruct (i_mem _ _ I eq_refl) as [M _]. eapply M; eauto.
  - destruct (i_f1 _ _ I eq_refl _ _ H) as [i [A B]]. rewrite A. eauto.
Qed.

Lemma in_retrievable b s x :
  In x (retrievable b s) <->
  exists k e d, In (k, e) (s_ents s) /\ get_data b s k e = Some d /\ x = (k, (d, e_size e, e_obj e)).
Proof.
  unfold retrievable. rewrite in_flat_map. split.
  - intros [[k e] [H1 H2]]. cbn [fst snd] in H2. destruct (get_data b s k e) as [d|] eqn:G; [|contradiction].
    destruct H2 as [H2|[]]. exists k, e, d. auto.
  - intros [k [e [d [H1 [H2 H3]]]]]. exists (k, e). split; auto. cbn [fst snd]. rewrite H2. left. auto.
Qed.

Lemma retr_sums b s l :
  (forall k e, In (k, e) l -> exists d, get_data b s k e = Some d /\ zlen d = e_size e) ->
  let r := flat_map (fun ke => match get_data b s (fst ke) (snd ke) with
                               | Some d => [(fst ke, (d, e_size (snd ke), e_obj (snd ke)))]
                               | None => []
                               end) l in
  sum_data r = asum e_size l /\ zlen r = zlen l.
Proof.
  induction l as [|[k e] r IH]; intros H; cbn [flat_map fst snd].
  - split; reflexivity.
  - destruct (H k e (or_introl eq_refl)) as [d [G Z]]. rewrite G.
    destruct IH as [IH1 IH2]. { intros; apply H; right; auto. }
    cbn [app]. split.
    + cbn [sum_data fold_right asum fst snd]. fold (sum_data). unfold sum_data in IH1. rewrite IH1. lia.
    + rewrite !zlen_cons. rewrite IH2. reflexivity.
Qed.

Theorem accounting b s :
  Inv b s ->
  s_bs s = sum_data (retrievable b s) /\
  s_me s = zlen (retrievable b s) /\
  s_mb s = s_bs s /\
  (forall k d sz o, In (k, (d, sz, o)) (retrievable b s) -> sz = zlen d) /\
  (b = File -> quiescent s = true ->
     forall n sz, In (n, sz) (dir_listing s) <->
                  exists k d sz' o, n = nkey k /\ In (k, (d, sz', o)) (retrievable b s) /\ sz = zlen d) /\
  NoDup (map fst (dir_listing s)) /\
  0 <= s_bs s /\ 0 <= s_me s /\ 0 <= s_mb s.
Proof.
  intros I.
  assert (G : forall k e, In (k, e) (s_ents s) -> exists d, get_data b s k e = Some d /\ zlen d = e_size e).
  { intros k e H. eapply get_data_ok; [exact I|]. apply In_aget; [apply I|exact H]. }
  destruct (retr_sums b s (s_ents s) G) as [S1 S2]. fold (retrievable b s) in S1, S2.
  assert (P1 : s_bs s = sum_data (retrievable b s)) by (rewrite S1; apply I).
  assert (P2 : s_me s = zlen (retrievable b s)) by (rewrite S2; apply I).
  assert (N1 : 0 <= s_bs s).
  { rewrite (i_bs _ _ I). apply asum_nonneg. intros k e H. eapply (e_size_nonneg b s k); [exact I|]. apply In_aget; [apply I|exact H]. }
  split; [exact P1|]. split; [exact P2|]. split; [apply I|]. split; [|split; [|split]].
  - intros k d sz o H. apply in_retrievable in H. destruct H as [k0 [e [d0 [H1 [H2 H3]]]]]. inversion H3; subst.
    destruct (G _ _ H1) as [d' [A B]]. congruence.
  - intros Hb Q n sz. subst b. unfold dir_listing. rewrite in_map_iff. split.
    + intros [[n0 i] [H1 H2]]. cbn [fst snd] in H1. inversion H1; subst.
      assert (A : aget n (s_fs s) = Some i) by (apply In_aget; auto; apply I).
      destruct (i_f2 _ _ I _ _ A) as [[k [e [E1 E2]]]|[k [w [_ [W _]]]]].
      * subst n. exists k, (inode_bytes s i), (e_size e), (e_obj e). split; auto. split; auto.
        apply in_retrievable. exists k, e, (inode_bytes s i). split; [apply aget_In; auto|]. split; auto.
        unfold get_data. rewrite A. reflexivity.
      * unfold quiescent in Q. destruct (s_wr s); [discriminate|discriminate].
    + intros [k [d [sz' [o [E1 [E2 E3]]]]]]. subst. apply in_retrievable in E2.
      destruct E2 as [k0 [e [d0 [H1 [H2 H3]]]]]. inversion H3; subst.
      unfold get_data in H2. destruct (aget (nkey k0) (s_fs s)) as [i|] eqn:F; [|discriminate].
      inversion H2; subst. exists (nkey k0, i). split; auto. apply aget_In; auto.
  - unfold dir_listing. rewrite map_map. cbn [fst]. apply I.
  - split; [exact N1|]. split; [rewrite P2; apply zlen_nonneg|rewrite (i_mb _ _ I); exact N1].
Qed.

Theorem accounting_run b lim acts :
  let s := run b lim acts in
  s_bs s = sum_data (retrievable b s) /\
  s_me s = zlen (retrievable b s) /\
  s_mb s = s_bs s /\
  (forall k d sz o, In (k, (d, sz, o)) (retrievable b s) -> sz = zlen d) /\
  (b = File -> quiescent s = true ->
     forall n sz, In (n, sz) (dir_listing s) <->
                  exists k d sz' o, n = nkey k /\ In (k, (d, sz', o)) (retrievable b s) /\ sz = zlen d) /\
  NoDup (map fst (dir_listing s)) /\
  0 <= s_bs s /\ 0 <= s_me s /\ 0 <= s_mb s.
Proof. apply accounting, run_inv. Qed.

(* ------------------------------------------------------------------ *)
(* C01: stability of inodes and handles *)

Lemma inode_stable b lim s a i :
  Inv b s -> i < s_ni s ->
  (b = File -> forall k w, aget k (s_wr s) = Some w -> i <> w_ino w) ->
  inode_bytes (fst (step b lim s a)) i = inode_bytes s i.
Proof.
  intros I L NW. destruct a; cbn [step]; prj; try reflexivity.
  - (* begin *)
    unfold do_begin. destruct (pending s k) eqn:P; [reflexivity|]. destruct b.
    + set (s1 := if lim <=? s_bs s then evict_set Mem s (filter (fun x => negb (x =? k)) ev) else s).
      assert (F : s_ino s1 = s_ino s) by (subst s1; destruct (lim <=? s_bs s); auto; apply evict_set_frame).
      destruct ((lim <=? s_bs s) && (lim <=? s_bs s1)); prj; apply inode_bytes_ext; prj; auto.
    + set (s1 := if lim <=? s_bs s then evict_set File s ev else s).
      assert (I1 : Inv File s1) by (subst s1; destruct (lim <=? s_bs s); [apply evict_set_inv|]; auto).
      assert (F : s_ino s1 = s_ino s /\ s_ni s1 = s_ni s /\ s_wr s1 = s_wr s).
      { subst s1; destruct (lim <=? s_bs s); auto. destruct (evict_set_frame File s ev) as (A & B & C & D & E & G). auto. }
      destruct F as (F1 & F2 & F3).
      assert (P1 : pending s1 k = false) by (rewrite <- P; apply pending_frame; auto).
      rewrite (tmp_absent _ _ I1 P1). prj.
      unfold inode_bytes. prj. rewrite aget_aset. destruct (Z.eqb_spec i (s_ni s1)); [lia|]. rewrite F1. reflexivity.
  - (* write *)
    unfold do_write. destruct (aget k (s_wr s)) as [w|] eqn:W; [|reflexivity].
    destruct b; prj; [apply inode_bytes_ext; reflexivity|].
    rewrite inode_bytes_set. destruct (Z.eqb_spec i (w_ino w)); [|reflexivity]. exfalso. eapply NW; eauto.
  - unfold do_abort. destruct (aget k (s_wr s)); [|reflexivity]. destruct b; prj; apply inode_bytes_ext; reflexivity.
  - unfold do_commit. destruct (aget k (s_wr s)) as [w|]; [|reflexivity]. destruct b.
    + unfold open_handle. prj. apply inode_bytes_ext. unfold account_store. destruct (aget k (s_ents s)); reflexivity.
    + destruct (zlen (inode_bytes s (w_ino w)) =? 0); prj; [apply inode_bytes_ext; reflexivity|].
      unfold open_handle. prj. apply inode_bytes_ext. unfold account_store. destruct (aget k (s_ents s)); reflexivity.
  - unfold do_get. destruct (pending s k); [reflexivity|]. destruct (aget k (s_ents s)); [|reflexivity].
    destruct b; [unfold open_handle; prj; apply inode_bytes_ext; reflexivity|].
    destruct (aget (nkey k) (s_fs s)); [|reflexivity]. unfold open_handle; prj; apply inode_bytes_ext; reflexivity.
  - unfold do_read. destruct (aget h (s_hs s)) as [[? ? ? ?|? ? ? ?]|]; prj; apply inode_bytes_ext; reflexivity.
  - unfold do_close. destruct b; prj; apply inode_bytes_ext; reflexivity.
  - unfold do_delete. destruct (pending s k); [reflexivity|].
    pose proof (remove_entry_frame b s k) as F. destruct (remove_entry b s k). prj. apply inode_bytes_ext. apply F.
  - unfold do_update. destruct (pending s k); [reflexivity|]. destruct (aget k (s_ents s)); reflexivity.
  - unfold do_cleanup. apply inode_bytes_ext. prj. apply remove_all_frame.
  - apply inode_bytes_ext. apply evict_set_frame.
Qed.

Lemma hs_stable b lim s a h :
  h < s_nh s -> reads_handle h a = false -> ends_handle h a = false ->
  aget h (s_hs (fst (step b lim s a))) = aget h (s_hs s).
Proof.
  intros L R E. destruct a; cbn [step]; prj; try reflexivity; cbn [reads_handle ends_handle] in *; try discriminate.
  - unfold do_begin. destruct (pending s k); [reflexivity|]. destruct b.
    + set (s1 := if lim <=? s_bs s then evict_set Mem s (filter (fun x => negb (x =? k)) ev) else s).
      assert (F : s_hs s1 = s_hs s) by (subst s1; destruct (lim <=? s_bs s); auto; apply evict_set_frame).
      destruct ((lim <=? s_bs s) && (lim <=? s_bs s1)); prj; rewrite F; reflexivity.
    + set (s1 := if lim <=? s_bs s then evict_set File s ev else s).
      assert (F : s_hs s1 = s_hs s) by (subst s1; destruct (lim <=? s_bs s); auto; apply evict_set_frame).
      destruct (aget (ntmp k) (s_fs s1)); prj; rewrite F; reflexivity.
  - unfold do_write. destruct (aget k (s_wr s)); [|reflexivity]. destruct b; reflexivity.
  - unfold do_abort. destruct (aget k (s_wr s)); [|reflexivity]. destruct b; reflexivity.
  - unfold do_commit. destruct (aget k (s_wr s)) as [w|]; [|reflexivity]. destruct b.
    + unfold open_handle. prj. rewrite aget_aset.
      assert (X : s_nh (account_store (set_ents (set_wr s (adel k (s_wr s))) (aset k {| e_data := w_buf w; e_size := zlen (w_buf w); e_exp := w_exp w; e_obj := w_obj w |} (s_ents s))) (aget k (s_ents s)) (zlen (w_buf w))) = s_nh s)
        by (unfold account_store; destruct (aget k (s_ents s)); reflexivity).
      rewrite X. destruct (Z.eqb_spec h (s_nh s)); [lia|].
      unfold account_store; destruct (aget k (s_ents s)); reflexivity.
    + destruct (zlen (inode_bytes s (w_ino w)) =? 0); prj; [reflexivity|].
      unfold open_handle. prj. rewrite aget_aset.
      match goal with |- context [s_nh (account_store ?a ?b ?c)] =>
        destruct (account_store_frame a b c) as (_ & _ & _ & _ & FH & FN & _ & _) end.
      rewrite FN, FH. prj. destruct (Z.eqb_spec h (s_nh s)); [lia|reflexivity].
  - unfold do_get. destruct (pending s k); [reflexivity|]. destruct (aget k (s_ents s)); [|reflexivity].
    destruct b.
    + unfold open_handle. prj. rewrite aget_aset. destruct (Z.eqb_spec h (s_nh s)); [lia|reflexivity].
    + destruct (aget (nkey k) (s_fs s)); [|reflexivity].
      unfold open_handle. prj. rewrite aget_aset. destruct (Z.eqb_spec h (s_nh s)); [lia|reflexivity].
  - unfold do_read. destruct (aget h0 (s_hs s)) as [[? ? ? ?|? ? ? ?]|]; prj; try reflexivity;
      rewrite aget_aset; rewrite Z.eqb_sym, R; reflexivity.
  - unfold do_close. destruct b; prj; [reflexivity|]. rewrite aget_adel. rewrite Z.eqb_sym, E. reflexivity.
  - unfold do_delete. destruct (pending s k); [reflexivity|].
    pose proof (remove_entry_frame b s k) as F. destruct (remove_entry b s k). prj. destruct F as (_ & _ & F & _). rewrite F. reflexivity.
  - unfold do_update. destruct (pending s k); [reflexivity|]. destruct (aget k (s_ents s)); reflexivity.
  - unfold do_cleanup. prj. destruct (remove_all_frame b (filter (fun k => negb (memb k skip)) (expired_keys s)) s) as (_ & _ & F & _). rewrite F. reflexivity.
  - destruct (evict_set_frame b s ks) as (_ & _ & F & _). rewrite F. reflexivity.
Qed.

Theorem hview_stable b lim s a h v :
  Inv b s -> hview s h = Some v -> reads_handle h a = false -> ends_handle h a = false ->
  hview (fst (step b lim s a)) h = Some v.
Proof.
  intros I V R E. unfold hview in *.
  destruct (aget h (s_hs s)) as [x|] eqn:H; [|discriminate].
  pose proof (i_h_lt _ _ I _ _ H) as L.
  rewrite (hs_stable b lim s a h L R E), H.
  destruct x as [data off sz ob|i off sz ob]; [exact V|].
  rewrite (inode_stable b lim s a i I); [exact V| |].
  - eapply (i_lt_h _ _ I); eauto.
  - intros Hb k w W. eapply (i_h_wr _ _ I Hb); eauto.
Qed.

(* read offsets never go backwards *)
Definition hoff (x : hdl) : Z := match x with HMem _ off _ _ => off | HFile _ off _ _ => off end.
Definition HOff (s : st) : Prop := forall h x, aget h (s_hs s) = Some x -> 0 <= hoff x.

Lemma step_hs_cases b lim s a h x :
  aget h (s_hs (fst (step b lim s a))) = Some x ->
  aget h (s_hs s) = Some x \/ hoff x = 0 \/ (exists x0, aget h (s_hs s) = Some x0 /\ hoff x0 <= hoff x).
Proof.
  destruct a; cbn [step]; prj; auto.
  - unfold do_begin. destruct (pending s k); [auto|]. destruct b.
    + set (s1 := if lim <=? s_bs s then evict_set Mem s (filter (fun x => negb (x =? k)) ev) else s).
      assert (F : s_hs s1 = s_hs s) by (subst s1; destruct (lim <=? s_bs s); auto; apply evict_set_frame).
      destruct ((lim <=? s_bs s) && (lim <=? s_bs s1)); prj; rewrite F; auto.
    + set (s1 := if lim <=? s_bs s then evict_set File s ev else s).
      assert (F : s_hs s1 = s_hs s) by (subst s1; destruct (lim <=? s_bs s); auto; apply evict_set_frame).
      destruct (aget (ntmp k) (s_fs s1)); prj; rewrite F; auto.
  - unfold do_write. destruct (aget k (s_wr s)); [|auto]. destruct b; auto.
  - unfold do_abort. destruct (aget k (s_wr s)); [|auto]. destruct b; auto.
  - unfold do_commit. destruct (aget k (s_wr s)) as [w|]; [|auto]. destruct b.
    + unfold open_handle. prj. rewrite aget_aset.
      match goal with |- context [s_nh (account_store ?a ?b ?c)] =>
        destruct (account_store_frame a b c) as (_ & _ & _ & _ & FH & FN & _ & _) end.
      rewrite FN, FH. prj. destruct (h =? s_nh s); [intros H; inversion H; auto|auto].
    + destruct (zlen (inode_bytes s (w_ino w)) =? 0); prj; [auto|].
      unfold open_handle. prj. rewrite aget_aset.
      match goal with |- context [s_nh (account_store ?a ?b ?c)] =>
        destruct (account_store_frame a b c) as (_ & _ & _ & _ & FH & FN & _ & _) end.
      rewrite FN, FH. prj. destruct (h =? s_nh s); [intros H; inversion H; auto|auto].
  - unfold do_get. destruct (pending s k); [auto|]. destruct (aget k (s_ents s)); [|auto].
    destruct b.
    + unfold open_handle. prj. rewrite aget_aset. destruct (h =? s_nh s); [intros H; inversion H; auto|auto].
    + destruct (aget (nkey k) (s_fs s)); [|auto].
      unfold open_handle. prj. rewrite aget_aset. destruct (h =? s_nh s); [intros H; inversion H; auto|auto].
  - unfold do_read. destruct (aget h0 (s_hs s)) as [[data off sz ob|i off sz ob]|] eqn:H0; prj; auto.
    + rewrite aget_aset. destruct (Z.eqb_spec h h0); auto. subst. intros H; inversion H; subst.
      right; right. eexists; split; [exact H0|]. cbn [hoff]. pose proof (zlen_nonneg (chunk_of data off n)). lia.
    + rewrite aget_aset. destruct (Z.eqb_spec h h0); auto. subst. intros H; inversion H; subst.
      right; right. eexists; split; [exact H0|]. cbn [hoff]. pose proof (zlen_nonneg (chunk_of (inode_bytes s i) off n)). lia.
  - unfold do_close. destruct b; prj; auto. rewrite aget_adel. destruct (h =? h0); [discriminate|auto].
  - unfold do_delete. destruct (pending s k); [auto|].
    pose proof (remove_entry_frame b s k) as F. destruct (remove_entry b s k). prj. destruct F as (_ & _ & F & _). rewrite F. auto.
  - unfold do_update. destruct (pending s k); [auto|]. destruct (aget k (s_ents s)); auto.
  - unfold do_cleanup. prj. destruct (remove_all_frame b (filter (fun k => negb (memb k skip)) (expired_keys s)) s) as (_ & _ & F & _). rewrite F. auto.
  - destruct (evict_set_frame b s ks) as (_ & _ & F & _). rewrite F. auto.
  - discriminate.
Qed.

Lemma step_hoff b lim s a : HOff s -> HOff (fst (step b lim s a)).
Proof.
  intros H h x A. destruct (step_hs_cases _ _ _ _ _ _ A) as [B|[B|[x0 [B C]]]].
  - eapply H; eauto.
  - lia.
  - pose proof (H _ _ B). lia.
Qed.

Lemma run_from_hoff b lim l : forall s, HOff s -> HOff (run_from b lim s l).
Proof. unfold run_from. induction l as [|a r IH]; simpl; intros s H; auto. apply IH, step_hoff, H. Qed.

Lemma hoff_init : HOff init.
Proof. intros h x H. discriminate. Qed.

(* ---- reads ---- *)
Lemma zskipn_add {A} (a c : Z) (l : list A) : 0 <= a -> 0 <= c -> zskipn (a + c) l = zskipn c (zskipn a l).
Proof.
  intros Ha Hc. unfold zskipn. rewrite Z2Nat.inj_add by lia.
  revert l. induction (Z.to_nat a) as [|n IH]; intros l; [reflexivity|].
  destruct l; cbn [Nat.add skipn]; [destruct (Z.to_nat c); reflexivity|apply IH].
Qed.

Theorem read_spec s h n rem sz o :
  HOff s -> hview s h = Some (rem, sz, o) ->
  snd (do_read s h n) = RBytes (zfirstn n rem) sz o /\
  hview (fst (do_read s h n)) h = Some (zskipn (zlen (zfirstn n rem)) rem, sz, o).
Proof.
  intros HO V. unfold hview in V. unfold do_read.
  destruct (aget h (s_hs s)) as [[data off sz' o'|i off sz' o']|] eqn:H; [| |discriminate];
    inversion V; subst; pose proof (HO _ _ H) as P; cbn [hoff] in P; prj.
  - split; [reflexivity|]. unfold hview. prj. rewrite aget_aset_eq. unfold chunk_of.
    rewrite zskipn_add by (auto; apply zlen_nonneg). reflexivity.
  - split; [reflexivity|]. unfold hview. prj. rewrite aget_aset_eq. unfold chunk_of.
    rewrite zskipn_add by (auto; apply zlen_nonneg).
    unfold inode_bytes. prj. reflexivity.
Qed.

(* ---- opening a handle ---- *)
Lemma zskipn_0 {A} (l : list A) : zskipn 0 l = l.
Proof. reflexivity. Qed.

Lemma fresh_handle b s : Inv b s -> hview s (s_nh s) = None.
Proof.
  intros I. unfold hview. destruct (aget (s_nh s) (s_hs s)) eqn:H; [|reflexivity].
  pose proof (i_h_lt _ _ I _ _ H). lia.
Qed.

Theorem get_spec b s k s' h sz o st :
  Inv b s -> do_get b s k = (s', RHandle h sz o st) ->
  exists d, current b s k = Some (d, sz, o) /\ hview s' h = Some (d, sz, o) /\ sz = zlen d /\ hview s h = None.
Proof.
  intros I. unfold do_get. destruct (pending s k); [discriminate|].
  unfold current. destruct (aget k (s_ents s)) as [e|] eqn:E; [|discriminate].
  destruct (get_data_ok _ _ _ _ I E) as [d [G Z]].
  pose proof (fresh_handle _ _ I) as FH.
  destruct b.
  - unfold open_handle. prj. intros H. inversion H; subst. clear H.
    unfold get_data in *. inversion G; subst. exists (e_data e). split; auto. split; [|split; auto].
    unfold hview. prj. rewrite aget_aset_eq. reflexivity.
  - unfold get_data in *. destruct (aget (nkey k) (s_fs s)) as [i|] eqn:F; [|discriminate].
    unfold open_handle. prj. intros H. inversion H; subst. clear H. inversion G; subst.
    exists (inode_bytes s i). split; auto. split; [|split; auto].
    unfold hview. prj. rewrite aget_aset_eq. rewrite zskipn_0. unfold inode_bytes. prj. reflexivity.
Qed.

Theorem get_miss b s k :
  Inv b s -> pending s k = false -> current b s k = None -> snd (do_get b s k) = RMiss.
Proof.
  intros I P C. unfold do_get. rewrite P. unfold current in C.
  destruct (aget k (s_ents s)) as [e|] eqn:E; [|reflexivity].
  destruct (get_data_ok _ _ _ _ I E) as [d [G _]]. rewrite G in C. discriminate.
Qed.

Theorem commit_spec b s k s' h sz o st :
  Inv b s -> do_commit b s k = (s', RHandle h sz o st) ->
  exists d, pending_body b s k = Some (d, o) /\ current b s' k = Some (d, sz, o) /\
            hview s' h = Some (d, sz, o) /\ sz = zlen d /\ hview s h = None.
Proof.
  intros I. unfold do_commit, pending_body. destruct (aget k (s_wr s)) as [w|] eqn:W; [|discriminate].
  pose proof (fresh_handle _ _ I) as FH.
  destruct b.
  - unfold open_handle, account_store. destruct (aget k (s_ents (set_wr s (adel k (s_wr s))))); prj;
      intros H; inversion H; subst; clear H; exists (w_buf w); (split; [reflexivity|]);
      (split; [unfold current, get_data; prj; rewrite aget_aset_eq; reflexivity|]);
      (split; [unfold hview; prj; rewrite aget_aset_eq; reflexivity|auto]).
  - destruct (zlen (inode_bytes s (w_ino w)) =? 0); [discriminate|].
    unfold open_handle, account_store. prj. destruct (aget k (s_ents s)); prj;
      intros H; inversion H; subst; clear H; exists (inode_bytes s (w_ino w)); (split; [reflexivity|]);
      (split; [unfold current, get_data; prj; rewrite !aget_aset_eq; unfold inode_bytes; prj; reflexivity|]);
      (split; [unfold hview; prj; rewrite aget_aset_eq; unfold inode_bytes; prj; reflexivity|auto]).
Qed.

(* only Get and a completed store hand out handles *)
Lemma handle_only_from b lim s a s' h sz o st :
  step b lim s a = (s', RHandle h sz o st) -> (exists k, a = AGet k) \/ (exists k, a = ACommit k).
Proof.
  destruct a; cbn [step]; eauto; intros H; exfalso.
  - unfold do_begin in H. destruct (pending s k); [discriminate|]. destruct b.
    + destruct ((lim <=? s_bs s) && _) in H; discriminate.
    + destruct (aget (ntmp k) _) in H; discriminate.
  - unfold do_write in H. destruct (aget k (s_wr s)); [destruct b|]; discriminate.
  - unfold do_abort in H. destruct (aget k (s_wr s)); [destruct b|]; discriminate.
  - unfold do_read in H. destruct (aget h0 (s_hs s)) as [[? ? ? ?|? ? ? ?]|]; discriminate.
  - unfold do_close in H. destruct b; discriminate.
  - unfold do_delete in H. destruct (pending s k); [discriminate|]. destruct (remove_entry b s k) as [s1 []]; discriminate.
  - unfold do_update in H. destruct (pending s k); [discriminate|]. destruct (aget k (s_ents s)); discriminate.
  - discriminate.
  - discriminate.
  - discriminate.
  - discriminate.
Qed.

(* ---- the whole life of a handle ---- *)
Lemma firstn_app_skip {A} (l : list A) : forall a c,
  firstn a l ++ firstn c (skipn (length (firstn a l)) l) = firstn (a + c) l.
Proof.
  induction l as [|x l IH]; intros a c.
  - rewrite !firstn_nil. reflexivity.
  - destruct a; cbn [firstn length skipn Nat.add app]; [reflexivity|]. f_equal. apply IH.
Qed.

Lemma zfirstn_app_skip {A} (l : list A) n m :
  0 <= m -> zfirstn n l ++ zfirstn m (zskipn (zlen (zfirstn n l)) l) = zfirstn (Z.max 0 n + m) l.
Proof.
  intros Hm. unfold zfirstn, zskipn, zlen. rewrite Nat2Z.id. rewrite firstn_app_skip.
  f_equal. rewrite Z2Nat.inj_add by lia. f_equal. destruct n; simpl; lia.
Qed.

Lemma requested_nonneg h acts : 0 <= requested h acts.
Proof. induction acts as [|a r IH]; cbn [requested]; [lia|]. destruct a; try lia. destruct (h0 =? h); lia. Qed.

Lemma zfirstn_0 {A} (l : list A) : zfirstn 0 l = [].
Proof. reflexivity. Qed.

Theorem handle_trace b lim h sz o acts : forall s rem,
  Inv b s -> HOff s -> hview s h = Some (rem, sz, o) -> keeps_handle h acts = true ->
  concat (chunks_read h acts (outs_from b lim s acts)) = zfirstn (requested h acts) rem /\
  read_metas h sz o acts (outs_from b lim s acts).
Proof.
  induction acts as [|a r IH]; intros s rem I HO V K.
  - cbn. split; auto.
  - cbn [keeps_handle forallb] in K. apply andb_true_iff in K. destruct K as [K1 K2].
    apply negb_true_iff in K1. fold (keeps_handle h r) in K2.
    cbn [outs_from]. destruct (step b lim s a) as [s1 x] eqn:S.
    assert (I1 : Inv b s1) by (pose proof (step_inv b lim s a I) as X; rewrite S in X; exact X).
    assert (HO1 : HOff s1) by (pose proof (step_hoff b lim s a HO) as X; rewrite S in X; exact X).
    cbn [chunks_read read_metas requested].
    destruct (reads_handle h a) eqn:R.
    + destruct a; cbn [reads_handle] in R; try discriminate. apply Z.eqb_eq in R. subst h0.
      cbn [step] in S. destruct (read_spec s h n rem sz o HO V) as [R1 R2]. rewrite S in R1, R2. cbn [fst snd] in R1, R2.
      subst x. destruct (IH s1 _ I1 HO1 R2 K2) as [C M]. rewrite Z.eqb_refl.
      split.
      * cbn [concat app]. rewrite C. apply zfirstn_app_skip. apply requested_nonneg.
      * split; [intros _; eauto|exact M].
    + assert (V1 : hview s1 h = Some (rem, sz, o)).
      { pose proof (hview_stable b lim s a h _ I V R K1) as X. rewrite S in X. exact X. }
      destruct (IH s1 _ I1 HO1 V1 K2) as [C M]. split.
      * cbn [app]. rewrite C. f_equal.
        destruct a; try lia. cbn [reads_handle] in R. rewrite R. lia.
      * split; [intros; discriminate|exact M].
Qed.

(* ------------------------------------------------------------------ *)
(* C01: the current version of a key changes only by a completed store; removal is final *)

Lemma current_ext b s s' k :
  aget k (s_ents s') = aget k (s_ents s) ->
  aget (nkey k) (s_fs s') = aget (nkey k) (s_fs s) ->
  (forall i, aget (nkey k) (s_fs s) = Some i -> inode_bytes s' i = inode_bytes s i) ->
  current b s' k = current b s k.
Proof.
  intros A B C. unfold current, get_data. rewrite A. destruct (aget k (s_ents s)); [|reflexivity].
  destruct b; [reflexivity|]. rewrite B. destruct (aget (nkey k) (s_fs s)) as [i|] eqn:F; [|reflexivity].
  rewrite (C i eq_refl). reflexivity.
Qed.

Lemma remove_entry_current b s k' k :
  Inv b s -> current b (fst (remove_entry b s k')) k = if k =? k' then None else current b s k.
Proof.
  intros I. unfold remove_entry. destruct b.
  - destruct (aget k' (s_ents s)) as [e|] eqn:E; prj.
    + unfold current. prj. rewrite aget_adel. destruct (k =? k'); reflexivity.
    + destruct (Z.eqb_spec k k'); [subst; unfold current; rewrite E; reflexivity|reflexivity].
  - destruct (aget (nkey k') (s_fs s)) as [i|] eqn:F; prj.
    + unfold current, get_data. prj. rewrite !aget_adel, eqb_nkey. destruct (k =? k'); [reflexivity|].
      destruct (aget k (s_ents s)); [|reflexivity]. destruct (aget (nkey k) (s_fs s)); reflexivity.
    + unfold current, get_data. prj. rewrite aget_adel. destruct (k =? k'); [reflexivity|].
      destruct (aget k (s_ents s)); [|reflexivity]. destruct (aget (nkey k) (s_fs s)); reflexivity.
Qed.

Lemma try_remove_current b s k' k :
  Inv b s -> current b (try_remove b s k') k = if (k =? k') && negb (pending s k') then None else current b s k.
Proof.
  intros I. unfold try_remove. destruct (pending s k'); cbn [negb].
  - rewrite andb_false_r. reflexivity.
  - rewrite andb_true_r. apply remove_entry_current, I.
Qed.

Lemma remove_all_current_weak b ks k : forall s,
  Inv b s -> current b (remove_all b s ks) k = current b s k \/ current b (remove_all b s ks) k = None.
Proof.
  unfold remove_all. induction ks as [|a r IH]; simpl; intros s I; [auto|].
  destruct (IH (try_remove b s a) (try_remove_inv _ _ _ I)) as [H|H]; [|auto].
  rewrite H, try_remove_current by auto. destruct ((k =? a) && negb (pending s a)); auto.
Qed.

Lemma remove_all_current_in b ks k : forall s,
  Inv b s -> In k ks -> pending s k = false -> current b (remove_all b s ks) k = None.
Proof.
  unfold remove_all. induction ks as [|a r IH]; simpl; intros s I H P; [contradiction|].
  destruct (Z.eqb_spec k a).
  - subst a. destruct (remove_all_current_weak b r k (try_remove b s k) (try_remove_inv _ _ _ I)) as [X|X]; [|exact X].
    unfold remove_all in X. rewrite X, try_remove_current by auto. rewrite Z.eqb_refl, P. reflexivity.
  - destruct H as [H|H]; [congruence|]. apply IH; auto.
    + apply try_remove_inv, I.
    + rewrite <- P. apply pending_frame. apply try_remove_frame.
Qed.

Lemma publish_current b s k : current b (publish s) k = current b s k.
Proof. reflexivity. Qed.

Lemma nkey_ino_stable b lim s a k i :
  Inv b s -> aget (nkey k) (s_fs s) = Some i -> inode_bytes (fst (step b lim s a)) i = inode_bytes s i.
Proof.
  intros I F. apply inode_stable; auto.
  - eapply (i_lt_fs _ _ I); eauto.
  - intros Hb k' w W. subst b. eapply pending_ino_fresh; eauto.
Qed.

Theorem current_step b lim s a k :
  Inv b s ->
  let s' := fst (step b lim s a) in
  current b s' k = current b s k \/ current b s' k = None \/
  (a = ACommit k /\ exists h sz o st, snd (step b lim s a) = RHandle h sz o st).
Proof.
  intros I s'. subst s'.
  destruct a as [k' ex ob ev|k' c|k'|k'|k'|h n|h|k'|k' ex|d|skip|ks|].
  - (* begin *)
    cbn [step]. unfold do_begin. destruct (pending s k') eqn:P; [auto|]. destruct b.
    + set (s1 := if lim <=? s_bs s then evict_set Mem s (filter (fun x => negb (x =? k')) ev) else s).
      assert (C1 : current Mem s1 k = current Mem s k \/ current Mem s1 k = None).
      { subst s1. destruct (lim <=? s_bs s); [|auto]. unfold evict_set. rewrite publish_current. apply remove_all_current_weak, I. }
      destruct ((lim <=? s_bs s) && (lim <=? s_bs s1)); prj; [tauto|].
      replace (current Mem (set_wr s1 _) k) with (current Mem s1 k) by reflexivity. tauto.
    + set (s1 := if lim <=? s_bs s then evict_set File s ev else s).
      assert (I1 : Inv File s1) by (subst s1; destruct (lim <=? s_bs s); [apply evict_set_inv|]; auto).
      assert (C1 : current File s1 k = current File s k \/ current File s1 k = None).
      { subst s1. destruct (lim <=? s_bs s); [|auto]. unfold evict_set. rewrite publish_current. apply remove_all_current_weak, I. }
      assert (P1 : pending s1 k' = false).
      { rewrite <- P. apply pending_frame. subst s1. destruct (lim <=? s_bs s); auto. apply evict_set_frame. }
      rewrite (tmp_absent _ _ I1 P1). prj.
      match goal with |- current File ?s2 k = _ \/ _ => assert (E : current File s2 k = current File s1 k) end.
      { apply current_ext; prj; auto.
        - rewrite aget_aset, eqb_nkey_ntmp. reflexivity.
        - intros i F. pose proof (i_lt_fs _ _ I1 _ _ F). unfold inode_bytes. prj. rewrite aget_aset.
          destruct (Z.eqb_spec i (s_ni s1)); [lia|reflexivity]. }
      rewrite E. tauto.
  - (* write *)
    left. apply current_ext.
    + cbn [step]. unfold do_write. destruct (aget k' (s_wr s)); [destruct b|]; reflexivity.
    + cbn [step]. unfold do_write. destruct (aget k' (s_wr s)); [destruct b|]; reflexivity.
    + intros i F. eapply nkey_ino_stable; eauto.
  - (* abort *)
    left. apply current_ext.
    + cbn [step]. unfold do_abort. destruct (aget k' (s_wr s)); [destruct b|]; reflexivity.
    + cbn [step]. unfold do_abort. destruct (aget k' (s_wr s)); [destruct b|]; prj; auto.
      rewrite aget_adel, eqb_nkey_ntmp. reflexivity.
    + intros i F. eapply nkey_ino_stable; eauto.
  - (* commit *)
    destruct (Z.eqb_spec k' k).
    + subst k'. cbn [step]. unfold do_commit. destruct (aget k (s_wr s)) as [w|] eqn:W; [|auto]. destruct b.
      * right. right. split; auto. unfold open_handle. prj. eauto.
      * destruct (zlen (inode_bytes s (w_ino w)) =? 0); prj.
        -- left. apply current_ext; prj; auto. rewrite aget_adel, eqb_nkey_ntmp. reflexivity.
        -- right. right. split; auto. unfold open_handle. prj. eauto.
    + left. apply current_ext.
      * cbn [step]. unfold do_commit. destruct (aget k' (s_wr s)) as [w|]; [|reflexivity]. destruct b.
        -- unfold open_handle, account_store. prj. destruct (aget k' (s_ents s)); prj; rewrite aget_aset; destruct (Z.eqb_spec k k'); congruence.
        -- destruct (zlen (inode_bytes s (w_ino w)) =? 0); prj; [reflexivity|].
           unfold open_handle, account_store. prj. destruct (aget k' (s_ents s)); prj; rewrite aget_aset; destruct (Z.eqb_spec k k'); congruence.
      * cbn [step]. unfold do_commit. destruct (aget k' (s_wr s)) as [w|]; [|reflexivity]. destruct b.
        -- unfold open_handle, account_store. prj. destruct (aget k' (s_ents s)); reflexivity.
        -- destruct (zlen (inode_bytes s (w_ino w)) =? 0); prj; [rewrite aget_adel, eqb_nkey_ntmp; reflexivity|].
           unfold open_handle, account_store. prj. destruct (aget k' (s_ents s)); prj;
             rewrite aget_aset, eqb_nkey, aget_adel, eqb_nkey_ntmp; destruct (Z.eqb_spec k k'); congruence.
      * intros i F. eapply nkey_ino_stable; eauto.
  - (* get *)
    left. apply current_ext.
    + cbn [step]. unfold do_get. destruct (pending s k'); [reflexivity|]. destruct (aget k' (s_ents s)); [|reflexivity].
      destruct b; [reflexivity|]. destruct (aget (nkey k') (s_fs s)); reflexivity.
    + cbn [step]. unfold do_get. destruct (pending s k'); [reflexivity|]. destruct (aget k' (s_ents s)); [|reflexivity].
      destruct b; [reflexivity|]. destruct (aget (nkey k') (s_fs s)); reflexivity.
    + intros i F. eapply nkey_ino_stable; eauto.
  - (* read *)
    left. apply current_ext.
    + cbn [step]. unfold do_read. destruct (aget h (s_hs s)) as [[? ? ? ?|? ? ? ?]|]; reflexivity.
    + cbn [step]. unfold do_read. destruct (aget h (s_hs s)) as [[? ? ? ?|? ? ? ?]|]; reflexivity.
    + intros i F. eapply nkey_ino_stable; eauto.
  - (* close *)
    left. apply current_ext.
    + cbn [step]. unfold do_close. destruct b; reflexivity.
    + cbn [step]. unfold do_close. destruct b; reflexivity.
    + intros i F. eapply nkey_ino_stable; eauto.
  - (* delete *)
    cbn [step]. unfold do_delete. destruct (pending s k'); [auto|].
    pose proof (remove_entry_current b s k' k I) as R. destruct (remove_entry b s k') as [s1 ok]. prj.
    rewrite R. destruct (k =? k'); auto.
  - (* update *)
    left. cbn [step]. unfold do_update. destruct (pending s k'); [reflexivity|].
    destruct (aget k' (s_ents s)) as [e|] eqn:E; [|reflexivity]. prj.
    unfold current, get_data. prj. rewrite aget_aset. destruct (Z.eqb_spec k k'); [|reflexivity].
    subst. rewrite E. reflexivity.
  - left. reflexivity.
  - cbn [step]. prj. unfold do_cleanup. rewrite publish_current.
    destruct (remove_all_current_weak b (filter (fun k0 => negb (memb k0 skip)) (expired_keys s)) k s I); auto.
  - cbn [step]. prj. unfold evict_set. rewrite publish_current.
    destruct (remove_all_current_weak b ks k s I); auto.
  - right. left. reflexivity.
Qed.

(* removal is effective *)
Theorem delete_removes b lim s k :
  Inv b s -> pending s k = false -> current b (fst (step b lim s (ADelete k))) k = None.
Proof.
  intros I P. cbn [step]. unfold do_delete. rewrite P.
  pose proof (remove_entry_current b s k k I) as R. destruct (remove_entry b s k). prj. rewrite R, Z.eqb_refl. reflexivity.
Qed.

Theorem evict_removes b lim s ks k :
  Inv b s -> In k ks -> pending s k = false -> current b (fst (step b lim s (AEvict ks))) k = None.
Proof. intros I H P. cbn [step]. prj. unfold evict_set. rewrite publish_current. apply remove_all_current_in; auto. Qed.

Theorem cleanup_removes b lim s skip k e :
  Inv b s -> aget k (s_ents s) = Some e -> e_exp e < s_now s -> memb k skip = false -> pending s k = false ->
  current b (fst (step b lim s (ACleanup skip))) k = None.
Proof.
  intros I E X M P. cbn [step]. prj. unfold do_cleanup. rewrite publish_current. apply remove_all_current_in; auto.
  apply filter_In. split; [|rewrite M; reflexivity].
  unfold expired_keys. apply in_map_iff. exists (k, e). split; auto. apply filter_In. split; [apply aget_In; auto|].
  cbn [snd]. apply Z.ltb_lt. exact X.
Qed.

Theorem reopen_removes b lim s k : current b (fst (step b lim s AReopen)) k = None.
Proof. reflexivity. Qed.

(* only a completed store makes a key (re)appear, and what appears is what that store wrote *)
Lemma current_run b lim k acts : forall s v,
  Inv b s -> no_commit k acts = true ->
  (current b s k = v \/ current b s k = None) ->
  (current b (run_from b lim s acts) k = v \/ current b (run_from b lim s acts) k = None).
Proof.
  unfold run_from. induction acts as [|a r IH]; simpl; intros s v I N C; [exact C|].
  apply andb_true_iff in N. destruct N as [N1 N2]. apply negb_true_iff in N1.
  apply IH; [apply step_inv, I|exact N2|].
  destruct (current_step b lim s a k I) as [H|[H|[H _]]].
  - rewrite H. exact C.
  - auto.
  - subst a. cbn [commits_key] in N1. rewrite Z.eqb_refl in N1. discriminate.
Qed.

Theorem no_resurrection b lim s k acts h sz o st :
  Inv b s -> current b s k = None -> no_commit k acts = true ->
  snd (step b lim (run_from b lim s acts) (AGet k)) <> RHandle h sz o st.
Proof.
  intros I C N H.
  pose proof (run_from_inv b lim acts s I) as I1.
  destruct (current_run b lim k acts s None I N (or_introl C)) as [X|X];
  cbn [step] in H; destruct (do_get b (run_from b lim s acts) k) as [s' x] eqn:G; cbn [snd] in H; subst x;
  destruct (get_spec _ _ _ _ _ _ _ _ I1 G) as [d [Y _]]; congruence.
Qed.

Theorem replaced_not_served b lim s k s1 h sz o st acts s2 h2 sz2 o2 st2 :
  Inv b s -> step b lim s (ACommit k) = (s1, RHandle h sz o st) -> no_commit k acts = true ->
  step b lim (run_from b lim s1 acts) (AGet k) = (s2, RHandle h2 sz2 o2 st2) ->
  exists d, pending_body b s k = Some (d, o) /\ hview s2 h2 = Some (d, sz, o) /\ sz2 = sz /\ o2 = o.
Proof.
  intros I C N G. cbn [step] in C, G.
  destruct (commit_spec _ _ _ _ _ _ _ _ I C) as [d [P [Cu _]]].
  assert (I1 : Inv b s1) by (pose proof (step_inv b lim s (ACommit k) I) as X; cbn [step] in X; rewrite C in X; exact X).
  pose proof (run_from_inv b lim acts s1 I1) as I2.
  destruct (get_spec _ _ _ _ _ _ _ _ I2 G) as [d2 [Y [V _]]].
  destruct (current_run b lim k acts s1 _ I1 N (or_introl Cu)) as [X|X]; [|congruence].
  rewrite X in Y. inversion Y; subst. exists d2. auto.
Qed.

(* ---- actions addressed to one key leave every other key alone ---- *)
Theorem keys_independent b lim s a k k' :
  Inv b s -> key_of a = Some k -> k' <> k ->
  (forall ex ob ev, a = ABegin k ex ob ev -> ~ In k' ev) ->
  current b (fst (step b lim s a)) k' = current b s k'.
Proof.
  intros I K N E.
  destruct (current_step b lim s a k' I) as [H|[H|[H _]]]; [exact H| |subst a; cbn [key_of] in K; congruence].
  (* nothing addressed to k removes k' *)
  destruct a as [k0 ex ob ev|k0 c|k0|k0|k0|h n|h|k0|k0 ex|d|skip|ks|]; cbn [key_of] in K; try discriminate;
    inversion K; subst k0; clear K.
  - specialize (E _ _ _ eq_refl).
    assert (RA : forall l s0, Inv b s0 -> ~ In k' l -> current b (remove_all b s0 l) k' = current b s0 k').
    { unfold remove_all. induction l as [|x r IH]; simpl; intros s0 I0 NI; [reflexivity|].
      rewrite IH; [|apply try_remove_inv, I0|tauto]. rewrite try_remove_current by auto.
      destruct (Z.eqb_spec k' x); [subst; tauto|reflexivity]. }
    cbn [step]. unfold do_begin. destruct (pending s k) eqn:P; [reflexivity|]. destruct b.
    + set (s1 := if lim <=? s_bs s then evict_set Mem s (filter (fun x => negb (x =? k)) ev) else s).
      assert (C1 : current Mem s1 k' = current Mem s k').
      { subst s1. destruct (lim <=? s_bs s); [|reflexivity]. unfold evict_set. rewrite publish_current. apply RA; auto.
        intros X. apply filter_In in X. tauto. }
      destruct ((lim <=? s_bs s) && (lim <=? s_bs s1)); prj; exact C1.
    + set (s1 := if lim <=? s_bs s then evict_set File s ev else s).
      assert (I1 : Inv File s1) by (subst s1; destruct (lim <=? s_bs s); [apply evict_set_inv|]; auto).
      assert (C1 : current File s1 k' = current File s k').
      { subst s1. destruct (lim <=? s_bs s); [|reflexivity]. unfold evict_set. rewrite publish_current. apply RA; auto. }
      assert (P1 : pending s1 k = false).
      { rewrite <- P. apply pending_frame. subst s1. destruct (lim <=? s_bs s); auto. apply evict_set_frame. }
      rewrite (tmp_absent _ _ I1 P1). prj. rewrite <- C1.
      apply current_ext; prj; auto.
      * rewrite aget_aset, eqb_nkey_ntmp. reflexivity.
      * intros i F. pose proof (i_lt_fs _ _ I1 _ _ F). unfold inode_bytes. prj. rewrite aget_aset.
        destruct (Z.eqb_spec i (s_ni s1)); [lia|reflexivity].
  - (* write: current_step's proof gives equality; redo via current_ext *)
    apply current_ext.
    + cbn [step]. unfold do_write. destruct (aget k (s_wr s)); [destruct b|]; reflexivity.
    + cbn [step]. unfold do_write. destruct (aget k (s_wr s)); [destruct b|]; reflexivity.
    + intros i F. eapply nkey_ino_stable; eauto.
  - apply current_ext.
    + cbn [step]. unfold do_abort. destruct (aget k (s_wr s)); [destruct b|]; reflexivity.
    + cbn [step]. unfold do_abort. destruct (aget k (s_wr s)); [destruct b|]; prj; auto.
      rewrite aget_adel, eqb_nkey_ntmp. reflexivity.
    + intros i F. eapply nkey_ino_stable; eauto.
  - (* commit k, other key k' *)
    apply current_ext.
    + cbn [step]. unfold do_commit. destruct (aget k (s_wr s)) as [w|]; [|reflexivity]. destruct b.
      * unfold open_handle, account_store. prj. destruct (aget k (s_ents s)); prj; rewrite aget_aset; destruct (Z.eqb_spec k' k); congruence.
      * destruct (zlen (inode_bytes s (w_ino w)) =? 0); prj; [reflexivity|].
        unfold open_handle, account_store. prj. destruct (aget k (s_ents s)); prj; rewrite aget_aset; destruct (Z.eqb_spec k' k); congruence.
    + cbn [step]. unfold do_commit. destruct (aget k (s_wr s)) as [w|]; [|reflexivity]. destruct b.
      * unfold open_handle, account_store. prj. destruct (aget k (s_ents s)); reflexivity.
      * destruct (zlen (inode_bytes s (w_ino w)) =? 0); prj; [rewrite aget_adel, eqb_nkey_ntmp; reflexivity|].
        unfold open_handle, account_store. prj. destruct (aget k (s_ents s)); prj;
          rewrite aget_aset, eqb_nkey, aget_adel, eqb_nkey_ntmp; destruct (Z.eqb_spec k' k); congruence.
    + intros i F. eapply nkey_ino_stable; eauto.
  - apply current_ext.
    + cbn [step]. unfold do_get. destruct (pending s k); [reflexivity|]. destruct (aget k (s_ents s)); [|reflexivity].
      destruct b; [reflexivity|]. destruct (aget (nkey k) (s_fs s)); reflexivity.
    + cbn [step]. unfold do_get. destruct (pending s k); [reflexivity|]. destruct (aget k (s_ents s)); [|reflexivity].
      destruct b; [reflexivity|]. destruct (aget (nkey k) (s_fs s)); reflexivity.
    + intros i F. eapply nkey_ino_stable; eauto.
  - cbn [step]. unfold do_delete. destruct (pending s k); [reflexivity|].
    pose proof (remove_entry_current b s k k' I) as R. destruct (remove_entry b s k) as [s1 ok]. prj.
    rewrite R. destruct (Z.eqb_spec k' k); [contradiction|reflexivity].
  - cbn [step]. unfold do_update. destruct (pending s k); [reflexivity|].
    destruct (aget k (s_ents s)) as [e|] eqn:E2; [|reflexivity]. prj.
    unfold current, get_data. prj. rewrite aget_aset. destruct (Z.eqb_spec k' k); [contradiction|reflexivity].
Qed.

(* ------------------------------------------------------------------ *)
(* a store publishes exactly what its source delivered *)

Lemma pending_body_ext b s s' k :
  aget k (s_wr s') = aget k (s_wr s) ->
  (forall w, aget k (s_wr s) = Some w -> inode_bytes s' (w_ino w) = inode_bytes s (w_ino w)) ->
  pending_body b s' k = pending_body b s k.
Proof.
  intros A B. unfold pending_body. rewrite A. destruct (aget k (s_wr s)) as [w|]; [|reflexivity].
  destruct b; [reflexivity|]. rewrite (B w eq_refl). reflexivity.
Qed.

Lemma pending_body_step b lim s a k bd ob :
  Inv b s -> pending_body b s k = Some (bd, ob) -> ends_store k a = false ->
  pending_body b (fst (step b lim s a)) k = Some (bd ++ written_to k [a], ob).
Proof.
  intros I P E.
  assert (PK : pending s k = true).
  { unfold pending, ahas. unfold pending_body in P. destruct (aget k (s_wr s)); [reflexivity|discriminate]. }
  destruct a as [k' ex ob' ev|k' c|k'|k'|k'|h n|h|k'|k' ex|d|skip|ks|]; cbn [written_to ends_store] in *;
    rewrite ?app_nil_r; try discriminate.
  - (* begin *)
    cbn [step]. unfold do_begin. destruct (pending s k') eqn:P'; [exact P|].
    assert (N : k <> k') by (intros ->; congruence).
    rewrite <- P. destruct b.
    + set (s1 := if lim <=? s_bs s then evict_set Mem s (filter (fun x => negb (x =? k')) ev) else s).
      assert (F : s_wr s1 = s_wr s) by (subst s1; destruct (lim <=? s_bs s); auto; apply evict_set_frame).
      destruct ((lim <=? s_bs s) && (lim <=? s_bs s1)); prj; unfold pending_body; prj; rewrite ?aget_aset, F.
      * reflexivity.
      * destruct (Z.eqb_spec k k'); [contradiction|reflexivity].
    + set (s1 := if lim <=? s_bs s then evict_set File s ev else s).
      assert (I1 : Inv File s1) by (subst s1; destruct (lim <=? s_bs s); [apply evict_set_inv|]; auto).
      assert (F : s_wr s1 = s_wr s /\ s_ino s1 = s_ino s /\ s_ni s1 = s_ni s).
      { subst s1; destruct (lim <=? s_bs s); auto. destruct (evict_set_frame File s ev) as (A & B & C & D & E' & G). auto. }
      destruct F as (F1 & F2 & F3).
      assert (P1 : pending s1 k' = false) by (rewrite <- P'; apply pending_frame; auto).
      rewrite (tmp_absent _ _ I1 P1). prj.
      apply pending_body_ext; prj.
      * rewrite aget_aset, F1. destruct (Z.eqb_spec k k'); [contradiction|reflexivity].
      * intros w W. pose proof (i_f3 _ _ I eq_refl _ _ W) as T. pose proof (i_lt_fs _ _ I _ _ T) as L.
        unfold inode_bytes. prj. rewrite aget_aset, F2, F3. destruct (Z.eqb_spec (w_ino w) (s_ni s)); [lia|reflexivity].
  - (* write *)
    cbn [step]. unfold do_write. unfold pending_body in *.
    destruct (aget k' (s_wr s)) as [w'|] eqn:W'.
    + destruct (Z.eqb_spec k' k).
      * subst k'. rewrite W' in P. destruct b; prj.
        -- rewrite aget_aset_eq. cbn [w_buf w_obj]. inversion P; subst. rewrite ?app_nil_r. reflexivity.
        -- rewrite W'. rewrite inode_bytes_set, Z.eqb_refl. inversion P; subst. rewrite ?app_nil_r. reflexivity.
      * rewrite ?app_nil_r. destruct (aget k (s_wr s)) as [w|] eqn:W; [|discriminate]. destruct b; prj.
        -- rewrite aget_aset. destruct (Z.eqb_spec k k'); [congruence|]. rewrite W. exact P.
        -- rewrite W. rewrite inode_bytes_set. destruct (Z.eqb_spec (w_ino w) (w_ino w')); [|exact P].
           exfalso. apply n. eapply (pending_ino_distinct s); eauto.
    + destruct (Z.eqb_spec k' k); [subst; rewrite W' in P; discriminate|]. rewrite ?app_nil_r. exact P.
  - (* abort k' <> k *)
    apply Z.eqb_neq in E. cbn [step]. unfold do_abort. destruct (aget k' (s_wr s)); [|exact P].
    rewrite <- P. destruct b; prj; (apply pending_body_ext; prj; [rewrite aget_adel; destruct (Z.eqb_spec k k'); [congruence|reflexivity]|reflexivity]).
  - (* commit k' <> k *)
    apply Z.eqb_neq in E. cbn [step]. unfold do_commit. destruct (aget k' (s_wr s)) as [w'|]; [|exact P].
    rewrite <- P. destruct b.
    + unfold open_handle, account_store. prj. destruct (aget k' (s_ents s)); prj;
        (apply pending_body_ext; prj; [rewrite aget_adel; destruct (Z.eqb_spec k k'); [congruence|reflexivity]|reflexivity]).
    + destruct (zlen (inode_bytes s (w_ino w')) =? 0); prj.
      * apply pending_body_ext; prj; [rewrite aget_adel; destruct (Z.eqb_spec k k'); [congruence|reflexivity]|reflexivity].
      * unfold open_handle, account_store. prj. destruct (aget k' (s_ents s)); prj;
          (apply pending_body_ext; prj; [rewrite aget_adel; destruct (Z.eqb_spec k k'); [congruence|reflexivity]|reflexivity]).
  - cbn [step]. unfold do_get. destruct (pending s k'); [exact P|]. destruct (aget k' (s_ents s)); [|exact P].
    destruct b; [exact P|]. destruct (aget (nkey k') (s_fs s)); exact P.
  - cbn [step]. unfold do_read. destruct (aget h (s_hs s)) as [[? ? ? ?|? ? ? ?]|]; exact P.
  - cbn [step]. unfold do_close. destruct b; exact P.
  - cbn [step]. unfold do_delete. destruct (pending s k'); [exact P|].
    pose proof (remove_entry_frame b s k') as F. destruct (remove_entry b s k') as [s1 ok]. prj. rewrite <- P.
    destruct F as (F1 & F2 & _). apply pending_body_ext; [rewrite F1; reflexivity|intros; apply inode_bytes_ext; exact F2].
  - cbn [step]. unfold do_update. destruct (pending s k'); [exact P|]. destruct (aget k' (s_ents s)); exact P.
  - exact P.
  - cbn [step]. prj. unfold do_cleanup. rewrite <- P.
    destruct (remove_all_frame b (filter (fun k0 => negb (memb k0 skip)) (expired_keys s)) s) as (F1 & F2 & _).
    apply pending_body_ext; prj; [rewrite F1; reflexivity|intros; apply inode_bytes_ext; exact F2].
  - cbn [step]. prj. rewrite <- P. destruct (evict_set_frame b s ks) as (F1 & F2 & _).
    apply pending_body_ext; [rewrite F1; reflexivity|intros; apply inode_bytes_ext; exact F2].
Qed.

Lemma written_to_cons k a r : written_to k (a :: r) = written_to k [a] ++ written_to k r.
Proof. destruct a; cbn [written_to]; rewrite ?app_nil_r; reflexivity. Qed.

Lemma store_trace b lim k acts : forall s bd ob,
  Inv b s -> pending_body b s k = Some (bd, ob) -> forallb (fun a => negb (ends_store k a)) acts = true ->
  pending_body b (run_from b lim s acts) k = Some (bd ++ written_to k acts, ob).
Proof.
  unfold run_from. induction acts as [|a r IH]; intros s bd ob I P E.
  - cbn. rewrite app_nil_r. exact P.
  - cbn [forallb] in E. apply andb_true_iff in E. destruct E as [E1 E2]. apply negb_true_iff in E1.
    cbn [fold_left]. rewrite (IH _ (bd ++ written_to k [a]) ob); [|apply step_inv, I|apply pending_body_step; auto|exact E2].
    rewrite (written_to_cons k a r), app_assoc. reflexivity.
Qed.

Lemma begin_spec b lim s k ex ob ev s1 :
  Inv b s -> step b lim s (ABegin k ex ob ev) = (s1, RUnit) -> pending_body b s1 k = Some ([], ob).
Proof.
  intros I. cbn [step]. unfold do_begin. destruct (pending s k) eqn:P; [discriminate|]. destruct b.
  - set (s0 := if lim <=? s_bs s then evict_set Mem s (filter (fun x => negb (x =? k)) ev) else s).
    destruct ((lim <=? s_bs s) && (lim <=? s_bs s0)); [discriminate|]. intros H. inversion H; subst. clear H.
    unfold pending_body. prj. rewrite aget_aset_eq. reflexivity.
  - set (s0 := if lim <=? s_bs s then evict_set File s ev else s).
    assert (I1 : Inv File s0) by (subst s0; destruct (lim <=? s_bs s); [apply evict_set_inv|]; auto).
    assert (P1 : pending s0 k = false).
    { rewrite <- P. apply pending_frame. subst s0. destruct (lim <=? s_bs s); auto. apply evict_set_frame. }
    rewrite (tmp_absent _ _ I1 P1). prj. intros H. inversion H; subst. clear H.
    unfold pending_body. prj. rewrite aget_aset_eq. cbn [w_ino w_obj].
    unfold inode_bytes. prj. rewrite aget_aset_eq. reflexivity.
Qed.

(* begin ... commit: the published version is the concatenation of the chunks the source delivered *)
Theorem store_complete b lim s k ex ob ev s1 acts s2 h sz o st :
  Inv b s -> step b lim s (ABegin k ex ob ev) = (s1, RUnit) ->
  forallb (fun a => negb (ends_store k a)) acts = true ->
  step b lim (run_from b lim s1 acts) (ACommit k) = (s2, RHandle h sz o st) ->
  current b s2 k = Some (written_to k acts, sz, ob) /\ hview s2 h = Some (written_to k acts, sz, ob) /\
  sz = zlen (written_to k acts) /\ o = ob.
Proof.
  intros I B E C.
  assert (I1 : Inv b s1) by (pose proof (step_inv b lim s (ABegin k ex ob ev) I) as X; rewrite B in X; exact X).
  pose proof (begin_spec _ _ _ _ _ _ _ _ I B) as P0.
  pose proof (store_trace b lim k acts s1 [] ob I1 P0 E) as P1. cbn [app] in P1.
  pose proof (run_from_inv b lim acts s1 I1) as I2.
  cbn [step] in C. destruct (commit_spec _ _ _ _ _ _ _ _ I2 C) as [d [Q [Cu [V [Z _]]]]].
  rewrite P1 in Q. inversion Q; subst. auto.
Qed.

(* ---- C01, assembled ---- *)
Theorem handle_integrity b lim pre a s1 h sz o st acts :
  step b lim (run b lim pre) a = (s1, RHandle h sz o st) ->
  keeps_handle h acts = true ->
  exists body,
    opened_version b (run b lim pre) a = Some (body, o) /\
    sz = zlen body /\
    concat (chunks_read h acts (outs_from b lim s1 acts)) = zfirstn (requested h acts) body /\
    read_metas h sz o acts (outs_from b lim s1 acts).
Proof.
  intros S K.
  pose proof (run_inv b lim pre) as I.
  assert (HO : HOff (run b lim pre)) by (apply run_from_hoff, hoff_init).
  assert (I1 : Inv b s1) by (pose proof (step_inv b lim _ a I) as X; rewrite S in X; exact X).
  assert (HO1 : HOff s1) by (pose proof (step_hoff b lim _ a HO) as X; rewrite S in X; exact X).
  destruct (handle_only_from _ _ _ _ _ _ _ _ _ S) as [[k ->]|[k ->]]; cbn [step] in S.
  - destruct (get_spec _ _ _ _ _ _ _ _ I S) as [d [C [V [Z _]]]].
    exists d. cbn [opened_version]. rewrite C. split; auto. split; auto.
    apply (handle_trace b lim h sz o acts s1 d I1 HO1 V K).
  - destruct (commit_spec _ _ _ _ _ _ _ _ I S) as [d [P [C [V [Z _]]]]].
    exists d. cbn [opened_version]. split; auto. split; auto.
    apply (handle_trace b lim h sz o acts s1 d I1 HO1 V K).
Qed.

Lemma run_app b lim l1 l2 : run b lim (l1 ++ l2) = run_from b lim (run b lim l1) l2.
Proof. unfold run, run_from. apply fold_left_app. Qed.

Theorem restart_clean b lim acts :
  let s := run b lim (acts ++ [AReopen]) in
  s_bs s = 0 /\ s_me s = 0 /\ s_mb s = 0 /\ retrievable b s = [] /\ dir_listing s = [].
Proof. cbv zeta. rewrite run_app. cbn. auto. Qed.
