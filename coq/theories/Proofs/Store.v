(* Proofs about Model/Store.v: the accounting invariant (C12) and handle
   integrity / no resurrection (C01), for every action list. *)
From Reservoir Require Import Base.Prelude Base.Amap Model.Store.

Ltac prj :=
  cbn [s_ents s_wr s_fs s_ino s_hs s_bs s_mb s_me s_nh s_ni s_now
       set_ents set_wr set_fs set_ino set_hs add_size add_count publish set_nh set_ni set_now
       do_reopen init fst snd] in *.

Lemma nkey_inj k k' : nkey k = nkey k' -> k = k'.
Proof. unfold nkey. lia. Qed.
Lemma ntmp_inj k k' : ntmp k = ntmp k' -> k = k'.
Proof. unfold ntmp. lia. Qed.
Lemma nkey_ntmp k k' : nkey k <> ntmp k'.
Proof. unfold nkey, ntmp. lia. Qed.

Lemma eqb_nkey k k' : (nkey k =? nkey k') = (k =? k').
Proof. unfold nkey. destruct (k =? k') eqn:E; [apply Z.eqb_eq in E; subst; apply Z.eqb_refl|apply Z.eqb_neq in E; apply Z.eqb_neq; lia]. Qed.
Lemma eqb_ntmp k k' : (ntmp k =? ntmp k') = (k =? k').
Proof. unfold ntmp. destruct (k =? k') eqn:E; [apply Z.eqb_eq in E; subst; apply Z.eqb_refl|apply Z.eqb_neq in E; apply Z.eqb_neq; lia]. Qed.
Lemma eqb_nkey_ntmp k k' : (nkey k =? ntmp k') = false.
Proof. apply Z.eqb_neq. apply nkey_ntmp. Qed.
Lemma eqb_ntmp_nkey k k' : (ntmp k =? nkey k') = false.
Proof. apply Z.eqb_neq. intros H. symmetry in H. revert H. apply nkey_ntmp. Qed.

Lemma ahas_true {V} k (m : list (Z * V)) : ahas k m = true <-> exists v, aget k m = Some v.
Proof. unfold ahas. destruct (aget k m); split; intros H; eauto; try discriminate. destruct H; discriminate. Qed.
Lemma ahas_false {V} k (m : list (Z * V)) : ahas k m = false <-> aget k m = None.
Proof. unfold ahas. destruct (aget k m); split; intros H; auto; discriminate. Qed.

(* ------------------------------------------------------------------ *)
(* The invariant *)

Record Inv (b : backend) (s : st) : Prop := {
  i_nd_e : NoDup (akeys (s_ents s));
  i_nd_f : NoDup (akeys (s_fs s));
  i_bs : s_bs s = asum e_size (s_ents s);
  i_me : s_me s = zlen (s_ents s);
  i_mb : s_mb s = s_bs s;
  i_mem : b = Mem -> (forall k e, aget k (s_ents s) = Some e -> e_size e = zlen (e_data e)) /\ s_fs s = [];
  i_f1 : b = File -> forall k e, aget k (s_ents s) = Some e ->
         exists i, aget (nkey k) (s_fs s) = Some i /\ zlen (inode_bytes s i) = e_size e;
  i_f2 : forall n i, aget n (s_fs s) = Some i ->
         (exists k e, n = nkey k /\ aget k (s_ents s) = Some e) \/
         (exists k w, n = ntmp k /\ aget k (s_wr s) = Some w /\ w_ino w = i);
  i_f3 : b = File -> forall k w, aget k (s_wr s) = Some w -> aget (ntmp k) (s_fs s) = Some (w_ino w);
  i_inj : forall n n' i, aget n (s_fs s) = Some i -> aget n' (s_fs s) = Some i -> n = n';
  i_lt_fs : forall n i, aget n (s_fs s) = Some i -> i < s_ni s;
  i_lt_h : forall h i off sz obj, aget h (s_hs s) = Some (HFile i off sz obj) -> i < s_ni s;
  i_h_wr : b = File -> forall h i off sz obj k w,
           aget h (s_hs s) = Some (HFile i off sz obj) -> aget k (s_wr s) = Some w -> i <> w_ino w;
  i_h_lt : forall h x, aget h (s_hs s) = Some x -> h < s_nh s
}.

Lemma inv_init b : Inv b init.
Proof.
  constructor; prj; simpl; try (intros; discriminate); try constructor; auto; intros; discriminate.
Qed.

Lemma inode_bytes_ext s s' i : s_ino s' = s_ino s -> inode_bytes s' i = inode_bytes s i.
Proof. unfold inode_bytes. intros ->. reflexivity. Qed.

Lemma e_size_nonneg b s k e : Inv b s -> aget k (s_ents s) = Some e -> 0 <= e_size e.
Proof.
  intros I H. destruct b.
  - destruct (i_mem _ _ I eq_refl) as [M _]. rewrite (M _ _ H). apply zlen_nonneg.
  - destruct (i_f1 _ _ I eq_refl _ _ H) as [i [_ E]]. rewrite <- E. apply zlen_nonneg.
Qed.

(* a name of the form <hex> is in the directory exactly for the keys with an entry *)
Lemma file_entry_of_name s k i :
  Inv File s -> aget (nkey k) (s_fs s) = Some i ->
  exists e, aget k (s_ents s) = Some e /\ zlen (inode_bytes s i) = e_size e.
Proof.
  intros I H. destruct (i_f2 _ _ I _ _ H) as [[k0 [e [E1 E2]]]|[k0 [w [E1 _]]]].
  - apply nkey_inj in E1. subst k0. exists e. split; auto.
    destruct (i_f1 _ _ I eq_refl _ _ E2) as [i' [E3 E4]]. congruence.
  - exfalso. eapply nkey_ntmp; eauto.
Qed.

(* ------------------------------------------------------------------ *)
(* removal *)

Lemma remove_entry_frame b s k :
  let s' := fst (remove_entry b s k) in
  s_wr s' = s_wr s /\ s_ino s' = s_ino s /\ s_hs s' = s_hs s /\ s_nh s' = s_nh s /\ s_ni s' = s_ni s /\ s_now s' = s_now s.
Proof.
  unfold remove_entry. destruct b.
  - destruct (aget k (s_ents s)); prj; auto 10.
  - destruct (aget (nkey k) (s_fs s)); prj; auto 10.
Qed.

Lemma remove_entry_inv b s k : Inv b s -> Inv b (fst (remove_entry b s k)).
Proof.
  intros I. unfold remove_entry. destruct b.
  - (* memory *)
    destruct (aget k (s_ents s)) as [e|] eqn:E; prj; auto.
    destruct (i_mem _ _ I eq_refl) as [M FS].
    constructor; prj; try (intros; discriminate).
    + apply NoDup_adel, I.
    + apply I.
    + rewrite asum_adel by apply I. rewrite E. cbn [oget]. rewrite (i_bs _ _ I). lia.
    + rewrite zlen_adel by apply I. rewrite E. cbn [ocount]. rewrite (i_me _ _ I). lia.
    + rewrite (i_mb _ _ I). lia.
    + intros _. split; auto. intros k' e'. rewrite aget_adel. destruct (k' =? k); [discriminate|]. apply M.
    + rewrite FS. intros; discriminate.
    + apply I.
    + apply I.
    + apply I.
    + apply I.
  - (* file *)
    destruct (aget (nkey k) (s_fs s)) as [i|] eqn:E; prj.
    + destruct (file_entry_of_name _ _ _ I E) as [e [E2 E3]].
      constructor; prj; try (intros; discriminate).
      * apply NoDup_adel, I.
      * apply NoDup_adel, I.
      * rewrite asum_adel by apply I. rewrite E2. cbn [oget]. rewrite (i_bs _ _ I). lia.
      * rewrite zlen_adel by apply I. rewrite E2. cbn [ocount]. rewrite (i_me _ _ I). lia.
      * rewrite (i_mb _ _ I). lia.
      * intros _ k' e'. rewrite aget_adel. destruct (k' =? k) eqn:K; [discriminate|]. intros H.
        destruct (i_f1 _ _ I eq_refl _ _ H) as [i' [F1 F2]]. exists i'. split.
        -- rewrite aget_adel, eqb_nkey, K. exact F1.
        -- erewrite inode_bytes_ext; [exact F2|reflexivity].
      * intros n i'. rewrite aget_adel. destruct (n =? nkey k) eqn:N; [discriminate|]. intros H.
        destruct (i_f2 _ _ I _ _ H) as [[k0 [e0 [A B]]]|R]; [left|right; exact R].
        exists k0, e0. split; auto. rewrite aget_adel. destruct (k0 =? k) eqn:K; auto.
        apply Z.eqb_eq in K. subst. rewrite Z.eqb_refl in N. discriminate.
      * intros _ k' w H. rewrite aget_adel, eqb_ntmp_nkey. apply (i_f3 _ _ I eq_refl _ _ H).
      * intros n n' i'. rewrite !aget_adel. destruct (n =? nkey k); [discriminate|]. destruct (n' =? nkey k); [discriminate|]. apply I.
      * intros n i'. rewrite aget_adel. destruct (n =? nkey k); [discriminate|]. apply I.
      * apply I.
      * apply (i_h_wr _ _ I).
      * apply I.
    + (* no file: the key has no entry either *)
      assert (N : aget k (s_ents s) = None).
      { destruct (aget k (s_ents s)) as [e|] eqn:E2; auto.
        destruct (i_f1 _ _ I eq_refl _ _ E2) as [i [F _]]. congruence. }
      rewrite (adel_notin _ _ N). destruct s; exact I.
Qed.

Lemma try_remove_inv b s k : Inv b s -> Inv b (try_remove b s k).
Proof. intros I. unfold try_remove. destruct (pending s k); auto. apply remove_entry_inv; auto. Qed.

Lemma remove_all_inv b ks : forall s, Inv b s -> Inv b (remove_all b s ks).
Proof.
  unfold remove_all. induction ks as [|k r IH]; simpl; intros s I; auto. apply IH, try_remove_inv, I.
Qed.

Lemma try_remove_frame b s k :
  let s' := try_remove b s k in
  s_wr s' = s_wr s /\ s_ino s' = s_ino s /\ s_hs s' = s_hs s /\ s_nh s' = s_nh s /\ s_ni s' = s_ni s /\ s_now s' = s_now s.
Proof. unfold try_remove. destruct (pending s k); [auto 10|apply remove_entry_frame]. Qed.

Lemma remove_all_frame b ks : forall s,
  let s' := remove_all b s ks in
  s_wr s' = s_wr s /\ s_ino s' = s_ino s /\ s_hs s' = s_hs s /\ s_nh s' = s_nh s /\ s_ni s' = s_ni s /\ s_now s' = s_now s.
Proof.
  unfold remove_all. induction ks as [|k r IH]; simpl; intros s; [auto 10|].
  destruct (IH (try_remove b s k)) as (A & B & C & D & E & F).
  destruct (try_remove_frame b s k) as (A' & B' & C' & D' & E' & F').
  repeat split; congruence.
Qed.

Lemma publish_inv b s : Inv b s -> Inv b (publish s).
Proof.
  intros I. constructor; prj; try apply I. reflexivity.
Qed.

Lemma evict_set_inv b s ks : Inv b s -> Inv b (evict_set b s ks).
Proof. intros I. apply publish_inv, remove_all_inv, I. Qed.

Lemma evict_set_frame b s ks :
  let s' := evict_set b s ks in
  s_wr s' = s_wr s /\ s_ino s' = s_ino s /\ s_hs s' = s_hs s /\ s_nh s' = s_nh s /\ s_ni s' = s_ni s /\ s_now s' = s_now s.
Proof. unfold evict_set. prj. apply remove_all_frame. Qed.

(* ------------------------------------------------------------------ *)
(* rewriting with the map laws *)
Ltac amap :=
  repeat (rewrite ?aget_aset, ?aget_adel, ?eqb_nkey, ?eqb_ntmp, ?eqb_nkey_ntmp, ?eqb_ntmp_nkey in * ).
Ltac zeq :=
  repeat match goal with
         | |- context [?a =? ?b] => destruct (Z.eqb_spec a b); subst
         | H : context [?a =? ?b] |- _ => destruct (Z.eqb_spec a b); subst
         end.

Lemma inode_bytes_set s i d j :
  inode_bytes (set_ino s (aset i d (s_ino s))) j = if j =? i then d else inode_bytes s j.
Proof. unfold inode_bytes. prj. rewrite aget_aset. destruct (j =? i); auto. Qed.

Lemma open_handle_inv b s x :
  Inv b s ->
  (forall i off sz obj, x = HFile i off sz obj ->
     i < s_ni s /\ (b = File -> forall k w, aget k (s_wr s) = Some w -> i <> w_ino w)) ->
  Inv b (fst (open_handle s x)).
Proof.
  intros I Hx. unfold open_handle. constructor; prj; try apply I.
  - intros h i off sz obj. amap. zeq.
    + intros H. inversion H; subst. eapply Hx; eauto.
    + apply I.
  - intros Hb h i off sz obj k w. amap. zeq.
    + intros H. inversion H; subst. destruct (Hx _ _ _ _ eq_refl) as [_ P]. eapply P; eauto.
    + apply (i_h_wr _ _ I eq_refl).
  - intros h y. amap. zeq.
    + intros _. lia.
    + intros H. pose proof (i_h_lt _ _ I _ _ H). lia.
Qed.

Lemma tmp_absent s k : Inv File s -> pending s k = false -> aget (ntmp k) (s_fs s) = None.
Proof.
  intros I P. destruct (aget (ntmp k) (s_fs s)) as [i|] eqn:E; auto.
  destruct (i_f2 _ _ I _ _ E) as [[k0 [e [A _]]]|[k0 [w [A [B _]]]]].
  - exfalso. symmetry in A. revert A. apply nkey_ntmp.
  - apply ntmp_inj in A. subst. unfold pending in P. apply ahas_false in P. congruence.
Qed.

Lemma create_tmp_inv s k ex ob :
  Inv File s -> pending s k = false ->
  Inv File (set_wr (set_ni (set_ino (set_fs s (aset (ntmp k) (s_ni s) (s_fs s))) (aset (s_ni s) [] (s_ino s))) (s_ni s + 1))
                   (aset k {| w_buf := []; w_ino := s_ni s; w_exp := ex; w_obj := ob |} (s_wr s))).
Proof.
  intros I P. pose proof (tmp_absent _ _ I P) as T.
  unfold pending in P. apply ahas_false in P.
  constructor; prj; try apply I; try (intros; discriminate).
  - apply NoDup_aset, I.
  - intros _ k' e H. destruct (i_f1 _ _ I eq_refl _ _ H) as [i [A B]]. exists i. split.
    + amap. exact A.
    + pose proof (i_lt_fs _ _ I _ _ A).
      unfold inode_bytes in *. prj. amap. zeq; [lia|exact B].
  - intros n i. amap. zeq.
    + intros H. inversion H; subst. right. eexists k, _. split; [reflexivity|]. amap. rewrite Z.eqb_refl. split; reflexivity.
    + intros H. destruct (i_f2 _ _ I _ _ H) as [L|[k0 [w [A [B C]]]]]; [left; exact L|right].
      exists k0, w. split; auto. amap. zeq; [congruence|auto].
  - intros _ k' w. amap. zeq.
    + intros H. inversion H; subst. reflexivity.
    + apply (i_f3 _ _ I eq_refl).
  - intros n n' i. amap. zeq; intros H1 H2; auto.
    + inversion H1; subst. pose proof (i_lt_fs _ _ I _ _ H2). lia.
    + inversion H2; subst. pose proof (i_lt_fs _ _ I _ _ H1). lia.
    + eapply (i_inj _ _ I); eauto.
  - intros n i. amap. zeq.
    + intros H. inversion H. lia.
    + intros H. pose proof (i_lt_fs _ _ I _ _ H). lia.
  - intros h i off sz obj H. pose proof (i_lt_h _ _ I _ _ _ _ _ H). lia.
  - intros _ h i off sz obj k' w H. amap. zeq.
    + intros H2. inversion H2; subst. cbn [w_ino]. pose proof (i_lt_h _ _ I _ _ _ _ _ H). lia.
    + apply (i_h_wr _ _ I eq_refl _ _ _ _ _ _ _ H).
Qed.

Lemma set_wr_mem_inv s v : Inv Mem s -> Inv Mem (set_wr s v).
Proof.
  intros I. destruct (i_mem _ _ I eq_refl) as [M FS].
  constructor; prj; try apply I; try discriminate.
  intros n i. rewrite FS. discriminate.
Qed.

Lemma pending_frame s s' k : s_wr s' = s_wr s -> pending s' k = pending s k.
Proof. unfold pending. intros ->. reflexivity. Qed.

Lemma do_begin_inv b lim s k ex ob ev : Inv b s -> Inv b (fst (do_begin b lim s k ex ob ev)).
Proof.
  intros I. unfold do_begin. destruct (pending s k) eqn:P; [exact I|].
  destruct b.
  - set (s1 := if lim <=? s_bs s then evict_set Mem s (filter (fun x => negb (x =? k)) ev) else s).
    assert (I1 : Inv Mem s1) by (subst s1; destruct (lim <=? s_bs s); [apply evict_set_inv|]; auto).
    destruct ((lim <=? s_bs s) && (lim <=? s_bs s1)); prj; [exact I1|].
    apply set_wr_mem_inv, I1.
  - set (s1 := if lim <=? s_bs s then evict_set File s ev else s).
    assert (I1 : Inv File s1) by (subst s1; destruct (lim <=? s_bs s); [apply evict_set_inv|]; auto).
    assert (P1 : pending s1 k = false).
    { rewrite <- P. apply pending_frame. subst s1. destruct (lim <=? s_bs s); auto. apply evict_set_frame. }
    rewrite (tmp_absent _ _ I1 P1). prj. apply create_tmp_inv; auto.
Qed.

(* the inode a pending store writes to is not the inode of any entry *)
Lemma pending_ino_fresh s k w k' i :
  Inv File s -> aget k (s_wr s) = Some w -> aget (nkey k') (s_fs s) = Some i -> i <> w_ino w.
Proof.
  intros I W F E. subst i. pose proof (i_f3 _ _ I eq_refl _ _ W) as T.
  pose proof (i_inj _ _ I _ _ _ F T) as X. revert X. apply nkey_ntmp.
Qed.

Lemma pending_ino_distinct s k w k' w' :
  Inv File s -> aget k (s_wr s) = Some w -> aget k' (s_wr s) = Some w' -> w_ino w = w_ino w' -> k = k'.
Proof.
  intros I W W' E. pose proof (i_f3 _ _ I eq_refl _ _ W) as T. pose proof (i_f3 _ _ I eq_refl _ _ W') as T'.
  rewrite E in T. apply ntmp_inj. eapply (i_inj _ _ I); eauto.
Qed.

Lemma do_write_inv b s k c : Inv b s -> Inv b (fst (do_write b s k c)).
Proof.
  intros I. unfold do_write. destruct (aget k (s_wr s)) as [w|] eqn:W; [|exact I].
  destruct b; prj.
  - apply set_wr_mem_inv, I.
  - constructor; prj; try apply I; try discriminate.
    + intros _ k' e H. destruct (i_f1 _ _ I eq_refl _ _ H) as [i [A B]]. exists i. split; auto.
      rewrite inode_bytes_set. pose proof (pending_ino_fresh _ _ _ _ _ I W A). zeq; [contradiction|exact B].
Qed.

Lemma drop_tmp_inv s k w :
  Inv File s -> aget k (s_wr s) = Some w ->
  Inv File (set_fs (set_wr s (adel k (s_wr s))) (adel (ntmp k) (s_fs s))).
Proof.
  intros I W. constructor; prj; try apply I; try discriminate.
  - apply NoDup_adel, I.
  - intros _ k' e H. destruct (i_f1 _ _ I eq_refl _ _ H) as [i [A B]]. exists i. split; [amap; exact A|exact B].
  - intros n i. amap. zeq; [discriminate|]. intros H.
    destruct (i_f2 _ _ I _ _ H) as [L|[k0 [w0 [A [B C]]]]]; [left; exact L|right].
    exists k0, w0. split; auto. amap. zeq; [contradiction|auto].
  - intros _ k' w'. amap. zeq; [discriminate|]. apply (i_f3 _ _ I eq_refl).
  - intros n n' i. amap. zeq; try discriminate. apply I.
  - intros n i. amap. zeq; [discriminate|]. apply I.
  - intros _ h i off sz obj k' w' H. amap. zeq; [discriminate|]. apply (i_h_wr _ _ I eq_refl _ _ _ _ _ _ _ H).
Qed.

Lemma do_abort_inv b s k : Inv b s -> Inv b (fst (do_abort b s k)).
Proof.
  intros I. unfold do_abort. destruct (aget k (s_wr s)) as [w|] eqn:W; [|exact I].
  destruct b; prj.
  - apply set_wr_mem_inv, I.
  - eapply drop_tmp_inv; eauto.
Qed.

Lemma account_store_frame s old size :
  let s' := account_store s old size in
  s_ents s' = s_ents s /\ s_wr s' = s_wr s /\ s_fs s' = s_fs s /\ s_ino s' = s_ino s /\ s_hs s' = s_hs s /\
  s_nh s' = s_nh s /\ s_ni s' = s_ni s /\ s_now s' = s_now s.
Proof. unfold account_store. destruct old; prj; auto 10. Qed.

Lemma do_commit_inv b s k : Inv b s -> Inv b (fst (do_commit b s k)).
Proof.
  intros I. unfold do_commit. destruct (aget k (s_wr s)) as [w|] eqn:W; [|exact I].
  destruct b.
  - (* memory *)
    destruct (i_mem _ _ I eq_refl) as [M FS].
    match goal with |- context [open_handle ?s3 ?x] =>
      assert (I3 : Inv Mem s3); [|pose proof (open_handle_inv Mem s3 x I3) as OH; destruct (open_handle s3 x); prj; apply OH; intros; discriminate]
    end.
    unfold account_store. prj.
    destruct (aget k (s_ents s)) as [o|] eqn:O; constructor; prj; try apply I; try discriminate.
    + apply NoDup_aset, I.
    + rewrite asum_aset by apply I. rewrite O. cbn [oget e_size]. rewrite (i_bs _ _ I). lia.
    + rewrite zlen_aset by apply I. rewrite O. cbn [ocount]. rewrite (i_me _ _ I). lia.
    + rewrite (i_mb _ _ I). lia.
    + intros _. split; auto. intros k' e'. amap. zeq; [intros H; inversion H; reflexivity|apply M].
    + intros n i. rewrite FS. discriminate.
    + apply NoDup_aset, I.
    + rewrite asum_aset by apply I. rewrite O. cbn [oget e_size]. rewrite (i_bs _ _ I). lia.
    + rewrite zlen_aset by apply I. rewrite O. cbn [ocount]. rewrite (i_me _ _ I). lia.
    + rewrite (i_mb _ _ I). lia.
    + intros _. split; auto. intros k' e'. amap. zeq; [intros H; inversion H; reflexivity|apply M].
    + intros n i. rewrite FS. discriminate.
  - (* file *)
    destruct (zlen (inode_bytes s (w_ino w)) =? 0) eqn:Z0; prj.
    { eapply drop_tmp_inv; eauto. }
    apply Z.eqb_neq in Z0.
    pose proof (i_f3 _ _ I eq_refl _ _ W) as T.
    match goal with |- context [open_handle ?s4 ?x] =>
      assert (I4 : Inv File s4); [|pose proof (open_handle_inv File s4 x I4) as OH; destruct (open_handle s4 x) eqn:OE; prj; apply OH]
    end.
    + unfold account_store. prj.
      destruct (aget k (s_ents s)) as [o|] eqn:O;
      (constructor; prj;
       [ apply NoDup_aset, I
       | apply NoDup_aset, NoDup_adel, I
       | rewrite asum_aset by apply I; rewrite O; cbn [oget e_size]; rewrite (i_bs _ _ I); lia
       | rewrite zlen_aset by apply I; rewrite O; cbn [ocount]; rewrite (i_me _ _ I); lia
       | rewrite (i_mb _ _ I); lia
       | discriminate
       | intros _ k' e'; amap; zeq;
         [ intros H; inversion H; subst; cbn [e_size]; exists (w_ino w); split; reflexivity
         | intros H; destruct (i_f1 _ _ I eq_refl _ _ H) as [i [A B]]; exists i; split; [exact A|exact B] ]
       | intros n i; amap; zeq;
         [ intros _; left; eexists k, _; split; [reflexivity|amap; rewrite Z.eqb_refl; reflexivity]
         | discriminate
         | intros H; destruct (i_f2 _ _ I _ _ H) as [[k0 [e0 [A B]]]|[k0 [w0 [A [B C]]]]];
           [ left; destruct (Z.eqb_spec k0 k); [subst; contradiction|];
             exists k0, e0; split; auto; amap; zeq; [contradiction|auto]
           | right; exists k0, w0; split; auto; amap; zeq; [contradiction|auto] ] ]
       | intros _ k' w'; amap; zeq; [discriminate|]; apply (i_f3 _ _ I eq_refl)
       | intros n n' i; amap; zeq; intros H1 H2; auto; try discriminate;
         [ inversion H1; subst; exfalso; assert (n' = ntmp k) by (eapply (i_inj _ _ I); eauto); contradiction
         | inversion H2; subst; exfalso; assert (n = ntmp k) by (eapply (i_inj _ _ I); eauto); contradiction
         | eapply (i_inj _ _ I); eauto ]
       | intros n i; amap; zeq; [intros H; inversion H; subst; eapply (i_lt_fs _ _ I); eauto|discriminate|apply I]
       | apply I
       | intros _ h i off sz obj k' w' H; amap; zeq; [discriminate|]; apply (i_h_wr _ _ I eq_refl _ _ _ _ _ _ _ H)
       | apply I ]).
    + intros i off sz obj E. inversion E; subst.
      match goal with |- context [s_ni (account_store ?a ?b ?c)] =>
        destruct (account_store_frame a b c) as (_ & FW & _ & _ & _ & _ & FN & _) end.
      rewrite FN, FW. prj. split.
      * eapply (i_lt_fs _ _ I); eauto.
      * intros _ k' w'. amap. zeq; [discriminate|]. intros W' E2. apply n. symmetry. eapply (pending_ino_distinct s); eauto.
Qed.

Lemma do_get_inv b s k : Inv b s -> Inv b (fst (do_get b s k)).
Proof.
  intros I. unfold do_get. destruct (pending s k); [exact I|].
  destruct (aget k (s_ents s)) as [e|] eqn:E; [|exact I].
  destruct b.
  - match goal with |- context [open_handle ?s3 ?x] =>
      pose proof (open_handle_inv Mem s3 x I) as OH; destruct (open_handle s3 x); prj; apply OH; intros; discriminate end.
  - destruct (aget (nkey k) (s_fs s)) as [i|] eqn:F; [|exact I].
    match goal with |- context [open_handle ?s3 ?x] =>
      pose proof (open_handle_inv File s3 x I) as OH; destruct (open_handle s3 x); prj; apply OH end.
    intros i' off sz obj X. inversion X; subst. split.
    + eapply (i_lt_fs _ _ I); eauto.
    + intros _ k' w W. eapply pending_ino_fresh; eauto.
Qed.

Lemma set_hs_inv b s h x :
  Inv b s ->
  (forall i off sz obj, x = HFile i off sz obj -> exists off', aget h (s_hs s) = Some (HFile i off' sz obj)) ->
  (exists y, aget h (s_hs s) = Some y) ->
  Inv b (set_hs s (aset h x (s_hs s))).
Proof.
  intros I Hx [y Hy]. constructor; prj; try apply I.
  - intros h' i off sz obj. amap. zeq; [|apply I].
    intros H. inversion H; subst. destruct (Hx _ _ _ _ eq_refl) as [off' O]. eapply (i_lt_h _ _ I); eauto.
  - intros Hb h' i off sz obj k w. amap. zeq; [|apply (i_h_wr _ _ I eq_refl)].
    intros H. inversion H; subst. destruct (Hx _ _ _ _ eq_refl) as [off' O]. eapply (i_h_wr _ _ I eq_refl); eauto.
  - intros h' z. amap. zeq; [|apply I]. intros _. eapply (i_h_lt _ _ I); eauto.
Qed.

Lemma do_read_inv b s h n : Inv b s -> Inv b (fst (do_read s h n)).
Proof.
  intros I. unfold do_read. destruct (aget h (s_hs s)) as [[data off size obj|i off size obj]|] eqn:H; prj; [| |exact I].
  - apply set_hs_inv; eauto. intros; discriminate.
  - apply set_hs_inv; eauto. intros i' off' sz' obj' X. inversion X; subst. eauto.
Qed.

Lemma do_close_inv b s h : Inv b s -> Inv b (fst (do_close b s h)).
Proof.
  intros I. unfold do_close. destruct b; prj; [exact I|].
  constructor; prj; try apply I.
  - intros h' i off sz obj. amap. zeq; [discriminate|apply I].
  - intros _ h' i off sz obj k w. amap. zeq; [discriminate|apply (i_h_wr _ _ I eq_refl)].
  - intros h' x. amap. zeq; [discriminate|apply I].
Qed.

Lemma do_delete_inv b s k : Inv b s -> Inv b (fst (do_delete b s k)).
Proof.
  intros I. unfold do_delete. destruct (pending s k); [exact I|].
  pose proof (remove_entry_inv b s k I). destruct (remove_entry b s k). exact H.
Qed.

Lemma do_update_inv b s k ex : Inv b s -> Inv b (fst (do_update s k ex)).
Proof.
  intros I. unfold do_update. destruct (pending s k); [exact I|].
  destruct (aget k (s_ents s)) as [e|] eqn:E; [|exact I]. prj.
  constructor; prj; try apply I.
  - apply NoDup_aset, I.
  - rewrite asum_aset by apply I. rewrite E. cbn [oget e_size]. rewrite (i_bs _ _ I). lia.
  - rewrite zlen_aset by apply I. rewrite E. cbn [ocount]. rewrite (i_me _ _ I). lia.
  - intros Hb. destruct (i_mem _ _ I Hb) as [M FS]. split; auto.
    intros k' e'. amap. zeq; [|apply M]. intros H. inversion H; subst. cbn [e_size e_data]. eapply M; eauto.
  - intros Hb k' e'. amap. zeq; [|apply (i_f1 _ _ I eq_refl)].
    intros H. inversion H; subst. cbn [e_size]. apply (i_f1 _ _ I eq_refl _ _ E).
  - intros n i H. destruct (i_f2 _ _ I _ _ H) as [[k0 [e0 [A B]]]|R]; [left|right; exact R].
    destruct (Z.eqb_spec k0 k).
    + subst. eexists k, _. split; auto. amap. rewrite Z.eqb_refl. reflexivity.
    + exists k0, e0. split; auto. amap. zeq; [contradiction|auto].
Qed.

Lemma do_reopen_inv b s : Inv b (do_reopen s).
Proof.
  constructor; prj; simpl; try (intros; discriminate); try constructor; auto; intros; discriminate.
Qed.

Theorem step_inv b lim s a : Inv b s -> Inv b (fst (step b lim s a)).
Proof.
  intros I. destruct a; cbn [step].
  - apply do_begin_inv; auto.
  - apply do_write_inv; auto.
  - apply do_abort_inv; auto.
  - apply do_commit_inv; auto.
  - apply do_get_inv; auto.
  - apply do_read_inv; auto.
  - apply do_close_inv; auto.
  - apply do_delete_inv; auto.
  - apply do_update_inv; auto.
  - prj. constructor; prj; try apply I.
  - prj. unfold do_cleanup. apply publish_inv, remove_all_inv, I.
  - prj. apply evict_set_inv, I.
  - prj. apply do_reopen_inv.
Qed.

Lemma run_from_inv b lim l : forall s, Inv b s -> Inv b (run_from b lim s l).
Proof.
  unfold run_from. induction l as [|a r IH]; simpl; intros s I; auto. apply IH, step_inv, I.
Qed.

Theorem run_inv b lim l : Inv b (run b lim l).
Proof. apply run_from_inv, inv_init. Qed.

(* ------------------------------------------------------------------ *)
(* C12: the counters describe what is actually stored *)

Lemma get_data_ok b s k e :
  Inv b s -> aget k (s_ents s) = Some e -> exists d, get_data b s k e = Some d /\ zlen d = e_size e.
Proof.
  intros I H. unfold get_data. destruct b.
  - exists (e_data e). split; auto. symmetry. destruct (i_mem _ _ I eq_refl) as [M _]. eapply M; eauto.
  - destruct (i_f1 _ _ I eq_refl _ _ H) as [i [A B]]. rewrite A. eauto.
Qed.

Lemma in_retrievable b s x :
  In x (retrievable b s) <->
  exists k e d, In (k, e) (s_ents s) /\ get_data b s k e = Some d /\ x = (k, (d, e_size e, e_obj e)).
Proof.
  unfold retrievable. rewrite in_flat_map. split.
  - intros [[k e] [H1 H2]]. cbn [fst snd] in H2. destruct (get_data b s k e) as [d|] eqn:G; [|contradiction].
    destruct H2 as [H2|[]]. exists k, e, d. auto.
  - intros [k [e [d [H1 [H2 H3]]]]]. exists (k, e). split; auto. cbn [fst snd]. rewrite H2. left. auto.
Qed.

Lemma retr_sums b s l :
  (forall k e, In (k, e) l -> exists d, get_data b s k e = Some d /\ zlen d = e_size e) ->
  let r := flat_map (fun ke => match get_data b s (fst ke) (snd ke) with
                               | Some d => [(fst ke, (d, e_size (snd ke), e_obj (snd ke)))]
                               | None => []
                               end) l in
  sum_data r = asum e_size l /\ zlen r = zlen l.
Proof.
  induction l as [|[k e] r IH]; intros H; cbn [flat_map fst snd].
  - split; reflexivity.
  - destruct (H k e (or_introl eq_refl)) as [d [G Z]]. rewrite G.
    destruct IH as [IH1 IH2]. { intros; apply H; right; auto. }
    cbn [app]. split.
    + cbn [sum_data fold_right asum fst snd]. fold (sum_data). unfold sum_data in IH1. rewrite IH1. lia.
    + rewrite !zlen_cons. rewrite IH2. reflexivity.
Qed.

Theorem accounting b s :
  Inv b s ->
  s_bs s = sum_data (retrievable b s) /\
  s_me s = zlen (retrievable b s) /\
  s_mb s = s_bs s /\
  (forall k d sz o, In (k, (d, sz, o)) (retrievable b s) -> sz = zlen d) /\
  (b = File -> quiescent s = true ->
     forall n sz, In (n, sz) (dir_listing s) <->
                  exists k d sz' o, n = nkey k /\ In (k, (d, sz', o)) (retrievable b s) /\ sz = zlen d) /\
  NoDup (map fst (dir_listing s)) /\
  0 <= s_bs s /\ 0 <= s_me s /\ 0 <= s_mb s.
Proof.
  intros I.
  assert (G : forall k e, In (k, e) (s_ents s) -> exists d, get_data b s k e = Some d /\ zlen d = e_size e).
  { intros k e H. eapply get_data_ok; [exact I|]. apply In_aget; [apply I|exact H]. }
  destruct (retr_sums b s (s_ents s) G) as [S1 S2]. fold (retrievable b s) in S1, S2.
  assert (P1 : s_bs s = sum_data (retrievable b s)) by (rewrite S1; apply I).
  assert (P2 : s_me s = zlen (retrievable b s)) by (rewrite S2; apply I).
  assert (N1 : 0 <= s_bs s).
  { rewrite (i_bs _ _ I). apply asum_nonneg. intros k e H. eapply (e_size_nonneg b s k); [exact I|]. apply In_aget; [apply I|exact H]. }
  split; [exact P1|]. split; [exact P2|]. split; [apply I|]. split; [|split; [|split]].
  - intros k d sz o H. apply in_retrievable in H. destruct H as [k0 [e [d0 [H1 [H2 H3]]]]]. inversion H3; subst.
    destruct (G _ _ H1) as [d' [A B]]. congruence.
  - intros Hb Q n sz. subst b. unfold dir_listing. rewrite in_map_iff. split.
    + intros [[n0 i] [H1 H2]]. cbn [fst snd] in H1. inversion H1; subst.
      assert (A : aget n (s_fs s) = Some i) by (apply In_aget; auto; apply I).
      destruct (i_f2 _ _ I _ _ A) as [[k [e [E1 E2]]]|[k [w [_ [W _]]]]].
      * subst n. exists k, (inode_bytes s i), (e_size e), (e_obj e). split; auto. split; auto.
        apply in_retrievable. exists k, e, (inode_bytes s i). split; [apply aget_In; auto|]. split; auto.
        unfold get_data. rewrite A. reflexivity.
      * unfold quiescent in Q. destruct (s_wr s); [discriminate|discriminate].
    + intros [k [d [sz' [o [E1 [E2 E3]]]]]]. subst. apply in_retrievable in E2.
      destruct E2 as [k0 [e [d0 [H1 [H2 H3]]]]]. inversion H3; subst.
      unfold get_data in H2. destruct (aget (nkey k0) (s_fs s)) as [i|] eqn:F; [|discriminate].
      inversion H2; subst. exists (nkey k0, i). split; auto. apply aget_In; auto.
  - unfold dir_listing. rewrite map_map. cbn [fst]. apply I.
  - split; [exact N1|]. split; [rewrite P2; apply zlen_nonneg|rewrite (i_mb _ _ I); exact N1].
Qed.

Theorem accounting_run b lim acts :
  let s := run b lim acts in
  s_bs s = sum_data (retrievable b s) /\
  s_me s = zlen (retrievable b s) /\
  s_mb s = s_bs s /\
  (forall k d sz o, In (k, (d, sz, o)) (retrievable b s) -> sz = zlen d) /\
  (b = File -> quiescent s = true ->
     forall n sz, In (n, sz) (dir_listing s) <->
                  exists k d sz' o, n = nkey k /\ In (k, (d, sz', o)) (retrievable b s) /\ sz = zlen d) /\
  NoDup (map fst (dir_listing s)) /\
  0 <= s_bs s /\ 0 <= s_me s /\ 0 <= s_mb s.
Proof. apply accounting, run_inv. Qed.
