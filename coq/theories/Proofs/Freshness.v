(* Proofs about the freshness / storability decision (Model/Freshness.v) against the
   reference predicates of Model/FreshnessSpec.v. *)
From Reservoir Require Import Base.Prelude Base.Strings Model.Freshness Model.FreshnessSpec.
From Coq Require Import ZifyBool.

(* ---------------------------------------------------------------------------- *)
(* strconv.ParseInt against the unbounded reading of [+-]?DIGIT+                  *)

Definition clamp64 (v : Z) : Z := Z.max min_int64 (Z.min max_int64 v).

Lemma max_uint64_val : max_uint64 = 18446744073709551615. Proof. reflexivity. Qed.
Lemma uint_cutoff_val : uint_cutoff = 1844674407370955162. Proof. reflexivity. Qed.
Lemma max_int64_val : max_int64 = 9223372036854775807. Proof. reflexivity. Qed.
Lemma min_int64_val : min_int64 = -9223372036854775808. Proof. reflexivity. Qed.
Lemma max_age_cap_val : max_age_cap = 9223372036. Proof. reflexivity. Qed.
Lemma representable_secs_val : representable_secs = 9223372036. Proof. reflexivity. Qed.
Lemma second_val : second = 1000000000. Proof. reflexivity. Qed.
Lemma zero_time_val : zero_time = -62135596800000000000. Proof. reflexivity. Qed.

Lemma dec_acc_ge s acc : all_digits s = true -> 0 <= acc -> acc <= dec_acc acc s.
Proof.
  revert acc. induction s as [|c r IH]; simpl; intros acc H Ha; [lia|].
  apply andb_true_iff in H as [Hc Hr]. unfold is_digit in Hc.
  specialize (IH (acc * 10 + (c - 48)) Hr ltac:(lia)). lia.
Qed.

Lemma pu_loop_spec s n :
  all_digits s = true -> 0 <= n <= max_uint64 ->
  pu_loop s n = if dec_acc n s <=? max_uint64 then PUVal (dec_acc n s) else PURange.
Proof.
  revert n. induction s as [|c r IH]; intros n H Hn.
  - simpl. destruct (n <=? max_uint64) eqn:E; [reflexivity|lia].
  - simpl in H. apply andb_true_iff in H as [Hc Hr].
    cbn [pu_loop dec_acc]. rewrite Hc.
    assert (Hd : 0 <= c - 48 <= 9) by (unfold is_digit in Hc; lia).
    pose proof (dec_acc_ge r (n * 10 + (c - 48)) Hr ltac:(lia)) as Hge.
    destruct (uint_cutoff <=? n) eqn:Ecut.
    + assert (max_uint64 < n * 10) by (rewrite uint_cutoff_val, max_uint64_val in *; lia).
      destruct (dec_acc (n * 10 + (c - 48)) r <=? max_uint64) eqn:E; [lia|reflexivity].
    + destruct (max_uint64 <? n * 10 + (c - 48)) eqn:E1.
      * destruct (dec_acc (n * 10 + (c - 48)) r <=? max_uint64) eqn:E; [lia|reflexivity].
      * apply IH; [assumption|lia].
Qed.

Lemma pu_loop_nondigit_head c r n : is_digit c = false -> pu_loop (c :: r) n = PUSyntax.
Proof. intros H. simpl. rewrite H. reflexivity. Qed.

(* a string with a non-digit somewhere never yields a value *)
Lemma pu_loop_not_digits s n : all_digits s = false -> pu_loop s n = PUSyntax \/ pu_loop s n = PURange.
Proof.
  revert n. induction s as [|c r IH]; intros n H; [discriminate|].
  simpl in H. cbn [pu_loop]. destruct (is_digit c) eqn:Ec; [|left; reflexivity].
  simpl in H. destruct (uint_cutoff <=? n); [right; reflexivity|].
  destruct (max_uint64 <? n * 10 + (c - 48)); [right; reflexivity|]. apply IH. exact H.
Qed.

Lemma dec_value_nonneg s : all_digits s = true -> 0 <= dec_value s.
Proof. intros H. unfold dec_value. apply dec_acc_nonneg; [lia|assumption]. Qed.

(* what parseCacheControl accepts as a max-age number is exactly [+-]?DIGIT+, with the
   value saturated to int64 *)
Lemma max_age_number_spec s : max_age_number s = option_map clamp64 (signed_decimal s).
Proof.
  unfold max_age_number, parse_int64, signed_decimal.
  destruct s as [|c r]; [reflexivity|].
  set (sgn := (c =? 43) || (c =? 45)).
  set (ds := if sgn then r else c :: r). set (neg := c =? 45).
  assert (Hrdig : all_digits ds = true -> forallb is_digit (tl (c :: r)) = true).
  { subst ds. destruct sgn; simpl; intros H; [exact H|].
    apply andb_true_iff in H. tauto. }
  destruct ds as [|d ds'] eqn:Eds.
  - simpl. reflexivity.
  - unfold parse_uint64. rewrite <- Eds in *. clear Eds.
    destruct (all_digits ds) eqn:Ed.
    + pose proof (dec_value_nonneg ds Ed) as Hnn. unfold dec_value in *.
      rewrite pu_loop_spec by (rewrite ?max_uint64_val; auto; lia).
      specialize (Hrdig eq_refl).
      unfold clamp64. rewrite max_int64_val, min_int64_val, max_uint64_val.
      destruct (dec_acc 0 ds <=? 18446744073709551615) eqn:E1.
      * destruct neg.
        -- simpl negb. cbn [andb].
           destruct (2 ^ 63 <? dec_acc 0 ds) eqn:E2.
           ++ rewrite Hrdig. simpl. f_equal. lia.
           ++ simpl. f_equal. lia.
        -- simpl negb. cbn [andb].
           destruct (2 ^ 63 <=? dec_acc 0 ds) eqn:E2.
           ++ rewrite Hrdig. simpl. f_equal. lia.
           ++ simpl. f_equal. lia.
      * destruct neg; rewrite Hrdig; simpl; f_equal; lia.
    + assert (Hnd : forallb is_digit (tl (c :: r)) = false \/ pu_loop ds 0 = PUSyntax).
      { subst ds. destruct sgn; simpl.
        - left. exact Ed.
        - simpl in Ed. destruct (is_digit c) eqn:Ec.
          + left. exact Ed.
          + right. reflexivity. }
      destruct Hnd as [Hnd|Hnd].
      * destruct (pu_loop_not_digits ds 0 Ed) as [H1|H1]; rewrite H1; [reflexivity|].
        destruct neg; rewrite Hnd; reflexivity.
      * rewrite Hnd. reflexivity.
Qed.

Lemma clamp64_lt1 v : (clamp64 v <? 1) = (v <? 1).
Proof. unfold clamp64. rewrite max_int64_val, min_int64_val. lia. Qed.

(* ---------------------------------------------------------------------------- *)
(* The directive loop as a classification of tokens                               *)

Definition ref_tok (raw : str) : str := lower_str (ascii_trim raw).

Lemma directive_ascii raw : all_ascii raw = true -> directive_of raw = ref_tok raw.
Proof.
  intros H. unfold directive_of, go_trim, go_lower, ref_tok. rewrite H.
  rewrite all_ascii_trim, H. reflexivity.
Qed.

Lemma ref_tok_ascii raw : all_ascii (ref_tok raw) = all_ascii raw.
Proof. unfold ref_tok. rewrite all_ascii_lower, all_ascii_trim. reflexivity. Qed.

Inductive kind := KMark | KBad | KLow | KAge (v : Z) | KOther.

Definition is_name (d : str) : bool :=
  str_eqb d lit_no_cache || str_eqb d lit_no_store || str_eqb d lit_private.

Definition tok_kind (d : str) : kind :=
  if is_name d then KMark
  else match cut_prefix lit_max_age_eq d with
       | None => KOther
       | Some after => match max_age_number after with
                       | None => KBad
                       | Some v => if v <? 1 then KLow else KAge v
                       end
       end.

Definition dur (v : Z) : Z := wrap64 (Z.min v max_age_cap * second).

Definition stops (k : kind) : bool := match k with KMark | KBad | KLow => true | _ => false end.

Fixpoint ages (ks : list kind) : list Z :=
  match ks with
  | [] => []
  | KAge v :: r => v :: ages r
  | _ :: r => ages r
  end.

Lemma cc_tok_kind acc d :
  cc_tok acc d =
  match tok_kind d with
  | KMark | KLow => ({| no_cache := true; max_age := max_age (fst acc) |}, snd acc)
  | KBad => ({| no_cache := true; max_age := max_age (fst acc) |}, true)
  | KAge v => ({| no_cache := no_cache (fst acc); max_age := dur v |}, snd acc)
  | KOther => acc
  end.
Proof.
  destruct acc as [c bad]. unfold cc_tok, tok_kind, is_name. cbn [fst snd].
  destruct (str_eqb d lit_no_cache || str_eqb d lit_no_store || str_eqb d lit_private); [reflexivity|].
  destruct (cut_prefix lit_max_age_eq d) as [after|]; [|reflexivity].
  destruct (max_age_number after) as [v|]; [|reflexivity].
  destruct (v <? 1); reflexivity.
Qed.

Lemma fold_no_cache ds acc :
  no_cache (fst (fold_left cc_tok ds acc)) =
  no_cache (fst acc) || existsb (fun d => stops (tok_kind d)) ds.
Proof.
  revert acc. induction ds as [|d r IH]; intros acc; simpl.
  - rewrite orb_false_r. reflexivity.
  - rewrite IH, cc_tok_kind. destruct (tok_kind d); simpl;
      rewrite ?orb_true_r, ?orb_false_r, ?orb_true_l; try reflexivity.
Qed.

Lemma fold_max_age ds acc :
  max_age (fst (fold_left cc_tok ds acc)) =
  match ages (map tok_kind ds) with
  | [] => max_age (fst acc)
  | vs => dur (last vs 0)
  end.
Proof.
  revert acc. induction ds as [|d r IH]; intros acc; simpl; [reflexivity|].
  rewrite IH, cc_tok_kind. destruct (tok_kind d); simpl; try reflexivity.
  destruct (ages (map tok_kind r)); reflexivity.
Qed.

Lemma fold_left_map {A B C} (f : A -> B -> A) (g : C -> B) l a :
  fold_left (fun acc x => f acc (g x)) l a = fold_left f (map g l) a.
Proof. revert a. induction l; simpl; auto. Qed.

Definition init_cc : cc * bool := ({| no_cache := false; max_age := 0 |}, false).

Lemma parse_cc_tokens h :
  parse_cc h = fold_left cc_tok (map directive_of (split_on 44 h)) init_cc.
Proof. unfold parse_cc, cc_step. apply fold_left_map. Qed.

Definition pieces (hv : hview) : list str := flat_map (split_on 44) (cc_lines hv).

Lemma d_cc_pieces hv :
  d_cc (parse_directives hv) =
  match cc_lines hv with
  | [] => None
  | _ => Some (fst (fold_left cc_tok (map directive_of (pieces hv)) init_cc))
  end.
Proof.
  unfold parse_directives, pieces. cbn [d_cc]. destruct (cc_lines hv) as [|l ls]; [reflexivity|].
  rewrite parse_cc_tokens, split_join by discriminate. reflexivity.
Qed.

Lemma ref_tokens_pieces hv : ref_tokens hv = map ref_tok (pieces hv).
Proof. reflexivity. Qed.

Lemma pieces_nil hv : cc_lines hv = [] -> pieces hv = [].
Proof. unfold pieces. intros ->. reflexivity. Qed.

(* ---------------------------------------------------------------------------- *)
(* the model's classification of a token, read through the reference vocabulary    *)

Lemma tok_kind_ref t :
  tok_kind t =
  if is_name t then KMark
  else match ref_max_age t with
       | MaNone => KOther
       | MaBad => KBad
       | MaVal v => if v <? 1 then KLow else KAge (clamp64 v)
       end.
Proof.
  unfold tok_kind, ref_max_age. destruct (is_name t); [reflexivity|].
  change [109; 97; 120; 45; 97; 103; 101; 61] with lit_max_age_eq.
  destruct (cut_prefix lit_max_age_eq t) as [after|]; [|reflexivity].
  rewrite max_age_number_spec. destruct (signed_decimal after) as [v|]; simpl; [|reflexivity].
  rewrite clamp64_lt1. reflexivity.
Qed.

Lemma is_name_marks t : is_name t = true -> tok_marks t = true.
Proof.
  unfold is_name, tok_marks, lit_no_cache, lit_no_store, lit_private. intros H.
  repeat (apply orb_true_iff in H; destruct H as [H|H]); rewrite H; rewrite ?orb_true_r; reflexivity.
Qed.

Lemma marks_stops t : tok_marks t = true -> stops (tok_kind t) = true.
Proof.
  intros H. rewrite tok_kind_ref. destruct (is_name t) eqn:En; [reflexivity|].
  unfold tok_marks in H. unfold is_name, lit_no_cache, lit_no_store, lit_private in En.
  destruct (ref_max_age t) as [| |v].
  - rewrite orb_false_r in H.
    assert (str_eqb t [110; 111; 45; 99; 97; 99; 104; 101] || str_eqb t [110; 111; 45; 115; 116; 111; 114; 101]
            || str_eqb t [112; 114; 105; 118; 97; 116; 101] = true).
    { repeat (apply orb_true_iff in H; destruct H as [H|H]); rewrite H; rewrite ?orb_true_r; reflexivity. }
    congruence.
  - rewrite orb_false_r in H.
    assert (str_eqb t [110; 111; 45; 99; 97; 99; 104; 101] || str_eqb t [110; 111; 45; 115; 116; 111; 114; 101]
            || str_eqb t [112; 114; 105; 118; 97; 116; 101] = true).
    { repeat (apply orb_true_iff in H; destruct H as [H|H]); rewrite H; rewrite ?orb_true_r; reflexivity. }
    congruence.
  - destruct (v <? 1) eqn:Ev; [reflexivity|].
    apply orb_true_iff in H as [H|H]; [|lia].
    assert (str_eqb t [110; 111; 45; 99; 97; 99; 104; 101] || str_eqb t [110; 111; 45; 115; 116; 111; 114; 101]
            || str_eqb t [112; 114; 105; 118; 97; 116; 101] = true).
    { repeat (apply orb_true_iff in H; destruct H as [H|H]); rewrite H; rewrite ?orb_true_r; reflexivity. }
    congruence.
Qed.

Lemma marks_ascii t : tok_marks t = true -> all_ascii t = true.
Proof.
  unfold tok_marks. intros H.
  repeat (apply orb_true_iff in H; destruct H as [H|H]);
    try (apply str_eqb_eq in H; subst; reflexivity).
  unfold ref_max_age in H.
  destruct (cut_prefix [109; 97; 120; 45; 97; 103; 101; 61] t) as [r|] eqn:Ec; [|discriminate].
  apply cut_prefix_app in Ec. subst t.
  destruct (signed_decimal r) as [v|] eqn:Es; [|discriminate].
  rewrite all_ascii_app, (signed_decimal_ascii _ _ Es). reflexivity.
Qed.

(* ---------------------------------------------------------------------------- *)
(* C04, only-if direction: whatever the bytes of the header, a response the proxy  *)
(* decides to store is a 200 answer to a GET that carries none of the marks        *)

Lemma marked_tokens_no_cache hv :
  existsb tok_marks (ref_tokens hv) = true ->
  exists c, d_cc (parse_directives hv) = Some c /\ no_cache c = true.
Proof.
  intros H. rewrite ref_tokens_pieces in H.
  apply existsb_exists in H as (t & Hin & Hm).
  apply in_map_iff in Hin as (p & <- & Hp).
  rewrite d_cc_pieces. destruct (cc_lines hv) as [|l ls] eqn:El.
  - rewrite (pieces_nil hv El) in Hp. destruct Hp.
  - eexists. split; [reflexivity|].
    rewrite fold_no_cache. apply orb_true_iff. right.
    apply existsb_exists. exists (directive_of p). split.
    + apply in_map. exact Hp.
    + pose proof (marks_ascii _ Hm) as Ha. rewrite ref_tok_ascii in Ha.
      rewrite (directive_ascii _ Ha). apply marks_stops. exact Hm.
Qed.

Theorem storable_only_if pol m status hv now :
  zero_time < now ->
  storable pol m status hv now = true -> may_store pol m status hv now = true.
Proof.
  intros Hnow H. unfold storable in H. unfold may_store.
  apply andb_true_iff in H as [H Hget]. apply andb_true_iff in H as [Hsc Hst].
  rewrite Hget, Hst. simpl. destruct (ignore_cc pol) eqn:Ei; [reflexivity|].
  simpl. apply negb_true_iff. unfold marked_uncacheable.
  apply orb_false_iff. unfold should_cache in Hsc. simpl negb in Hsc. cbn [andb] in Hsc. split.
  - destruct (existsb tok_marks (ref_tokens hv)) eqn:Em; [|reflexivity].
    destruct (marked_tokens_no_cache hv Em) as (c & Hc & Hnc).
    rewrite Hc, Hnc in Hsc. simpl in Hsc. discriminate.
  - destruct (match d_cc (parse_directives hv) with Some c => no_cache c || (max_age c <? 1) | None => false end);
      [discriminate|].
    unfold expired_mark. unfold parse_directives in Hsc. cbn [d_exp] in Hsc.
    destruct (expires hv) as [| |t]; [reflexivity| |].
    + destruct (zero_time <? now) eqn:E; [discriminate|lia].
    + destruct (t <? now); [discriminate|reflexivity].
Qed.

(* ---------------------------------------------------------------------------- *)
(* on ASCII headers the model reads exactly the reference tokens                   *)

Lemma ascii_pieces hv p : ascii_header hv = true -> In p (pieces hv) -> all_ascii p = true.
Proof.
  unfold ascii_header, pieces. intros H Hp. apply in_flat_map in Hp as (l & Hl & Hp).
  rewrite forallb_forall in H. eapply all_ascii_split; [apply H; exact Hl|exact Hp].
Qed.

Lemma ascii_directives hv :
  ascii_header hv = true -> map directive_of (pieces hv) = ref_tokens hv.
Proof.
  intros H. rewrite ref_tokens_pieces. apply map_ext_in. intros p Hp.
  apply directive_ascii. eapply ascii_pieces; eassumption.
Qed.

Lemma clean_tokens_no_stop toks :
  existsb tok_marks toks = false ->
  existsb (fun t => match ref_max_age t with MaBad => true | MaVal v => v <? 0 | MaNone => false end) toks = false ->
  existsb (fun d => stops (tok_kind d)) toks = false.
Proof.
  induction toks as [|t r IH]; simpl; intros Hm Hi; [reflexivity|].
  apply orb_false_iff in Hm as [Hm1 Hm2]. apply orb_false_iff in Hi as [Hi1 Hi2].
  rewrite (IH Hm2 Hi2), orb_false_r.
  rewrite tok_kind_ref. destruct (is_name t) eqn:En.
  - rewrite (is_name_marks _ En) in Hm1. discriminate.
  - unfold tok_marks in Hm1. destruct (ref_max_age t) as [| |v]; [reflexivity|discriminate|].
    apply orb_false_iff in Hm1 as [_ Hv0].
    destruct (v <? 1) eqn:Ev; [lia|reflexivity].
Qed.

Lemma ages_ref toks :
  ages (map tok_kind toks) = map clamp64 (positive_max_ages toks).
Proof.
  induction toks as [|t r IH]; simpl; [reflexivity|].
  rewrite tok_kind_ref. destruct (is_name t) eqn:En.
  - (* a directive name is not a max-age directive *)
    assert (ref_max_age t = MaNone) as ->.
    { unfold is_name, lit_no_cache, lit_no_store, lit_private in En.
      repeat (apply orb_true_iff in En; destruct En as [En|En]); apply str_eqb_eq in En; subst; reflexivity. }
    exact IH.
  - destruct (ref_max_age t) as [| |v]; try exact IH.
    destruct (v <? 1) eqn:Ev.
    + replace (0 <? v) with false by lia. exact IH.
    + replace (0 <? v) with true by lia. simpl. rewrite IH. reflexivity.
Qed.

Lemma dur_exact v : 1 <= v -> dur v = Z.min v max_age_cap * second /\ second <= dur v.
Proof.
  intros Hv. unfold dur. rewrite wrap64_id.
  - split; [reflexivity|]. rewrite max_age_cap_val, second_val. lia.
  - rewrite max_age_cap_val, second_val, min_int64_val, max_int64_val. lia.
Qed.

Lemma positive_ages_pos toks v : In v (positive_max_ages toks) -> 0 < v.
Proof.
  induction toks as [|t r IH]; simpl; [tauto|].
  destruct (ref_max_age t) as [| |w]; auto.
  destruct (0 <? w) eqn:E; auto. intros [<-|H]; [lia|auto].
Qed.

Lemma last_map_clamp (vs : list Z) : vs <> [] -> last (map clamp64 vs) 0 = clamp64 (last vs 0).
Proof.
  induction vs as [|x r IH]; [congruence|]. intros _.
  destruct r as [|y r']; [reflexivity|].
  change (last (map clamp64 (x :: y :: r')) 0) with (last (map clamp64 (y :: r')) 0).
  change (last (x :: y :: r') 0) with (last (y :: r') 0). apply IH. discriminate.
Qed.

(* the Cache-Control reading of an ASCII header, in reference terms *)
Lemma ascii_cc hv :
  ascii_header hv = true -> cc_lines hv <> [] ->
  exists c, d_cc (parse_directives hv) = Some c /\
    no_cache c = existsb (fun d => stops (tok_kind d)) (ref_tokens hv) /\
    max_age c = match positive_max_ages (ref_tokens hv) with
                | [] => 0
                | vs => Z.min (last vs 0) max_age_cap * second
                end.
Proof.
  intros Ha Hne. rewrite d_cc_pieces. destruct (cc_lines hv) as [|l ls] eqn:El; [congruence|].
  eexists. split; [reflexivity|]. rewrite (ascii_directives hv Ha). split.
  - rewrite fold_no_cache. reflexivity.
  - rewrite fold_max_age, ages_ref.
    destruct (positive_max_ages (ref_tokens hv)) as [|v vs] eqn:Ep; [reflexivity|].
    change (dur (last (map clamp64 (v :: vs)) 0) = Z.min (last (v :: vs) 0) max_age_cap * second).
    rewrite last_map_clamp by discriminate.
    assert (Hpos : 0 < last (v :: vs) 0).
    { apply (positive_ages_pos (ref_tokens hv)). rewrite Ep. apply last_in. discriminate. }
    destruct (dur_exact (clamp64 (last (v :: vs) 0))) as [-> _].
    + unfold clamp64. rewrite max_int64_val, min_int64_val. lia.
    + f_equal. unfold clamp64. rewrite max_int64_val, min_int64_val, max_age_cap_val. lia.
Qed.

(* ---------------------------------------------------------------------------- *)
(* C04, converse                                                                   *)

Theorem storable_converse pol m status hv now :
  must_store pol m status hv now = true -> storable pol m status hv now = true.
Proof.
  unfold must_store, storable. intros H.
  apply andb_true_iff in H as [H Hpol]. apply andb_true_iff in H as [H Hrange].
  apply andb_true_iff in H as [Hget Hst]. rewrite Hget, Hst, !andb_true_r.
  apply negb_true_iff in Hrange. unfold should_cache. rewrite Hrange.
  destruct (ignore_cc pol); [reflexivity|]. simpl in Hpol. simpl negb. cbn [andb].
  apply andb_true_iff in Hpol as [Hpol Hcase]. apply andb_true_iff in Hpol as [Hpol Hirr].
  apply andb_true_iff in Hpol as [Hascii Hmark].
  apply negb_true_iff in Hmark, Hirr. unfold marked_uncacheable in Hmark.
  apply orb_false_iff in Hmark as [Hmt Hexp]. unfold cc_irregular in Hirr.
  assert (Hcc : match d_cc (parse_directives hv) with Some c => no_cache c || (max_age c <? 1) | None => false end = false).
  { destruct (cc_lines hv) as [|l ls] eqn:El.
    - rewrite d_cc_pieces, El. reflexivity.
    - destruct (ascii_cc hv Hascii) as (c & -> & Hnc & Hma); [rewrite El; discriminate|].
      rewrite Hnc, (clean_tokens_no_stop _ Hmt Hirr). simpl.
      rewrite orb_false_r in Hcase.
      destruct (positive_max_ages (ref_tokens hv)) as [|v vs] eqn:Ep; [discriminate|].
      assert (Hpos : 0 < last (v :: vs) 0).
      { apply (positive_ages_pos (ref_tokens hv)). rewrite Ep. apply last_in. discriminate. }
      rewrite Hma, max_age_cap_val, second_val. lia. }
  rewrite Hcc. unfold expired_mark in Hexp. unfold parse_directives. cbn [d_exp].
  destruct (expires hv) as [| |t]; [reflexivity|discriminate|]. rewrite Hexp. reflexivity.
Qed.

(* ---------------------------------------------------------------------------- *)
(* C03, lifetime                                                                   *)

Theorem lifetime_forced pol hv now :
  force_default pol = true -> store_expiry pol hv now = now + default_age pol.
Proof. intros H. unfold store_expiry, expires_or_default. rewrite H. reflexivity. Qed.

Lemma fallback_else pol hv now :
  zero_time < now ->
  match d_exp (parse_directives hv) with Some t => t | None => now + default_age pol end - now
  <= lifetime_else pol hv now.
Proof.
  intros Hn. unfold parse_directives, lifetime_else. cbn [d_exp].
  destruct (expires hv); lia.
Qed.

(* the lifetime the model gives to a stored response, in reference terms *)
Lemma store_expiry_ascii pol hv now :
  force_default pol = false -> ascii_header hv = true ->
  store_expiry pol hv now =
  match positive_max_ages (ref_tokens hv) with
  | [] => match d_exp (parse_directives hv) with Some t => t | None => now + default_age pol end
  | vs => now + Z.min (last vs 0) max_age_cap * second
  end.
Proof.
  intros Hf Ha. unfold store_expiry, expires_or_default. rewrite Hf.
  destruct (cc_lines hv) as [|l ls] eqn:El.
  - rewrite d_cc_pieces, El. unfold ref_tokens. rewrite El. reflexivity.
  - destruct (ascii_cc hv Ha) as (c & -> & _ & Hma); [rewrite El; discriminate|].
    rewrite Hma. destruct (positive_max_ages (ref_tokens hv)) as [|v vs] eqn:Ep; [reflexivity|].
    assert (Hpos : 0 < last (v :: vs) 0).
    { apply (positive_ages_pos (ref_tokens hv)). rewrite Ep. apply last_in. discriminate. }
    replace (0 <? Z.min (last (v :: vs) 0) max_age_cap * second) with true; [reflexivity|].
    rewrite max_age_cap_val, second_val. lia.
Qed.

Theorem lifetime_upper_bound pol hv now :
  zero_time < now -> force_default pol = true \/ ascii_header hv = true ->
  store_expiry pol hv now - now <= lifetime_upper pol hv now.
Proof.
  intros Hn Hor. unfold lifetime_upper. destruct (force_default pol) eqn:Hf.
  - rewrite lifetime_forced by assumption. lia.
  - destruct Hor as [Hor|Ha]; [discriminate|].
    rewrite store_expiry_ascii by assumption.
    destruct (positive_max_ages (ref_tokens hv)) as [|v vs] eqn:Ep.
    + apply fallback_else. exact Hn.
    + assert (Hmax : last (v :: vs) 0 <= list_max (v :: vs) 0) by (apply list_max_ge, last_in; discriminate).
      rewrite second_val. lia.
Qed.

Theorem lifetime_lower_bound pol hv now :
  force_default pol = true \/ ascii_header hv = true ->
  0 < lifetime_lower pol hv now ->
  lifetime_lower pol hv now <= store_expiry pol hv now - now.
Proof.
  intros Hor. unfold lifetime_lower. destruct (force_default pol) eqn:Hf.
  - rewrite lifetime_forced by assumption. lia.
  - destruct Hor as [Hor|Ha]; [discriminate|].
    rewrite store_expiry_ascii by assumption.
    destruct (positive_max_ages (ref_tokens hv)) as [|v vs] eqn:Ep.
    + unfold lifetime_else, parse_directives. cbn [d_exp]. destruct (expires hv); lia.
    + intros _.
      assert (Hmin : list_min vs v <= last (v :: vs) 0).
      { destruct vs as [|w vs']; [simpl; lia|].
        change (last (v :: w :: vs') 0) with (last (w :: vs') 0).
        apply list_min_le. apply last_in. discriminate. }
      rewrite representable_secs_val, max_age_cap_val, second_val. lia.
Qed.

(* one well-formed max-age directive of a representable size: the lifetime is exactly that *)
Theorem lifetime_single_max_age pol hv now v :
  force_default pol = false -> ascii_header hv = true ->
  positive_max_ages (ref_tokens hv) = [v] -> v <= representable_secs ->
  store_expiry pol hv now = now + v * second.
Proof.
  intros Hf Ha Hp Hv. rewrite store_expiry_ascii, Hp by assumption. simpl.
  rewrite representable_secs_val in Hv. rewrite max_age_cap_val. f_equal. f_equal. lia.
Qed.

(* ---------------------------------------------------------------------------- *)
(* C03, labels: Age and ttl                                                        *)

Lemma trunc_secs_nonneg d : 0 <= d -> 0 <= trunc_secs d.
Proof. intros H. unfold trunc_secs. apply Z.quot_pos; [exact H|rewrite second_val; lia]. Qed.

Theorem ttl_value hs us cached exp now t :
  cs_ttl (make_cache_status hs us cached exp now) = Some t ->
  t = Z.max 0 (trunc_secs (exp - now)) /\ 0 <= t /\ hs <> HsMiss.
Proof.
  unfold make_cache_status. simpl.
  destruct cached; simpl; [|discriminate]. destruct hs; simpl; try discriminate;
    intros H; inversion H; subst; (split; [reflexivity|split; [lia|discriminate]]).
Qed.

(* Age = initial age (the origin's own Age, if any) + whole seconds since the entry was stored *)
Theorem age_value up_age stored_at now :
  stored_at <= now ->
  let init := match up_age with Some a => Z.max 0 a | None => 0 end in
  init + trunc_secs (now - stored_at) <= max_int64 ->
  current_age (Some stored_at) up_age stored_at now = init + trunc_secs (now - stored_at).
Proof.
  intros Hle init Hfit. unfold current_age.
  replace (stored_at - stored_at) with 0 by lia.
  assert (H0 : trunc_secs 0 = 0) by reflexivity. rewrite H0.
  pose proof (trunc_secs_nonneg (now - stored_at) ltac:(lia)) as Hnn.
  replace (match up_age with Some a => Z.max (Z.max 0 0) a | None => Z.max 0 0 end) with init
    by (subst init; destruct up_age; lia).
  assert (0 <= init) by (subst init; destruct up_age; lia).
  rewrite wrap64_id by (rewrite min_int64_val; lia). lia.
Qed.
