From Reservoir Require Import Base.Prelude Model.ByteSize Model.ConfigProp Proofs.ConfigProp Model.Flags.
From Coq Require Import String.

Lemma crun_app {T} (p : cprop T) (a b : list (cop T)) : crun p (a ++ b) = crun (crun p a) b.
Proof. unfold crun. apply fold_left_app. Qed.

Lemma proj_cons path op r : proj path (op :: r) = proj path [op] ++ proj path r.
Proof.
  destruct op as [name raw|p v]; cbn [proj].
  - destruct (flag_target name raw) as [[p v]| |]; try reflexivity.
    destruct (String.eqb path p); reflexivity.
  - destruct (String.eqb path p); reflexivity.
Qed.

Lemma proj_app path a : forall b, proj path (a ++ b) = proj path a ++ proj path b.
Proof.
  induction a as [|op a IH]; intros b; [reflexivity|].
  rewrite <- app_comm_cons, proj_cons, IH, (proj_cons path op a), app_assoc. reflexivity.
Qed.

Lemma wstep_entries c op c' :
  wstep c op = Ok c' -> c' = map (fun kp => (fst kp, crun (snd kp) (proj (fst kp) [op]))) c.
Proof.
  destruct op as [name raw|path v]; cbn [wstep proj]; unfold flag_target.
  - destruct (lookup name flag_table) as [[path cv]|]; [|discriminate].
    destruct (conv cv raw) as [v| |]; cbn [res_bind]; try discriminate.
    intros H. injection H as <-. unfold on_path. apply map_ext. intros [k p]. cbn [fst snd].
    destruct (String.eqb k path); reflexivity.
  - intros H. injection H as <-. unfold on_path. apply map_ext. intros [k p]. cbn [fst snd].
    destruct (String.eqb k path); reflexivity.
Qed.

Lemma wrun_entries ops : forall c c',
  wrun c ops = Ok c' -> c' = map (fun kp => (fst kp, crun (snd kp) (proj (fst kp) ops))) c.
Proof.
  induction ops as [|op ops IH]; intros c c' H.
  - cbn in H. injection H as <-. rewrite <- (map_id c) at 1. apply map_ext. intros [k p]. reflexivity.
  - cbn [wrun] in H. destruct (wstep c op) as [c1| |] eqn:E; cbn [res_bind] in H; try discriminate.
    apply IH in H. apply wstep_entries in E. subst c1. rewrite map_map in H. subst c'.
    apply map_ext. intros [k p]. cbn [fst snd]. rewrite (proj_cons k op ops), crun_app. reflexivity.
Qed.

(* The whole configuration through any history of flags and accepted API updates: every setting is read and
   saved as its own projected history says (last flag that addresses it, else last update, else initial value;
   saved: last update, else initial value). *)
Theorem whole_config_history vals ops c' :
  wrun (fresh vals) ops = Ok c' ->
  eff_of c' = map (fun kv => (fst kv, ref_read (proj (fst kv) ops) (snd kv))) vals /\
  saved_of c' = map (fun kv => (fst kv, ref_base (proj (fst kv) ops) (snd kv))) vals.
Proof.
  intros H. apply wrun_entries in H. subst c'. unfold eff_of, saved_of, fresh. rewrite !map_map. cbn [fst snd].
  split; apply map_ext; intros [k v]; cbn [fst snd]; f_equal;
    destruct (override_wins_not_saved_lemma v (proj k ops)) as (H1 & H2 & _); assumption.
Qed.

Lemma ref_base_updates_only path ops : forall b : fval,
  ref_base (proj path ops) b = ref_base (proj path (updates_only ops)) b.
Proof.
  induction ops as [|op ops IH]; intros b; [reflexivity|].
  destruct op as [name raw|p v]; cbn [updates_only filter proj]; fold (updates_only ops).
  - destruct (flag_target name raw) as [[p v]| |]; try apply IH.
    destruct (String.eqb path p); [|apply IH]. unfold ref_base. cbn [fold_left]. apply IH.
  - destruct (String.eqb path p); [|apply IH]. unfold ref_base. cbn [fold_left]. apply IH.
Qed.

Lemma wrun_updates_ok ops : forall c, exists c', wrun c (updates_only ops) = Ok c'.
Proof.
  induction ops as [|op ops IH]; intros c; [eexists; reflexivity|].
  destruct op as [name raw|p v]; cbn [updates_only filter]; fold (updates_only ops); [apply IH|].
  cbn [wrun wstep res_bind]. apply IH.
Qed.

(* Flags are never saved: the saved configuration is the one the same API updates alone would have produced. *)
Theorem saved_independent_of_flags vals ops c1 :
  wrun (fresh vals) ops = Ok c1 ->
  exists c2, wrun (fresh vals) (updates_only ops) = Ok c2 /\ saved_of c1 = saved_of c2.
Proof.
  intros H1. destruct (wrun_updates_ok ops (fresh vals)) as [c2 H2]. exists c2. split; [exact H2|].
  destruct (whole_config_history _ _ _ H1) as [_ S1]. destruct (whole_config_history _ _ _ H2) as [_ S2].
  rewrite S1, S2. apply map_ext. intros [k v]. cbn [fst snd]. rewrite ref_base_updates_only. reflexivity.
Qed.

Lemma in_proj_override path v ops :
  In (COverride v) (proj path ops) ->
  exists name raw p, In (WFlag name raw) ops /\ flag_target name raw = Ok (p, v) /\ String.eqb path p = true.
Proof.
  induction ops as [|op ops IH]; [intros []|].
  destruct op as [name raw|p w]; cbn [proj].
  - destruct (flag_target name raw) as [[p w]| |] eqn:E.
    + destruct (String.eqb path p) eqn:Ep.
      * intros [H|H].
        -- injection H as ->. exists name, raw, p. split; [left; reflexivity|]. split; assumption.
        -- destruct (IH H) as (n & r & q & Hin & Ht & Hq). exists n, r, q. split; [right; assumption|]. split; assumption.
      * intros H. destruct (IH H) as (n & r & q & Hin & Ht & Hq). exists n, r, q. split; [right; assumption|]. split; assumption.
    + intros H. destruct (IH H) as (n & r & q & Hin & Ht & Hq). exists n, r, q. split; [right; assumption|]. split; assumption.
    + intros H. destruct (IH H) as (n & r & q & Hin & Ht & Hq). exists n, r, q. split; [right; assumption|]. split; assumption.
  - destruct (String.eqb path p).
    + intros [H|H]; [discriminate|]. destruct (IH H) as (n & r & q & Hin & Ht & Hq). exists n, r, q. split; [right; assumption|]. split; assumption.
    + intros H. destruct (IH H) as (n & r & q & Hin & Ht & Hq). exists n, r, q. split; [right; assumption|]. split; assumption.
Qed.

(* A flag wins, also after later API updates: once a flag has addressed a setting, and whatever the API updates
   (of this or any other setting) and flags for other settings that come before or after it, the running process
   reads the flag's value there. *)
Theorem flag_wins vals ops1 name raw ops2 path v c' :
  wrun (fresh vals) (ops1 ++ WFlag name raw :: ops2) = Ok c' ->
  flag_target name raw = Ok (path, v) ->
  (forall n r w, In (WFlag n r) ops2 -> flag_target n r <> Ok (path, w)) ->
  forall kv, In kv (eff_of c') -> fst kv = path -> snd kv = v.
Proof.
  intros H Ht Hno kv Hin Hk.
  destruct (whole_config_history _ _ _ H) as [E _]. rewrite E in Hin.
  apply in_map_iff in Hin. destruct Hin as ([k v0] & <- & _). cbn [fst snd] in *. subst k.
  rewrite proj_app, (proj_cons path (WFlag name raw) ops2). cbn [proj]. rewrite Ht, String.eqb_refl.
  cbn [app]. rewrite <- (live_read_lemma v0). apply override_survives_updates.
  intros w Hw. destruct (in_proj_override _ _ _ Hw) as (n & r & q & Hi & Hq & He).
  apply String.eqb_eq in He. subst q. exact (Hno n r w Hi Hq).
Qed.

(* A flag touches the setting it addresses and no other. *)
Theorem flag_only_target c name raw path v c' :
  wstep c (WFlag name raw) = Ok c' -> flag_target name raw = Ok (path, v) ->
  eff_of c' = map (fun kv => if String.eqb (fst kv) path then (fst kv, v) else kv) (eff_of c) /\
  saved_of c' = saved_of c.
Proof.
  cbn [wstep]. unfold flag_target. destruct (lookup name flag_table) as [[p cv]|]; [|discriminate].
  destruct (conv cv raw) as [w| |]; cbn [res_bind]; try discriminate.
  intros H Ht. injection H as <-. injection Ht as -> ->.
  unfold eff_of, saved_of, on_path. rewrite !map_map. split; apply map_ext; intros [k q]; cbn [fst snd];
    destruct (String.eqb k path); cbn [fst snd]; try reflexivity.
  destruct q as [[b o] [s|]]; reflexivity.
Qed.

(* the documented table: no flag twice, no setting addressed by two flags *)
Lemma flag_names_distinct : NoDup (map fst flag_table).
Proof. cbn. repeat (constructor; [cbn; intuition discriminate|]). constructor. Qed.
Lemma flag_targets_distinct : NoDup (map (fun e => fst (snd e)) flag_table).
Proof. cbn. repeat (constructor; [cbn; intuition discriminate|]). constructor. Qed.
