From Reservoir Require Import Base.Prelude Model.Counters.

Lemma zsum_remove_nth l : forall i d, nth_error l i = Some d -> zsum (remove_nth i l) + d = zsum l.
Proof.
  induction l as [|x r IH]; intros [|i] d H; simpl in *; try discriminate.
  - inversion H; subst. lia.
  - specialize (IH i d H). unfold zsum in *. simpl. lia.
Qed.

(* Without the janitor's overwrite: metric + outstanding second halves = byte counter, always. *)
Lemma cstep_inv s a s' :
  cstep false s a = Some s' -> c_metric s + zsum (c_pending s) = c_bytes s ->
  c_metric s' + zsum (c_pending s') = c_bytes s'.
Proof.
  destruct a as [d|i|]; simpl; intros H Inv.
  - inversion H; subst; simpl. unfold zsum in *. simpl. lia.
  - destruct (nth_error (c_pending s) i) as [d|] eqn:E; [|discriminate].
    inversion H; subst; simpl. pose proof (zsum_remove_nth _ _ _ E). lia.
  - discriminate.
Qed.

Lemma crun_inv l : forall s s',
  crun false s l = Some s' -> c_metric s + zsum (c_pending s) = c_bytes s ->
  c_metric s' + zsum (c_pending s') = c_bytes s'.
Proof.
  induction l as [|a r IH]; simpl; intros s s' H Inv.
  - inversion H; subst; exact Inv.
  - destruct (cstep false s a) as [s1|] eqn:E; [|discriminate].
    eapply IH; [exact H|]. eapply cstep_inv; eauto.
Qed.

Theorem metric_quiescent l s' :
  crun false c_init l = Some s' -> quiescent_c s' = true -> c_metric s' = c_bytes s'.
Proof.
  intros H Q. pose proof (crun_inv l c_init s' H eq_refl) as Inv.
  unfold quiescent_c in Q. destruct (c_pending s'); [|discriminate]. unfold zsum in Inv. simpl in Inv. lia.
Qed.

(* With the overwrite the claim fails: a cycle between the two halves of one store. *)
Theorem metric_quiescent_refuted_with_set :
  exists l s', crun true c_init l = Some s' /\ quiescent_c s' = true /\ c_metric s' <> c_bytes s'.
Proof.
  exists [CFirst 500; CJanitorSet; CSecond 0%nat]. eexists. split; [reflexivity|]. split; [reflexivity|]. simpl. lia.
Qed.
