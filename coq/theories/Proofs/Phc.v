(* Proofs about Model/Phc.v: the only operation of ParsePHC that can panic is the
   base64 decode into a caller-supplied buffer; a buffer of DecodedLen(len src)
   bytes always suffices, a fixed 16-byte array does not. *)
From Reservoir Require Import Base.Prelude Model.Phc.
From Coq Require Import ZifyBool.
Ltac Zify.zify_post_hook ::= Z.div_mod_to_equations.

Lemma zlen_cons {A} (x : A) l : zlen (x :: l) = zlen l + 1.
Proof. unfold zlen. cbn [length]. lia. Qed.

Lemma zlen_nil {A} : zlen (@nil A) = 0.
Proof. reflexivity. Qed.

Lemma zlen_nonneg {A} (l : list A) : 0 <= zlen l.
Proof. unfold zlen. lia. Qed.

Lemma zlen_app {A} (a b : list A) : zlen (a ++ b) = zlen a + zlen b.
Proof. unfold zlen. rewrite app_length. lia. Qed.

(* The decoder never writes more than 6 bits per consumed character:
   with 8*|out| + 6*|pend| + 6*|src| <= 8*cap + 7 it cannot run out of buffer. *)
Lemma b64_go_no_panic : forall src cap pend out,
  8 * zlen out + 6 * zlen pend + 6 * zlen src <= 8 * cap + 7 ->
  b64_go cap src pend out <> Panic.
Proof.
  induction src as [|ch r IH]; intros cap pend out Hinv.
  - cbn [b64_go].
    destruct pend as [|a [|b [|c [|d pend]]]]; try discriminate.
    + rewrite !zlen_cons, zlen_nil in Hinv.
      destruct (zlen out + 1 <=? cap) eqn:E; [discriminate|]. lia.
    + rewrite !zlen_cons, zlen_nil in Hinv.
      destruct (zlen out + 2 <=? cap) eqn:E; [discriminate|]. lia.
  - cbn [b64_go]. rewrite zlen_cons in Hinv.
    destruct (b64val ch) as [v|].
    + destruct pend as [|a [|b [|c [|d pend]]]].
      * apply IH. cbn [app]. rewrite !zlen_cons, zlen_nil in *. lia.
      * apply IH. cbn [app]. rewrite !zlen_cons, zlen_nil in *. lia.
      * apply IH. cbn [app]. rewrite !zlen_cons, zlen_nil in *. lia.
      * rewrite !zlen_cons, zlen_nil in Hinv.
        pose proof (zlen_nonneg r).
        destruct (zlen out + 3 <=? cap) eqn:E; [|lia].
        apply IH. rewrite !zlen_cons. change (zlen (@nil Z)) with 0. lia.
      * apply IH. rewrite zlen_app. rewrite !zlen_cons in *.
        pose proof (zlen_nonneg pend). rewrite zlen_nil. lia.
    + destruct ((ch =? 10) || (ch =? 13)); [|discriminate].
      apply IH. lia.
Qed.

Lemma b64_decode_string_no_panic : forall s, b64_decode_string s <> Panic.
Proof.
  intros s. unfold b64_decode_string, b64_decode_into, b64_decoded_len.
  apply b64_go_no_panic. change (zlen (@nil Z)) with 0. pose proof (zlen_nonneg s). lia.
Qed.

(* more generally: any buffer at least DecodedLen long is enough *)
Lemma b64_decode_into_enough : forall cap s,
  b64_decoded_len (zlen s) <= cap -> b64_decode_into cap s <> Panic.
Proof.
  intros cap s H. unfold b64_decode_into, b64_decoded_len in *.
  apply b64_go_no_panic. change (zlen (@nil Z)) with 0. pose proof (zlen_nonneg s). lia.
Qed.

(* ParsePHC panics only if its salt decoder does *)
Lemma phc_parse_with_no_panic : forall dec,
  (forall s, dec s <> Panic) -> forall s, phc_parse_with dec s <> Panic.
Proof.
  intros dec Hdec s. unfold phc_parse_with.
  destruct (nilb (trim_space s)); [discriminate|].
  match goal with |- context [split_on 36 ?x] => destruct (split_on 36 x) as [|id [|ver [|par [|salt [|hash [|x6 rest]]]]]] end;
    try discriminate.
  destruct (negb (str_eqb id s_argon2id)); [discriminate|].
  destruct (negb (has_prefix [118; 61] ver)); [discriminate|].
  destruct (atoi (skipn 2 ver)); [|discriminate].
  destruct (nilb par); [discriminate|].
  destruct (parse_params _ _) as [pr|]; [|discriminate].
  destruct ((pm pr =? 0) || (pt pr =? 0) || (pp pr =? 0)); [discriminate|].
  destruct (dec salt) as [sb| |] eqn:Es; [|discriminate|exfalso; exact (Hdec _ Es)].
  destruct (negb (zlen sb =? 16)); [discriminate|].
  destruct (b64_decode_string hash) as [hb| |] eqn:Eh;
    [|discriminate|exfalso; exact (b64_decode_string_no_panic _ Eh)].
  destruct (nilb hb); [discriminate|].
  destruct (negb (pl pr =? 0) && negb (pl pr =? zlen hb)); discriminate.
Qed.

(* No stored password-hash string makes the parser panic. *)
Theorem phc_parse_total : forall s, phc_parse s <> Panic.
Proof.
  unfold phc_parse. apply phc_parse_with_no_panic. exact b64_decode_string_no_panic.
Qed.

(* The shape the code had before the repair (decode into a [16]byte array) does panic:
   "$argon2id$v=19$m=8,t=1,p=1$" ++ 24 x 'A' ++ "$AAAA" (a salt of 18 bytes). *)
Definition long_salt_witness : str :=
  [36;97;114;103;111;110;50;105;100;36;118;61;49;57;36;109;61;56;44;116;61;49;44;112;61;49;36;
   65;65;65;65;65;65;65;65;65;65;65;65;65;65;65;65;65;65;65;65;65;65;65;65;36;65;65;65;65].

Lemma phc_parse_fixed16_refuted : exists s, phc_parse_fixed16 s = Panic.
Proof. exists long_salt_witness. vm_compute. reflexivity. Qed.

(* ... and exactly because of the buffer: with the fixed array the salt decoder is the only difference *)
Lemma phc_parse_fixed16_agrees : forall s,
  phc_parse_fixed16 s <> Panic -> phc_parse_fixed16 s = phc_parse s.
Proof.
  intros s. unfold phc_parse_fixed16, phc_parse, phc_parse_with.
  destruct (nilb (trim_space s)); [reflexivity|].
  match goal with |- context [split_on 36 ?x] => destruct (split_on 36 x) as [|id [|ver [|par [|salt [|hash [|x6 rest]]]]]] end;
    try reflexivity.
  destruct (negb (str_eqb id s_argon2id)); [reflexivity|].
  destruct (negb (has_prefix [118; 61] ver)); [reflexivity|].
  destruct (atoi (skipn 2 ver)); [|reflexivity].
  destruct (nilb par); [reflexivity|].
  destruct (parse_params _ _) as [pr|]; [|reflexivity].
  destruct ((pm pr =? 0) || (pt pr =? 0) || (pp pr =? 0)); [reflexivity|].
  (* both decoders run the same automaton; they differ only in the capacity test *)
  assert (Hgen : forall src cap1 cap2 pend out,
             b64_go cap1 src pend out <> Panic -> b64_go cap2 src pend out <> Panic ->
             b64_go cap1 src pend out = b64_go cap2 src pend out).
  { induction src as [|ch r IH]; intros cap1 cap2 pend out H1 H2.
    - cbn [b64_go] in *.
      destruct pend as [|a [|b [|c [|d pend]]]]; try reflexivity.
      + destruct (zlen out + 1 <=? cap1), (zlen out + 1 <=? cap2); congruence.
      + destruct (zlen out + 2 <=? cap1), (zlen out + 2 <=? cap2); congruence.
    - cbn [b64_go] in *.
      destruct (b64val ch) as [v|].
      + destruct pend as [|a [|b [|c [|d pend]]]]; try (apply IH; assumption).
        destruct (zlen out + 3 <=? cap1), (zlen out + 3 <=? cap2); try congruence.
        apply IH; assumption.
      + destruct ((ch =? 10) || (ch =? 13)); [apply IH; assumption|reflexivity]. }
  intros Hnp.
  destruct (b64_decode_into 16 salt) as [sb| |] eqn:E1.
  - pose proof (b64_decode_string_no_panic salt) as Hs.
    unfold b64_decode_string in *. unfold b64_decode_into in *.
    rewrite <- (Hgen salt 16 _ [] []) by (rewrite ?E1; congruence). rewrite E1. reflexivity.
  - pose proof (b64_decode_string_no_panic salt) as Hs.
    unfold b64_decode_string in *. unfold b64_decode_into in *.
    rewrite <- (Hgen salt 16 _ [] []) by (rewrite ?E1; congruence). rewrite E1. reflexivity.
  - congruence.
Qed.
