(* C02 — proofs about the cache key (Model/Key.v). *)
From Reservoir Require Import Base.Prelude Model.Key.
From Coq Require Import DecimalN.

(* ------------------------------------------------------------------ *)
(* 1. Cutting at the first separator is unique (prefix-code argument)  *)

Lemma split_at_first (sep : Z) (d1 d2 r1 r2 : str) :
  ~ In sep d1 -> ~ In sep d2 ->
  d1 ++ sep :: r1 = d2 ++ sep :: r2 -> d1 = d2 /\ r1 = r2.
Proof.
  revert d2. induction d1 as [|x d1 IH]; intros [|y d2] N1 N2 H; simpl in *.
  - inversion H. auto.
  - inversion H; subst. exfalso. apply N2. left. reflexivity.
  - inversion H; subst. exfalso. apply N1. left. reflexivity.
  - inversion H; subst.
    destruct (IH d2) as [E1 E2]; auto.
    subst. auto.
Qed.

Lemma app_same_length {A} (a b x y : list A) :
  length a = length b -> a ++ x = b ++ y -> a = b /\ x = y.
Proof.
  revert b. induction a as [|c a IH]; intros [|d b] L H; simpl in *; try discriminate.
  - auto.
  - inversion H; subst. destruct (IH b) as [E1 E2]; auto. subst. auto.
Qed.

(* ------------------------------------------------------------------ *)
(* 2. Decimal lengths                                                   *)

Lemma uint_digits_range d : Forall (fun c => 48 <= c <= 57) (uint_digits d).
Proof. induction d; simpl; constructor; auto; lia. Qed.

Lemma uint_digits_inj d1 d2 : uint_digits d1 = uint_digits d2 -> d1 = d2.
Proof.
  revert d2. induction d1; intros d2 H; destruct d2; simpl in H;
    try discriminate; try reflexivity; injection H as H; f_equal; auto.
Qed.

Lemma dec_inj n m : dec n = dec m -> n = m.
Proof.
  unfold dec. intros H. apply uint_digits_inj in H.
  rewrite <- (Unsigned.of_to n), <- (Unsigned.of_to m). rewrite H. reflexivity.
Qed.

Lemma dec_no_colon n : ~ In COLON (dec n).
Proof.
  unfold dec, COLON. intros H.
  pose proof (uint_digits_range (N.to_uint n)) as R.
  rewrite Forall_forall in R. apply R in H. lia.
Qed.

(* [field] is a prefix code: what follows a field cannot be confused with the field. *)
Lemma field_inj (a b x y : str) : field a ++ x = field b ++ y -> a = b /\ x = y.
Proof.
  unfold field. rewrite <- !app_assoc. simpl. intros H.
  apply split_at_first in H; try apply dec_no_colon.
  destruct H as [Hd H]. apply dec_inj in Hd. apply Nnat.Nat2N.inj in Hd.
  apply app_same_length; assumption.
Qed.

Lemma field_inj_nil (a b : str) : field a = field b -> a = b.
Proof.
  intros H. destruct (field_inj a b [] []) as [E _]; [rewrite !app_nil_r; exact H | exact E].
Qed.

(* The encoding of the 5-tuple is injective, for arbitrary byte strings in every component. *)
Lemma encode_inj t1 m1 h1 p1 q1 t2 m2 h2 p2 q2 :
  encode t1 m1 h1 p1 q1 = encode t2 m2 h2 p2 q2 ->
  t1 = t2 /\ m1 = m2 /\ h1 = h2 /\ p1 = p2 /\ q1 = q2.
Proof.
  unfold encode. intros H.
  assert (Ht : t1 = t2 /\
          field m1 ++ PIPE :: field h1 ++ PIPE :: field p1 ++ PIPE :: field q1 =
          field m2 ++ PIPE :: field h2 ++ PIPE :: field p2 ++ PIPE :: field q2).
  { destruct t1, t2; simpl in H; unfold PIPE in *.
    - injection H as H. auto.
    - discriminate.
    - discriminate.
    - injection H as H. auto. }
  destruct Ht as [Ht H1]. clear H.
  apply field_inj in H1. destruct H1 as [Hm H1]. injection H1 as H1.
  apply field_inj in H1. destruct H1 as [Hh H1]. injection H1 as H1.
  apply field_inj in H1. destruct H1 as [Hp H1]. injection H1 as H1.
  apply field_inj_nil in H1. auto.
Qed.

(* ------------------------------------------------------------------ *)
(* 3. split / join                                                      *)

Definition noslash (s : str) : Prop := ~ In SLASH s.

Lemma split_slash_nonnil s : split_slash s <> [].
Proof.
  destruct s as [|c r]; simpl; [discriminate|].
  destruct (c =? SLASH); [discriminate|].
  destruct (split_slash r); discriminate.
Qed.

Lemma split_slash_cons_noslash c r :
  c <> SLASH ->
  split_slash (c :: r) = (c :: hd [] (split_slash r)) :: tl (split_slash r).
Proof.
  intros Hc. simpl. apply Z.eqb_neq in Hc. rewrite Hc.
  pose proof (split_slash_nonnil r). destruct (split_slash r); [contradiction|reflexivity].
Qed.

Lemma join_split s : join_slash (split_slash s) = s.
Proof.
  induction s as [|c r IH]; [reflexivity|].
  destruct (Z.eq_dec c SLASH) as [->|Hc].
  - simpl. pose proof (split_slash_nonnil r) as Hn.
    destruct (split_slash r) as [|s0 l] eqn:E; [contradiction|].
    simpl in *. rewrite IH. reflexivity.
  - rewrite split_slash_cons_noslash by assumption.
    pose proof (split_slash_nonnil r) as Hn.
    destruct (split_slash r) as [|s0 l] eqn:E; [contradiction|].
    simpl in *. rewrite IH. reflexivity.
Qed.

Lemma split_noslash s : Forall noslash (split_slash s).
Proof.
  induction s as [|c r IH]; [constructor; [intros []|constructor]|].
  destruct (Z.eq_dec c SLASH) as [->|Hc].
  - simpl. constructor; [intros []|assumption].
  - rewrite split_slash_cons_noslash by assumption.
    pose proof (split_slash_nonnil r) as Hn.
    destruct (split_slash r) as [|s0 l]; [contradiction|].
    simpl. inversion IH; subst. constructor; [|assumption].
    intros [H|H]; [congruence|contradiction].
Qed.

Lemma split_of_noslash s : noslash s -> split_slash s = [s].
Proof.
  induction s as [|c r IH]; intros H; [reflexivity|].
  assert (c <> SLASH) by (intros ->; apply H; left; reflexivity).
  rewrite split_slash_cons_noslash by assumption.
  rewrite IH; [reflexivity|]. intros Hin. apply H. right. exact Hin.
Qed.

Lemma split_app_slash x y : noslash x -> split_slash (x ++ SLASH :: y) = x :: split_slash y.
Proof.
  induction x as [|c x IH]; intros H.
  - reflexivity.
  - assert (c <> SLASH) by (intros ->; apply H; left; reflexivity).
    change ((c :: x) ++ SLASH :: y) with (c :: (x ++ SLASH :: y)).
    rewrite split_slash_cons_noslash by assumption.
    rewrite IH; [reflexivity|]. intros Hin. apply H. right. exact Hin.
Qed.

(* every non-empty list of slash-free segments is the split of its join *)
Lemma split_join l : l <> [] -> Forall noslash l -> split_slash (join_slash l) = l.
Proof.
  induction l as [|s r IH]; intros Hn Hf; [contradiction|].
  inversion Hf as [|? ? Hs Hr]; subst.
  destruct r as [|s' r'].
  - simpl. rewrite app_nil_r. apply split_of_noslash. assumption.
  - change (join_slash (s :: s' :: r')) with (s ++ SLASH :: join_slash (s' :: r')).
    rewrite split_app_slash by assumption. rewrite IH; [reflexivity|discriminate|assumption].
Qed.

Lemma join_snoc init l :
  join_slash (init ++ [l]) = match init with [] => l | _ => join_slash init ++ SLASH :: l end.
Proof.
  destruct init as [|s r]; simpl.
  - apply app_nil_r.
  - rewrite flat_map_app. simpl. rewrite app_nil_r, app_assoc. reflexivity.
Qed.

(* ------------------------------------------------------------------ *)
(* 4. strings.HasSuffix                                                  *)

Lemma has_suffix_iff suf s : has_suffix suf s = true <-> exists x, s = x ++ suf.
Proof.
  unfold has_suffix. split.
  - intros H. apply andb_true_iff in H as [H1 H2]. apply str_eqb_eq in H2.
    exists (firstn (length s - length suf) s). rewrite <- H2 at 2. symmetry. apply firstn_skipn.
  - intros [x ->]. rewrite app_length. apply andb_true_iff. split.
    + apply Nat.leb_le. lia.
    + replace (length x + length suf - length suf)%nat with (length x) by lia.
      rewrite skipn_app, skipn_all, Nat.sub_diag. simpl. apply str_eqb_refl.
Qed.

(* A rooted path ends in "/"++w (w slash-free) exactly when its last segment is w. *)
Lemma rooted_suffix_last t w :
  noslash w ->
  has_suffix (SLASH :: w) (SLASH :: t) = str_eqb (last (split_slash t) []) w.
Proof.
  intros Hw.
  pose proof (split_slash_nonnil t) as Hn.
  pose proof (split_noslash t) as Hf.
  pose proof (join_split t) as Hj.
  destruct (exists_last Hn) as [init [l E]]. rewrite E in *. rewrite last_last.
  assert (Hl : noslash l).
  { rewrite Forall_forall in Hf. apply Hf. apply in_or_app. right. left. reflexivity. }
  assert (Hp : exists X, SLASH :: t = X ++ SLASH :: l).
  { rewrite <- Hj, join_snoc. destruct init as [|s r].
    - exists []. reflexivity.
    - exists (SLASH :: join_slash (s :: r)). reflexivity. }
  destruct Hp as [X HX].
  destruct (str_eqb l w) eqn:Elw.
  - apply str_eqb_eq in Elw. subst w. apply has_suffix_iff. exists X. exact HX.
  - destruct (has_suffix (SLASH :: w) (SLASH :: t)) eqn:Hs; [|reflexivity].
    apply has_suffix_iff in Hs. destruct Hs as [Y HY]. rewrite HX in HY.
    apply (f_equal (@rev Z)) in HY. rewrite !rev_app_distr in HY. simpl in HY.
    rewrite <- !app_assoc in HY. simpl in HY.
    apply split_at_first in HY.
    + destruct HY as [HY _]. apply (f_equal (@rev Z)) in HY. rewrite !rev_involutive in HY.
      subst. rewrite str_eqb_refl in Elw. discriminate.
    + intros Hin. apply in_rev in Hin. contradiction.
    + intros Hin. apply in_rev in Hin. contradiction.
Qed.

(* ------------------------------------------------------------------ *)
(* 5. reservoir's path normalisation is the reference on rooted paths   *)

Lemma clean_step_nil_seg b st : clean_step b st [] = st.
Proof. destruct st. reflexivity. Qed.

Lemma fold_clean_rooted segs out :
  fold_left (clean_step true) segs (O, out) = (O, fold_left seg_step segs out).
Proof.
  revert out. induction segs as [|s segs IH]; intros out; [reflexivity|].
  cbn [fold_left].
  assert (E : clean_step true (O, out) s = (O, seg_step out s)).
  { unfold clean_step, seg_step.
    destruct (is_empty s || is_dot s); [reflexivity|].
    destruct (is_dotdot s); [|reflexivity].
    destruct out; reflexivity. }
  rewrite E. apply IH.
Qed.

Definition real_seg (s : str) : Prop := s <> [].

Lemma seg_step_real out s : Forall real_seg out -> Forall real_seg (seg_step out s).
Proof.
  intros H. unfold seg_step.
  destruct (is_empty s) eqn:E; simpl; [assumption|].
  destruct (is_dot s); [assumption|].
  destruct (is_dotdot s).
  - destruct out; simpl; [constructor|]. inversion H; assumption.
  - constructor; [|assumption]. destruct s; [discriminate|discriminate].
Qed.

Lemma fold_seg_step_real segs out :
  Forall real_seg out -> Forall real_seg (fold_left seg_step segs out).
Proof.
  revert out. induction segs as [|s segs IH]; intros out H; simpl; [assumption|].
  apply IH. apply seg_step_real. assumption.
Qed.

Lemma norm_segs_real segs : Forall real_seg (norm_segs segs).
Proof.
  unfold norm_segs. apply Forall_rev. apply fold_seg_step_real. constructor.
Qed.

Lemma join_real_nil out : Forall real_seg out -> join_slash out = [] -> out = [].
Proof.
  destruct out as [|s r]; [reflexivity|]. intros H E. inversion H; subst.
  simpl in E. destruct s; [congruence|discriminate].
Qed.

Lemma clean_go_rooted t :
  clean_go (SLASH :: t) = SLASH :: join_slash (norm_segs (split_slash t)).
Proof.
  unfold clean_go. rewrite Z.eqb_refl.
  change (split_slash (SLASH :: t)) with ([] :: split_slash t).
  simpl fold_left at 1. rewrite fold_clean_rooted. reflexivity.
Qed.

Lemma noslash_nil : noslash [].
Proof. intros []. Qed.
Lemma noslash_dot : noslash [DOT].
Proof. intros [H|[]]; discriminate. Qed.
Lemma noslash_dotdot : noslash [DOT; DOT].
Proof. intros [H|[H|[]]]; discriminate. Qed.

Lemma is_empty_eqb s : is_empty s = str_eqb s [].
Proof. destruct s; reflexivity. Qed.

Theorem key_path_rooted t : key_path (SLASH :: t) = norm_path (SLASH :: t).
Proof.
  unfold key_path, norm_path. rewrite Z.eqb_refl, clean_go_rooted.
  rewrite (rooted_suffix_last t [] noslash_nil),
          (rooted_suffix_last t [DOT] noslash_dot),
          (rooted_suffix_last t [DOT; DOT] noslash_dotdot).
  unfold is_dirlike, is_dot, is_dotdot. rewrite is_empty_eqb.
  set (l := last (split_slash t) []).
  set (out := norm_segs (split_slash t)).
  pose proof (norm_segs_real (split_slash t)) as Hr. fold out in Hr.
  destruct out as [|s r] eqn:Eo.
  - simpl. rewrite andb_false_r. reflexivity.
  - assert (Hne : str_eqb (SLASH :: join_slash (s :: r)) [SLASH] = false).
    { apply str_eqb_neq. intros H.
      assert (H' : join_slash (s :: r) = []) by (injection H; auto).
      apply join_real_nil in H'; [discriminate|assumption]. }
    rewrite Hne. simpl negb. simpl nonempty. rewrite andb_true_r, andb_true_l.
    destruct (str_eqb l [] || str_eqb l [DOT] || str_eqb l [DOT; DOT]); simpl.
    + reflexivity.
    + rewrite app_nil_r. reflexivity.
Qed.

Lemma norm_path_rooted_head t : exists r, norm_path (SLASH :: t) = SLASH :: r.
Proof. unfold norm_path. rewrite Z.eqb_refl. eexists. reflexivity. Qed.

(* what the key holds for each of the three shapes net/http delivers *)
Lemma key_path_wire p :
  wire_path p -> key_path p = match p with [] => [DOT] | _ => norm_path p end.
Proof.
  intros [->|[->|H]].
  - reflexivity.
  - reflexivity.
  - destruct p as [|c t]; [discriminate|]. simpl in H. apply Z.eqb_eq in H. subst c.
    apply key_path_rooted.
Qed.

Lemma key_path_eq_iff a b :
  wire_path a -> wire_path b -> (key_path a = key_path b <-> norm_path a = norm_path b).
Proof.
  intros Ha Hb. rewrite (key_path_wire a Ha), (key_path_wire b Hb).
  destruct Ha as [->|[->|Ha]]; destruct Hb as [->|[->|Hb]];
    try (split; reflexivity);
    try (split; discriminate).
  - destruct b as [|c t]; [discriminate|]. simpl in Hb. apply Z.eqb_eq in Hb. subst c.
    destruct (norm_path_rooted_head t) as [r ->]. split; discriminate.
  - destruct b as [|c t]; [discriminate|]. simpl in Hb. apply Z.eqb_eq in Hb. subst c.
    destruct (norm_path_rooted_head t) as [r ->]. split; discriminate.
  - destruct a as [|c t]; [discriminate|]. simpl in Ha. apply Z.eqb_eq in Ha. subst c.
    destruct (norm_path_rooted_head t) as [r ->]. split; discriminate.
  - destruct a as [|c t]; [discriminate|]. simpl in Ha. apply Z.eqb_eq in Ha. subst c.
    destruct (norm_path_rooted_head t) as [r ->]. split; discriminate.
  - destruct a as [|c t]; [discriminate|]. destruct b as [|c' t']; [discriminate|]. tauto.
Qed.

(* ------------------------------------------------------------------ *)
(* 6. The property                                                       *)

Theorem key_string_eq_iff a b :
  wire_path (r_path a) -> wire_path (r_path b) ->
  (key_string a = key_string b <-> r_tls a = r_tls b /\ same_resource a b).
Proof.
  intros Ha Hb. unfold key_string, same_resource. split.
  - intros H. apply encode_inj in H. destruct H as (Ht & Hm & Hh & Hp & Hq).
    apply (key_path_eq_iff _ _ Ha Hb) in Hp. auto.
  - intros (Ht & Hm & Hh & Hp & Hq).
    apply (key_path_eq_iff _ _ Ha Hb) in Hp. rewrite Ht, Hm, Hh, Hp, Hq. reflexivity.
Qed.

Theorem key_iff_same_resource a b :
  wire_req a -> wire_req b -> r_tls a = r_tls b ->
  (key_string a = key_string b <-> same_resource a b).
Proof.
  intros [_ Ha] [_ Hb] Ht. rewrite (key_string_eq_iff a b Ha Hb). tauto.
Qed.

Theorem distinct_never_share a b :
  wire_req a -> wire_req b -> ~ same_resource a b -> key_string a <> key_string b.
Proof.
  intros [_ Ha] [_ Hb] Hn H. apply (key_string_eq_iff a b Ha Hb) in H. tauto.
Qed.

Lemma same_resource_b_iff a b : same_resource_b a b = true <-> same_resource a b.
Proof.
  unfold same_resource_b, same_resource. rewrite !andb_true_iff, !str_eqb_eq. tauto.
Qed.

(* ------------------------------------------------------------------ *)
(* 7. What does and does not distinguish two requests (the statement's examples,
      for every path built from slash-free segments)                    *)

Definition path_of (segs : list str) : str := SLASH :: join_slash segs.
Definition normal_seg (s : str) : Prop := is_dirlike s = false.
Definition set_path (r : request) (p : str) : request :=
  {| r_tls := r_tls r; r_method := r_method r; r_host := r_host r; r_path := p; r_query := r_query r |}.
Definition set_host (r : request) (h : str) : request :=
  {| r_tls := r_tls r; r_method := r_method r; r_host := h; r_path := r_path r; r_query := r_query r |}.

Lemma wire_path_of segs : wire_path (path_of segs).
Proof. right. right. reflexivity. Qed.

Lemma norm_path_of segs :
  segs <> [] -> Forall noslash segs ->
  norm_path (path_of segs) =
  SLASH :: join_slash (norm_segs segs) ++
    (if is_dirlike (last segs []) && nonempty (norm_segs segs) then [SLASH] else []).
Proof.
  intros Hn Hf. unfold path_of, norm_path. rewrite Z.eqb_refl.
  rewrite split_join by assumption. reflexivity.
Qed.

Lemma last_app_nonnil {A} (xs ys : list A) d : ys <> [] -> last (xs ++ ys) d = last ys d.
Proof.
  intros Hy. induction xs as [|x xs IH]; [reflexivity|].
  simpl. destruct (xs ++ ys) eqn:E.
  - apply app_eq_nil in E. destruct E. contradiction.
  - exact IH.
Qed.

Lemma app_nonnil_r {A} (xs ys : list A) : ys <> [] -> xs ++ ys <> [].
Proof. intros H E. apply app_eq_nil in E. destruct E. contradiction. Qed.

Lemma norm_segs_insert xs ys mid out' :
  (forall out, fold_left seg_step mid out = out' out) ->
  (forall out, out' out = out) ->
  norm_segs (xs ++ mid ++ ys) = norm_segs (xs ++ ys).
Proof.
  intros H1 H2. unfold norm_segs. rewrite !fold_left_app. rewrite H1, H2. reflexivity.
Qed.

(* a "." segment or an empty segment (duplicate slash) anywhere before the end is irrelevant *)
Theorem norm_path_skip_segment xs ys s :
  s = [] \/ s = [DOT] -> ys <> [] -> Forall noslash (xs ++ ys) ->
  norm_path (path_of (xs ++ s :: ys)) = norm_path (path_of (xs ++ ys)).
Proof.
  intros Hs Hy Hf.
  assert (Hns : noslash s) by (destruct Hs as [->| ->]; [apply noslash_nil|apply noslash_dot]).
  assert (Hf' : Forall noslash (xs ++ s :: ys)).
  { apply Forall_app in Hf. destruct Hf as [Hx Hyf]. apply Forall_app. split; [assumption|].
    constructor; assumption. }
  rewrite !norm_path_of; auto using app_nonnil_r; try (apply app_nonnil_r; discriminate).
  assert (E : norm_segs (xs ++ s :: ys) = norm_segs (xs ++ ys)).
  { unfold norm_segs. rewrite !fold_left_app. cbn [fold_left].
    replace (seg_step (fold_left seg_step xs []) s) with (fold_left seg_step xs []); [reflexivity|].
    unfold seg_step. destruct Hs as [->| ->]; reflexivity. }
  rewrite E.
  rewrite (last_app_nonnil xs (s :: ys)) by discriminate.
  rewrite (last_app_nonnil xs ys) by assumption.
  destruct ys; [contradiction|]. reflexivity.
Qed.

(* "seg/.." anywhere before the end is irrelevant *)
Theorem norm_path_skip_dotdot xs ys s :
  normal_seg s -> noslash s -> ys <> [] -> Forall noslash (xs ++ ys) ->
  norm_path (path_of (xs ++ s :: [DOT; DOT] :: ys)) = norm_path (path_of (xs ++ ys)).
Proof.
  intros Hs Hns Hy Hf.
  assert (Hf' : Forall noslash (xs ++ s :: [DOT; DOT] :: ys)).
  { apply Forall_app in Hf. destruct Hf as [Hx Hyf]. apply Forall_app. split; [assumption|].
    constructor; [assumption|]. constructor; [apply noslash_dotdot|assumption]. }
  rewrite !norm_path_of; auto using app_nonnil_r; try (apply app_nonnil_r; discriminate).
  assert (E : norm_segs (xs ++ s :: [DOT; DOT] :: ys) = norm_segs (xs ++ ys)).
  { unfold norm_segs. rewrite !fold_left_app. cbn [fold_left].
    replace (seg_step (seg_step (fold_left seg_step xs []) s) [DOT; DOT])
      with (fold_left seg_step xs []); [reflexivity|].
    unfold normal_seg, is_dirlike in Hs.
    apply orb_false_iff in Hs. destruct Hs as [Hs1 Hs3].
    set (o := fold_left seg_step xs []).
    assert (E1 : seg_step o s = s :: o) by (unfold seg_step; rewrite Hs1, Hs3; reflexivity).
    rewrite E1. reflexivity. }
  rewrite E.
  rewrite (last_app_nonnil xs (s :: [DOT; DOT] :: ys)) by discriminate.
  rewrite (last_app_nonnil xs ys) by assumption.
  destruct ys; [contradiction|]. reflexivity.
Qed.

(* a trailing slash after a real segment always matters *)
Theorem norm_path_trailing_slash xs s :
  normal_seg s -> noslash s -> Forall noslash xs ->
  norm_path (path_of (xs ++ [s; []])) <> norm_path (path_of (xs ++ [s])).
Proof.
  intros Hs Hns Hf.
  assert (F1 : Forall noslash (xs ++ [s; []])).
  { apply Forall_app. split; [assumption|]. repeat constructor; auto using noslash_nil. }
  assert (F2 : Forall noslash (xs ++ [s])).
  { apply Forall_app. split; [assumption|]. repeat constructor; auto. }
  rewrite !norm_path_of; auto; try (apply app_nonnil_r; discriminate).
  assert (E : norm_segs (xs ++ [s; []]) = norm_segs (xs ++ [s])).
  { unfold norm_segs. rewrite !fold_left_app. reflexivity. }
  rewrite E.
  assert (N : nonempty (norm_segs (xs ++ [s])) = true).
  { unfold norm_segs. rewrite fold_left_app. simpl. unfold seg_step at 1.
    unfold normal_seg, is_dirlike in Hs. apply orb_false_iff in Hs. destruct Hs as [Hs1 Hs3].
    rewrite Hs1, Hs3. simpl. destruct (rev (fold_left seg_step xs [])); reflexivity. }
  rewrite N.
  rewrite (last_app_nonnil xs [s; []]) by discriminate.
  rewrite (last_app_nonnil xs [s]) by discriminate.
  simpl last. change (is_dirlike []) with true. rewrite Hs. simpl.
  intros H. injection H as H. apply app_inv_head in H. discriminate.
Qed.

(* host letter case *)
Ltac case_leb :=
  repeat match goal with
  | |- context [?x <=? ?y] => destruct (Z.leb_spec x y)
  end.

Lemma to_lower_upper c : to_lower (to_upper c) = to_lower c.
Proof.
  unfold to_lower, to_upper, is_upper, is_lower.
  destruct (Z.leb_spec 97 c); destruct (Z.leb_spec c 122); simpl; case_leb; simpl; try lia;
    case_leb; simpl; lia.
Qed.

Lemma lower_upper_str h : lower_str (map to_upper h) = lower_str h.
Proof.
  unfold lower_str. rewrite map_map. apply map_ext. apply to_lower_upper.
Qed.

Lemma to_lower_idem c : to_lower (to_lower c) = to_lower c.
Proof.
  unfold to_lower, is_upper.
  destruct (Z.leb_spec 65 c); destruct (Z.leb_spec c 90); simpl; case_leb; simpl; try lia;
    case_leb; simpl; lia.
Qed.

Lemma lower_lower_str h : lower_str (lower_str h) = lower_str h.
Proof.
  unfold lower_str. rewrite map_map. apply map_ext. apply to_lower_idem.
Qed.

(* ... lifted to keys *)
Theorem host_case_shares r h' :
  lower_str h' = lower_str (r_host r) -> key_string (set_host r h') = key_string r.
Proof. intros H. unfold key_string. simpl. rewrite H. reflexivity. Qed.

Theorem host_upper_shares r : key_string (set_host r (map to_upper (r_host r))) = key_string r.
Proof. apply host_case_shares. apply lower_upper_str. Qed.

Theorem same_norm_path_shares r p p' :
  wire_path p -> wire_path p' -> norm_path p = norm_path p' ->
  key_string (set_path r p) = key_string (set_path r p').
Proof.
  intros Hp Hp' H. apply key_string_eq_iff; simpl; auto.
  split; [reflexivity|]. unfold same_resource. simpl. auto.
Qed.

Theorem dot_segment_shares r xs ys s :
  s = [] \/ s = [DOT] -> ys <> [] -> Forall noslash (xs ++ ys) ->
  key_string (set_path r (path_of (xs ++ s :: ys))) = key_string (set_path r (path_of (xs ++ ys))).
Proof.
  intros. apply same_norm_path_shares; auto using wire_path_of, norm_path_skip_segment.
Qed.

Theorem dotdot_segment_shares r xs ys s :
  normal_seg s -> noslash s -> ys <> [] -> Forall noslash (xs ++ ys) ->
  key_string (set_path r (path_of (xs ++ s :: [DOT; DOT] :: ys))) =
  key_string (set_path r (path_of (xs ++ ys))).
Proof.
  intros. apply same_norm_path_shares; auto using wire_path_of, norm_path_skip_dotdot.
Qed.

Theorem trailing_slash_never_shares r xs s :
  normal_seg s -> noslash s -> Forall noslash xs ->
  key_string (set_path r (path_of (xs ++ [s; []]))) <> key_string (set_path r (path_of (xs ++ [s]))).
Proof.
  intros Hs Hn Hf H.
  apply key_string_eq_iff in H; simpl; auto using wire_path_of.
  destruct H as [_ (_ & _ & Hp & _)]. simpl in Hp.
  revert Hp. apply norm_path_trailing_slash; assumption.
Qed.

(* characters moved across the path/query boundary (or any other) always change the key:
   the components themselves are compared, never their concatenation *)
Theorem component_shift_never_shares a b :
  wire_path (r_path a) -> wire_path (r_path b) ->
  key_string a = key_string b ->
  r_method a = r_method b /\ r_query a = r_query b /\ norm_path (r_path a) = norm_path (r_path b).
Proof.
  intros Ha Hb H. apply key_string_eq_iff in H; auto.
  destruct H as [_ (Hm & _ & Hp & Hq)]. auto.
Qed.

Theorem clean_go_is_norm p : rooted p = true -> key_path p = norm_path p.
Proof.
  destruct p as [|c t]; [discriminate|]. simpl. intros H. apply Z.eqb_eq in H. subst c.
  apply key_path_rooted.
Qed.
