(* Proofs about the coalescing transition system (Model/Coalesce.v).
   Every statement quantifies over arbitrary action lists, i.e. over every
   interleaving of the atomic steps, any number of clients. *)
From Reservoir Require Import Base.Prelude Model.Coalesce.

Ltac inv H := inversion H; subst; clear H.

Ltac break_hyp H :=
  match type of H with
  | context [match ?x with _ => _ end] =>
      let E := fresh "E" in destruct x eqn:E; try discriminate H
  end.

(* all ways a step can have succeeded *)
Ltac step_cases H :=
  cbn [lts_step] in H; repeat break_hyp H; try (injection H as <-).

Lemma upd_same f c p : upd f c p c = p.
Proof. unfold upd. now rewrite Z.eqb_refl. Qed.

Lemma upd_other f c p c' : c' <> c -> upd f c p c' = f c'.
Proof. unfold upd. intros H. destruct (c' =? c) eqn:E; [apply Z.eqb_eq in E; contradiction|reflexivity]. Qed.

Ltac upd_cases c c0 :=
  let E := fresh "E" in
  unfold upd in *; destruct (c =? c0) eqn:E; [apply Z.eqb_eq in E; subst c|apply Z.eqb_neq in E].

(* ---- traces ---- *)

Lemma run_app s tr1 tr2 :
  run s (tr1 ++ tr2) = match run s tr1 with Some s1 => run s1 tr2 | None => None end.
Proof.
  revert s; induction tr1 as [|a tr1 IH]; intros s; cbn [run app]; [reflexivity|].
  destruct (lts_step s a); [apply IH|reflexivity].
Qed.

(* an invariant kept by every permitted step holds after every permitted trace *)
Lemma run_invariant (P : state -> Prop) (ok : action -> bool) :
  (forall s a s', P s -> ok a = true -> lts_step s a = Some s' -> P s') ->
  forall tr s s', P s -> forallb ok tr = true -> run s tr = Some s' -> P s'.
Proof.
  intros Hstep tr; induction tr as [|a tr IH]; intros s s' HP Hok Hrun; cbn [run] in Hrun.
  - now inv Hrun.
  - cbn [forallb] in Hok. apply andb_true_iff in Hok as [Ha Hok].
    destruct (lts_step s a) as [s1|] eqn:E; [|discriminate].
    apply (IH s1 s'); [apply (Hstep s a s1); assumption|assumption|assumption].
Qed.

Lemma run_invariant_all (P : state -> Prop) :
  (forall s a s', P s -> lts_step s a = Some s' -> P s') ->
  forall tr s s', P s -> run s tr = Some s' -> P s'.
Proof.
  intros Hstep tr s s' HP Hrun.
  refine (run_invariant P (fun _ => true) _ tr s s' HP _ Hrun).
  - intros s0 a s1 H0 _ H1. exact (Hstep s0 a s1 H0 H1).
  - clear. induction tr; cbn; auto.
Qed.

(* ======================================================================== *)
(* Bystander independence: deleting the disconnects of any set D of clients
   from a trace leaves an executable trace, and every client outside D (and
   the cache, the flight, the origin's counters) ends exactly as before. *)

Definition agree (D : client -> bool) (s s' : state) : Prop :=
  flight_ s = flight_ s' /\ cache s = cache s' /\ origin_count s = origin_count s' /\
  cond_count s = cond_count s' /\ stored s = stored s' /\ faults s = faults s' /\
  forall c, ph s c = ph s' c \/ (D c = true /\ ph s c = Gone).

Lemma agree_refl D s : agree D s s.
Proof. unfold agree; repeat split; auto. Qed.

Lemma agree_active D s s' c :
  agree D s s' -> ph s c <> Gone -> ph s c = ph s' c.
Proof. intros (_&_&_&_&_&_&H) Hn. destruct (H c) as [E|[_ E]]; [exact E|contradiction]. Qed.

(* the step is one of the deleted disconnects *)
Lemma agree_step_deleted D s s' a t :
  agree D s s' -> is_disconnect_of D a = true -> lts_step s a = Some t -> agree D t s'.
Proof.
  intros (Hf&Hc&Ho&Hn&Hs&Hx&Hp) Hd Hstep.
  destruct a; cbn in Hd; try discriminate.
  cbn [lts_step] in Hstep.
  destruct (ph s c) eqn:E; inv Hstep; unfold agree; cbn; repeat split; auto;
    intros c0; upd_cases c0 c; auto.
Qed.

(* any other step can be taken in the trace without the disconnects, with the same effect *)
Ltac fin_agree :=
  eexists; split; [reflexivity|]; unfold agree; cbn; repeat split; try congruence; auto.

Lemma agree_step_kept D s s' a t :
  agree D s s' -> is_disconnect_of D a = false -> lts_step s a = Some t ->
  exists t', lts_step s' a = Some t' /\ agree D t t'.
Proof.
  intros Hag Hd Hstep.
  pose proof Hag as (Hf&Hc&Ho&Hn&Hs&Hx&Hp).
  destruct a; cbn [lts_step] in Hstep |- *.
  - (* Arrive *)
    assert (Hc0 : ph s c = ph s' c) by (apply (agree_active D); auto; intros X; rewrite X in Hstep; discriminate).
    rewrite <- Hc0, <- Hf.
    destruct (ph s c) eqn:?; try discriminate.
    destruct (flight_ s) as [f|] eqn:?; inv Hstep; fin_agree; intros c0; upd_cases c0 c; auto.
  - (* LeaderLookup *)
    rewrite <- Hf, <- Hc, <- Ho, <- Hn, <- Hs, <- Hx.
    destruct (flight_ s) as [f|] eqn:?; try discriminate.
    destruct (fl_stage f) eqn:?; try discriminate.
    destruct (cache s) as [[v [|]]|] eqn:?; inv Hstep; fin_agree.
  - (* OriginAnswer *)
    rewrite <- Hf.
    destruct (flight_ s) as [f|] eqn:?; try discriminate.
    destruct (fl_stage f) eqn:?; try discriminate.
    destruct a, cond; inv Hstep; fin_agree.
  - (* LeaderStore *)
    rewrite <- Hf, <- Hc, <- Ho, <- Hn, <- Hs, <- Hx.
    destruct (flight_ s) as [f|] eqn:?; try discriminate.
    destruct (fl_stage f) eqn:?; try discriminate.
    destruct a; [| | |destruct (cache s) as [[v b]|] eqn:?|]; inv Hstep; fin_agree.
  - (* FlightReturn *)
    rewrite <- Hf.
    destruct (flight_ s) as [f|] eqn:?; try discriminate.
    destruct (fl_stage f) eqn:?; try discriminate.
    inv Hstep; fin_agree.
    intros c0. destruct (Hp c0) as [E|[E1 E2]]; [rewrite E; auto|rewrite E2; auto].
  - (* FollowerReGet *)
    assert (Hc0 : ph s c = ph s' c) by (apply (agree_active D); auto; intros X; rewrite X in Hstep; discriminate).
    rewrite <- Hc0, <- Hc.
    destruct (ph s c) as [| |[v [|]| |]| |] eqn:?; try discriminate.
    destruct (cache s) as [[w b]|] eqn:?; inv Hstep; fin_agree; intros c0; upd_cases c0 c; auto.
  - (* FollowerFallback *)
    assert (Hc0 : ph s c = ph s' c) by (apply (agree_active D); auto; intros X; rewrite X in Hstep; discriminate).
    rewrite <- Hc0, <- Hf, <- Hc, <- Ho, <- Hn, <- Hs, <- Hx.
    destruct (ph s c) as [| |[v b| |]| |] eqn:?; try discriminate.
    destruct a; inv Hstep; fin_agree; intros c0; upd_cases c0 c; auto.
  - (* Respond *)
    assert (Hc0 : ph s c = ph s' c) by (apply (agree_active D); auto; intros X; rewrite X in Hstep; discriminate).
    rewrite <- Hc0.
    destruct (ph s c) as [| |[v [|]|r|]| |] eqn:?; try discriminate;
      inv Hstep; fin_agree; intros c0; upd_cases c0 c; auto.
  - (* Disconnect of a client outside D *)
    cbn in Hd.
    destruct (Hp c) as [Hc0|[E1 E2]]; [|congruence].
    rewrite <- Hc0.
    destruct (ph s c) eqn:?; inv Hstep; fin_agree; intros c0; upd_cases c0 c; auto.
  - (* Evict *)
    rewrite <- Hf, <- Ho, <- Hn, <- Hs, <- Hx.
    inv Hstep; fin_agree.
Qed.

Lemma agree_run D tr : forall s s' t,
  agree D s s' -> run s tr = Some t ->
  exists t', run s' (without_disconnects D tr) = Some t' /\ agree D t t'.
Proof.
  induction tr as [|a tr IH]; intros s s' t Hag Hrun; cbn [run] in Hrun.
  - inv Hrun. exists s'. split; [reflexivity|assumption].
  - destruct (lts_step s a) as [s1|] eqn:E; [|discriminate].
    unfold without_disconnects; cbn [filter].
    destruct (is_disconnect_of D a) eqn:Ed; cbn [negb].
    + eapply IH; [|exact Hrun]. eapply agree_step_deleted; eauto.
    + destruct (agree_step_kept D s s' a s1 Hag Ed E) as (t1 & Hs1 & Hag1).
      cbn [run]. rewrite Hs1. eapply IH; eauto.
Qed.

Theorem bystander_independence : forall (D : client -> bool) ks tr s,
  run (init ks) tr = Some s ->
  exists s', run (init ks) (without_disconnects D tr) = Some s' /\
    (forall c, D c = false -> ph s' c = ph s c) /\
    cache s' = cache s /\ origin_count s' = origin_count s /\ cond_count s' = cond_count s.
Proof.
  intros D ks tr s Hrun.
  destruct (agree_run D tr _ _ _ (agree_refl D (init ks)) Hrun) as (s' & Hrun' & (Hf&Hc&Ho&Hn&Hs&Hx&Hp)).
  exists s'. repeat split; auto.
  intros c Hd. destruct (Hp c) as [E|[E _]]; [auto|congruence].
Qed.

(* ======================================================================== *)
(* Single fetch.  While only storable answers come back and nothing is evicted,
   the key is in one of two global modes:
     unsettled  nobody has been answered yet; at most the one (conditional iff
                stale) upstream request of the running flight is out;
     settled v  version v is stored and fresh; every answer handed out or
                about to be handed out is the stored version v; the request
                counters have their final values. *)

Definition exp_origin (ks : key_state) : Z := match ks with Fresh => 0 | _ => 1 end.
Definition exp_cond (ks : key_state) : Z := match ks with Stale => 1 | _ => 0 end.
Definition is_stale (ks : key_state) : bool := match ks with Stale => true | _ => false end.

Definition clean_ph (v : Z) (p : phase) : Prop :=
  match p with
  | Idle | InFlight | Gone => True
  | Post (PCached w _) => w = v
  | Post (PHave r) => r = RStored v
  | Post PDirect => False
  | Done r => r = RStored v
  end.

Definition early_ph (p : phase) : Prop :=
  match p with Idle | InFlight | Gone => True | _ => False end.

Lemma early_clean v p : early_ph p -> clean_ph v p.
Proof. destruct p; cbn; tauto. Qed.

Definition stage_of (s : state) : option stage := option_map fl_stage (flight_ s).

Definition settled (ks : key_state) (s : state) (v : Z) : Prop :=
  cache s = Some (v, true) /\ In v (stored s) /\ (forall c, clean_ph v (ph s c)) /\
  (stage_of s = None \/ stage_of s = Some SLookup \/ stage_of s = Some (SResult (FCached v))) /\
  origin_count s = exp_origin ks /\ cond_count s = exp_cond ks.

Definition unsettled (ks : key_state) (s : state) : Prop :=
  ks <> Fresh /\ cache s = init_cache ks /\ (forall c, early_ph (ph s c)) /\
  (forall v b, cache s = Some (v, b) -> In v (stored s)) /\
  ((origin_count s = 0 /\ cond_count s = 0 /\ (stage_of s = None \/ stage_of s = Some SLookup)) \/
   (origin_count s = 1 /\ cond_count s = exp_cond ks /\
      (stage_of s = Some (SWait 1 (is_stale ks)) \/
       exists a, stage_of s = Some (SAnswered 1 a) /\ storable_answer ks a = true))).

Definition sf_inv (ks : key_state) (s : state) : Prop :=
  (exists v, settled ks s v) \/ unsettled ks s.

Lemma sf_inv_init ks : sf_inv ks (init ks).
Proof.
  destruct ks; [right|left; exists 0|right]; unfold unsettled, settled, stage_of; cbn;
    repeat split; auto; try discriminate.
  intros v b H; inv H; auto.
Qed.

(* rewrite recorded case equations into hypotheses that still match on the same term *)
Ltac use_eqs :=
  repeat match goal with
  | H : ?x = _, H' : context [match ?x with _ => _ end] |- _ => rewrite H in H'
  end.

Ltac client_fact Hcl c Hcc :=
  pose proof (Hcl c) as Hcc;
  repeat match goal with H : ph _ c = _ |- _ => rewrite H in Hcc end; cbn in Hcc.

Ltac per_client Hcl :=
  let c0 := fresh "c0" in
  intros c0; pose proof (Hcl c0); unfold upd;
  try match goal with |- context [c0 =? ?c] => destruct (c0 =? c) eqn:? end;
  cbn; auto; try congruence.

(* make the current stage explicit in a hypothesis about stage_of *)
Ltac know_stage H :=
  unfold stage_of in H;
  repeat match goal with E : flight_ _ = _ |- _ => rewrite E in H end; cbn in H;
  repeat match goal with E : fl_stage _ = _ |- _ => rewrite E in H end.

Ltac stay_unsettled Hcl :=
  right; unfold unsettled, stage_of; cbn;
  repeat match goal with E : flight_ _ = _ |- _ => rewrite E end; cbn;
  repeat match goal with E : fl_stage _ = _ |- _ => rewrite E end;
  repeat match goal with E : origin_count _ = _ |- _ => rewrite E end;
  repeat match goal with E : cond_count _ = _ |- _ => rewrite E end;
  split; [congruence|]; split; [try assumption; congruence|]; split; [per_client Hcl|];
  split; [try assumption; intros; congruence|];
  solve [ left; repeat split; auto | right; repeat split; eauto ].

Lemma sf_inv_step ks s a s' :
  sf_inv ks s -> single_fetch_ok ks a = true -> lts_step s a = Some s' -> sf_inv ks s'.
Proof.
  intros [(v & Hc & Hst & Hcl & Hfl & Ho & Hn)|(Hks & Hc & Hcl & Hst & Hmode)] Hok Hstep.
  - (* settled *)
    left; exists v.
    destruct a; step_cases Hstep; try (cbn in Hok; discriminate);
      try (client_fact Hcl c Hcc; try contradiction);
      know_stage Hfl; unfold settled, stage_of; cbn.
    all: destruct Hfl as [Hfl|[Hfl|Hfl]]; try discriminate; try (inv Hfl).
    all: repeat split; cbn; auto; try congruence; try (per_client Hcl).
    + right; right; congruence.
    + destruct (ph s c0); cbn in *; auto.
  - (* unsettled *)
    destruct a; step_cases Hstep; try (cbn in Hok; discriminate);
      try (client_fact Hcl c Hcc; try contradiction);
      know_stage Hmode.
    all: destruct Hmode as [(Ho & Hn & [Hm|Hm])|(Ho & Hn & [Hm|(a0 & Hm & Hsa)])];
      try discriminate; try (inv Hm).
    all: destruct ks; try congruence; cbn in Hc, Hn |- *; try (cbn in Hsa); try discriminate.
    all: try (rewrite Hc in *; discriminate).
    all: try solve [stay_unsettled Hcl].
    + left; exists 1; unfold settled, stage_of; cbn; repeat split; auto.
      intros c0; apply early_clean, Hcl.
    + left; exists 1; unfold settled, stage_of; cbn; repeat split; auto.
      intros c0; apply early_clean, Hcl.
    + left; exists z; unfold settled, stage_of; cbn; repeat split; auto.
      * eapply Hst; eauto.
      * intros c0; apply early_clean, Hcl.
Qed.

Theorem single_fetch : forall ks tr s,
  run (init ks) tr = Some s ->
  forallb (single_fetch_ok ks) tr = true ->
  origin_count s <= 1 /\
  forall c r, ph s c = Done r ->
    exists v, r = RStored v /\ cache s = Some (v, true) /\ In v (stored s) /\
      origin_count s = (match ks with Fresh => 0 | _ => 1 end) /\
      cond_count s = (match ks with Stale => 1 | _ => 0 end).
Proof.
  intros ks tr s Hrun Hok.
  assert (Hinv : sf_inv ks s).
  { refine (run_invariant (sf_inv ks) (single_fetch_ok ks) _ tr (init ks) s (sf_inv_init ks) Hok Hrun).
    intros s0 a s1 H0 H1 H2. exact (sf_inv_step ks s0 a s1 H0 H1 H2). }
  split.
  - destruct Hinv as [(v & _ & _ & _ & _ & Ho & _)|(_ & _ & _ & _ & [(Ho & _)|(Ho & _)])];
      rewrite Ho; destruct ks; cbn; lia.
  - intros c r Hd.
    destruct Hinv as [(v & Hc & Hst & Hcl & _ & Ho & Hn)|(_ & _ & Hcl & _)].
    + specialize (Hcl c). rewrite Hd in Hcl. cbn in Hcl. exists v. repeat split; auto.
    + specialize (Hcl c). rewrite Hd in Hcl. contradiction.
Qed.

(* ======================================================================== *)
(* Private copies.  Origin answers are numbered; the number a client holds as
   its own copy was allocated by that client's own fetch, is held by nobody
   else, and is neither a stored version nor the running flight's answer. *)

Definition flight_nr (s : state) : option Z :=
  match stage_of s with
  | Some (SWait n _) | Some (SAnswered n _) => Some n
  | _ => None
  end.

Definition uniq_inv (s : state) : Prop :=
  (forall c n, private_nr (ph s c) = Some n ->
     1 <= n <= origin_count s /\ ~ In n (stored s) /\ flight_nr s <> Some n) /\
  (forall c1 c2 n, private_nr (ph s c1) = Some n -> private_nr (ph s c2) = Some n -> c1 = c2) /\
  (forall n, In n (stored s) -> n <= origin_count s) /\
  (forall n, flight_nr s = Some n -> n <= origin_count s) /\
  0 <= origin_count s.

Lemma uniq_inv_init ks : uniq_inv (init ks).
Proof.
  unfold uniq_inv, flight_nr, stage_of; cbn. repeat split; try discriminate; try lia.
  intros n H. destruct ks; cbn in H; intuition lia.
Qed.

Lemma private_nr_after_do p r sh :
  private_nr (match p with
              | Idle => Idle | InFlight => after_do r sh | Post p0 => Post p0
              | Done r0 => Done r0 | Gone => Gone
              end) = private_nr p.
Proof. destruct p; cbn; auto. destruct r; reflexivity. Qed.

Ltac uniq_client H :=
  unfold upd in H;
  match type of H with
  | context [?c0 =? ?c] =>
      let E := fresh "E" in
      destruct (c0 =? c) eqn:E; [apply Z.eqb_eq in E; subst|apply Z.eqb_neq in E]
  end;
  try match type of H with
  | private_nr (Done ?r) = _ =>
      match goal with E : ph _ _ = Post (PHave r) |- _ =>
        change (private_nr (Done r)) with (private_nr (Post (PHave r))) in H; rewrite <- E in H end
  end;
  try (cbn in H; discriminate).

Ltac state_cbn :=
  cbn [ph flight_ cache origin_count cond_count stored faults set_ph set_flight set_stage
       option_map fl_stage fl_leader fl_shared] in *.

Lemma uniq_inv_step s a s' : uniq_inv s -> lts_step s a = Some s' -> uniq_inv s'.
Proof.
  intros (Hp & Hu & Hs & Hf & H0) Hstep.
  destruct a; step_cases Hstep; unfold uniq_inv, flight_nr, stage_of in *; state_cbn;
    repeat match goal with E : flight_ _ = _ |- _ => rewrite E in * end; state_cbn;
    repeat match goal with E : fl_stage _ = _ |- _ => rewrite E in * end; state_cbn.
  all: repeat split; try assumption; try lia; intros.
  all: repeat match goal with H : context [private_nr (match ph _ _ with _ => _ end)] |- _ =>
         rewrite private_nr_after_do in H end.
  all: repeat match goal with H : private_nr (upd _ _ _ _) = Some _ |- _ => uniq_client H end.
  all: try solve [eapply Hp; eauto | eapply Hu; eauto | apply Hs; auto | apply Hf; auto | congruence].
  all: repeat match goal with H : private_nr (ph _ _) = Some _ |- _ =>
         let X := fresh "X" in pose proof (Hp _ _ H) as X; revert H end; intros.
  all: repeat match goal with H : private_nr (Post (PHave (RPrivate _ _))) = Some _ |- _ => cbn in H end.
  all: repeat match goal with H : Some _ = Some _ |- _ => inv H end.
  all: try match goal with |- Some _ <> Some _ => let Q := fresh "Q" in intros Q; inv Q end.
  all: try match goal with |- ~ In _ _ => let Q := fresh "Q" in intros Q; try (destruct Q as [Q|Q]; [subst|]) end.
  all: repeat match goal with H : In _ (stored _) |- _ =>
         let X := fresh "X" in pose proof (Hs _ H) as X; revert H end; intros.
  all: try solve [intuition (try lia; try congruence)].
  all: try match goal with H : _ = Some _ |- _ => apply Hf in H; lia end.
  all: try (let Q := fresh "Q" in intros Q; apply Hf in Q; lia).
  destruct H as [<-|H]; [apply Hf; auto|apply Hs; auto].
Qed.

Lemma uniq_inv_run ks tr s : run (init ks) tr = Some s -> uniq_inv s.
Proof.
  intros H. exact (run_invariant_all uniq_inv uniq_inv_step tr (init ks) s (uniq_inv_init ks) H).
Qed.

(* a private copy comes from that very client's own fetch *)
Definition holds_private (p : phase) (k : akind) (n : Z) : Prop :=
  p = Post (PHave (RPrivate k n)) \/ p = Done (RPrivate k n).

Lemma holds_private_step s a s' c k n :
  lts_step s a = Some s' -> holds_private (ph s' c) k n ->
  holds_private (ph s c) k n \/ a = FollowerFallback c k.
Proof.
  intros Hstep Hh. unfold holds_private in *.
  destruct a; step_cases Hstep; state_cbn; auto.
  all: try (unfold upd in Hh;
            match type of Hh with context [?c0 =? ?c1] =>
              let E := fresh "E" in destruct (c0 =? c1) eqn:E;
              [apply Z.eqb_eq in E; subst|apply Z.eqb_neq in E] end; auto).
  all: try (destruct Hh as [Hh|Hh]; try discriminate; inv Hh; auto; fail).
  (* FlightReturn *)
  destruct (ph s c) eqn:Ep; auto.
  destruct r; cbn in Hh; destruct Hh as [Hh|Hh]; discriminate.
Qed.

Lemma holds_private_run c k n : forall tr s s',
  run s tr = Some s' -> holds_private (ph s' c) k n ->
  holds_private (ph s c) k n \/ In (FollowerFallback c k) tr.
Proof.
  induction tr as [|a tr IH]; intros s s' Hrun Hh; cbn [run] in Hrun.
  - inv Hrun. auto.
  - destruct (lts_step s a) as [s1|] eqn:E; [|discriminate].
    destruct (IH s1 s' Hrun Hh) as [H1|H1]; [|right; right; exact H1].
    destruct (holds_private_step s a s1 c k n E H1) as [H2|H2]; [left; exact H2|right; left; auto].
Qed.

(* when nothing the origin says is cacheable (and the key was not fresh), nothing is ever
   handed out from the cache: every answer is somebody's own copy *)
Definition unc_ph (p : phase) : Prop :=
  match p with
  | Idle | InFlight | Gone | Post PDirect => True
  | Post (PHave r) | Done r => exists k n, r = RPrivate k n /\ kind_uncacheable k = true
  | Post (PCached _ _) => False
  end.

Definition unc_inv (s : state) : Prop :=
  (forall v, cache s <> Some (v, true)) /\ (forall c, unc_ph (ph s c)) /\
  match stage_of s with
  | Some (SAnswered _ k) => kind_uncacheable k = true
  | Some (SResult (FCached _)) | Some (SResult FError) => False
  | _ => True
  end.

Lemma unc_inv_init ks : ks <> Fresh -> unc_inv (init ks).
Proof.
  intros H. unfold unc_inv, stage_of; cbn. repeat split; auto.
  destruct ks; cbn; congruence.
Qed.

Lemma unc_inv_step s a s' :
  unc_inv s -> uncacheable_ok a = true -> lts_step s a = Some s' -> unc_inv s'.
Proof.
  intros (Hc & Hcl & Hfl) Hok Hstep.
  destruct a; step_cases Hstep; try (cbn in Hok; discriminate);
    try (client_fact Hcl c Hcc; try contradiction);
    know_stage Hfl; try contradiction; unfold unc_inv, stage_of; state_cbn;
    repeat match goal with E : flight_ _ = _ |- _ => rewrite E end; state_cbn;
    repeat match goal with E : fl_stage _ = _ |- _ => rewrite E end.
  all: repeat split; auto; try congruence; try (per_client Hcl); try (intros; congruence).
  all: try (exfalso; eapply Hc; eauto; fail).
  all: try (eexists _, _; split; [reflexivity|auto]; fail).
  all: try (cbn in Hfl; discriminate).
  destruct r; try contradiction. destruct (ph s c0); cbn in *; auto.
Qed.

Theorem private_copies : forall ks tr s,
  run (init ks) tr = Some s ->
  (forall c1 c2 k1 k2 n1 n2,
      ph s c1 = Done (RPrivate k1 n1) -> ph s c2 = Done (RPrivate k2 n2) -> c1 <> c2 -> n1 <> n2) /\
  (forall c k n, ph s c = Done (RPrivate k n) ->
      1 <= n <= origin_count s /\ ~ In n (stored s) /\ In (FollowerFallback c k) tr) /\
  (ks <> Fresh -> forallb uncacheable_ok tr = true ->
   forall c r, ph s c = Done r -> exists k n, r = RPrivate k n /\ kind_uncacheable k = true).
Proof.
  intros ks tr s Hrun.
  pose proof (uniq_inv_run ks tr s Hrun) as (Hp & Hu & _).
  split; [|split].
  - intros c1 c2 k1 k2 n1 n2 H1 H2 Hne Heq. subst n2. apply Hne.
    apply (Hu c1 c2 n1); [rewrite H1|rewrite H2]; reflexivity.
  - intros c k n Hd.
    assert (Hpr : private_nr (ph s c) = Some n) by (rewrite Hd; reflexivity).
    destruct (Hp c n Hpr) as (A & B & _). repeat split; try tauto.
    destruct (holds_private_run c k n tr (init ks) s Hrun) as [[H|H]|H]; auto.
    + right; exact Hd.
    + cbn in H. discriminate.
    + cbn in H. discriminate.
  - intros Hks Hok c r Hd.
    assert (Hinv : unc_inv s).
    { refine (run_invariant unc_inv uncacheable_ok _ tr (init ks) s (unc_inv_init ks Hks) Hok Hrun).
      intros s0 a s1 A B C. exact (unc_inv_step s0 a s1 A B C). }
    destruct Hinv as (_ & Hcl & _). specialize (Hcl c). rewrite Hd in Hcl. exact Hcl.
Qed.

(* ======================================================================== *)
(* Everyone is answered, completely.
   Safety: as long as the origin completes every body it starts and the entry
   is not removed under a pending revalidation, nobody ever receives an error
   or a cut body.  The invariant is proved in two worlds: ne = true (nothing
   is evicted) and ne = false (no 304 is ever answered). *)

Definition good_ph (p : phase) : Prop :=
  match p with
  | Post (PHave r) | Done r => complete r = true
  | _ => True
  end.

Definition ff_inv (ne : bool) (s : state) : Prop :=
  (forall c, good_ph (ph s c)) /\
  match stage_of s with
  | Some (SWait _ true) => ne = true -> cache s <> None
  | Some (SAnswered _ k) =>
      kind_complete k = true /\ (k = KNotModified -> ne = true /\ cache s <> None)
  | Some (SResult FError) => False
  | _ => True
  end.

Definition ff_ok (ne : bool) (a : action) : bool :=
  no_abort a && (if ne then negb (is_evict a) else negb (is_304 a)).

Lemma ff_inv_init ne ks : ff_inv ne (init ks).
Proof. unfold ff_inv, stage_of; cbn. auto. Qed.

Lemma ff_inv_step ne s a s' :
  ff_inv ne s -> ff_ok ne a = true -> lts_step s a = Some s' -> ff_inv ne s'.
Proof.
  intros (Hcl & Hfl) Hok Hstep.
  unfold ff_ok in Hok. apply andb_true_iff in Hok as [Hna Hw].
  destruct a; step_cases Hstep;
    try (client_fact Hcl c Hcc);
    know_stage Hfl; try contradiction; unfold ff_inv, stage_of; state_cbn;
    repeat match goal with E : flight_ _ = _ |- _ => rewrite E end; state_cbn;
    repeat match goal with E : fl_stage _ = _ |- _ => rewrite E end.
  all: repeat split; auto; try congruence; try (per_client Hcl); try (intros; congruence).
  - destruct ne; cbn in Hw; try discriminate; auto.
  - destruct ne; cbn in Hw; try discriminate; auto.
  - destruct r; try contradiction; destruct (ph s c0); cbn in *; auto.
  - rewrite E2. exact Hfl.
  - rewrite E2. exact Hfl.
  - destruct ne; [cbn in Hw; discriminate|].
    destruct (option_map fl_stage (flight_ s)) as [[| ? [|] | ? k | [| |]]|]; auto.
    + intros; discriminate.
    + destruct Hfl as (A & B). split; auto. intros Q. destruct (B Q). discriminate.
Qed.

Lemma forallb_and {A} (f g : A -> bool) l :
  forallb f l = true -> forallb g l = true -> forallb (fun a => f a && g a) l = true.
Proof.
  induction l as [|x l IH]; cbn; auto. intros H1 H2.
  apply andb_true_iff in H1 as [A1 B1]. apply andb_true_iff in H2 as [A2 B2].
  rewrite A1, A2. cbn. auto.
Qed.

Theorem answers_complete : forall ks tr s,
  run (init ks) tr = Some s -> fault_free tr = true ->
  forall c r, ph s c = Done r -> complete r = true.
Proof.
  intros ks tr s Hrun Hff c r Hd.
  unfold fault_free in Hff. apply andb_true_iff in Hff as [Hna Hw].
  assert (Hex : exists ne, forallb (ff_ok ne) tr = true).
  { apply orb_true_iff in Hw as [Hw|Hw]; [exists true|exists false];
      apply (forallb_and no_abort _ tr Hna Hw). }
  destruct Hex as (ne & Hok).
  assert (Hinv : ff_inv ne s).
  { refine (run_invariant (ff_inv ne) (ff_ok ne) _ tr (init ks) s (ff_inv_init ne ks) Hok Hrun).
    intros s0 a s1 A B C. exact (ff_inv_step ne s0 a s1 A B C). }
  destruct Hinv as (Hcl & _). specialize (Hcl c). rewrite Hd in Hcl. exact Hcl.
Qed.

(* Provenance of every answer, in every trace: a cached answer is a version that was stored
   completely (never the reader of an in-flight body), an error is only ever handed out after
   a shared fetch has failed. *)
Definition prov_resp (s : state) (r : resp) : Prop :=
  match r with
  | RStored v => In v (stored s)
  | RPrivate _ _ => True
  | RError => 0 < faults s
  end.

Definition prov_ph (s : state) (p : phase) : Prop :=
  match p with
  | Post (PCached v _) => In v (stored s)
  | Post (PHave r) | Done r => prov_resp s r
  | _ => True
  end.

Definition prov_inv (s : state) : Prop :=
  (forall v b, cache s = Some (v, b) -> In v (stored s)) /\
  (forall c, prov_ph s (ph s c)) /\
  match stage_of s with
  | Some (SResult (FCached v)) => In v (stored s)
  | Some (SResult FError) => 0 < faults s
  | _ => True
  end /\ 0 <= faults s.

Lemma prov_inv_init ks : prov_inv (init ks).
Proof.
  unfold prov_inv, stage_of; cbn. repeat split; auto; try lia.
  intros v b H. destruct ks; cbn in *; inv H; auto.
Qed.

Lemma prov_ph_mono s s' p :
  (forall v, In v (stored s) -> In v (stored s')) -> faults s <= faults s' ->
  prov_ph s p -> prov_ph s' p.
Proof.
  intros Hs Hf. destruct p as [| |[v b|[v|k n|]|]|[v|k n|]|]; cbn; auto; lia.
Qed.

Lemma prov_inv_step s a s' : prov_inv s -> lts_step s a = Some s' -> prov_inv s'.
Proof.
  intros (Hc & Hcl & Hfl & Hf0) Hstep.
  destruct a; step_cases Hstep;
    try (client_fact Hcl c Hcc);
    know_stage Hfl; unfold prov_inv, stage_of; state_cbn;
    repeat match goal with E : flight_ _ = _ |- _ => rewrite E end; state_cbn;
    repeat match goal with E : fl_stage _ = _ |- _ => rewrite E end.
  all: repeat split; auto; try lia; try (intros; congruence).
  all: try (let c0 := fresh "c0" in intros c0; pose proof (Hcl c0); unfold upd;
            try match goal with |- context [c0 =? ?c] => destruct (c0 =? c) eqn:? end;
            try (eapply prov_ph_mono; [| |eassumption]; state_cbn; cbn; auto; lia);
            cbn; auto; fail).
  all: try (let Q := fresh "Q" in intros ? ? Q;
            try match goal with E : cache _ = _ |- _ =>
              tryif constr_eq E Q then fail else rewrite E in Q end; inv Q;
            first [left; reflexivity | eapply Hc; reflexivity | eapply Hc; eauto]; fail).
  all: try (first [left; reflexivity | eapply Hc; reflexivity]; fail).
  - intros c0. specialize (Hcl c0). destruct (ph s c0); cbn in *; auto.
    destruct r; cbn; auto.
  - assert (In z (stored s)) by (eapply Hc; reflexivity).
    intros c0; pose proof (Hcl c0); unfold upd. destruct (c0 =? c); cbn; auto.
Qed.

Theorem answer_provenance : forall ks tr s,
  run (init ks) tr = Some s ->
  forall c r, ph s c = Done r -> prov_resp s r.
Proof.
  intros ks tr s Hrun c r Hd.
  assert (Hinv : prov_inv s)
    by exact (run_invariant_all prov_inv prov_inv_step tr (init ks) s (prov_inv_init ks) Hrun).
  destruct Hinv as (_ & Hcl & _). specialize (Hcl c). rewrite Hd in Hcl. exact Hcl.
Qed.

(* Progress: whatever has happened, a client that is waiting inside Do or is past it can be
   brought to its answer by steps of the proxy, of the origin and of its own alone - it never
   depends on a step of another client (in particular not of one that has disconnected or is
   slow), on a new arrival or on an eviction. *)

Definition can_finish (s : state) (c : client) : Prop :=
  exists tr s' r, forallb (step_for c) tr = true /\ run s tr = Some s' /\ ph s' c = Done r.

Lemma can_finish_step s a s1 c :
  step_for c a = true -> lts_step s a = Some s1 -> can_finish s1 c -> can_finish s c.
Proof.
  intros Ha Hs (tr & s' & r & Hok & Hrun & Hd).
  exists (a :: tr), s', r. cbn [forallb run]. rewrite Ha, Hs. auto.
Qed.

Lemma step_for_self c : (c =? c) = true.
Proof. apply Z.eqb_refl. Qed.

Lemma finish_have s c r : ph s c = Post (PHave r) -> can_finish s c.
Proof.
  intros H. exists [Respond c], (set_ph s (upd (ph s) c (Done r))), r.
  cbn [forallb step_for run lts_step]. rewrite H, step_for_self. cbn. rewrite upd_same. auto.
Qed.

Lemma finish_direct s c : ph s c = Post PDirect -> can_finish s c.
Proof.
  intros H.
  eapply (can_finish_step s (FollowerFallback c KCacheable)).
  - cbn. apply step_for_self.
  - cbn [lts_step]. rewrite H. reflexivity.
  - eapply finish_have. cbn. apply upd_same.
Qed.

Lemma finish_post s c q : ph s c = Post q -> can_finish s c.
Proof.
  intros H. destruct q as [v [|]|r|].
  - destruct (cache s) as [[w b]|] eqn:Ec.
    + eapply (can_finish_step s (FollowerReGet c)).
      * cbn. apply step_for_self.
      * cbn [lts_step]. rewrite H, Ec. reflexivity.
      * eapply finish_have. cbn. apply upd_same.
    + eapply (can_finish_step s (FollowerReGet c)).
      * cbn. apply step_for_self.
      * cbn [lts_step]. rewrite H, Ec. reflexivity.
      * eapply finish_direct. cbn. apply upd_same.
  - exists [Respond c], (set_ph s (upd (ph s) c (Done (RStored v)))), (RStored v).
    cbn [forallb step_for run lts_step]. rewrite H, step_for_self. cbn. rewrite upd_same. auto.
  - eapply finish_have; eauto.
  - eapply finish_direct; eauto.
Qed.

Lemma finish_result s c f r :
  ph s c = InFlight -> flight_ s = Some f -> fl_stage f = SResult r -> can_finish s c.
Proof.
  intros Hc Hf Hst.
  eapply (can_finish_step s FlightReturn); [reflexivity| |].
  - cbn [lts_step]. rewrite Hf, Hst. reflexivity.
  - assert (Hq : exists q, after_do r (fl_shared f) = Post q) by (destruct r; cbn; eauto).
    destruct Hq as (q & Hq).
    eapply (finish_post _ c q). cbn. rewrite Hc. exact Hq.
Qed.

Lemma finish_answered s c f n a :
  ph s c = InFlight -> flight_ s = Some f -> fl_stage f = SAnswered n a -> can_finish s c.
Proof.
  intros Hc Hf Hst.
  assert (exists s1 f1 r, lts_step s LeaderStore = Some s1 /\ ph s1 c = InFlight /\
            flight_ s1 = Some f1 /\ fl_stage f1 = SResult r) as (s1 & f1 & r & H1 & H2 & H3 & H4).
  { cbn [lts_step]. rewrite Hf, Hst.
    destruct a; [| | |destruct (cache s) as [[v b]|]|]; eexists _, _, _; repeat split; eauto. }
  eapply (can_finish_step s LeaderStore); [reflexivity|exact H1|].
  eapply finish_result; eauto.
Qed.

Lemma finish_wait s c f n cond :
  ph s c = InFlight -> flight_ s = Some f -> fl_stage f = SWait n cond -> can_finish s c.
Proof.
  intros Hc Hf Hst.
  eapply (can_finish_step s (OriginAnswer KCacheable)); [reflexivity| |].
  - cbn [lts_step]. rewrite Hf, Hst. reflexivity.
  - eapply (finish_answered _ c); cbn; eauto. reflexivity.
Qed.

Lemma finish_lookup s c f :
  ph s c = InFlight -> flight_ s = Some f -> fl_stage f = SLookup -> can_finish s c.
Proof.
  intros Hc Hf Hst.
  destruct (cache s) as [[v [|]]|] eqn:Ec.
  - eapply (can_finish_step s LeaderLookup); [reflexivity| |].
    + cbn [lts_step]. rewrite Hf, Hst, Ec. reflexivity.
    + eapply (finish_result _ c); cbn; eauto. reflexivity.
  - eapply (can_finish_step s LeaderLookup); [reflexivity| |].
    + cbn [lts_step]. rewrite Hf, Hst, Ec. reflexivity.
    + eapply (finish_wait _ c); cbn; eauto. reflexivity.
  - eapply (can_finish_step s LeaderLookup); [reflexivity| |].
    + cbn [lts_step]. rewrite Hf, Hst, Ec. reflexivity.
    + eapply (finish_wait _ c); cbn; eauto. reflexivity.
Qed.

(* every client inside Do belongs to the running flight *)
Definition live_inv (s : state) : Prop := flight_ s = None -> forall c, ph s c <> InFlight.

Lemma live_inv_step s a s' : live_inv s -> lts_step s a = Some s' -> live_inv s'.
Proof.
  intros Hl Hstep. unfold live_inv in *.
  destruct a; step_cases Hstep; state_cbn; try discriminate; intros Hn c0;
    try (specialize (Hl Hn c0)); unfold upd; try (destruct (c0 =? _)); try congruence.
  destruct (ph s c0); try discriminate. destruct r; discriminate.
Qed.

Theorem no_client_stuck : forall ks tr s c,
  run (init ks) tr = Some s ->
  ph s c = InFlight \/ (exists q, ph s c = Post q) ->
  can_finish s c.
Proof.
  intros ks tr s c Hrun Hw.
  assert (Hl : live_inv s).
  { refine (run_invariant_all live_inv live_inv_step tr (init ks) s _ Hrun). intros _ c0; cbn; discriminate. }
  destruct Hw as [Hw|(q & Hw)]; [|eapply finish_post; eauto].
  destruct (flight_ s) as [f|] eqn:Hf; [|exfalso; exact (Hl Hf c Hw)].
  destruct (fl_stage f) eqn:Hst.
  - eapply finish_lookup; eauto.
  - eapply finish_wait; eauto.
  - eapply finish_answered; eauto.
  - eapply finish_result; eauto.
Qed.

Theorem answer_provenance_full : forall ks tr s,
  run (init ks) tr = Some s ->
  forall c r, ph s c = Done r ->
    match r with
    | RStored v => In v (stored s)
    | RPrivate k n => In (FollowerFallback c k) tr /\ 1 <= n <= origin_count s
    | RError => 0 < faults s
    end.
Proof.
  intros ks tr s H c r Hd. destruct r as [v|k n|].
  - exact (answer_provenance ks tr s H c _ Hd).
  - destruct (private_copies ks tr s H) as (_ & P & _).
    destruct (P c k n Hd) as (A & _ & B). auto.
  - exact (answer_provenance ks tr s H c _ Hd).
Qed.
