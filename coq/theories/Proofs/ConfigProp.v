From Reservoir Require Import Base.Prelude Model.ByteSize Proofs.ByteSize Model.ConfigProp.

(* ---------------------------------------------------------------------- *)
(* Reference semantics of a history of overrides and updates, written from
   the property statement: the running process sees the last override if
   there was one, else the last accepted update (else the initial value);
   the file holds the last accepted update (else the initial value). *)

Section Ref.
Context {T : Type}.

Definition ref_over (ops : list (cop T)) (ov : option T) : option T :=
  fold_left (fun a op => match op with COverride v => Some v | CUpdate _ => a end) ops ov.

Definition ref_base (ops : list (cop T)) (b : T) : T :=
  fold_left (fun a op => match op with CUpdate v => v | COverride _ => a end) ops b.

Definition ref_read (ops : list (cop T)) (b : T) : T :=
  match ref_over ops None with Some o => o | None => ref_base ops b end.

(* one high-level step on a settled property (nothing staged) *)
Lemma cstep_settled (p : cprop T) op :
  c_staged p = None ->
  let q := fst (cstep p op) in
  c_staged q = None /\
  o_value (c_committed q) = match op with CUpdate v => v | COverride _ => o_value (c_committed p) end /\
  o_over (c_committed q) = match op with COverride v => Some v | CUpdate _ => o_over (c_committed p) end /\
  snd (cstep p op) = [cp_read q].
Proof.
  intros Hs. destruct p as [[b ov] st]. cbn in Hs. subst st.
  destruct op as [v|v]; cbn; repeat split; reflexivity.
Qed.

Lemma crun_settled ops : forall (p : cprop T),
  c_staged p = None ->
  let q := crun p ops in
  c_staged q = None /\
  o_value (c_committed q) = ref_base ops (o_value (c_committed p)) /\
  o_over (c_committed q) = ref_over ops (o_over (c_committed p)).
Proof.
  induction ops as [|op ops IH]; intros p Hs; [cbn; auto|].
  unfold crun. cbn [fold_left]. fold (crun (fst (cstep p op)) ops).
  destruct (cstep_settled p op Hs) as (H1 & H2 & H3 & _).
  destruct (IH _ H1) as (I1 & I2 & I3).
  cbn zeta. rewrite I2, I3, H2, H3. unfold ref_base, ref_over. cbn [fold_left].
  repeat split; try assumption; destruct op; reflexivity.
Qed.

Theorem override_wins_not_saved_lemma (v0 : T) (ops : list (cop T)) :
  let p := crun (cp_new v0) ops in
  cp_read p = ref_read ops v0 /\ cp_marshal p = ref_base ops v0 /\ c_staged p = None.
Proof.
  destruct (crun_settled ops (cp_new v0) eq_refl) as (H1 & H2 & H3). cbn zeta.
  unfold cp_read, cp_marshal, cp_pending, ow_get, ref_read. rewrite H1, H3, H2. cbn. auto.
Qed.

Theorem live_read_lemma (v0 : T) (ops : list (cop T)) :
  cp_read (crun (cp_new v0) ops) = ref_read ops v0.
Proof. exact (proj1 (override_wins_not_saved_lemma v0 ops)). Qed.

(* what the listeners are told by each operation is the value Read returns after it *)
Theorem told_is_read_lemma (v0 : T) (ops : list (cop T)) (op : cop T) :
  let p := crun (cp_new v0) ops in
  snd (cstep p op) = [cp_read (fst (cstep p op))].
Proof.
  destruct (crun_settled ops (cp_new v0) eq_refl) as (H1 & _). cbn zeta.
  apply (cstep_settled _ op H1).
Qed.

(* an override given before any number of updates keeps winning, and none of it reaches the file *)
Corollary override_survives_updates (v0 o : T) (ops1 ops2 : list (cop T)) :
  (forall v, ~ In (COverride v) ops2) ->
  cp_read (crun (cp_new v0) (ops1 ++ COverride o :: ops2)) = o.
Proof.
  intros Hno. destruct (override_wins_not_saved_lemma v0 (ops1 ++ COverride o :: ops2)) as (H & _).
  cbn zeta in H. rewrite H. unfold ref_read, ref_over. rewrite fold_left_app. cbn [fold_left].
  assert (G : forall a, fold_left (fun a op => match op with COverride v => Some v | CUpdate _ => a end) ops2 (Some a) = Some a).
  { clear H. induction ops2 as [|x r IH]; intros a; [reflexivity|]. cbn [fold_left].
    destruct x as [v|v]; [exfalso; apply (Hno v); left; reflexivity|].
    apply IH. intros w Hw. apply (Hno w). right. exact Hw. }
  rewrite G. reflexivity.
Qed.

(* ---------------------------------------------------------------------- *)
(* Fine-grained API histories (Overwrite / Stage / CommitStaged in any order),
   under the one restriction that no Overwrite arrives while a value is staged
   (OverrideFromFlags runs once at start-up, before any update). *)

Record fref := { fr_base : T; fr_over : option T; fr_staged : option T }.

Definition fref_step (r : fref) (op : fop T) : fref :=
  match op with
  | FOverwrite v => {| fr_base := fr_base r; fr_over := Some v; fr_staged := fr_staged r |}
  | FStage v => {| fr_base := fr_base r; fr_over := fr_over r; fr_staged := Some v |}
  | FCommit => match fr_staged r with
               | Some v => {| fr_base := v; fr_over := fr_over r; fr_staged := None |}
               | None => r
               end
  end.

Fixpoint fwf (staged : bool) (ops : list (fop T)) : bool :=
  match ops with
  | [] => true
  | FOverwrite _ :: r => negb staged && fwf staged r
  | FStage _ :: r => fwf true r
  | FCommit :: r => fwf false r
  end.

Definition frel (p : cprop T) (r : fref) : Prop :=
  o_value (c_committed p) = fr_base r /\ o_over (c_committed p) = fr_over r /\
  c_staged p = match fr_staged r with
               | Some v => Some {| o_value := v; o_over := fr_over r |}
               | None => None
               end.

Lemma frel_step p r op :
  frel p r -> fwf (match fr_staged r with Some _ => true | None => false end) [op] = true ->
  frel (fst (fstep p op)) (fref_step r op).
Proof.
  intros (H1 & H2 & H3) Hw. destruct p as [[b ov] st]. cbn in *. subst b ov.
  destruct op as [v|v|]; unfold frel; cbn.
  - destruct (fr_staged r); [discriminate|]. cbn. auto.
  - auto.
  - unfold cp_commit. cbn. rewrite H3. destruct (fr_staged r) eqn:E; cbn; rewrite ?E; auto.
Qed.

Theorem fine_refines_lemma (v0 : T) (ops : list (fop T)) :
  fwf false ops = true ->
  let p := fst (frun (cp_new v0) ops) in
  let r := fold_left fref_step ops {| fr_base := v0; fr_over := None; fr_staged := None |} in
  cp_read p = (match fr_over r with Some o => o | None => fr_base r end) /\
  cp_marshal p = (match fr_staged r with Some v => v | None => fr_base r end).
Proof.
  intros Hw. cbn zeta.
  assert (G : forall ops (p : cprop T) r acc,
             frel p r -> fwf (match fr_staged r with Some _ => true | None => false end) ops = true ->
             frel (fst (fold_left (fun st op => let '(q, f) := fstep (fst st) op in (q, snd st ++ f)) ops (p, acc)))
                  (fold_left fref_step ops r)).
  { clear. induction ops as [|op ops IH]; intros p r acc Hr Hw; [exact Hr|].
    cbn [fold_left]. destruct (fstep (fst (p, acc)) op) as [q f] eqn:E. cbn [fst] in E.
    apply IH.
    - replace q with (fst (fstep p op)) by (rewrite E; reflexivity). apply frel_step; [assumption|].
      cbn [fwf] in *. destruct op; destruct (fr_staged r); cbn in *; try reflexivity;
        try discriminate; rewrite ?andb_true_r; auto.
    - destruct op as [v|v|]; cbn [fwf fref_step] in *.
      + apply andb_true_iff in Hw as [Hs Hw]. destruct (fr_staged r); [discriminate|exact Hw].
      + exact Hw.
      + destruct (fr_staged r) eqn:E'; cbn; rewrite ?E'; exact Hw. }
  specialize (G ops (cp_new v0) {| fr_base := v0; fr_over := None; fr_staged := None |} []).
  assert (G' := G ltac:(unfold frel; cbn; auto) Hw). clear G.
  destruct G' as (H1 & H2 & H3).
  unfold frun, cp_read, cp_marshal, cp_pending, ow_get. rewrite H1, H2, H3.
  split; [reflexivity|]. destruct (fr_staged _); [reflexivity|exact H1].
Qed.

End Ref.

(* ---------------------------------------------------------------------- *)
(* save then load                                                           *)

Section SaveLoad.
Variable lib_enc : fkind -> fval -> str.
Variable lib_dec : fkind -> str -> res fval.
Variable verify : list (fkind * fval) -> bool.
(* which values the library codecs are asked to carry (valid UTF-8 strings, int64 durations ...) *)
Variable lib_valid : fkind -> fval -> Prop.
Hypothesis lib_roundtrip : forall k v, k <> KSize -> lib_valid k v -> lib_dec k (lib_enc k v) = Ok v.

Definition field_valid (kv : fkind * fval) : Prop :=
  match kv with
  | (KSize, VZ n) => 0 <= n < 2^63
  | (KSize, _) => False
  | (k, v) => lib_valid k v
  end.

Lemma field_roundtrip k v : field_valid (k, v) -> dec_field lib_dec k (enc_field lib_enc k v) = Ok v.
Proof.
  intros Hv. destruct k; cbn in *; try (apply lib_roundtrip; [discriminate|exact Hv]).
  destruct v as [s|b|n]; try contradiction.
  rewrite bs_roundtrip_lemma by exact Hv. reflexivity.
Qed.

Lemma decode_all (vs : list (fkind * fval)) :
  Forall field_valid vs ->
  res_all (map (fun ks : fkind * str => match dec_field lib_dec (fst ks) (snd ks) with
                                | Ok v => Ok (fst ks, v) | Err => Err | Panic => Panic end)
               (map (fun kv => (fst kv, enc_field lib_enc (fst kv) (snd kv))) vs)) = Ok vs.
Proof.
  induction 1 as [|[k v] vs Hv _ IH]; [reflexivity|].
  cbn [map fst snd res_all]. rewrite (field_roundtrip k v Hv). cbn [res_bind].
  rewrite IH. reflexivity.
Qed.

Theorem cfg_roundtrip_lemma (c : config) :
  Forall field_valid (bases c) -> verify (bases c) = true ->
  exists c', load lib_dec verify (persist lib_enc c) = Ok c' /\
             effective c' = bases c /\ bases c' = bases c.
Proof.
  intros Hv Hver. unfold load, persist. rewrite (decode_all _ Hv), Hver.
  eexists; split; [reflexivity|].
  unfold effective, bases. rewrite !map_map. cbn.
  split; apply map_ext; intros [k p]; reflexivity.
Qed.

(* with no override in force (and no update in flight) the reloaded process sees exactly the same settings *)
Corollary cfg_roundtrip_same (c : config) :
  Forall field_valid (bases c) -> verify (bases c) = true ->
  (forall kp, In kp c -> o_over (c_committed (snd kp)) = None /\ c_staged (snd kp) = None) ->
  exists c', load lib_dec verify (persist lib_enc c) = Ok c' /\ effective c' = effective c.
Proof.
  intros Hv Hver Hno. destruct (cfg_roundtrip_lemma c Hv Hver) as (c' & H1 & H2 & _).
  exists c'. split; [exact H1|]. rewrite H2. unfold bases, effective.
  apply map_ext_in. intros kp Hin. destruct (Hno kp Hin) as [Ho Hs].
  unfold cp_read, cp_marshal, cp_pending, ow_get. rewrite Ho, Hs. reflexivity.
Qed.

End SaveLoad.
