(* Proofs about the configuration transaction (Model/ConfigTxn.v):
     - a refused update changes nothing (for every document, map order, write-fault point);
     - an accepted update changes exactly the addressed settings, tells exactly their listeners,
       leaves a file that the next start loads with the same values, keeps the process alive;
     - what verify accepts, the consumers can run under;
     - no document makes the update panic;
     - every reachable state of a running process keeps "the file is what the next start loads". *)
From Coq Require Import String Ascii.
From Reservoir Require Import Base.Prelude Model.ByteSize Proofs.ByteSize Model.ConfigProp Model.ConfigTxn.
Open Scope Z_scope.

(* ---------------------------------------------------------------------- *)
(* lists by index                                                           *)

Lemma nth_error_ext {A} (l1 l2 : list A) :
  (forall j, nth_error l1 j = nth_error l2 j) -> l1 = l2.
Proof.
  revert l2. induction l1 as [|x l1 IH]; intros [|y l2] H.
  - reflexivity.
  - specialize (H 0%nat). discriminate.
  - specialize (H 0%nat). discriminate.
  - f_equal.
    + specialize (H 0%nat). cbn in H. congruence.
    + apply IH. intros j. exact (H (S j)).
Qed.

Lemma nth_error_upd_nth {A} (g : A -> A) (l : list A) : forall i j,
  nth_error (upd_nth i g l) j = if Nat.eqb i j then option_map g (nth_error l j) else nth_error l j.
Proof.
  induction l as [|x l IH]; intros i j.
  - destruct i, j; cbn; try reflexivity; destruct (Nat.eqb _ _); reflexivity.
  - destruct i as [|i], j as [|j]; cbn; try reflexivity. apply IH.
Qed.

Lemma length_upd_nth {A} (g : A -> A) (l : list A) i : length (upd_nth i g l) = length l.
Proof. revert i. induction l as [|x l IH]; intros [|i]; cbn; auto. Qed.

(* a fold of point updates, read at one index *)
Definition app_at {A B} (G : B -> A -> A) (j : nat) (l : list (nat * B)) (p : A) : A :=
  fold_left (fun p iv => if Nat.eqb (fst iv) j then G (snd iv) p else p) l p.

Lemma app_at_cons {A B} (G : B -> A -> A) j i b l p :
  app_at G j ((i, b) :: l) p = app_at G j l (if Nat.eqb i j then G b p else p).
Proof. reflexivity. Qed.

Lemma nth_error_fold_upd {A B} (G : B -> A -> A) (l : list (nat * B)) : forall (ps : list A) j,
  nth_error (fold_left (fun ps iv => upd_nth (fst iv) (G (snd iv)) ps) l ps) j
  = option_map (app_at G j l) (nth_error ps j).
Proof.
  induction l as [|[i b] l IH]; intros ps j; cbn.
  - destruct (nth_error ps j); reflexivity.
  - rewrite IH, nth_error_upd_nth.
    destruct (Nat.eqb i j) eqn:E; destruct (nth_error ps j); cbn; rewrite ?app_at_cons, ?E; reflexivity.
Qed.

Lemma length_fold_upd {A B} (G : B -> A -> A) (l : list (nat * B)) : forall (ps : list A),
  length (fold_left (fun ps iv => upd_nth (fst iv) (G (snd iv)) ps) l ps) = length ps.
Proof. induction l as [|[i b] l IH]; intros ps; cbn; [reflexivity|]. rewrite IH. apply length_upd_nth. Qed.

Lemma NoDup_app_intro {A} (l1 l2 : list A) :
  NoDup l1 -> NoDup l2 -> (forall x, In x l1 -> In x l2 -> False) -> NoDup (l1 ++ l2).
Proof.
  induction l1 as [|x l1 IH]; intros H1 H2 H; [exact H2|].
  inversion H1; subst. cbn. constructor.
  - intros Hin. apply in_app_or in Hin as [Hin|Hin]; [contradiction|]. apply (H x); [left; reflexivity|assumption].
  - apply IH; auto. intros y Hy1 Hy2. apply (H y); [right; assumption|assumption].
Qed.

Lemma forallb_ext_in {A} (f g : A -> bool) (l : list A) :
  (forall x, In x l -> f x = g x) -> forallb f l = forallb g l.
Proof.
  induction l as [|x l IH]; intros H; [reflexivity|]. cbn. rewrite (H x (or_introl eq_refl)).
  f_equal. apply IH. intros y Hy. apply H. right. exact Hy.
Qed.

Lemma map_nth_ext {A B} (f : A -> B) (l1 l2 : list A) :
  (forall j, option_map f (nth_error l1 j) = option_map f (nth_error l2 j)) -> map f l1 = map f l2.
Proof.
  intros H. apply nth_error_ext. intros j. rewrite !nth_error_map. apply H.
Qed.

(* ---------------------------------------------------------------------- *)
(* one property                                                             *)

Section Prop1.
Context {T : Type}.

Lemma stage_committed (x : T) p : c_committed (fst (cp_stage x p)) = c_committed p.
Proof. reflexivity. Qed.
Lemma discard_committed (p : cprop T) : c_committed (cp_discard p) = c_committed p.
Proof. reflexivity. Qed.

Lemma app_stage_committed j l (p : cprop T) :
  c_committed (app_at (fun x p => fst (cp_stage x p)) j l p) = c_committed p.
Proof.
  revert p. induction l as [|[i x] l IH]; intros p; [reflexivity|].
  rewrite app_at_cons. destruct (Nat.eqb i j); rewrite IH; reflexivity.
Qed.

Lemma app_discard_committed j (l : list (nat * T)) (p : cprop T) :
  c_committed (app_at (fun _ p => cp_discard p) j l p) = c_committed p.
Proof.
  revert p. induction l as [|[i x] l IH]; intros p; [reflexivity|].
  rewrite app_at_cons. destruct (Nat.eqb i j); rewrite IH; reflexivity.
Qed.

Lemma app_discard_staged j (l : list (nat * T)) : forall q : cprop T,
  c_staged (app_at (fun (_ : T) p => cp_discard p) j l q) =
  if existsb (fun iv => Nat.eqb (fst iv) j) l then None else c_staged q.
Proof.
  induction l as [|[i x] l IH]; intros q; [reflexivity|].
  rewrite app_at_cons. cbn [existsb fst]. destruct (Nat.eqb i j); cbn [orb].
  - rewrite IH. cbn. destruct (existsb _ l); reflexivity.
  - apply IH.
Qed.

Lemma app_stage_untouched j (l : list (nat * T)) : forall q : cprop T,
  existsb (fun iv : nat * T => Nat.eqb (fst iv) j) l = false ->
  app_at (fun x p => fst (cp_stage x p)) j l q = q.
Proof.
  induction l as [|[i x] l IH]; intros q Hn; [reflexivity|].
  cbn in Hn. apply orb_false_iff in Hn as [H1 H2].
  rewrite app_at_cons, H1. apply IH; assumption.
Qed.

(* discarding what was staged gives a settled property back *)
Lemma app_discard_stage j (l : list (nat * T)) (p : cprop T) :
  c_staged p = None ->
  app_at (fun _ p => cp_discard p) j l (app_at (fun x p => fst (cp_stage x p)) j l p) = p.
Proof.
  intros Hs.
  set (q := app_at (fun x p => fst (cp_stage x p)) j l p).
  pose proof (app_discard_committed j l q) as Hc.
  pose proof (app_discard_staged j l q) as Hst.
  destruct (app_at (fun (_ : T) p => cp_discard p) j l q) as [c' s'] eqn:E. cbn in *.
  subst c'. unfold q at 1. rewrite app_stage_committed.
  destruct p as [c s]. cbn in Hs. subst s. cbn. f_equal.
  destruct (existsb _ l) eqn:Ex.
  - exact Hst.
  - rewrite Hst. unfold q. rewrite (app_stage_untouched _ _ _ Ex). reflexivity.
Qed.

Lemma marshal_commit (p : cprop T) : cp_marshal (cp_commit p) = cp_marshal p.
Proof. unfold cp_marshal, cp_pending, cp_commit. destruct p as [c [o|]]; reflexivity. Qed.

End Prop1.

(* ---------------------------------------------------------------------- *)
(* paths                                                                    *)

Lemma path_eqb_eq a b : path_eqb a b = true <-> a = b.
Proof.
  unfold path_eqb. revert b. induction a as [|x a IH]; intros [|y b]; cbn; split; intros H;
    try reflexivity; try discriminate.
  - apply andb_true_iff in H as [H1 H2]. apply str_eqb_eq in H1. apply IH in H2. congruence.
  - inversion H; subst. rewrite str_eqb_refl. cbn. apply IH. reflexivity.
Qed.

Lemma path_eqb_refl a : path_eqb a a = true.
Proof. apply path_eqb_eq. reflexivity. Qed.

Lemma strip_spec a b r : strip a b = Some r <-> b = a ++ r.
Proof.
  revert b. induction a as [|x a IH]; intros b; cbn.
  - split; intros H; [inversion H; reflexivity|subst; reflexivity].
  - destruct b as [|y b].
    + split; intros H; discriminate.
    + destruct (str_eqb x y) eqn:E.
      * apply str_eqb_eq in E. subst y. rewrite IH. split; intros H; [subst; reflexivity|inversion H; reflexivity].
      * split; intros H; [discriminate|]. inversion H; subst. rewrite str_eqb_refl in E. discriminate.
Qed.

Lemma strip_app a r : strip a (a ++ r) = Some r.
Proof. apply strip_spec. reflexivity. Qed.

(* ---------------------------------------------------------------------- *)
(* the table                                                                *)

Definition distinct_rows (tbl : table) : Prop :=
  forall i j f g, nth_error tbl i = Some f -> nth_error tbl j = Some g -> i <> j ->
                  strip (f_path f) (f_path g) = None.

Lemma table_ok_distinct tbl : table_ok tbl = true -> distinct_rows tbl.
Proof.
  unfold table_ok. intros H. apply andb_true_iff in H as [_ H].
  induction tbl as [|h t IH]; intros i j f g Hi Hj Hne.
  - destruct i; discriminate.
  - apply andb_true_iff in H as [Hh Ht]. rewrite forallb_forall in Hh.
    destruct i as [|i], j as [|j]; cbn in Hi, Hj.
    + contradiction.
    + inversion Hi; subst. apply nth_error_In in Hj. specialize (Hh g Hj).
      destruct (strip (f_path f) (f_path g)); [discriminate|reflexivity].
    + inversion Hj; subst. apply nth_error_In in Hi. specialize (Hh f Hi).
      destruct (strip (f_path g) (f_path f)); [discriminate|].
      destruct (strip (f_path f) (f_path g)); [discriminate|reflexivity].
    + apply (IH Ht i j); auto.
Qed.

Lemma table_ok_nonempty tbl : table_ok tbl = true -> forall f, In f tbl -> f_path f <> [].
Proof.
  unfold table_ok. intros H f Hin. apply andb_true_iff in H as [H _]. apply andb_true_iff in H as [H _].
  rewrite forallb_forall in H. specialize (H f Hin). destruct (f_path f); [discriminate|discriminate].
Qed.

Lemma find_from_some tbl : forall k p i f,
  find_from k tbl p = Some (i, f) -> exists i0, i = (k + i0)%nat /\ nth_error tbl i0 = Some f /\ f_path f = p.
Proof.
  induction tbl as [|h t IH]; intros k p i f H; [discriminate|].
  cbn in H. destruct (path_eqb (f_path h) p) eqn:E.
  - inversion H; subst. exists 0%nat. rewrite Nat.add_0_r. apply path_eqb_eq in E. auto.
  - destruct (IH _ _ _ _ H) as (i0 & -> & Hn & Hp). exists (S i0). rewrite Nat.add_succ_r. auto.
Qed.

Lemma find_field_some tbl p i f :
  find_field tbl p = Some (i, f) -> nth_error tbl i = Some f /\ f_path f = p.
Proof. intros H. destruct (find_from_some _ _ _ _ _ H) as (i0 & -> & Hn & Hp). auto. Qed.

Lemma find_from_none tbl : forall k p,
  find_from k tbl p = None -> forall f, In f tbl -> f_path f <> p.
Proof.
  induction tbl as [|h t IH]; intros k p H f Hin; [contradiction|].
  cbn in H. destruct (path_eqb (f_path h) p) eqn:E; [discriminate|].
  destruct Hin as [<-|Hin].
  - intros Heq. apply path_eqb_eq in Heq. congruence.
  - eapply IH; eauto.
Qed.

Lemma find_field_nth tbl i f :
  distinct_rows tbl -> nth_error tbl i = Some f -> find_field tbl (f_path f) = Some (i, f).
Proof.
  intros Hd Hn. unfold find_field.
  destruct (find_from 0 tbl (f_path f)) as [[i' f']|] eqn:E.
  - destruct (find_field_some _ _ _ _ E) as [Hn' Hp].
    destruct (Nat.eq_dec i' i) as [->|Hne]; [congruence|].
    pose proof (Hd i' i f' f Hn' Hn Hne) as Hs. rewrite Hp in Hs.
    rewrite <- (app_nil_r (f_path f)) in Hs at 2. rewrite strip_app in Hs. discriminate.
  - exfalso. apply (find_from_none _ _ _ E f); [eapply nth_error_In; eauto|reflexivity].
Qed.

Lemma is_section_true tbl p f r :
  In f tbl -> f_path f = p ++ r -> r <> [] -> is_section tbl p = true.
Proof.
  intros Hin Hp Hr. unfold is_section. apply existsb_exists. exists f. split; [assumption|].
  rewrite Hp, strip_app. destruct r; [contradiction|reflexivity].
Qed.

(* ---------------------------------------------------------------------- *)
(* documents                                                                *)

Scheme json_mut := Induction for json Sort Prop
  with jmap_mut := Induction for jmap Sort Prop.

Lemma jfind_in k m v : jfind k m = Some v -> In k (jkeys m).
Proof.
  induction m as [|k' v' m IH]; cbn; [discriminate|].
  destruct (str_eqb k k') eqn:E; intros H.
  - left. apply str_eqb_eq in E. auto.
  - right. auto.
Qed.

Lemma existsb_str_in k l : existsb (str_eqb k) l = false -> ~ In k l.
Proof.
  intros H Hin. assert (existsb (str_eqb k) l = true); [|congruence].
  apply existsb_exists. exists k. split; [assumption|apply str_eqb_refl].
Qed.

Lemma lookup_cons_other k v m k0 rest :
  k0 <> k -> lookup_path (MCons k v m) (k0 :: rest) = lookup_path m (k0 :: rest).
Proof.
  intros Hne. cbn. destruct (str_eqb k0 k) eqn:E; [apply str_eqb_eq in E; contradiction|]. reflexivity.
Qed.

Lemma lookup_head k0 rest m j : lookup_path m (k0 :: rest) = Some j -> In k0 (jkeys m).
Proof.
  cbn. destruct rest.
  - apply jfind_in.
  - destruct (jfind k0 m) eqn:E; [|discriminate]. intros _. eapply jfind_in; eauto.
Qed.

Section Txn.
Variable lib_dur : str -> option Z.
Variable lib_level : str -> option Z.
Variable addr_ok : str -> bool.

Notation decode := (decode lib_dur lib_level).
Notation walk := (walk lib_dur lib_level).
Notation update := (update lib_dur lib_level addr_ok).
Notation update_opt := (update_opt lib_dur lib_level addr_ok).
Notation verify_view := (verify_view addr_ok).
Notation can_run_b := (can_run_b addr_ok).
Notation load := (load addr_ok).
Notation start := (start addr_ok).
Notation step := (step lib_dur lib_level addr_ok).
Notation run := (run lib_dur lib_level addr_ok).

(* ---------------------------------------------------------------------- *)
(* no document makes the update panic                                       *)

Lemma decode_no_panic k j : decode k j <> Panic.
Proof.
  destruct k, j; cbn; try discriminate.
  - destruct (in_int64 z); discriminate.
  - pose proof (bs_parse_no_panic s). destruct (bs_parse s); [discriminate|discriminate|contradiction].
  - destruct (lib_dur s); discriminate.
  - destruct (lib_level s); discriminate.
Qed.

Lemma walk_no_panic tbl m : forall pre, snd (walk tbl pre m) <> WPanic.
Proof.
  induction m using jmap_mut with
    (P := fun j => forall m', j = JObj m' -> forall pre, snd (walk tbl pre m') <> WPanic);
    try discriminate.
  - intros m' H. inversion H; subst. assumption.
  - intros pre. cbn [ConfigTxn.walk].
    destruct (find_field tbl (pre ++ [k])) as [[i f]|].
    + pose proof (decode_no_panic (f_kind f) v).
      destruct (decode (f_kind f) v); [|cbn; discriminate|contradiction].
      specialize (IHm0 pre). destruct (walk tbl pre m); cbn in *. assumption.
    + destruct (is_section tbl (pre ++ [k])); [|apply IHm0].
      destruct v; try apply IHm0.
      specialize (IHm m0 eq_refl (pre ++ [k])).
      destruct (walk tbl (pre ++ [k]) m0) as [l1 r1]. cbn in IHm.
      destruct r1; [|cbn; discriminate|contradiction].
      specialize (IHm0 pre). destruct (walk tbl pre m); cbn in *. assumption.
Qed.

Theorem update_total tbl s doc fault wlen : update tbl s doc fault wlen <> Panic.
Proof.
  unfold ConfigTxn.update. pose proof (walk_no_panic tbl doc []) as H.
  destruct (walk tbl [] doc) as [l r]. cbn in H.
  destruct r; [|discriminate|contradiction].
  destruct (_ && _); [destruct (write_ok fault wlen)|]; discriminate.
Qed.

Theorem update_opt_total tbl s doc fault wlen : update_opt tbl s doc fault wlen <> Panic.
Proof. destruct doc; cbn; [apply update_total|discriminate]. Qed.

(* ---------------------------------------------------------------------- *)
(* a refused update changes nothing                                         *)

Lemma update_failed_shape tbl s doc fault wlen s' :
  update tbl s doc fault wlen = Ok (s', Failed) ->
  let l := fst (walk tbl [] doc) in
  s' = {| s_props := discard_all l (stage_all l (s_props s)); s_log := s_log s; s_file := s_file s;
          s_restart := s_restart s; s_alive := s_alive s |}.
Proof.
  unfold ConfigTxn.update. destruct (walk tbl [] doc) as [l r]. cbn [fst].
  destruct r; try discriminate.
  - destruct (_ && _).
    + destruct (write_ok fault wlen).
      * intros H. match type of H with context [if ?b then RestartRequired else Success] => destruct b end; inversion H.
      * intros H. inversion H. reflexivity.
    + intros H. inversion H. reflexivity.
  - intros H. inversion H. reflexivity.
Qed.

Lemma discard_stage_committed l (ps : list (cprop fval)) j :
  option_map c_committed (nth_error (discard_all l (stage_all l ps)) j) = option_map c_committed (nth_error ps j).
Proof.
  unfold discard_all, stage_all.
  rewrite (nth_error_fold_upd (fun (_ : fval) p => cp_discard p)).
  rewrite (nth_error_fold_upd (fun x p => fst (cp_stage x p))).
  destruct (nth_error ps j); cbn [option_map]; [|reflexivity].
  rewrite app_discard_committed, app_stage_committed. reflexivity.
Qed.

Theorem reject_is_noop tbl s doc fault wlen s' :
  update tbl s doc fault wlen = Ok (s', Failed) ->
  effective s' = effective s /\ s_log s' = s_log s /\ s_file s' = s_file s /\
  s_alive s' = s_alive s /\ s_restart s' = s_restart s /\
  map c_committed (s_props s') = map c_committed (s_props s) /\
  (settled s -> s' = s).
Proof.
  intros H. rewrite (update_failed_shape _ _ _ _ _ _ H). cbn.
  set (l := fst (walk tbl [] doc)).
  assert (Hc : map c_committed (discard_all l (stage_all l (s_props s))) = map c_committed (s_props s)).
  { apply map_nth_ext. intros j. apply discard_stage_committed. }
  repeat split; try reflexivity.
  - unfold effective. cbn.
    change (map cp_read ?x) with (map (fun p : cprop fval => ow_get (c_committed p)) x).
    rewrite <- !(map_map c_committed ow_get). rewrite Hc. reflexivity.
  - exact Hc.
  - intros Hs. destruct s as [ps lg fl rs al]. cbn in *. f_equal.
    apply nth_error_ext. intros j. unfold discard_all, stage_all.
    rewrite (nth_error_fold_upd (fun (_ : fval) p => cp_discard p)).
    rewrite (nth_error_fold_upd (fun x p => fst (cp_stage x p))).
    destruct (nth_error ps j) as [p|] eqn:E; cbn [option_map]; [|reflexivity].
    f_equal. apply app_discard_stage.
    unfold settled in Hs. cbn in Hs. rewrite Forall_forall in Hs. apply Hs. eapply nth_error_In; eauto.
Qed.

Theorem reject_opt_is_noop tbl s doc fault wlen s' :
  update_opt tbl s doc fault wlen = Ok (s', Failed) ->
  effective s' = effective s /\ s_log s' = s_log s /\ s_file s' = s_file s /\
  s_alive s' = s_alive s /\ s_restart s' = s_restart s /\ (settled s -> s' = s).
Proof.
  destruct doc as [m|]; cbn.
  - intros H. destruct (reject_is_noop _ _ _ _ _ _ H) as (A & B & C & D & E & _ & F). auto 10.
  - intros H. inversion H. auto 10.
Qed.

(* ---------------------------------------------------------------------- *)
(* what verify accepts, the consumers can run under                          *)

Ltac kill := try (exfalso; match goal with H : _ = true |- _ => cbn in H; discriminate H end).

Theorem verify_implies_can_run_b tbl vs : verify_view tbl vs = true -> can_run_b tbl vs = true.
Proof using addr_ok. clear lib_dur lib_level.
  unfold ConfigTxn.verify_view, verify_proxy, verify_webserver, verify_cache, ConfigTxn.can_run_b.
  intros H. unfold is_s, is_z, listen_ok in H |- *.
  repeat match goal with H : _ && _ = true |- _ => apply andb_true_iff in H; destruct H end.
  destruct (get tbl vs p_proxy_listen) as [[xs1| |]|]; kill.
  destruct (get tbl vs p_ca_cert) as [[xs2| |]|]; kill.
  destruct (get tbl vs p_ca_key) as [[xs3| |]|]; kill.
  destruct (get tbl vs p_web_listen) as [[xs4| |]|]; kill.
  destruct (get tbl vs p_api_disabled) as [[|api|]|]; kill.
  destruct (get tbl vs p_dash_disabled) as [[|dash|]|]; kill.
  destruct (get tbl vs p_max_cache_size) as [[| |xn1]|]; kill.
  destruct (get tbl vs p_cleanup_interval) as [[| |xn2]|]; kill.
  destruct (get tbl vs p_lock_shards) as [[| |xn3]|]; kill.
  destruct (get tbl vs p_mem_percent) as [[| |xn4]|]; kill.
  destruct (get tbl vs p_cache_dir) as [[xs5| |]|]; kill.
  destruct (get tbl vs p_cache_type) as [[xs6| |]|]; kill.
  repeat match goal with H : _ && _ = true |- _ => apply andb_true_iff in H as [? ?] end.
  repeat match goal with H : context [max_lock_shards] |- _ => unfold max_lock_shards in H end.
  unfold webserver_start, ticker, make_locks, cache_type_ok.
  repeat (apply andb_true_iff; split); try assumption.
  - destruct (api && negb dash); [discriminate|reflexivity].
  - destruct (xn2 <=? 0) eqn:E; [lia|reflexivity].
  - assert (E : (xn3 <? 0) || (2 ^ 48 <? xn3 * 24) = false) by lia. rewrite E. lia.
Qed.

(* the consumers' operations, spelled out *)
Definition can_run (tbl : table) (vs : list fval) : Prop :=
  exists listen wlisten cert key ctype dir api dash interval shards size percent,
    get tbl vs p_proxy_listen = Some (VS listen) /\ addr_ok listen = true /\
    get tbl vs p_web_listen = Some (VS wlisten) /\ addr_ok wlisten = true /\
    get tbl vs p_ca_cert = Some (VS cert) /\ cert <> [] /\
    get tbl vs p_ca_key = Some (VS key) /\ key <> [] /\
    get tbl vs p_api_disabled = Some (VB api) /\ get tbl vs p_dash_disabled = Some (VB dash) /\
    webserver_start api dash = Ok tt /\
    get tbl vs p_cache_type = Some (VS ctype) /\ cache_type_ok ctype = true /\
    get tbl vs p_cache_dir = Some (VS dir) /\ dir <> [] /\
    get tbl vs p_cleanup_interval = Some (VZ interval) /\ ticker interval = Ok tt /\
    get tbl vs p_lock_shards = Some (VZ shards) /\ make_locks shards = Ok tt /\
    (forall val, 0 <= val < 2^32 -> exists i, get_lock shards val = Ok i /\ 0 <= i < shards) /\
    get tbl vs p_max_cache_size = Some (VZ size) /\ 0 < size /\
    get tbl vs p_mem_percent = Some (VZ percent) /\ 0 <= percent <= 100.

Lemma nonempty_ne s : nonempty s = true -> s <> [].
Proof. destruct s; [discriminate|discriminate]. Qed.

Theorem can_run_b_sound tbl vs : can_run_b tbl vs = true -> can_run tbl vs.
Proof using addr_ok. clear lib_dur lib_level.
  unfold ConfigTxn.can_run_b, can_run. intros H. unfold is_s, is_z in H |- *.
  repeat match goal with H : _ && _ = true |- _ => apply andb_true_iff in H; destruct H end.
  destruct (get tbl vs p_proxy_listen) as [[xs1| |]|]; kill.
  destruct (get tbl vs p_web_listen) as [[xs4| |]|]; kill.
  destruct (get tbl vs p_ca_cert) as [[xs2| |]|]; kill.
  destruct (get tbl vs p_ca_key) as [[xs3| |]|]; kill.
  destruct (get tbl vs p_api_disabled) as [[|api|]|]; kill.
  destruct (get tbl vs p_dash_disabled) as [[|dash|]|]; kill.
  destruct (get tbl vs p_cache_type) as [[xs6| |]|]; kill.
  destruct (get tbl vs p_cache_dir) as [[xs5| |]|]; kill.
  destruct (get tbl vs p_cleanup_interval) as [[| |xn2]|]; kill.
  destruct (get tbl vs p_lock_shards) as [[| |xn3]|]; kill.
  destruct (get tbl vs p_max_cache_size) as [[| |xn1]|]; kill.
  destruct (get tbl vs p_mem_percent) as [[| |xn4]|]; kill.
  exists xs1, xs4, xs2, xs3, xs6, xs5, api, dash, xn2, xn3, xn1, xn4.
  repeat match goal with H : _ && _ = true |- _ => apply andb_true_iff in H as [? ?] end.
  destruct (webserver_start api dash) as [[]| |] eqn:Ew; try discriminate.
  destruct (ticker xn2) as [[]| |] eqn:Et; try discriminate.
  destruct (make_locks xn3) as [[]| |] eqn:Em; try discriminate.
  repeat match goal with H : _ && _ = true |- _ => apply andb_true_iff in H as [? ?] end.
  repeat split; auto using nonempty_ne; try lia.
  intros val Hv. unfold get_lock.
  assert (E : xn3 mod 2 ^ 32 = xn3) by (apply Z.mod_small; lia). rewrite E.
  destruct (xn3 =? 0) eqn:E0; [lia|].
  pose proof (Z.mod_pos_bound val xn3 ltac:(lia)) as Hb.
  destruct (val mod xn3 <? xn3) eqn:E1; [|lia].
  exists (val mod xn3). split; [reflexivity|lia].
Qed.

Theorem verify_implies_can_run tbl vs : verify_view tbl vs = true -> can_run tbl vs.
Proof using addr_ok. clear lib_dur lib_level. intros H. apply can_run_b_sound, verify_implies_can_run_b, H. Qed.

Theorem load_implies_can_run tbl f vs : load tbl f = Ok vs -> can_run tbl vs.
Proof using addr_ok. clear lib_dur lib_level.
  unfold ConfigTxn.load. destruct f as [ws| |]; try discriminate.
  destruct (_ && _) eqn:E; [|discriminate]. intros H. inversion H; subst.
  apply andb_true_iff in E as [_ E]. apply verify_implies_can_run, E.
Qed.

(* ---------------------------------------------------------------------- *)
(* which settings a document addresses: the walk, characterised             *)

Lemma walk_entries tbl : distinct_rows tbl -> (forall f, In f tbl -> f_path f <> []) ->
  forall m, wf_jmap m = true -> forall pre l r, walk tbl pre m = (l, r) ->
  (* (a) every staged entry is a setting the document addresses, with the decoded value *)
  (forall i x, In (i, x) l ->
     exists f rest j, nth_error tbl i = Some f /\ f_path f = pre ++ rest /\ rest <> [] /\
                      lookup_path m rest = Some j /\ decode (f_kind f) j = Ok x) /\
  (* (b) if the walk succeeded, every addressed setting was staged *)
  (r = WOk -> forall i f rest j, nth_error tbl i = Some f -> f_path f = pre ++ rest ->
     lookup_path m rest = Some j -> exists x, decode (f_kind f) j = Ok x /\ In (i, x) l) /\
  (* (c) each setting at most once *)
  NoDup (map fst l).
Proof.
  intros Hd Hne m.
  induction m using jmap_mut with
    (P := fun j => forall m', j = JObj m' -> wf_jmap m' = true -> forall pre l r, walk tbl pre m' = (l, r) ->
       (forall i x, In (i, x) l ->
          exists f rest j, nth_error tbl i = Some f /\ f_path f = pre ++ rest /\ rest <> [] /\
                           lookup_path m' rest = Some j /\ decode (f_kind f) j = Ok x) /\
       (r = WOk -> forall i f rest j, nth_error tbl i = Some f -> f_path f = pre ++ rest ->
          lookup_path m' rest = Some j -> exists x, decode (f_kind f) j = Ok x /\ In (i, x) l) /\
       NoDup (map fst l));
    try discriminate.
  - intros m' H. inversion H; subst. assumption.
  - (* MNil *)
    intros _ pre l r H. cbn in H. inversion H; subst. repeat split.
    + intros i x [].
    + intros _ i f rest j _ _ Hl. destruct rest as [|k [|k' rest]]; cbn in Hl; discriminate.
    + constructor.
  - (* MCons *)
    intros Hwf pre l r Hw. cbn in Hwf.
    apply andb_true_iff in Hwf as [Hwf Hwfm]. apply andb_true_iff in Hwf as [Hk Hwfv].
    apply negb_true_iff in Hk. apply existsb_str_in in Hk.
    cbn [ConfigTxn.walk] in Hw.
    (* facts about the tail, shared by all branches *)
    assert (Tail : forall l2 r2, walk tbl pre m = (l2, r2) ->
      (forall i x, In (i, x) l2 ->
         exists f rest j, nth_error tbl i = Some f /\ f_path f = pre ++ rest /\ rest <> [] /\
                          lookup_path (MCons k v m) rest = Some j /\ decode (f_kind f) j = Ok x /\
                          (exists k0 t, rest = k0 :: t /\ k0 <> k)) /\
      (r2 = WOk -> forall i f k0 t j, nth_error tbl i = Some f -> f_path f = pre ++ k0 :: t -> k0 <> k ->
         lookup_path (MCons k v m) (k0 :: t) = Some j -> exists x, decode (f_kind f) j = Ok x /\ In (i, x) l2) /\
      NoDup (map fst l2)).
    { intros l2 r2 H2. destruct (IHm0 Hwfm pre l2 r2 H2) as (A & B & C). repeat split; [| |exact C].
      - intros i x Hin. destruct (A i x Hin) as (f & rest & j & H1 & H3 & H4 & H5 & H6).
        destruct rest as [|k0 t]; [contradiction|].
        assert (k0 <> k) by (intros ->; apply Hk; eapply lookup_head; eauto).
        exists f, (k0 :: t), j. rewrite lookup_cons_other by assumption. eauto 10.
      - intros -> i f k0 t j H1 H3 H4 H5. rewrite lookup_cons_other in H5 by assumption.
        eapply B; eauto. }
    destruct (find_field tbl (pre ++ [k])) as [[i0 f0]|] eqn:Ef.
    + (* the key names a property *)
      destruct (find_field_some _ _ _ _ Ef) as [Hn0 Hp0].
      destruct (decode (f_kind f0) v) as [x0| |] eqn:Ed.
      * destruct (walk tbl pre m) as [l2 r2] eqn:E2. inversion Hw; subst l r. clear Hw.
        destruct (Tail l2 r2 eq_refl) as (A & B & C). repeat split.
        -- intros i x [Hin|Hin].
           ++ inversion Hin; subst. exists f0, [k], v. repeat split; auto; try discriminate.
              cbn. rewrite str_eqb_refl. reflexivity.
           ++ destruct (A i x Hin) as (f & rest & j & ? & ? & ? & ? & ? & _). eauto 10.
        -- intros -> i f rest j H1 H3 H5. destruct rest as [|k0 t]; [cbn in H5; discriminate|].
           destruct (str_eqb k0 k) eqn:Ek.
           ++ apply str_eqb_eq in Ek. subst k0. destruct t as [|k1 t].
              ** cbn in H5. rewrite str_eqb_refl in H5. inversion H5; subst j.
                 assert (Hi : i = i0 /\ f = f0).
                 { pose proof (find_field_nth _ _ _ Hd H1) as Hf. rewrite H3 in Hf. rewrite Ef in Hf.
                   inversion Hf. auto. }
                 destruct Hi as [-> ->]. exists x0. split; [assumption|left; reflexivity].
              ** (* a property path strictly below another property path: excluded *)
                 exfalso. destruct (Nat.eq_dec i0 i) as [->|Hne'].
                 --- rewrite Hn0 in H1. inversion H1; subst f0. rewrite Hp0 in H3.
                     change (pre ++ k :: k1 :: t) with (pre ++ [k] ++ k1 :: t) in H3.
                     rewrite app_assoc in H3. rewrite <- (app_nil_r (pre ++ [k])) in H3 at 1.
                     apply app_inv_head in H3. discriminate.
                 --- pose proof (Hd i0 i f0 f Hn0 H1 Hne') as Hs. rewrite Hp0, H3 in Hs.
                     change (pre ++ k :: k1 :: t) with (pre ++ [k] ++ k1 :: t) in Hs.
                     rewrite app_assoc, strip_app in Hs. discriminate.
           ++ apply str_eqb_neq in Ek. destruct (B eq_refl i f k0 t j H1 H3 Ek H5) as (x & ? & ?).
              exists x. split; [assumption|right; assumption].
        -- cbn. constructor; [|exact C]. intros Hin. apply in_map_iff in Hin as [[i x] [Hi Hin]]. cbn in Hi. subst i.
           destruct (A i0 x Hin) as (f & rest & j & H1 & H3 & _ & _ & _ & (k0 & t & -> & Hk0)).
           rewrite Hn0 in H1. inversion H1; subst f. rewrite Hp0 in H3. apply app_inv_head in H3.
           inversion H3. congruence.
      * inversion Hw; subst. repeat split; [intros i x []|discriminate|constructor].
      * inversion Hw; subst. repeat split; [intros i x []|discriminate|constructor].
    + (* not a property: a section, or unknown *)
      assert (NoProp : forall i f t, nth_error tbl i = Some f -> f_path f = pre ++ k :: t -> t <> []).
      { intros i f t H1 H3 ->. pose proof (find_field_nth _ _ _ Hd H1) as Hf. rewrite H3, Ef in Hf. discriminate. }
      assert (Skip : walk tbl pre m = (l, r) ->
        (forall i f t j, nth_error tbl i = Some f -> f_path f = pre ++ k :: t ->
                         lookup_path (MCons k v m) (k :: t) = Some j -> False) ->
        (forall i x, In (i, x) l ->
           exists f rest j, nth_error tbl i = Some f /\ f_path f = pre ++ rest /\ rest <> [] /\
                            lookup_path (MCons k v m) rest = Some j /\ decode (f_kind f) j = Ok x) /\
        (r = WOk -> forall i f rest j, nth_error tbl i = Some f -> f_path f = pre ++ rest ->
           lookup_path (MCons k v m) rest = Some j -> exists x, decode (f_kind f) j = Ok x /\ In (i, x) l) /\
        NoDup (map fst l)).
      { intros H2 Hno. destruct (Tail l r H2) as (A & B & C). repeat split; [| |exact C].
        - intros i x Hin. destruct (A i x Hin) as (f & rest & j & ? & ? & ? & ? & ? & _). eauto 10.
        - intros -> i f rest j H1 H3 H5. destruct rest as [|k0 t]; [cbn in H5; discriminate|].
          destruct (str_eqb k0 k) eqn:Ek.
          + apply str_eqb_eq in Ek. subst k0. exfalso. eapply Hno; eauto.
          + apply str_eqb_neq in Ek. eapply B; eauto. }
      destruct (is_section tbl (pre ++ [k])) eqn:Es.
      * destruct v as [| | | | | |m1]; try (apply Skip; [exact Hw|]; intros i f t j H1 H3 H5;
          pose proof (NoProp i f t H1 H3) as Ht; destruct t as [|k1 t]; [contradiction|];
          cbn in H5; rewrite str_eqb_refl in H5; discriminate).
        (* a section given an object: descend *)
        cbn in Hwfv.
        destruct (walk tbl (pre ++ [k]) m1) as [l1 r1] eqn:E1.
        destruct (IHm m1 eq_refl Hwfv (pre ++ [k]) l1 r1 E1) as (A1 & B1 & C1).
        assert (A1' : forall i x, In (i, x) l1 ->
           exists f rest j, nth_error tbl i = Some f /\ f_path f = pre ++ rest /\ rest <> [] /\
                            lookup_path (MCons k (JObj m1) m) rest = Some j /\ decode (f_kind f) j = Ok x /\
                            (exists t, rest = k :: t)).
        { intros i x Hin. destruct (A1 i x Hin) as (f & rest & j & H1 & H3 & H4 & H5 & H6).
          exists f, (k :: rest), j. rewrite H3, <- app_assoc. repeat split; auto; try discriminate; [|eauto].
          cbn. rewrite str_eqb_refl. destruct rest; [contradiction|]. exact H5. }
        destruct r1.
        -- destruct (walk tbl pre m) as [l2 r2] eqn:E2. inversion Hw; subst l r. clear Hw.
           destruct (Tail l2 r2 eq_refl) as (A & B & C). repeat split.
           ++ intros i x Hin. apply in_app_or in Hin as [Hin|Hin].
              ** destruct (A1' i x Hin) as (f & rest & j & ? & ? & ? & ? & ? & _). eauto 10.
              ** destruct (A i x Hin) as (f & rest & j & ? & ? & ? & ? & ? & _). eauto 10.
           ++ intros -> i f rest j H1 H3 H5. destruct rest as [|k0 t]; [cbn in H5; discriminate|].
              destruct (str_eqb k0 k) eqn:Ek.
              ** apply str_eqb_eq in Ek. subst k0. pose proof (NoProp i f t H1 H3) as Ht.
                 destruct t as [|k1 t]; [contradiction|].
                 assert (H5' : lookup_path m1 (k1 :: t) = Some j).
                 { cbn in H5. rewrite str_eqb_refl in H5. exact H5. }
                 assert (H3' : f_path f = (pre ++ [k]) ++ k1 :: t) by (rewrite H3, <- app_assoc; reflexivity).
                 destruct (B1 eq_refl i f (k1 :: t) j H1 H3' H5') as (x & ? & ?).
                 exists x. split; [assumption|apply in_or_app; left; assumption].
              ** apply str_eqb_neq in Ek. destruct (B eq_refl i f k0 t j H1 H3 Ek H5) as (x & ? & ?).
                 exists x. split; [assumption|apply in_or_app; right; assumption].
           ++ rewrite map_app. apply NoDup_app_intro; [exact C1|exact C|].
              intros i Hi1 Hi2.
              apply in_map_iff in Hi1 as [[i1 x1] [E Hin1]]. cbn in E. subst i1.
              apply in_map_iff in Hi2 as [[i2 x2] [E Hin2]]. cbn in E. subst i2.
              destruct (A1' i x1 Hin1) as (f & rest & j & H1 & H3 & _ & _ & _ & (t & ->)).
              destruct (A i x2 Hin2) as (f' & rest' & j' & H1' & H3' & _ & _ & _ & (k0 & t' & -> & Hk0)).
              rewrite H1 in H1'. inversion H1'; subst f'. rewrite H3 in H3'. apply app_inv_head in H3'.
              inversion H3'. congruence.
        -- inversion Hw; subst l r. repeat split; [|discriminate|exact C1].
           intros i x Hin. destruct (A1' i x Hin) as (f & rest & j & ? & ? & ? & ? & ? & _). eauto 10.
        -- inversion Hw; subst l r. repeat split; [|discriminate|exact C1].
           intros i x Hin. destruct (A1' i x Hin) as (f & rest & j & ? & ? & ? & ? & ? & _). eauto 10.
      * (* unknown key *)
        apply Skip; [exact Hw|]. intros i f t j H1 H3 H5.
        pose proof (NoProp i f t H1 H3) as Ht.
        assert (is_section tbl (pre ++ [k]) = true); [|congruence].
        eapply is_section_true; [eapply nth_error_In; eauto| |exact Ht].
        rewrite H3, <- app_assoc. reflexivity.
Qed.


(* ---------------------------------------------------------------------- *)
(* committing what was staged                                               *)

Definition wf_state (tbl : table) (s : st) : Prop :=
  length (s_props s) = length tbl /\ length (s_log s) = length tbl.

Definition in_b (j : nat) (l : list nat) : bool := existsb (Nat.eqb j) l.

Lemma in_b_In j l : in_b j l = true <-> In j l.
Proof.
  unfold in_b. rewrite existsb_exists. split.
  - intros (x & Hin & E). apply Nat.eqb_eq in E. subst. exact Hin.
  - intros H. exists j. split; [exact H|apply Nat.eqb_refl].
Qed.

Lemma upd_nth_out {A} (g : A -> A) (l : list A) i : nth_error l i = None -> upd_nth i g l = l.
Proof.
  revert i. induction l as [|x l IH]; intros [|i] H; cbn in *; try reflexivity; try discriminate.
  f_equal. apply IH. exact H.
Qed.

Lemma commit_one_facts tbl s i :
  length (s_props s) = length tbl ->
  let s1 := commit_one tbl s i in
  s_props s1 = upd_nth i cp_commit (s_props s) /\
  s_log s1 = match nth_error (s_props s) i with
             | Some p => upd_nth i (fun lg => lg ++ cp_commit_fires p) (s_log s)
             | None => s_log s
             end /\
  s_file s1 = s_file s /\
  s_alive s1 = s_alive s && match nth_error (s_props s) i, nth_error tbl i with
                            | Some p, Some f => forallb (listener_ok (f_path f)) (cp_commit_fires p)
                            | _, _ => true
                            end.
Proof.
  intros Hl. unfold commit_one. destruct (nth_error (s_props s) i) as [p|] eqn:Ep.
  - destruct (nth_error tbl i) as [f|] eqn:Ef.
    + cbn. auto.
    + exfalso. apply nth_error_None in Ef. assert (nth_error (s_props s) i <> None) by congruence.
      apply nth_error_Some in H. lia.
  - cbn. rewrite (upd_nth_out _ _ _ Ep), andb_true_r. auto.
Qed.

Lemma commit_fold tbl : forall (is : list nat) s, NoDup is ->
  length (s_props s) = length tbl -> length (s_log s) = length tbl ->
  let s2 := fold_left (commit_one tbl) is s in
  length (s_props s2) = length tbl /\ length (s_log s2) = length tbl /\ s_file s2 = s_file s /\
  (forall j, nth_error (s_props s2) j =
             if in_b j is then option_map cp_commit (nth_error (s_props s) j) else nth_error (s_props s) j) /\
  (forall j, nth_error (s_log s2) j =
             if in_b j is then
               match nth_error (s_props s) j, nth_error (s_log s) j with
               | Some p, Some lg => Some (lg ++ cp_commit_fires p)
               | _, o => o
               end
             else nth_error (s_log s) j) /\
  s_alive s2 = s_alive s && forallb (fun i => match nth_error (s_props s) i, nth_error tbl i with
                                              | Some p, Some f => forallb (listener_ok (f_path f)) (cp_commit_fires p)
                                              | _, _ => true
                                              end) is.
Proof.
  induction is as [|i is IH]; intros s Hnd Hlp Hll.
  - cbn. rewrite andb_true_r. auto 10.
  - inversion Hnd as [|? ? Hni Hnd']; subst.
    destruct (commit_one_facts tbl s i Hlp) as (Fp & Fl & Ff & Fa).
    set (s1 := commit_one tbl s i) in *.
    assert (Hlp1 : length (s_props s1) = length tbl) by (rewrite Fp, length_upd_nth; exact Hlp).
    assert (Hll1 : length (s_log s1) = length tbl).
    { rewrite Fl. destruct (nth_error (s_props s) i); [rewrite length_upd_nth|]; exact Hll. }
    destruct (IH s1 Hnd' Hlp1 Hll1) as (A & B & C & D & E & F).
    cbn [fold_left]. fold s1.
    assert (P1 : forall j, nth_error (s_props s1) j =
                           if Nat.eqb i j then option_map cp_commit (nth_error (s_props s) j) else nth_error (s_props s) j).
    { intros j. rewrite Fp. apply nth_error_upd_nth. }
    assert (L1 : forall j, nth_error (s_log s1) j =
                           if Nat.eqb i j then
                             match nth_error (s_props s) j, nth_error (s_log s) j with
                             | Some p, Some lg => Some (lg ++ cp_commit_fires p)
                             | _, o => o
                             end
                           else nth_error (s_log s) j).
    { intros j. rewrite Fl. destruct (Nat.eqb i j) eqn:Eij.
      - apply Nat.eqb_eq in Eij. subst j. destruct (nth_error (s_props s) i) as [p|].
        + rewrite nth_error_upd_nth, Nat.eqb_refl. destruct (nth_error (s_log s) i); reflexivity.
        + reflexivity.
      - destruct (nth_error (s_props s) i); [|reflexivity]. rewrite nth_error_upd_nth, Eij. reflexivity. }
    repeat split; try assumption.
    + congruence.
    + intros j. rewrite D, P1. unfold in_b. cbn [existsb]. fold (in_b j is).
      destruct (in_b j is) eqn:Ej.
      * assert (i <> j) by (intros ->; apply in_b_In in Ej; contradiction).
        rewrite orb_true_r. apply Nat.eqb_neq in H. rewrite H. reflexivity.
      * rewrite orb_false_r, Nat.eqb_sym. reflexivity.
    + intros j. rewrite E, L1, P1. unfold in_b. cbn [existsb]. fold (in_b j is).
      destruct (in_b j is) eqn:Ej.
      * assert (i <> j) by (intros ->; apply in_b_In in Ej; contradiction).
        rewrite orb_true_r. apply Nat.eqb_neq in H. rewrite H. reflexivity.
      * rewrite orb_false_r, Nat.eqb_sym. reflexivity.
    + rewrite F, Fa, <- andb_assoc. f_equal. cbn [forallb]. f_equal.
      apply forallb_ext_in. intros k Hk. rewrite P1.
      assert (i <> k) by (intros ->; contradiction). apply Nat.eqb_neq in H. rewrite H. reflexivity.
Qed.


(* ---------------------------------------------------------------------- *)
(* an accepted update                                                       *)

Lemma app_at_none {A B} (G : B -> A -> A) j (l : list (nat * B)) : forall p,
  ~ In j (map fst l) -> app_at G j l p = p.
Proof.
  induction l as [|[i b] l IH]; intros p H; [reflexivity|].
  rewrite app_at_cons. cbn in H. destruct (Nat.eqb i j) eqn:E.
  - apply Nat.eqb_eq in E. exfalso. apply H. left. exact E.
  - apply IH. intros Hin. apply H. right. exact Hin.
Qed.

Lemma app_at_unique {A B} (G : B -> A -> A) j (l : list (nat * B)) x : forall p,
  NoDup (map fst l) -> In (j, x) l -> app_at G j l p = G x p.
Proof.
  induction l as [|[i b] l IH]; intros p Hnd Hin; [contradiction|].
  rewrite app_at_cons. cbn in Hnd. inversion Hnd as [|? ? Hni Hnd']; subst.
  destruct Hin as [Hin|Hin].
  - inversion Hin; subst. rewrite Nat.eqb_refl. apply app_at_none. exact Hni.
  - assert (i <> j). { intros ->. apply Hni. apply in_map_iff. exists (j, x). auto. }
    apply Nat.eqb_neq in H. rewrite H. apply IH; assumption.
Qed.

Lemma update_accepted_shape tbl s doc fault wlen s' stt :
  update tbl s doc fault wlen = Ok (s', stt) -> stt <> Failed ->
  exists l, walk tbl [] doc = (l, WOk) /\
    let ps := stage_all l (s_props s) in
    verify_view tbl (pending_eff ps) = true /\ verify_view tbl (pending_saved ps) = true /\
    s' = fold_left (commit_one tbl) (map fst l)
           {| s_props := ps; s_log := s_log s; s_file := FGood (pending_saved ps);
              s_restart := s_restart s; s_alive := s_alive s |}.
Proof.
  unfold ConfigTxn.update. destruct (walk tbl [] doc) as [l r].
  destruct r.
  - destruct (verify_view tbl (pending_eff (stage_all l (s_props s)))) eqn:E1;
      [destruct (verify_view tbl (pending_saved (stage_all l (s_props s)))) eqn:E2|]; cbn [andb].
    + destruct (write_ok fault wlen).
      * intros H _. exists l. inversion H. auto.
      * intros H Hn. inversion H; subst. contradiction.
    + intros H Hn. inversion H; subst. contradiction.
    + intros H Hn. inversion H; subst. contradiction.
  - intros H Hn. inversion H; subst. contradiction.
  - discriminate.
Qed.

Definition committed_to (x : fval) (p : cprop fval) : cprop fval :=
  {| c_committed := {| o_value := x; o_over := o_over (c_committed p) |}; c_staged := None |}.

Lemma nth_error_lt {A} (l : list A) i : (i < length l)%nat -> exists x, nth_error l i = Some x.
Proof.
  intros H. destruct (nth_error l i) eqn:E; [eauto|]. apply nth_error_None in E. lia.
Qed.

Lemma read_commit_pending (q : cprop fval) : cp_read (cp_commit q) = ow_get (cp_pending q).
Proof. destruct q as [c [o|]]; reflexivity. Qed.

Lemma commit_settled (q : cprop fval) : c_staged (cp_commit q) = None.
Proof. destruct q as [c [o|]]; reflexivity. Qed.

Theorem accept_exact tbl s doc fault wlen s' stt :
  table_ok tbl = true -> wf_jmap doc = true -> wf_state tbl s -> settled s ->
  update tbl s doc fault wlen = Ok (s', stt) -> stt <> Failed ->
  (forall i f, nth_error tbl i = Some f ->
     match lookup_path doc (f_path f) with
     | Some j => exists x p lg, decode (f_kind f) j = Ok x /\
                   nth_error (s_props s) i = Some p /\ nth_error (s_log s) i = Some lg /\
                   nth_error (s_props s') i = Some (committed_to x p) /\
                   nth_error (s_log s') i = Some (lg ++ [cp_read (committed_to x p)])
     | None => nth_error (s_props s') i = nth_error (s_props s) i /\
               nth_error (s_log s') i = nth_error (s_log s) i
     end) /\
  s_file s' = FGood (bases s') /\ load tbl (s_file s') = Ok (bases s') /\
  verify_view tbl (effective s') = true /\ verify_view tbl (bases s') = true /\
  settled s' /\ wf_state tbl s' /\ s_alive s' = s_alive s.
Proof.
  intros Htbl Hdoc [Hlp Hll] Hset Hup Hnf.
  pose proof (table_ok_distinct _ Htbl) as Hd.
  pose proof (table_ok_nonempty _ Htbl) as Hne.
  destruct (update_accepted_shape _ _ _ _ _ _ _ Hup Hnf) as (l & Hw & Hve & Hvs & Hs').
  destruct (walk_entries tbl Hd Hne doc Hdoc [] l WOk Hw) as (WA & WB & WC).
  specialize (WB eq_refl).
  set (ps := stage_all l (s_props s)) in *.
  set (s1 := {| s_props := ps; s_log := s_log s; s_file := FGood (pending_saved ps);
                s_restart := s_restart s; s_alive := s_alive s |}) in *.
  assert (Hlps : length ps = length tbl).
  { unfold ps, stage_all. rewrite (length_fold_upd (fun x p => fst (cp_stage x p))). exact Hlp. }
  destruct (commit_fold tbl (map fst l) s1 WC Hlps Hll) as (CA & CB & CC & CD & CE & CF).
  rewrite <- Hs' in *. cbn [s_props s_log s_file s_alive s1] in CC, CD, CE, CF.
  assert (Hps : forall j, nth_error ps j = option_map (app_at (fun x p => fst (cp_stage x p)) j l) (nth_error (s_props s) j)).
  { intros j. unfold ps, stage_all. apply (nth_error_fold_upd (fun x p => fst (cp_stage x p))). }
  assert (Hsettled_at : forall j p, nth_error (s_props s) j = Some p -> c_staged p = None).
  { intros j p Hj. unfold settled in Hset. rewrite Forall_forall in Hset. apply Hset. eapply nth_error_In; eauto. }
  (* the two kinds of index *)
  assert (In_l : forall j x, In (j, x) l -> in_b j (map fst l) = true).
  { intros j x Hin. apply in_b_In. apply in_map_iff. exists (j, x). auto. }
  assert (Staged : forall j x p, In (j, x) l -> nth_error (s_props s) j = Some p ->
                                 nth_error ps j = Some (fst (cp_stage x p))).
  { intros j x p Hin Hj. rewrite Hps, Hj. cbn [option_map]. f_equal.
    apply (app_at_unique (fun (x : fval) (p : cprop fval) => fst (cp_stage x p))); assumption. }
  assert (Untouched : forall j, ~ In j (map fst l) -> nth_error ps j = nth_error (s_props s) j).
  { intros j Hn. rewrite Hps. destruct (nth_error (s_props s) j); [|reflexivity]. cbn [option_map].
    f_equal. apply app_at_none. exact Hn. }
  assert (Not_l : forall j, ~ In j (map fst l) -> in_b j (map fst l) = false).
  { intros j Hn. destruct (in_b j (map fst l)) eqn:E; [|reflexivity]. apply in_b_In in E. contradiction. }
  (* bases and effective values of the result are the pending views that were verified *)
  assert (Hbases : bases s' = pending_saved ps).
  { unfold bases, pending_saved. apply map_nth_ext. intros j. rewrite CD.
    destruct (in_b j (map fst l)); [|reflexivity].
    destruct (nth_error ps j); [|reflexivity]. cbn [option_map]. rewrite marshal_commit. reflexivity. }
  assert (Heff : effective s' = pending_eff ps).
  { unfold effective, pending_eff. apply nth_error_ext. intros j. rewrite !nth_error_map, CD.
    destruct (in_b j (map fst l)) eqn:Ej.
    - destruct (nth_error ps j); [|reflexivity]. cbn [option_map]. rewrite read_commit_pending. reflexivity.
    - assert (~ In j (map fst l)) by (intros Hin; apply in_b_In in Hin; congruence).
      rewrite (Untouched j H). destruct (nth_error (s_props s) j) as [p|] eqn:Ep; [|reflexivity].
      cbn [option_map]. unfold cp_read, cp_pending. rewrite (Hsettled_at j p Ep). reflexivity. }
  split; [|split; [|split; [|split; [|split; [|split; [|split]]]]]].
  - (* setting by setting *)
    intros i f Hi.
    assert (Hilt : (i < length tbl)%nat) by (apply nth_error_Some; congruence).
    destruct (nth_error_lt (s_props s) i ltac:(lia)) as [p Hp].
    destruct (nth_error_lt (s_log s) i ltac:(lia)) as [lg Hlg].
    destruct (lookup_path doc (f_path f)) as [jv|] eqn:El.
    + destruct (WB i f (f_path f) jv Hi eq_refl El) as (x & Hdec & Hin).
      exists x, p, lg. repeat split; try assumption.
      * rewrite CD, (In_l i x Hin), (Staged i x p Hin Hp). reflexivity.
      * rewrite CE, (In_l i x Hin), (Staged i x p Hin Hp), Hlg. reflexivity.
    + assert (Hn : ~ In i (map fst l)).
      { intros Hin. apply in_map_iff in Hin as [[i' x] [E Hin]]. cbn in E. subst i'.
        destruct (WA i x Hin) as (f' & rest & jv & H1 & H2 & _ & H4 & _).
        rewrite Hi in H1. inversion H1; subst f'. cbn in H2. rewrite H2 in El. congruence. }
      rewrite CD, CE, (Not_l i Hn), (Untouched i Hn). auto.
  - rewrite CC, Hbases. reflexivity.
  - rewrite CC. unfold ConfigTxn.load. rewrite <- Hbases.
    assert (El : (length (bases s') =? length tbl)%nat = true).
    { apply Nat.eqb_eq. unfold bases. rewrite map_length. exact CA. }
    rewrite El, Hbases, Hvs. reflexivity.
  - rewrite Heff. exact Hve.
  - rewrite Hbases. exact Hvs.
  - unfold settled. apply Forall_forall. intros q Hq. apply In_nth_error in Hq as [j Hj].
    rewrite CD in Hj. destruct (in_b j (map fst l)) eqn:Ej.
    + destruct (nth_error ps j); [|discriminate]. cbn in Hj. inversion Hj. apply commit_settled.
    + assert (~ In j (map fst l)) by (intros Hin; apply in_b_In in Hin; congruence).
      rewrite (Untouched j H) in Hj. eapply Hsettled_at; eauto.
  - split; assumption.
  - rewrite CF. replace (forallb _ (map fst l)) with true; [apply andb_true_r|]. symmetry.
    apply forallb_forall. intros i Hi. apply in_map_iff in Hi as [[i' x] [E Hin]]. cbn in E. subst i'.
    destruct (WA i x Hin) as (f & rest & jv & Hf & _).
    assert (Hilt : (i < length tbl)%nat) by (apply nth_error_Some; congruence).
    destruct (nth_error_lt (s_props s) i ltac:(lia)) as [p Hp].
    rewrite (Staged i x p Hin Hp), Hf. cbn [cp_stage fst cp_commit_fires c_staged forallb]. rewrite andb_true_r.
    unfold listener_ok. destruct (path_eqb (f_path f) p_cleanup_interval) eqn:Epath; [|reflexivity].
    apply path_eqb_eq in Epath.
    (* the value told is the pending effective value that verify has seen *)
    assert (Hget : get tbl (pending_eff ps) p_cleanup_interval =
                   Some (ow_get {| o_value := x; o_over := o_over (c_committed p) |})).
    { unfold get. rewrite <- Epath, (find_field_nth _ _ _ Hd Hf). unfold pending_eff.
      rewrite nth_error_map, (Staged i x p Hin Hp). reflexivity. }
    unfold ConfigTxn.verify_view, verify_cache in Hve.
    repeat match goal with H : _ && _ = true |- _ => apply andb_true_iff in H; destruct H end.
    match goal with H : is_z (get tbl (pending_eff ps) p_cleanup_interval) _ = true |- _ => rewrite Hget in H; unfold is_z in H end.
    destruct (ow_get _) as [| |d]; try discriminate. unfold ticker.
    match goal with H : (0 <? d) = true |- _ => apply Z.ltb_lt in H; destruct (d <=? 0) eqn:Ed; [lia|reflexivity] end.
Qed.


(* ---------------------------------------------------------------------- *)
(* every reachable state of a running process                               *)

(* nothing in flight, and the file is exactly what the next start will load: the saved values *)
Definition inv (tbl : table) (s : st) : Prop :=
  wf_state tbl s /\ settled s /\ s_file s = FGood (bases s) /\ load tbl (s_file s) = Ok (bases s).

Definition docs_wf (ops : list op) : Prop :=
  forall m fault wlen, In (OUpdate (Some m) fault wlen) ops -> wf_jmap m = true.

(* the command-line overrides of the history do not themselves bring a listener down *)
Definition harmless (tbl : table) (ops : list op) : bool :=
  forallb (fun o => match o with
                    | OOverride i v => match nth_error tbl i with Some f => listener_ok (f_path f) v | None => true end
                    | _ => true
                    end) ops.

Lemma fresh_inv tbl vs f :
  length vs = length tbl -> f = FGood vs -> load tbl f = Ok vs -> inv tbl (fresh vs f) /\ s_alive (fresh vs f) = true.
Proof.
  intros Hl -> Hload. unfold inv, wf_state, fresh, settled, bases. cbn [s_props s_log s_file s_alive].
  rewrite !map_length, map_map.
  assert (E : map (fun x : fval => cp_marshal (cp_new x)) vs = vs).
  { clear. induction vs as [|v vs IH]; [reflexivity|]. cbn. f_equal. exact IH. }
  rewrite E. repeat split; auto.
  apply Forall_forall. intros p Hp. apply in_map_iff in Hp as (v & <- & _). reflexivity.
Qed.

Lemma load_length tbl f vs : load tbl f = Ok vs -> length vs = length tbl /\ f = FGood vs.
Proof.
  unfold ConfigTxn.load. destruct f as [ws| |]; try discriminate.
  destruct ((length ws =? length tbl)%nat) eqn:E; [|discriminate]. cbn [andb].
  destruct (verify_view tbl ws); [|discriminate]. intros H. inversion H; subst.
  apply Nat.eqb_eq in E. auto.
Qed.

Theorem start_inv tbl f :
  load tbl (FGood (defaults tbl)) = Ok (defaults tbl) ->
  inv tbl (start tbl f) /\ s_alive (start tbl f) = true.
Proof.
  intros Hdef. unfold ConfigTxn.start.
  destruct (load tbl f) as [vs| |] eqn:E.
  - destruct (load_length _ _ _ E) as [Hl Hf]. apply fresh_inv; assumption.
  - apply fresh_inv; auto. unfold defaults. apply map_length.
  - apply fresh_inv; auto. unfold defaults. apply map_length.
Qed.

Lemma override_inv tbl s i v :
  inv tbl s -> inv tbl (override tbl s i v) /\
  s_alive (override tbl s i v) = s_alive s && match nth_error tbl i with Some f => listener_ok (f_path f) v | None => true end.
Proof.
  intros ((Hlp & Hll) & Hset & Hfile & Hload). unfold override.
  destruct (nth_error (s_props s) i) as [p|] eqn:Ep.
  - destruct (nth_error tbl i) as [f|] eqn:Ef.
    + assert (Hb : map cp_marshal (upd_nth i (fun p0 : cprop fval => fst (cp_overwrite v p0)) (s_props s)) = bases s).
      { unfold bases. apply map_nth_ext. intros j. rewrite nth_error_upd_nth.
        destruct (Nat.eqb i j); [|reflexivity]. destruct (nth_error (s_props s) j) as [[c [o|]]|]; reflexivity. }
      unfold inv, wf_state, settled, bases in *. cbn [s_props s_log s_file s_alive]. rewrite !length_upd_nth, Hb.
      repeat split; auto.
      apply Forall_forall. intros q Hq. apply In_nth_error in Hq as [j Hj].
      rewrite nth_error_upd_nth in Hj. unfold settled in Hset. rewrite Forall_forall in Hset.
      destruct (Nat.eqb i j).
      * destruct (nth_error (s_props s) j) as [q0|] eqn:Eq; [|discriminate]. cbn in Hj. inversion Hj. cbn.
        apply Hset. eapply nth_error_In; eauto.
      * apply Hset. eapply nth_error_In; eauto.
    + exfalso. apply nth_error_None in Ef. assert (nth_error (s_props s) i <> None) by congruence.
      apply nth_error_Some in H. lia.
  - assert (Ef : nth_error tbl i = None).
    { apply nth_error_None. apply nth_error_None in Ep. lia. }
    rewrite Ef, andb_true_r. unfold inv, wf_state. auto.
Qed.

Lemma update_opt_inv tbl s doc fault wlen :
  table_ok tbl = true -> inv tbl s -> (forall m, doc = Some m -> wf_jmap m = true) ->
  exists s' stt, update_opt tbl s doc fault wlen = Ok (s', stt) /\ inv tbl s' /\ s_alive s' = s_alive s.
Proof.
  intros Htbl Hinv Hwf. destruct doc as [m|]; cbn.
  - destruct (update tbl s m fault wlen) as [[s' stt]| |] eqn:E.
    + exists s', stt. split; [reflexivity|].
      destruct Hinv as (Hwfs & Hset & Hfile & Hload).
      destruct stt.
      * destruct (reject_is_noop _ _ _ _ _ _ E) as (_ & _ & _ & _ & _ & _ & Hsame).
        rewrite (Hsame Hset). unfold inv. auto.
      * destruct (accept_exact _ _ _ _ _ _ _ Htbl (Hwf m eq_refl) Hwfs Hset E ltac:(discriminate))
          as (_ & A & B & _ & _ & C & D & F). unfold inv. auto.
      * destruct (accept_exact _ _ _ _ _ _ _ Htbl (Hwf m eq_refl) Hwfs Hset E ltac:(discriminate))
          as (_ & A & B & _ & _ & C & D & F). unfold inv. auto.
    + exfalso. unfold ConfigTxn.update in E. destruct (walk tbl [] m) as [l r]. destruct r; try discriminate.
      destruct (_ && _); [destruct (write_ok fault wlen)|]; discriminate.
    + exfalso. exact (update_total _ _ _ _ _ E).
  - exists s, Failed. auto.
Qed.

Theorem history_inv tbl : table_ok tbl = true ->
  forall ops s, inv tbl s -> docs_wf ops ->
  exists s', run tbl s ops = Ok s' /\ inv tbl s' /\ s_alive s' = s_alive s && harmless tbl ops.
Proof.
  intros Htbl. induction ops as [|o ops IH]; intros s Hinv Hdocs.
  - exists s. cbn. rewrite andb_true_r. auto.
  - assert (Hdocs' : docs_wf ops).
    { intros m fault wlen Hin. eapply Hdocs. right. exact Hin. }
    destruct o as [doc fault wlen|i v]; cbn [ConfigTxn.run ConfigTxn.step harmless forallb].
    + destruct (update_opt_inv tbl s doc fault wlen Htbl Hinv) as (s1 & stt & E & Hinv1 & Hal).
      { intros m ->. eapply Hdocs. left. reflexivity. }
      rewrite E. cbn [res_bind].
      destruct (IH s1 Hinv1 Hdocs') as (s' & Hr & Hi & Ha). exists s'. split; [exact Hr|split; [exact Hi|]].
      rewrite Ha, Hal. reflexivity.
    + cbn [res_bind]. destruct (override_inv tbl s i v Hinv) as [Hinv1 Hal].
      destruct (IH _ Hinv1 Hdocs') as (s' & Hr & Hi & Ha). exists s'. split; [exact Hr|split; [exact Hi|]].
      rewrite Ha, Hal. fold (harmless tbl ops). rewrite andb_assoc. reflexivity.
Qed.


Theorem history_from_start tbl :
  table_ok tbl = true ->
  load tbl (FGood (defaults tbl)) = Ok (defaults tbl) ->
  forall (f0 : file) (ops : list op), docs_wf ops ->
  exists s, run tbl (start tbl f0) ops = Ok s /\ inv tbl s /\ s_alive s = harmless tbl ops.
Proof.
  intros Htbl Hdef f0 ops Hdocs.
  destruct (start_inv tbl f0 Hdef) as [Hinv Halive].
  destruct (history_inv tbl Htbl ops _ Hinv Hdocs) as (s & Hr & Hi & Ha).
  exists s. rewrite Halive in Ha. exact (conj Hr (conj Hi Ha)).
Qed.

(* the configuration slice of C16 under its planned name *)
Definition config_update_total := update_opt_total.

End Txn.
