(* Every operation of the access table obeys the lockset discipline, for every
   key -> shard map; hence no interleaving of any number of table operations
   contains a data race (Proofs/Race.v: lockset_sound). *)
From Reservoir Require Import Base.Prelude Model.Sync Model.Race Model.RaceTable Proofs.Sync Proofs.Race.
From Coq Require Import Arith PeanoNat Lia.

Local Open Scope nat_scope.

Lemma dec_enc x : dec (enc x) = x.
Proof.
  destruct x as [| |k|e|m]; try reflexivity.
  - unfold enc, dec. destruct (3 * k + 2) as [|[|n]] eqn:E; try lia.
    replace (S (S n) - 2) with (k * 3) by lia.
    rewrite Nat.mod_mul, Nat.div_mul by lia. reflexivity.
  - unfold enc, dec. destruct (3 * e + 3) as [|[|n]] eqn:E; try lia.
    replace (S (S n) - 2) with (1 + e * 3) by lia.
    rewrite Nat.mod_add, Nat.div_add by lia. reflexivity.
  - unfold enc, dec. destruct (3 * m + 4) as [|[|n]] eqn:E; try lia.
    replace (S (S n) - 2) with (2 + m * 3) by lia.
    rewrite Nat.mod_add, Nat.div_add by lia. reflexivity.
Qed.

Lemma hl_eqb_refl x : hl_eqb x x = true.
Proof. apply hl_eqb_eq. reflexivity. Qed.

Lemma hmem_head x h : hmem x (x :: h) = true.
Proof. simpl. rewrite hl_eqb_refl. reflexivity. Qed.

Lemma hremove1_head x h : hremove1 x (x :: h) = h.
Proof. simpl. rewrite hl_eqb_refl. reflexivity. Qed.

Section Table.
  Variable sh : nat -> nat.
  Notation Gs := (G sh).

  Lemma g_choice h a b : guarded Gs h (RChoice a b) = guarded Gs h a && guarded Gs h b.
  Proof. reflexivity. Qed.
  Lemma g_acq h l m k : guarded Gs h (RAcq l m k) = guarded Gs ((l, m) :: h) k.
  Proof. reflexivity. Qed.
  Lemma g_try h l m a b : guarded Gs h (RTry l m a b) = guarded Gs ((l, m) :: h) a && guarded Gs h b.
  Proof. reflexivity. Qed.
  Lemma g_step h k : guarded Gs h (RStep k) = guarded Gs h k.
  Proof. reflexivity. Qed.
  Ltac gstep := first [rewrite g_acq | rewrite g_choice | rewrite g_try | rewrite g_step].

  (* an access whose guard is at the head of the held list *)
  Lemma acc_read_head x m h k :
    guarded Gs ((guard_of sh x, m) :: h) k = true ->
    guarded Gs ((guard_of sh x, m) :: h) (acc x false k) = true.
  Proof.
    intros Hk. unfold acc. cbn [guarded]. unfold G at 1. rewrite dec_enc.
    destruct m; rewrite hmem_head; rewrite ?orb_true_r; simpl; exact Hk.
  Qed.

  Lemma acc_write_head x h k :
    guarded Gs ((guard_of sh x, MW) :: h) k = true ->
    guarded Gs ((guard_of sh x, MW) :: h) (acc x true k) = true.
  Proof.
    intros Hk. unfold acc. cbn [guarded]. unfold G at 1. rewrite dec_enc.
    rewrite hmem_head. simpl. exact Hk.
  Qed.

  Lemma acq_rel l m h body cont :
    (forall c, guarded Gs ((l, m) :: h) c = true -> guarded Gs ((l, m) :: h) (body c) = true) ->
    guarded Gs h cont = true ->
    guarded Gs h (RAcq l m (body (RRel l m cont))) = true.
  Proof.
    intros Hb Hc. cbn [guarded]. apply Hb. cbn [guarded].
    rewrite hmem_head, hremove1_head. simpl. exact Hc.
  Qed.

  Lemma lookup_guarded h cont : guarded Gs h cont = true -> guarded Gs h (lookup cont) = true.
  Proof.
    intros Hc. unfold lookup.
    apply (acq_rel Mu MR h (fun c => acc LMapC false c)); [|exact Hc].
    intros c Hcc. apply (acc_read_head LMapC MR h c Hcc).
  Qed.

  Lemma rel_head l m h cont : guarded Gs h cont = true -> guarded Gs ((l, m) :: h) (RRel l m cont) = true.
  Proof. intros Hc. cbn [guarded]. rewrite hmem_head, hremove1_head. exact Hc. Qed.

  Lemma remove_entry_guarded k' h cont :
    guarded Gs ((shard_of sh k', MW) :: h) cont = true ->
    guarded Gs ((shard_of sh k', MW) :: h) (remove_entry k' cont) = true.
  Proof.
    intros Hc. unfold remove_entry. gstep.
    apply (acc_read_head LMapC MW). gstep.
    apply andb_true_iff. split.
    - apply rel_head. exact Hc.
    - apply (acc_write_head LMapC). apply rel_head.
      apply (acc_read_head (LMeta k') MW h cont Hc).
  Qed.

  Lemma scan_guarded ks : forall h cont,
    guarded Gs h cont = true -> guarded Gs h (scan sh ks cont) = true.
  Proof.
    induction ks as [|k' r IH]; intros h cont Hc; cbn [scan]; [exact Hc|].
    gstep. apply andb_true_iff. split; [|apply IH; exact Hc].
    apply (acc_read_head (LMeta k') MR). apply rel_head. apply IH. exact Hc.
  Qed.

  Lemma snapshot_guarded ks h cont :
    guarded Gs h cont = true -> guarded Gs h (snapshot sh ks cont) = true.
  Proof.
    intros Hc. unfold snapshot.
    apply (acq_rel Mu MR h (fun c => acc LMapC false c)).
    - intros c Hcc. apply (acc_read_head LMapC MR h c Hcc).
    - apply scan_guarded. exact Hc.
  Qed.

  Lemma remove_loop_guarded vs : forall h cont,
    guarded Gs h cont = true -> guarded Gs h (remove_loop sh vs cont) = true.
  Proof.
    induction vs as [|v r IH]; intros h cont Hc; cbn [remove_loop]; [exact Hc|].
    gstep. rewrite Hc, andb_true_l.
    apply andb_true_iff. split; [|apply IH; exact Hc].
    apply lookup_guarded. apply (acc_read_head (LMeta v) MW). gstep.
    apply andb_true_iff. split.
    - apply remove_entry_guarded. apply rel_head. apply IH. exact Hc.
    - apply rel_head. apply IH. exact Hc.
  Qed.

  Lemma evict_guarded ks vs h cont :
    guarded Gs h cont = true -> guarded Gs h (evict sh ks vs cont) = true.
  Proof.
    intros Hc. unfold evict. apply lookup_guarded. apply snapshot_guarded. apply remove_loop_guarded. exact Hc.
  Qed.

  Lemma insert_guarded k h cont :
    guarded Gs ((shard_of sh k, MW) :: h) cont = true ->
    guarded Gs ((shard_of sh k, MW) :: h) (insert k cont) = true.
  Proof.
    intros Hc. unfold insert. gstep.
    apply (acc_read_head LMapC MW). apply (acc_write_head LMapC). apply rel_head.
    gstep. rewrite Hc, andb_true_l. apply (acc_read_head (LMeta k) MW h cont Hc).
  Qed.

  Lemma memcap_read_guarded h cont :
    guarded Gs h cont = true -> guarded Gs h (read_memcap cont) = true.
  Proof.
    intros Hc. unfold read_memcap. apply (acq_rel Mu MR h (fun c => acc LMemCap false c)); [|exact Hc].
    intros c Hcc. apply (acc_read_head LMemCap MR h c Hcc).
  Qed.

  Lemma crit_guarded e body h cont :
    (forall c, guarded Gs ((ev_lock e, MW) :: h) c = true -> guarded Gs ((ev_lock e, MW) :: h) (body c) = true) ->
    guarded Gs h cont = true -> guarded Gs h (crit e body cont) = true.
  Proof. intros Hb Hc. unfold crit. apply acq_rel; assumption. Qed.

  Lemma deliver_guarded e n : guarded Gs [] (op_deliver e n) = true.
  Proof.
    induction n as [|n IH]; cbn [op_deliver]; apply crit_guarded; try reflexivity.
    - intros c Hc. apply (acc_read_head (LSubs e) MW). apply (acc_write_head (LSubs e)). exact Hc.
    - intros c Hc. apply (acc_read_head (LSubs e) MW). apply (acc_write_head (LSubs e)). exact Hc.
    - gstep. exact IH.
  Qed.

  Lemma gc_loop_guarded m n : guarded Gs [] (op_session_gc_loop m n) = true.
  Proof.
    induction n as [|n IH]; cbn [op_session_gc_loop]; [reflexivity|].
    gstep. rewrite IH, andb_true_l.
    apply (acc_write_head (LSyncMap m)). apply rel_head. exact IH.
  Qed.

  Theorem table_guarded p : table_op sh p -> guarded Gs [] p = true.
  Proof.
    intros H. destruct H.
    - (* get *) unfold op_get. gstep. apply lookup_guarded. gstep.
      apply andb_true_iff. split; [apply rel_head; reflexivity|].
      apply (acc_read_head (LMeta k) MW). apply (acc_write_head (LMeta k)).
      apply (acc_read_head (LMeta k) MW). apply rel_head. reflexivity.
    - (* update *) unfold op_update. gstep. apply lookup_guarded. gstep.
      apply andb_true_iff. split; [apply rel_head; reflexivity|].
      apply (acc_write_head (LMeta k)). apply (acc_write_head (LMeta k)). apply rel_head. reflexivity.
    - (* delete *) unfold op_delete. gstep. apply remove_entry_guarded. apply rel_head. reflexivity.
    - (* store, memory *) unfold op_store_memory. cbv zeta. gstep. apply memcap_read_guarded. gstep.
      apply andb_true_iff. split.
      + apply insert_guarded. apply rel_head. reflexivity.
      + apply evict_guarded. apply memcap_read_guarded. gstep.
        apply andb_true_iff. split; [apply rel_head; reflexivity|].
        apply insert_guarded. apply rel_head. reflexivity.
    - (* store, file *) unfold op_store_file. gstep.
      assert (Hst : guarded Gs [] (RAcq (shard_of sh k) MW (RChoice (RRel (shard_of sh k) MW RDone)
                       (insert k (RRel (shard_of sh k) MW RDone)))) = true).
      { gstep. gstep. apply andb_true_iff. split; [apply rel_head; reflexivity|].
        apply insert_guarded. apply rel_head. reflexivity. }
      apply andb_true_iff. split; [exact Hst|]. apply evict_guarded. exact Hst.
    - (* janitor cycle *) unfold op_janitor_cycle. apply snapshot_guarded. apply remove_loop_guarded.
      gstep. rewrite andb_true_l. apply evict_guarded. reflexivity.
    - (* memory budget listener *) unfold op_budget_listener.
      apply (acq_rel Mu MW [] (fun c => acc LMemCap true (acc LMemCap false c))); [|reflexivity].
      intros c Hc. apply (acc_write_head LMemCap). apply (acc_read_head LMemCap MW [] c Hc).
    - (* subscribe *) unfold op_subscribe. apply crit_guarded; [|reflexivity].
      intros c Hc. apply (acc_write_head (LSubs e)). exact Hc.
    - (* unsubscribe *) unfold op_unsubscribe. apply crit_guarded; [|reflexivity].
      intros c Hc. apply (acc_write_head (LSubs e)). apply (acc_read_head (LSubs e) MW).
      apply (acc_write_head (LSubs e)). exact Hc.
    - (* fire *) unfold op_fire. apply crit_guarded; [|reflexivity].
      intros c Hc. apply (acc_read_head (LSubs e) MW). apply (acc_write_head (LSubs e)). exact Hc.
    - apply deliver_guarded.
    - (* syncmap get *) unfold op_sm_get. apply (acq_rel (sm_lock m) MR [] (fun c => acc (LSyncMap m) false c)); [|reflexivity].
      intros c Hc. apply (acc_read_head (LSyncMap m) MR [] c Hc).
    - (* set *) unfold op_sm_set. apply (acq_rel (sm_lock m) MW [] (fun c => acc (LSyncMap m) true c)); [|reflexivity].
      intros c Hc. apply (acc_write_head (LSyncMap m)). exact Hc.
    - (* getorset *) unfold op_sm_getorset. gstep. apply (acc_read_head (LSyncMap m) MW). gstep.
      apply andb_true_iff. split; [apply rel_head; reflexivity|].
      apply (acc_write_head (LSyncMap m)). apply rel_head. reflexivity.
    - (* iterate *) unfold op_sm_iterate. apply (acq_rel (sm_lock m) MR [] (fun c => acc (LSyncMap m) false c)); [|reflexivity].
      intros c Hc. apply (acc_read_head (LSyncMap m) MR [] c Hc).
    - (* get session *) unfold op_get_session.
      apply (acq_rel (sm_lock m) MR [] (fun c => acc (LSyncMap m) false c)).
      + intros c Hc. apply (acc_read_head (LSyncMap m) MR [] c Hc).
      + gstep. rewrite andb_true_l. apply (acc_write_head (LSyncMap m)). apply rel_head. reflexivity.
    - (* session gc *) unfold op_session_gc.
      apply (acq_rel (sm_lock m) MR [] (fun c => acc (LSyncMap m) false c)).
      + intros c Hc. apply (acc_read_head (LSyncMap m) MR [] c Hc).
      + apply gc_loop_guarded.
    - (* get cert *) unfold op_get_cert.
      assert (Hset : guarded Gs [] (RAcq (sm_lock m) MW (acc (LSyncMap m) true (RRel (sm_lock m) MW RDone))) = true).
      { gstep. apply (acc_write_head (LSyncMap m)). apply rel_head. reflexivity. }
      apply (acq_rel (sm_lock m) MR [] (fun c => acc (LSyncMap m) false c)).
      + intros c Hc. apply (acc_read_head (LSyncMap m) MR [] c Hc).
      + gstep. rewrite andb_true_l. apply andb_true_iff. split.
        * apply (acc_write_head (LSyncMap m)). apply rel_head. gstep. exact Hset.
        * exact Hset.
  Qed.

  Theorem table_race_free ps sched s' :
    (forall p, In p ps -> table_op sh p) ->
    rrun (rspawn ps) sched = Some s' -> has_race s' = false.
  Proof.
    intros Ht Hrun. apply (lockset_sound Gs ps sched s'); [|exact Hrun].
    apply forallb_forall. intros p Hp. apply table_guarded. apply Ht. exact Hp.
  Qed.
End Table.
