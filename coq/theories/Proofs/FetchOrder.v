From Reservoir Require Import Base.Prelude Model.FetchOrder.
From Coq Require Import Arith PeanoNat Lia.
Local Open Scope nat_scope.

Definition cached_le (c : option nat) (n : nat) : Prop := match c with Some v => v <= n | None => True end.
Definition head_le (l : list nat) (c : option nat) : Prop :=
  match l, c with x :: _, Some v => x <= v | _ :: _, None => False | [], _ => True end.

(* serialised fetches: at most one outstanding answer, not older than what is stored *)
Definition finv (s : fstate) : Prop :=
  cached_le (f_cached s) (f_origin s) /\
  (f_inflight s = [] \/ exists v, f_inflight s = [v] /\ v <= f_origin s /\ cached_le (f_cached s) v) /\
  monotone_log (f_served s) = true /\ head_le (f_served s) (f_cached s).

Lemma fstep_inv s a s' : fstep true s a = Some s' -> finv s -> finv s'.
Proof.
  intros H [Hc [Hi [Hm Hh]]]. destruct a as [| |i|]; simpl in H.
  - inversion H; subst; unfold finv; simpl. repeat split; auto.
    + destruct (f_cached s); simpl in *; lia.
    + destruct Hi as [Hi|[v [E [Hv Hcv]]]]; [left; exact Hi|right; exists v; repeat split; auto; lia].
  - destruct (f_inflight s) as [|x r] eqn:E; simpl in H; [|discriminate].
    inversion H; subst; unfold finv; simpl. repeat split; auto.
    right. exists (f_origin s). repeat split; auto.
  - destruct (nth_error (f_inflight s) i) as [v|] eqn:E; [|discriminate].
    inversion H; subst; unfold finv; simpl.
    destruct Hi as [Hi|[w [Ew [Hw Hcw]]]]; [rewrite Hi in E; destruct i; discriminate|].
    rewrite Ew in E. destruct i as [|i]; simpl in E; [|destruct i; discriminate]. inversion E; subst w.
    rewrite Ew. simpl. repeat split; auto.
    destruct (f_served s) as [|x r]; simpl in *; auto.
    destruct (f_cached s) as [c|]; simpl in *; [lia|contradiction].
  - destruct (f_cached s) as [v|] eqn:E; [|discriminate].
    inversion H; subst; unfold finv; simpl. repeat split; auto.
    + destruct (f_served s) as [|x r] eqn:Es; [reflexivity|].
      simpl in Hh. cbn [monotone_log] in *. apply andb_true_iff. split; [apply Nat.leb_le; exact Hh|exact Hm].
Qed.

Lemma frun_inv l : forall s s', frun true s l = Some s' -> finv s -> finv s'.
Proof.
  induction l as [|a r IH]; simpl; intros s s' H Inv; [inversion H; subst; exact Inv|].
  destruct (fstep true s a) as [s1|] eqn:E; [|discriminate]. eapply IH; [exact H|eapply fstep_inv; eauto].
Qed.

Theorem serialized_fetches_monotone l s' : frun true f_init l = Some s' -> monotone_log (f_served s') = true.
Proof.
  intros H. assert (I : finv f_init) by (unfold finv, f_init; simpl; repeat split; auto).
  exact (proj1 (proj2 (proj2 (frun_inv l _ _ H I)))).
Qed.

(* two independent fetches: the older answer is stored last and a later request gets the replaced version *)
Theorem unserialized_fetches_refuted :
  exists l s', frun false f_init l = Some s' /\ monotone_log (f_served s') = false.
Proof.
  exists [FBump; FAnswer; FBump; FAnswer; FStore 1; FServe; FStore 0; FServe]. eexists. split; reflexivity.
Qed.
