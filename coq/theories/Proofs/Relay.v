(* Proofs about Model/Relay.v: header maps as finite functions, what
   removeHopByHopHeaders removes and keeps, what SetHeaders copies, what the
   responder holds when a response is written, and the request target. *)
From Reservoir Require Import Base.Prelude Model.Relay.

Ltac sdestruct :=
  repeat match goal with
  | |- context [str_eqb ?a ?b] =>
      let E := fresh "E" in destruct (str_eqb a b) eqn:E; [apply str_eqb_eq in E | apply str_eqb_neq in E]
  end; subst; cbn [negb fst snd]; try congruence.

(* ------------------------------------------------------------------------ *)
(* Header maps read through hraw_get *)
Lemma get_del k k' h : hraw_get k (hraw_del k' h) = if str_eqb k k' then [] else hraw_get k h.
Proof.
  induction h as [|[k0 vs] h IH]; cbn [hraw_del filter hraw_get fst].
  - destruct (str_eqb k k'); reflexivity.
  - fold (hraw_del k' h). destruct (str_eqb k' k0) eqn:E0; cbn [negb].
    + apply str_eqb_eq in E0. subst k0. rewrite IH. destruct (str_eqb k k'); reflexivity.
    + cbn [hraw_get]. rewrite IH. apply str_eqb_neq in E0.
      destruct (str_eqb k k0) eqn:E1; [|reflexivity].
      apply str_eqb_eq in E1. subst k0.
      destruct (str_eqb k k') eqn:E2; [|reflexivity]. apply str_eqb_eq in E2. congruence.
Qed.

Lemma get_put k k' vs h : hraw_get k (hraw_put k' vs h) = if str_eqb k k' then vs else hraw_get k h.
Proof.
  unfold hraw_put. destruct vs as [|v vs].
  - apply get_del.
  - cbn [hraw_get]. rewrite get_del. destruct (str_eqb k k'); reflexivity.
Qed.

Lemma get_hdel k n h : hraw_get k (hdel n h) = if str_eqb k (canon_key n) then [] else hraw_get k h.
Proof. apply get_del. Qed.

Lemma get_hset k n v h : hraw_get k (hset n v h) = if str_eqb k (canon_key n) then [v] else hraw_get k h.
Proof. apply get_put. Qed.

Lemma get_hadd k n v h :
  hraw_get k (hadd n v h) = if str_eqb k (canon_key n) then hraw_get k h ++ [v] else hraw_get k h.
Proof.
  unfold hadd. rewrite get_put. destruct (str_eqb k (canon_key n)) eqn:E; [|reflexivity].
  apply str_eqb_eq in E. subst k. reflexivity.
Qed.

Lemma get_absent k h : existsb (str_eqb k) (hkeys h) = false -> hraw_get k h = [].
Proof.
  induction h as [|[k0 vs] h IH]; cbn [hkeys map existsb hraw_get fst]; [reflexivity|].
  intros H. apply orb_false_iff in H as [H1 H2]. rewrite H1. apply IH. exact H2.
Qed.

Lemma get_fold_del ks : forall h k,
  hraw_get k (fold_left (fun h n => hdel n h) ks h) =
  if existsb (fun n => str_eqb k (canon_key n)) ks then [] else hraw_get k h.
Proof.
  induction ks as [|n ks IH]; intros h k; cbn [fold_left existsb]; [reflexivity|].
  rewrite IH, get_hdel.
  destruct (str_eqb k (canon_key n)); cbn [orb]; [destruct (existsb _ ks); reflexivity | reflexivity].
Qed.

(* ------------------------------------------------------------------------ *)
(* removeHopByHopHeaders as a function on fields *)
Definition removed_by_hop (k : str) (h : hdrs) : bool :=
  existsb (fun n => str_eqb k (canon_key n)) (connection_tokens h) ||
  existsb (fun n => str_eqb k (canon_key n)) hop_headers.

Lemma get_rhbh k h : hraw_get k (remove_hop_by_hop h) = if removed_by_hop k h then [] else hraw_get k h.
Proof.
  unfold remove_hop_by_hop, removed_by_hop. rewrite !get_fold_del.
  destruct (existsb _ hop_headers); [rewrite orb_true_r; reflexivity|].
  rewrite orb_false_r. reflexivity.
Qed.

(* a field is end-to-end for a message with header h when removeHopByHopHeaders leaves it alone *)
Definition end_to_end (n : str) (h : hdrs) : Prop := removed_by_hop (canon_key n) h = false.

(* ... which says: it is none of the nine hop-by-hop fields and no element of a
   Connection value names it (after Go's blank trimming and case folding). *)
Definition element_names (e n : str) : Prop :=
  canon_key (trim_space e) <> [] /\ canon_key (canon_key (trim_space e)) = canon_key n.

Lemma end_to_end_spec n h :
  end_to_end n h <->
  (forall n', In n' hop_headers -> canon_key n' <> canon_key n) /\
  (forall v e, In v (hvalues s_Connection h) -> In e (split_comma v) -> ~ element_names e n).
Proof.
  unfold end_to_end, removed_by_hop. rewrite orb_false_iff. split.
  - intros [H1 H2]. split.
    + intros n' Hin Heq.
      assert (existsb (fun n0 => str_eqb (canon_key n) (canon_key n0)) hop_headers = true) as C.
      { apply existsb_exists. exists n'. split; [exact Hin|]. apply str_eqb_eq. congruence. }
      congruence.
    + intros v e Hv He [Hne Heq].
      assert (existsb (fun n0 => str_eqb (canon_key n) (canon_key n0)) (connection_tokens h) = true) as C.
      { apply existsb_exists. exists (canon_key (trim_space e)). split.
        - unfold connection_tokens. apply filter_In. split.
          + apply in_map_iff. exists e. split; [reflexivity|]. apply in_flat_map. exists v. split; assumption.
          + apply negb_true_iff. apply str_eqb_neq. exact Hne.
        - apply str_eqb_eq. congruence. }
      congruence.
  - intros [H1 H2]. split.
    + destruct (existsb _ (connection_tokens h)) eqn:E; [|reflexivity]. exfalso.
      apply existsb_exists in E as [t [Hin Heq]]. apply str_eqb_eq in Heq.
      unfold connection_tokens in Hin. apply filter_In in Hin as [Hin Hne].
      apply in_map_iff in Hin as [e [Ht Hin]]. apply in_flat_map in Hin as [v [Hv He]].
      apply (H2 v e Hv He). subst t. split.
      * apply negb_true_iff in Hne. apply str_eqb_neq in Hne. exact Hne.
      * congruence.
    + destruct (existsb _ hop_headers) eqn:E; [|reflexivity]. exfalso.
      apply existsb_exists in E as [n' [Hin Heq]]. apply str_eqb_eq in Heq.
      apply (H1 n' Hin). congruence.
Qed.

Lemma rhbh_keeps n h : end_to_end n h -> hvalues n (remove_hop_by_hop h) = hvalues n h.
Proof. unfold end_to_end, hvalues. intros H. rewrite get_rhbh, H. reflexivity. Qed.

Lemma rhbh_removes n h : removed_by_hop (canon_key n) h = true -> hvalues n (remove_hop_by_hop h) = [].
Proof. unfold hvalues. intros H. rewrite get_rhbh, H. reflexivity. Qed.

(* ------------------------------------------------------------------------ *)
(* Case folding: canonical keys identify names that differ only in case *)
Ltac zcases :=
  repeat match goal with
  | |- context [?x <=? ?y] => destruct (Z.leb_spec x y)
  | |- context [?x =? ?y] => destruct (Z.eqb_spec x y)
  | H : context [?x <=? ?y] |- _ => destruct (Z.leb_spec x y)
  | H : context [?x =? ?y] |- _ => destruct (Z.eqb_spec x y)
  end.

Lemma lower_upper_same a b : to_lower a = to_lower b -> to_upper a = to_upper b.
Proof. unfold to_lower, to_upper, is_upper, is_lower. zcases; cbn [andb] in *; lia. Qed.

Lemma lower_lower_same a b : to_lower a = to_lower b -> to_lower (to_lower a) = to_lower (to_lower b).
Proof. congruence. Qed.

Lemma lower_of_upper c : to_lower (to_upper c) = to_lower c.
Proof. unfold to_lower, to_upper, is_upper, is_lower. zcases; cbn [andb] in *; lia. Qed.

Lemma lower_idem c : to_lower (to_lower c) = to_lower c.
Proof. unfold to_lower, is_upper. zcases; cbn [andb] in *; lia. Qed.

Lemma valid_lower c : valid_field_byte (to_lower c) = valid_field_byte c.
Proof.
  unfold to_lower. destruct (is_upper c) eqn:U; [|reflexivity].
  unfold valid_field_byte. rewrite U.
  assert (is_lower (c + 32) = true) as L.
  { unfold is_upper in U. unfold is_lower. zcases; cbn [andb] in *; try discriminate; lia. }
  rewrite L. rewrite !orb_true_r. reflexivity.
Qed.

Lemma valid_upper c : valid_field_byte c = true -> valid_field_byte (to_upper c) = true.
Proof.
  intros V. unfold to_upper. destruct (is_lower c) eqn:L; [|exact V].
  unfold valid_field_byte.
  assert (is_upper (c - 32) = true) as U.
  { unfold is_lower in L. unfold is_upper. zcases; cbn [andb] in *; try discriminate; lia. }
  rewrite U. rewrite orb_true_r. reflexivity.
Qed.

Lemma valid_lower_str s : forallb valid_field_byte (lower_str s) = forallb valid_field_byte s.
Proof.
  induction s as [|c s IH]; cbn [lower_str map forallb]; [reflexivity|].
  rewrite valid_lower. fold (lower_str s). rewrite IH. reflexivity.
Qed.

Lemma canon_go_ci a : forall b u, lower_str a = lower_str b -> canon_go u a = canon_go u b.
Proof.
  induction a as [|x a IH]; intros [|y b] u H; cbn [lower_str map] in H; try discriminate; [reflexivity|].
  inversion H as [[Hx Hr]]. cbn [canon_go].
  assert ((if u then to_upper x else to_lower x) = (if u then to_upper y else to_lower y)) as E.
  { destruct u; [apply lower_upper_same; exact Hx | exact Hx]. }
  rewrite E. f_equal. apply IH. exact Hr.
Qed.

(* names that differ only in case have the same canonical key *)
Lemma canon_key_ci a b : forallb valid_field_byte a = true -> lower_str a = lower_str b -> canon_key a = canon_key b.
Proof.
  intros V H. unfold canon_key. rewrite V.
  assert (forallb valid_field_byte b = true) as Vb.
  { rewrite <- valid_lower_str, <- H, valid_lower_str. exact V. }
  rewrite Vb. apply canon_go_ci. exact H.
Qed.

Lemma lower_canon_go s : forall u, lower_str (canon_go u s) = lower_str s.
Proof.
  induction s as [|c s IH]; intros u; cbn [canon_go lower_str map]; [reflexivity|].
  fold (lower_str (canon_go ((if u then to_upper c else to_lower c) =? 45) s)). rewrite IH.
  fold (lower_str s). f_equal. destruct u; [apply lower_of_upper | apply lower_idem].
Qed.

Lemma valid_canon_go s : forall u, forallb valid_field_byte s = true -> forallb valid_field_byte (canon_go u s) = true.
Proof.
  induction s as [|c s IH]; intros u V; cbn [canon_go forallb] in *; [reflexivity|].
  apply andb_true_iff in V as [V1 V2]. apply andb_true_iff. split; [|apply IH; exact V2].
  destruct u; [apply valid_upper; exact V1 | rewrite valid_lower; exact V1].
Qed.

Lemma canon_key_idem s : canon_key (canon_key s) = canon_key s.
Proof.
  unfold canon_key at 2. destruct (forallb valid_field_byte s) eqn:V.
  - symmetry. apply canon_key_ci; [exact V|]. symmetry. apply lower_canon_go.
  - unfold canon_key. rewrite V. reflexivity.
Qed.

(* ------------------------------------------------------------------------ *)
(* strings.TrimSpace on an RFC 9110 list element: OWS token OWS *)
Definition is_ows (c : Z) : Prop := c = 32 \/ c = 9.

Lemma valid_range c : valid_field_byte c = true -> 33 <= c <= 126.
Proof.
  unfold valid_field_byte. intros H.
  apply orb_true_iff in H as [H|H]; [apply orb_true_iff in H as [H|H]; [apply orb_true_iff in H as [H|H]|]|].
  - unfold is_digit in H. apply andb_true_iff in H as [A B]. apply Z.leb_le in A, B. lia.
  - unfold is_upper in H. apply andb_true_iff in H as [A B]. apply Z.leb_le in A, B. lia.
  - unfold is_lower in H. apply andb_true_iff in H as [A B]. apply Z.leb_le in A, B. lia.
  - apply existsb_exists in H as [x [Hin Heq]]. apply Z.eqb_eq in Heq. subst x.
    unfold tchar_specials in Hin. cbn [In] in Hin.
    repeat (destruct Hin as [Hin|Hin]; [lia|]). contradiction.
Qed.

Lemma trim_left_stop c rest : 33 <= c <= 126 -> trim_left (c :: rest) = c :: rest.
Proof.
  intros R. cbn [trim_left].
  assert (ascii_space c = false) as A by (unfold ascii_space; zcases; cbn [orb]; try reflexivity; lia).
  rewrite A. destruct rest as [|b [|d r3]]; [reflexivity| |].
  - assert (space2 c b = false) as S2 by (unfold space2; destruct (Z.eqb_spec c 194); [lia|reflexivity]).
    rewrite S2. reflexivity.
  - assert (space2 c b = false) as S2 by (unfold space2; destruct (Z.eqb_spec c 194); [lia|reflexivity]).
    assert (space3 c b d = false) as S3.
    { unfold space3. destruct (Z.eqb_spec c 225); [lia|]. destruct (Z.eqb_spec c 226); [lia|].
      destruct (Z.eqb_spec c 227); [lia|]. reflexivity. }
    rewrite S2, S3. reflexivity.
Qed.

Lemma trim_left_rev_stop c rest : 33 <= c <= 126 -> trim_left_rev (c :: rest) = c :: rest.
Proof.
  intros R. cbn [trim_left_rev].
  assert (ascii_space c = false) as A by (unfold ascii_space; zcases; cbn [orb]; try reflexivity; lia).
  rewrite A. destruct rest as [|b [|d r3]]; [reflexivity| |].
  - assert (space2 b c = false) as S2.
    { unfold space2. destruct (Z.eqb_spec c 133); [lia|]. destruct (Z.eqb_spec c 160); [lia|].
      rewrite andb_false_r. reflexivity. }
    rewrite S2. reflexivity.
  - assert (space2 b c = false) as S2.
    { unfold space2. destruct (Z.eqb_spec c 133); [lia|]. destruct (Z.eqb_spec c 160); [lia|].
      rewrite andb_false_r. reflexivity. }
    assert (space3 d b c = false) as S3.
    { unfold space3. destruct (Z.eqb_spec c 128); [lia|]. destruct (Z.eqb_spec c 159); [lia|].
      destruct (Z.eqb_spec c 168); [lia|]. destruct (Z.eqb_spec c 169); [lia|]. destruct (Z.eqb_spec c 175); [lia|].
      destruct (Z.leb_spec 128 c); [|cbn [andb orb]; rewrite !andb_false_r; reflexivity].
      lia. }
    rewrite S2, S3. reflexivity.
Qed.

Lemma trim_left_ows l x : Forall is_ows l -> trim_left (l ++ x) = trim_left x.
Proof.
  induction 1 as [|c l Hc _ IH]; [reflexivity|].
  cbn [app trim_left].
  assert (ascii_space c = true) as A by (destruct Hc; subst; reflexivity).
  rewrite A. exact IH.
Qed.

Lemma trim_left_rev_ows l x : Forall is_ows l -> trim_left_rev (l ++ x) = trim_left_rev x.
Proof.
  induction 1 as [|c l Hc _ IH]; [reflexivity|].
  cbn [app trim_left_rev].
  assert (ascii_space c = true) as A by (destruct Hc; subst; reflexivity).
  rewrite A. exact IH.
Qed.

Lemma trim_space_element l t r :
  Forall is_ows l -> Forall is_ows r -> t <> [] -> forallb valid_field_byte t = true ->
  trim_space (l ++ t ++ r) = t.
Proof.
  intros Hl Hr Hne V. unfold trim_space.
  rewrite trim_left_ows by exact Hl.
  destruct t as [|c t]; [congruence|]. cbn [app].
  assert (33 <= c <= 126) as Rc.
  { apply valid_range. cbn [forallb] in V. apply andb_true_iff in V as [V1 _]. exact V1. }
  rewrite trim_left_stop by exact Rc.
  change (c :: t ++ r) with ((c :: t) ++ r). rewrite rev_app_distr.
  rewrite trim_left_rev_ows by (apply Forall_rev; exact Hr).
  destruct (rev (c :: t)) as [|d s] eqn:E.
  - apply (f_equal (@length Z)) in E. rewrite rev_length in E. discriminate.
  - assert (33 <= d <= 126) as Rd.
    { apply valid_range. rewrite forallb_forall in V. apply V. apply in_rev. rewrite E. left. reflexivity. }
    rewrite trim_left_rev_stop by exact Rd. rewrite <- E. apply rev_involutive.
Qed.

(* RFC 9110 7.6.1: a field named by a Connection option (token, any case, optional blanks around) is removed *)
Theorem nominated_removed h n v l t r :
  In v (hvalues s_Connection h) -> In (l ++ t ++ r) (split_comma v) ->
  Forall is_ows l -> Forall is_ows r -> t <> [] -> forallb valid_field_byte t = true ->
  lower_str t = lower_str n ->
  hvalues n (remove_hop_by_hop h) = [].
Proof.
  intros Hv He Hl Hr Hne V Hci. apply rhbh_removes.
  unfold removed_by_hop. apply orb_true_iff. left.
  apply existsb_exists. exists (canon_key t). split.
  - unfold connection_tokens. apply filter_In. split.
    + apply in_map_iff. exists (l ++ t ++ r). split.
      * rewrite trim_space_element by assumption. reflexivity.
      * apply in_flat_map. exists v. split; assumption.
    + apply negb_true_iff. apply str_eqb_neq. unfold canon_key. rewrite V.
      destruct t; [congruence|]. cbn [canon_go]. discriminate.
  - apply str_eqb_eq. rewrite canon_key_idem. symmetry. apply canon_key_ci; assumption.
Qed.

(* every one of the nine hop-by-hop fields, in any case, is removed *)
Theorem hop_name_removed h n n' :
  In n' hop_headers -> lower_str n' = lower_str n -> hvalues n (remove_hop_by_hop h) = [].
Proof.
  intros Hin Hci. apply rhbh_removes. unfold removed_by_hop. apply orb_true_iff. right.
  apply existsb_exists. exists n'. split; [exact Hin|]. apply str_eqb_eq.
  symmetry. apply canon_key_ci; [|exact Hci].
  cbn [hop_headers In] in Hin.
  repeat (destruct Hin as [Hin|Hin]; [subst n'; reflexivity|]). contradiction.
Qed.

(* ------------------------------------------------------------------------ *)
(* SetHeaders *)
Definition wf_hdrs (h : hdrs) : Prop :=
  NoDup (hkeys h) /\ Forall (fun k => canon_key k = k) (hkeys h).

Lemma get_add_all k0 vs : forall d k,
  hraw_get k (fold_left (fun d v => hadd k0 v d) vs d) =
  if str_eqb k (canon_key k0) then hraw_get k d ++ vs else hraw_get k d.
Proof.
  induction vs as [|v vs IH]; intros d k; cbn [fold_left].
  - destruct (str_eqb k (canon_key k0)); [rewrite app_nil_r|]; reflexivity.
  - rewrite IH, get_hadd. destruct (str_eqb k (canon_key k0)); [rewrite <- app_assoc|]; reflexivity.
Qed.

Lemma get_set_headers src : wf_hdrs src -> forall dst k,
  hraw_get k (set_headers src dst) =
  if existsb (str_eqb k) (hkeys src) then hraw_get k src else hraw_get k dst.
Proof.
  unfold set_headers. induction src as [|[k0 vs0] src IH]; intros [ND CK] dst k; cbn [fold_left hkeys map existsb hraw_get fst snd]; [reflexivity|].
  cbn [hkeys map fst] in ND, CK. inversion ND as [|? ? Hnotin ND']; subst. inversion CK as [|? ? Hc CK']; subst.
  rewrite IH by (split; assumption).
  rewrite get_add_all, get_hdel, Hc. fold (hkeys src).
  destruct (str_eqb k k0) eqn:E.
  - apply str_eqb_eq in E. subst k0. cbn [orb].
    assert (existsb (str_eqb k) (hkeys src) = false) as A.
    { destruct (existsb (str_eqb k) (hkeys src)) eqn:X; [|reflexivity]. exfalso. apply Hnotin.
      apply existsb_exists in X as [y [Hy Heq]]. apply str_eqb_eq in Heq. subst y. exact Hy. }
    rewrite A. reflexivity.
  - cbn [orb]. reflexivity.
Qed.

Lemma get_set_headers_empty src k : wf_hdrs src -> hraw_get k (set_headers src []) = hraw_get k src.
Proof.
  intros W. rewrite get_set_headers by exact W.
  destruct (existsb (str_eqb k) (hkeys src)) eqn:E; [reflexivity|].
  cbn [hraw_get]. symmetry. apply get_absent. exact E.
Qed.

Lemma wf_del k h : wf_hdrs h -> wf_hdrs (hraw_del k h).
Proof.
  unfold wf_hdrs, hraw_del. induction h as [|[k0 vs] h IH]; intros [ND CK]; cbn [filter hkeys map fst]; [split; constructor|].
  cbn [hkeys map fst] in ND, CK. inversion ND as [|? ? Hn ND']; subst. inversion CK as [|? ? Hc CK']; subst.
  destruct (IH (conj ND' CK')) as [ND2 CK2].
  destruct (negb (str_eqb k k0)); [|split; assumption].
  cbn [hkeys map fst]. split; constructor; try assumption.
  intros Hin. apply Hn. unfold hkeys in *. apply in_map_iff in Hin as [[k1 v1] [Hk Hin]].
  apply filter_In in Hin as [Hin _]. apply in_map_iff. exists (k1, v1). split; assumption.
Qed.

Lemma wf_fold_del ks : forall h, wf_hdrs h -> wf_hdrs (fold_left (fun h n => hdel n h) ks h).
Proof.
  induction ks as [|n ks IH]; intros h W; cbn [fold_left]; [exact W|]. apply IH. apply wf_del. exact W.
Qed.

Lemma wf_rhbh h : wf_hdrs h -> wf_hdrs (remove_hop_by_hop h).
Proof. intros W. unfold remove_hop_by_hop. apply wf_fold_del. apply wf_fold_del. exact W. Qed.

(* ------------------------------------------------------------------------ *)
(* What the responder holds when the response is written *)
Definition owned_direct : list str := [s_Accept_Ranges; s_Cache_Status; s_X_Cache; s_Via].
Definition owned_stored : list str := [s_Accept_Ranges; s_Etag; s_Last_Modified; s_Cache_Status; s_X_Cache; s_Via; s_Age].
Definition owned_partial : list str := [s_Accept_Ranges; s_Content_Range; s_Content_Length; s_Etag; s_Last_Modified].

Definition not_in (n : str) (l : list str) : Prop := existsb (str_eqb (canon_key n)) l = false.

Ltac split_not_in H :=
  unfold not_in in H; cbn [existsb owned_direct owned_stored owned_partial] in H;
  repeat (apply orb_false_iff in H; let H1 := fresh "N" in destruct H as [H1 H]).

Ltac canon_lits :=
  change (canon_key s_Via) with s_Via; change (canon_key s_X_Cache) with s_X_Cache;
  change (canon_key s_Cache_Status) with s_Cache_Status; change (canon_key s_Accept_Ranges) with s_Accept_Ranges;
  change (canon_key s_Last_Modified) with s_Last_Modified; change (canon_key s_ETag) with s_Etag;
  change (canon_key s_Content_Length) with s_Content_Length; change (canon_key s_Content_Range) with s_Content_Range;
  change (canon_key s_Age) with s_Age.
Ltac canon_lits_in B :=
  change (canon_key s_Via) with s_Via in B; change (canon_key s_X_Cache) with s_X_Cache in B;
  change (canon_key s_Cache_Status) with s_Cache_Status in B.
Ltac use_neqs := repeat match goal with N : str_eqb (canon_key _) _ = false |- _ => rewrite N end.
Ltac step_ops :=
  cbn [fold_left hdr_op cache_header_ops app]; rewrite ?get_hadd, ?get_hset; canon_lits; use_neqs.

Lemma cache_ops_keep proto hs cs n h0 :
  str_eqb (canon_key n) s_Cache_Status = false -> str_eqb (canon_key n) s_X_Cache = false ->
  str_eqb (canon_key n) s_Via = false ->
  hraw_get (canon_key n) (fold_left hdr_op (cache_header_ops proto hs cs) h0) = hraw_get (canon_key n) h0.
Proof. intros N1 N2 N3. step_ops. reflexivity. Qed.

Lemma age_step n hs age h0 (v : list str) :
  str_eqb (canon_key n) s_Age = false ->
  hraw_get (canon_key n) h0 = v ->
  hraw_get (canon_key n) (fold_left hdr_op (match hs with HMiss => [] | _ => [RSet s_Age age] end) h0) = v.
Proof. intros N H0. destruct hs; step_ops; exact H0. Qed.

Lemma base_keep origin n :
  wf_hdrs origin -> end_to_end n origin ->
  hraw_get (canon_key n) (set_headers (remove_hop_by_hop origin) []) = hraw_get (canon_key n) origin.
Proof. intros W E. rewrite get_set_headers_empty by (apply wf_rhbh; exact W). apply (rhbh_keeps n origin E). Qed.

Lemma base_drop origin n :
  wf_hdrs origin -> removed_by_hop (canon_key n) origin = true ->
  hraw_get (canon_key n) (set_headers (remove_hop_by_hop origin) []) = [].
Proof. intros W R. rewrite get_set_headers_empty by (apply wf_rhbh; exact W). apply (rhbh_removes n origin R). Qed.

(* relayed response (fetchTypeDirect): every end-to-end field of the origin, all values in order *)
Theorem direct_headers_faithful meth proto status origin cs body n :
  wf_hdrs origin -> end_to_end n origin -> not_in n owned_direct ->
  hvalues n (response_headers {| x_meth := meth; x_proto := proto; x_kind := KDirect status origin cs; x_body := body |})
  = hvalues n origin.
Proof.
  intros W E N. split_not_in N. unfold hvalues, response_headers, exchange_ops. cbn [x_kind x_proto].
  rewrite !fold_left_app.
  destruct ((200 <=? status) && (status <? 300)); step_ops; apply base_keep; assumption.
Qed.

(* a 4xx/5xx (or any non-2xx) relayed response owns nothing: every end-to-end field passes *)
Theorem direct_non2xx_headers_faithful meth proto status origin cs body n :
  wf_hdrs origin -> end_to_end n origin -> (200 <=? status) && (status <? 300) = false ->
  hvalues n (response_headers {| x_meth := meth; x_proto := proto; x_kind := KDirect status origin cs; x_body := body |})
  = hvalues n origin.
Proof.
  intros W E S. unfold hvalues, response_headers, exchange_ops. cbn [x_kind x_proto]. rewrite S.
  step_ops. apply base_keep; assumption.
Qed.

(* the proxy's own fields are appended after the origin's values, never replace them *)
Theorem direct_appends meth proto status origin cs body :
  wf_hdrs origin -> (200 <=? status) && (status <? 300) = true ->
  let x := {| x_meth := meth; x_proto := proto; x_kind := KDirect status origin cs; x_body := body |} in
  (end_to_end s_Via origin -> hvalues s_Via (response_headers x) = hvalues s_Via origin ++ [proto ++ s_sp_reservoir]) /\
  (end_to_end s_X_Cache origin -> hvalues s_X_Cache (response_headers x) = hvalues s_X_Cache origin ++ [s_MISS]) /\
  (end_to_end s_Cache_Status origin -> hvalues s_Cache_Status (response_headers x) = hvalues s_Cache_Status origin ++ [cs]).
Proof.
  intros W S x. subst x. unfold hvalues, response_headers, exchange_ops. cbn [x_kind x_proto]. rewrite S.
  cbn [fold_left hdr_op cache_header_ops app xcache_of].
  repeat split; intros E; rewrite !get_hadd, get_hset; canon_lits;
    cbn [str_eqb Z.eqb andb Pos.eqb s_Via s_X_Cache s_Cache_Status s_Accept_Ranges];
    pose proof (base_keep origin _ W E) as B; canon_lits_in B; rewrite B; reflexivity.
Qed.

(* response served from the store (200): the stored header is the origin's after hop-by-hop removal *)
Theorem stored_headers_faithful meth proto hs origin etag lm cs age body n :
  wf_hdrs origin -> end_to_end n origin -> not_in n owned_stored ->
  hvalues n (response_headers {| x_meth := meth; x_proto := proto; x_kind := KStored hs origin etag lm cs age; x_body := body |})
  = hvalues n origin.
Proof.
  intros W E N. split_not_in N. unfold hvalues, response_headers, exchange_ops. cbn [x_kind x_proto].
  rewrite !fold_left_app. cbn [fold_left hdr_op].
  apply age_step; [assumption|]. rewrite cache_ops_keep by assumption.
  step_ops. apply base_keep; assumption.
Qed.

(* 206 from the store *)
Theorem partial_headers_faithful meth proto origin etag lm cr clen section body n :
  wf_hdrs origin -> end_to_end n origin -> not_in n owned_partial ->
  hvalues n (response_headers {| x_meth := meth; x_proto := proto; x_kind := KPartial origin etag lm cr clen section; x_body := body |})
  = hvalues n origin.
Proof.
  intros W E N. split_not_in N. unfold hvalues, response_headers, exchange_ops. cbn [x_kind x_proto].
  step_ops. apply base_keep; assumption.
Qed.

(* no hop-by-hop or nominated field of the origin reaches the client, unless the proxy writes that field itself *)
Theorem response_drops_hop x origin n :
  (match x_kind x with
   | KDirect _ o _ => o = origin | KStored _ o _ _ _ _ => o = origin | KPartial o _ _ _ _ _ => o = origin
   | _ => False end) ->
  wf_hdrs origin -> removed_by_hop (canon_key n) origin = true ->
  not_in n owned_stored -> not_in n owned_partial ->
  hvalues n (response_headers x) = [].
Proof.
  intros K W R N1 N2. split_not_in N1. split_not_in N2.
  destruct x as [meth proto kind body]. cbn [x_kind] in K.
  unfold hvalues, response_headers, exchange_ops. cbn [x_kind x_proto].
  destruct kind as [status o cs | hs o etag lm cs age | o etag lm cr clen section | cr | ]; try contradiction; subst o.
  - rewrite !fold_left_app.
    destruct ((200 <=? status) && (status <? 300)); step_ops; apply base_drop; assumption.
  - rewrite !fold_left_app. cbn [fold_left hdr_op].
    apply age_step; [assumption|]. rewrite cache_ops_keep by assumption.
    step_ops. apply base_drop; assumption.
  - step_ops. apply base_drop; assumption.
Qed.

(* ------------------------------------------------------------------------ *)
(* The request target *)
(* RFC 3986: path-abempty = *( "/" segment ), segment = *pchar,
   pchar = unreserved / pct-encoded / sub-delims / ":" / "@" *)
Definition rfc_plain (c : Z) : bool :=
  is_digit c || is_upper c || is_lower c ||
  existsb (Z.eqb c) [45;46;95;126; 33;36;38;39;40;41;42;43;44;59;61; 58;64; 47].
Fixpoint rfc_path_chars (s : str) : bool :=
  match s with
  | [] => true
  | c :: r =>
      if c =? 37 then
        match r with
        | a :: b :: r2 => is_hex a && is_hex b && rfc_path_chars r2
        | _ => false
        end
      else rfc_plain c && rfc_path_chars r
  end.
Definition rfc_path (p : str) : Prop := exists p', p = 47 :: p' /\ rfc_path_chars p = true.

Lemma rfc_plain_valid c : rfc_plain c = true -> (existsb (Z.eqb c) valid_extra || negb (should_escape_path c)) = true.
Proof.
  unfold rfc_plain, should_escape_path. rewrite negb_involutive.
  intros H.
  destruct (is_digit c); [rewrite !orb_true_r; reflexivity|].
  destruct (is_upper c); [rewrite !orb_true_r; reflexivity|].
  destruct (is_lower c); [rewrite !orb_true_r; reflexivity|].
  cbn [orb] in *. apply existsb_exists in H as [x [Hin Heq]]. apply Z.eqb_eq in Heq. subst x.
  cbn [In] in Hin. repeat (destruct Hin as [Hin|Hin]; [subst c; reflexivity|]). contradiction.
Qed.

Lemma hex_valid c : is_hex c = true -> (existsb (Z.eqb c) valid_extra || negb (should_escape_path c)) = true.
Proof.
  unfold is_hex, should_escape_path. rewrite negb_involutive. intros H.
  destruct (is_digit c); [rewrite !orb_true_r; reflexivity|].
  assert (is_upper c || is_lower c = true) as L.
  { unfold is_upper, is_lower. cbn [orb] in H. zcases; cbn [andb orb] in *; try reflexivity; try discriminate; lia. }
  apply orb_true_iff in L as [L|L]; rewrite L; rewrite !orb_true_r; reflexivity.
Qed.

Lemma rfc_strong (P : str -> Prop) :
  (forall s, (forall t, (length t < length s)%nat -> P t) -> P s) -> forall s, P s.
Proof.
  intros H s. remember (length s) as n eqn:E. revert s E.
  induction n as [n IH] using lt_wf_ind. intros s E. apply H. intros t Ht. apply (IH (length t)); [lia|reflexivity].
Qed.

Lemma rfc_valid_encoded : forall p, rfc_path_chars p = true -> valid_encoded p = true.
Proof.
  apply (rfc_strong (fun p => rfc_path_chars p = true -> valid_encoded p = true)).
  intros [|c r] IH H; [reflexivity|]. cbn [rfc_path_chars] in H. unfold valid_encoded in *. cbn [forallb].
  destruct (Z.eqb_spec c 37) as [->|Hc].
  - destruct r as [|a [|b r2]]; try discriminate.
    apply andb_true_iff in H as [H H3]. apply andb_true_iff in H as [H1 H2].
    cbn [forallb]. rewrite (hex_valid a H1), (hex_valid b H2). cbn [andb existsb valid_extra Z.eqb orb].
    apply (IH r2); [cbn [length]; lia | exact H3].
  - apply andb_true_iff in H as [H1 H2]. rewrite (rfc_plain_valid c H1). cbn [andb].
    apply (IH r); [cbn [length]; lia | exact H2].
Qed.

Lemma rfc_unescapes : forall p, rfc_path_chars p = true -> exists path, unescape_path p = Some path.
Proof.
  apply (rfc_strong (fun p => rfc_path_chars p = true -> exists path, unescape_path p = Some path)).
  intros [|c r] IH H; [exists []; reflexivity|]. cbn [rfc_path_chars] in H. cbn [unescape_path].
  destruct (Z.eqb_spec c 37) as [->|Hc].
  - destruct r as [|a [|b r2]]; try discriminate.
    apply andb_true_iff in H as [H H3]. rewrite H.
    destruct (IH r2) as [t Ht]; [cbn [length]; lia | exact H3 |]. rewrite Ht. eexists. reflexivity.
  - apply andb_true_iff in H as [H1 H2].
    destruct (IH r) as [t Ht]; [cbn [length]; lia | exact H2 |]. rewrite Ht. eexists. reflexivity.
Qed.

Lemma unescape_slash p' path : unescape_path (47 :: p') = Some path -> exists t, path = 47 :: t.
Proof.
  cbn [unescape_path]. change (47 =? 37) with false. cbn iota.
  destruct (unescape_path p') as [t|]; intros H; inversion H. eexists. reflexivity.
Qed.

(* the path the origin sees is byte for byte the path the client sent *)
Theorem path_preserved p :
  rfc_path p -> exists path raw, set_path p = Some (path, raw) /\ escaped_path path raw = p.
Proof.
  intros [p' [-> Hc]]. destruct (rfc_unescapes _ Hc) as [path Hu].
  unfold set_path. rewrite Hu. eexists. eexists. split; [reflexivity|].
  destruct (unescape_slash _ _ Hu) as [t ->].
  unfold escaped_path. destruct (str_eqb (escape_path (47 :: t)) (47 :: p')) eqn:E.
  - apply str_eqb_eq in E. cbn [str_eqb negb andb]. exact E.
  - rewrite (rfc_valid_encoded _ Hc), Hu, str_eqb_refl. reflexivity.
Qed.

Definition with_query (p q : str) : str := match q with [] => p | _ => p ++ [63] ++ q end.

Theorem target_preserved p q : rfc_path p -> forwarded_target p q = Some (with_query p q).
Proof.
  intros R. destruct (path_preserved p R) as [path [raw [Hs He]]].
  unfold forwarded_target. rewrite Hs. unfold request_uri. rewrite He.
  destruct R as [p' [-> _]]. cbn [orb]. unfold with_query. destruct q; reflexivity.
Qed.

(* ------------------------------------------------------------------------ *)
(* The request as a whole *)
Definition is_conditional (n : str) : Prop := existsb (fun c => str_eqb (canon_key n) (canon_key c)) conditional_names = true.

Lemma strip_keeps_connection h : hvalues s_Connection (strip_conditionals h) = hvalues s_Connection h.
Proof. unfold hvalues, strip_conditionals. rewrite get_fold_del. reflexivity. Qed.

Lemma removed_strip k h : removed_by_hop k (strip_conditionals h) = removed_by_hop k h.
Proof. unfold removed_by_hop, connection_tokens. rewrite strip_keeps_connection. reflexivity. Qed.

Lemma removed_after_cache k r : removed_by_hop k (after_cache_layer r) = removed_by_hop k (c_hdrs r).
Proof. unfold after_cache_layer. destruct (cache_answers (c_method r)); [apply removed_strip|reflexivity]. Qed.

Theorem request_headers_faithful r u n :
  relay_request r = Some u -> end_to_end n (c_hdrs r) -> (cache_answers (c_method r) = true -> ~ is_conditional n) ->
  hvalues n (q_hdrs u) = hvalues n (c_hdrs r).
Proof.
  unfold relay_request. destruct (forwarded_target _ _); [|discriminate]. intros H E NC. inversion H; subst u; clear H.
  cbn [q_hdrs]. unfold hvalues. rewrite get_rhbh, removed_after_cache. unfold end_to_end in E. rewrite E.
  unfold after_cache_layer. destruct (cache_answers (c_method r)); [|reflexivity].
  unfold strip_conditionals. rewrite get_fold_del.
  specialize (NC eq_refl). unfold is_conditional in NC. destruct (existsb _ conditional_names); [congruence|reflexivity].
Qed.

(* a write's preconditions reach the origin *)
Theorem write_headers_faithful r u n :
  relay_request r = Some u -> cache_answers (c_method r) = false -> end_to_end n (c_hdrs r) ->
  hvalues n (q_hdrs u) = hvalues n (c_hdrs r).
Proof. intros H W E. apply (request_headers_faithful r u n H E). intros C. congruence. Qed.

Theorem request_drops_hop r u n :
  relay_request r = Some u -> removed_by_hop (canon_key n) (c_hdrs r) = true -> hvalues n (q_hdrs u) = [].
Proof.
  unfold relay_request. destruct (forwarded_target _ _); [|discriminate]. intros H R. inversion H; subst u; clear H.
  cbn [q_hdrs]. unfold hvalues. rewrite get_rhbh, removed_after_cache, R. reflexivity.
Qed.

Theorem request_faithful r :
  rfc_path (c_rawpath r) ->
  exists u, relay_request r = Some u /\
            q_method u = c_method r /\ q_body u = c_body r /\
            q_target u = with_query (c_rawpath r) (c_query r).
Proof.
  intros R. unfold relay_request. rewrite (target_preserved _ (c_query r) R).
  eexists. split; [reflexivity|]. cbn. repeat split.
Qed.

(* body pass-through: what finalizeAndRespond hands to the responder *)
Theorem body_passthrough x :
  match x_kind x with KDirect _ _ _ => True | KStored _ _ _ _ _ _ => True | _ => False end ->
  exists pre, exchange_ops x = pre ++ [RWrite (response_status x) (if x_head x then [] else x_body x)] /\
              Forall (fun o => match o with RWrite _ _ => False | RWriteError _ _ => False | _ => True end) pre.
Proof.
  destruct x as [m proto kind body]. cbn [x_kind]. destruct kind; try contradiction; intros _;
    unfold exchange_ops, response_status, final_body; cbn [x_kind x_proto x_body].
  - rewrite app_assoc. eexists. split; [reflexivity|]. apply Forall_app. split.
    + repeat constructor.
    + destruct ((200 <=? status) && (status <? 300)); unfold cache_header_ops; repeat constructor.
  - rewrite !app_assoc. eexists. split; [reflexivity|].
    repeat (apply Forall_app; split); unfold cache_header_ops; try (repeat constructor).
    destruct h; repeat constructor.
Qed.
