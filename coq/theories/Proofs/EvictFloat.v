(* int64(float64(max) * 0.8) = floor(4*max/5) for 0 <= max < 2^50, proved directly on
   Coq's executable specification of IEEE binary64 (Coq.Floats.SpecFloat), in integer
   arithmetic only: no real numbers, no axioms. *)
From Coq Require Import ZArith Lia Floats.SpecFloat ZifyBool.
From Coq Require Zpower.
From Reservoir Require Import Base.Prelude Model.Evict.
Open Scope Z_scope.

(* ---- digits ---- *)
Lemma digits2_size p : digits2_pos p = Pos.size p.
Proof. induction p; cbn; congruence. Qed.

Lemma Zdigits2_log2 p : Zdigits2 (Zpos p) = Z.log2 (Zpos p) + 1.
Proof.
  cbn [Zdigits2]. rewrite digits2_size. destruct p; cbn [Z.log2 Pos.size]; lia.
Qed.

Lemma digits_bounds p : 2 ^ (Zdigits2 (Zpos p) - 1) <= Zpos p < 2 ^ Zdigits2 (Zpos p).
Proof.
  rewrite Zdigits2_log2. pose proof (Z.log2_spec (Zpos p) ltac:(lia)) as H.
  replace (Z.log2 (Zpos p) + 1 - 1) with (Z.log2 (Zpos p)) by lia.
  replace (Z.log2 (Zpos p) + 1) with (Z.succ (Z.log2 (Zpos p))) by lia. exact H.
Qed.

Lemma digits_unique p d : 0 < d -> 2 ^ (d - 1) <= Zpos p < 2 ^ d -> Zdigits2 (Zpos p) = d.
Proof.
  intros Hd H. rewrite Zdigits2_log2.
  rewrite (Z.log2_unique (Zpos p) (d - 1)); [lia | lia |].
  replace (Z.succ (d - 1)) with d by lia. exact H.
Qed.

(* ---- iterated one-bit right shift ---- *)
Lemma nat_iter_add {A} (f : A -> A) a b x : Nat.iter (a + b) f x = Nat.iter a f (Nat.iter b f x).
Proof. unfold Nat.iter. induction a as [|a IH]; simpl; [reflexivity | f_equal; exact IH]. Qed.

Lemma iter_pos_nat {A} (f : A -> A) p x : SpecFloat.iter_pos f p x = Nat.iter (Pos.to_nat p) f x.
Proof.
  revert x. induction p as [p IH|p IH|]; intros x; cbn [SpecFloat.iter_pos].
  - rewrite !IH. rewrite Pos2Nat.inj_xI.
    replace (S (2 * Pos.to_nat p)) with (Pos.to_nat p + (Pos.to_nat p + 1))%nat by lia.
    rewrite !nat_iter_add. reflexivity.
  - rewrite !IH. rewrite Pos2Nat.inj_xO.
    replace (2 * Pos.to_nat p)%nat with (Pos.to_nat p + Pos.to_nat p)%nat by lia.
    rewrite nat_iter_add. reflexivity.
  - reflexivity.
Qed.

Lemma shr_1_m mrs : 0 <= shr_m mrs -> shr_m (shr_1 mrs) = shr_m mrs / 2.
Proof.
  destruct mrs as [m r s]. cbn [shr_m shr_1]. intros Hm.
  destruct m as [|p|p]; [reflexivity| |lia].
  destruct p as [p|p|]; cbn [shr_m].
  - rewrite Pos2Z.inj_xI. apply Z.div_unique with (r := 1); lia.
  - rewrite Pos2Z.inj_xO. apply Z.div_unique with (r := 0); lia.
  - reflexivity.
Qed.

Lemma iter_shr_m n mrs : 0 <= shr_m mrs ->
  shr_m (Nat.iter n shr_1 mrs) = shr_m mrs / 2 ^ Z.of_nat n.
Proof.
  intros Hm. induction n as [|n IH].
  - cbn. rewrite Z.div_1_r. reflexivity.
  - change (Nat.iter (S n) shr_1 mrs) with (shr_1 (Nat.iter n shr_1 mrs)). rewrite shr_1_m.
    + rewrite IH, Z.div_div by lia. f_equal. rewrite Nat2Z.inj_succ, Z.pow_succ_r by lia. lia.
    + rewrite IH. apply Z.div_pos; lia.
Qed.

Lemma shr_m_spec m e n : 0 <= m -> 0 <= n ->
  shr_m (fst (shr (Build_shr_record m false false) e n)) = m / 2 ^ n /\
  snd (shr (Build_shr_record m false false) e n) = e + n.
Proof.
  intros Hm Hn. destruct n as [|p|p]; [| |lia].
  - cbn. rewrite Z.div_1_r. split; [reflexivity | lia].
  - cbn [shr fst snd]. rewrite iter_pos_nat, iter_shr_m by exact Hm. cbn [shr_m].
    rewrite positive_nat_Z. split; reflexivity.
Qed.

Lemma rne_cases m l : round_nearest_even m l = m \/ round_nearest_even m l = m + 1.
Proof. destruct l as [|[]]; cbn; auto. destruct (Z.even m); auto. Qed.

(* ---- rounding a positive integer significand with at least 53 digits ---- *)
Lemma pow_split a b : 0 <= a -> 0 <= b -> 2 ^ (a + b) = 2 ^ a * 2 ^ b.
Proof. intros. apply Z.pow_add_r; assumption. Qed.

Lemma round_aux_spec P e :
  let dp := Zdigits2 (Zpos P) in
  let k := dp - 53 in
  let e1 := e + k in
  53 <= dp -> -1074 <= e1 -> e1 + 1 <= 971 ->
  exists m2 m3 e3,
    (m2 = Zpos P / 2 ^ k \/ m2 = Zpos P / 2 ^ k + 1) /\
    (k = 0 -> m2 = Zpos P) /\
    ((m3 = m2 /\ e3 = e1) \/ (m2 = 2 ^ 53 /\ m3 = 2 ^ 52 /\ e3 = e1 + 1)) /\
    2 ^ 52 <= m3 < 2 ^ 53 /\
    binary_round_aux 53 1024 false (Zpos P) e loc_Exact = S754_finite false (Z.to_pos m3) e3.
Proof.
  intros dp k e1 Hdp He1 He1'.
  pose proof (digits_bounds P) as Hb. fold dp in Hb.
  assert (Hk : 0 <= k) by (unfold k; lia).
  assert (Hm1 : 2 ^ 52 <= Zpos P / 2 ^ k < 2 ^ 53).
  { assert (H2k : 0 < 2 ^ k) by (apply Z.pow_pos_nonneg; lia).
    assert (Hb' : 2 ^ (k + 52) <= Zpos P < 2 ^ (k + 53)).
    { replace (k + 52) with (dp - 1) by (unfold k; lia).
      replace (k + 53) with dp by (unfold k; lia). exact Hb. }
    rewrite !pow_split in Hb' by lia. split.
    - apply Z.div_le_lower_bound; lia.
    - apply Z.div_lt_upper_bound; lia. }
  unfold binary_round_aux, shr_fexp.
  assert (Hf1 : fexp 53 1024 (Zdigits2 (Zpos P) + e) - e = k).
  { unfold fexp, emin. fold dp. unfold e1, k in *. lia. }
  rewrite Hf1. cbn [shr_record_of_loc].
  destruct (shr_m_spec (Zpos P) e k ltac:(lia) Hk) as [Hs1 Hs2].
  destruct (shr {| shr_m := Zpos P; shr_r := false; shr_s := false |} e k) as [mrs1 e1'] eqn:E1.
  cbn [fst snd] in Hs1, Hs2. subst e1'. fold e1.
  set (m2 := round_nearest_even (shr_m mrs1) (loc_of_shr_record mrs1)).
  assert (Hm2 : m2 = Zpos P / 2 ^ k \/ m2 = Zpos P / 2 ^ k + 1).
  { unfold m2. rewrite <- Hs1. apply rne_cases. }
  assert (Hk0 : k = 0 -> m2 = Zpos P).
  { intros K0. rewrite K0 in E1. cbn [shr] in E1. inversion E1; subst mrs1. reflexivity. }
  assert (Hm2r : 2 ^ 52 <= m2 <= 2 ^ 53) by lia.
  destruct m2 as [|p2|p2] eqn:Em2; [lia| |lia].
  destruct (Z.eq_dec (Zpos p2) (2 ^ 53)) as [Htop|Hntop].
  - (* the increment carried into a 54th digit: one more shift *)
    exists (Zpos p2), (2 ^ 52), (e1 + 1).
    split; [exact Hm2|]. split; [exact Hk0|]. split; [right; auto|]. split; [lia|].
    assert (Hd : Zdigits2 (Zpos p2) = 54) by (apply digits_unique; lia).
    rewrite Hd. assert (Hf2 : fexp 53 1024 (54 + e1) - e1 = 1) by (unfold fexp, emin; lia).
    rewrite Hf2. inversion Htop as [Hp2]. cbn [shr SpecFloat.iter_pos shr_1 shr_m].
    replace (Zle_bool (e1 + 1) (1024 - 53)) with true by (symmetry; apply Zle_imp_le_bool; lia).
    reflexivity.
  - exists (Zpos p2), (Zpos p2), e1.
    split; [exact Hm2|]. split; [exact Hk0|]. split; [left; auto|]. split; [lia|].
    assert (Hd : Zdigits2 (Zpos p2) = 53) by (apply digits_unique; lia).
    rewrite Hd. assert (Hf2 : fexp 53 1024 (53 + e1) - e1 = 0) by (unfold fexp, emin; lia).
    rewrite Hf2. cbn [shr shr_m].
    replace (Zle_bool e1 (1024 - 53)) with true by (symmetry; apply Zle_imp_le_bool; lia).
    reflexivity.
Qed.

(* ---- float64(z) for 0 < z < 2^53 is exact: z * 2^(53-d) scaled by 2^(d-53) ---- *)
Lemma f64_of_Z_spec p :
  Zpos p < 2 ^ 53 ->
  let d := Zdigits2 (Zpos p) in
  exists mz, Zpos mz = Zpos p * 2 ^ (53 - d) /\ Zdigits2 (Zpos mz) = 53 /\
             f64_of_Z (Zpos p) = S754_finite false mz (d - 53).
Proof.
  intros Hlt d. pose proof (digits_bounds p) as Hb. fold d in Hb.
  assert (Hd1 : 1 <= d) by (unfold d; rewrite Zdigits2_log2; pose proof (Z.log2_nonneg (Zpos p)); lia).
  assert (Hd53 : d <= 53).
  { destruct (Z_le_gt_dec d 53) as [H|H]; [exact H|]. exfalso.
    assert (2 ^ 53 <= 2 ^ (d - 1)) by (apply Z.pow_le_mono_r; lia). lia. }
  unfold f64_of_Z, binary_normalize, binary_round.
  change (Zpos (digits2_pos p)) with (Zdigits2 (Zpos p)). fold d.
  assert (Hf : fexp f64_prec f64_emax (d + 0) = d - 53) by (unfold fexp, emin, f64_prec, f64_emax; lia).
  rewrite Hf. unfold shl_align.
  destruct (d - 53 - 0) as [|dd|dd] eqn:Edd; [ | lia | ].
  - (* already 53 digits *)
    assert (d = 53) by lia.
    exists p. split; [replace (53 - d) with 0 by lia; lia|]. split; [unfold d in *; lia|].
    pose proof (round_aux_spec p 0) as HR. cbv zeta in HR. fold d in HR.
    destruct HR as [m2 [m3 [e3 [_ [Hk0 [Hcase [_ Hres]]]]]]]; try lia.
    specialize (Hk0 ltac:(lia)). unfold f64_prec, f64_emax. rewrite Hres.
    destruct Hcase as [[-> ->]|[Hc _]]; [|lia]. subst m2. f_equal; try lia; try apply Pos2Z.id.
  - assert (Hdd : Zpos dd = 53 - d) by lia.
    set (mz := shift_pos dd p).
    assert (Hmz : Zpos mz = Zpos p * 2 ^ (53 - d)).
    { unfold mz. rewrite Zpower.shift_pos_correct. rewrite Zpower.Zpower_pos_nat.
      rewrite Zpower.Zpower_nat_Z, positive_nat_Z, Hdd. lia. }
    assert (Hdig : Zdigits2 (Zpos mz) = 53).
    { apply digits_unique; [lia|]. rewrite Hmz.
      assert (E52 : 2 ^ (53 - 1) = 2 ^ (d - 1) * 2 ^ (53 - d)) by (rewrite <- pow_split by lia; f_equal; lia).
      assert (E53 : 2 ^ 53 = 2 ^ d * 2 ^ (53 - d)) by (rewrite <- pow_split by lia; f_equal; lia).
      rewrite E52, E53.
      assert (0 < 2 ^ (53 - d)) by (apply Z.pow_pos_nonneg; lia). nia. }
    exists mz. split; [exact Hmz|]. split; [exact Hdig|].
    pose proof (round_aux_spec mz (d - 53)) as HR. cbv zeta in HR. rewrite Hdig in HR.
    destruct HR as [m2 [m3 [e3 [_ [Hk0 [Hcase [Hm3 Hres]]]]]]]; try lia.
    specialize (Hk0 ltac:(lia)). unfold f64_prec, f64_emax. rewrite Hres.
    assert (Zpos mz < 2 ^ 53).
    { pose proof (digits_bounds mz) as Hbm. rewrite Hdig in Hbm. lia. }
    destruct Hcase as [[-> ->]|[Hc _]]; [|lia]. subst m2. f_equal; try lia; try apply Pos2Z.id.
Qed.

(* ---- the arithmetic heart: 0.8 as a double is 7205759403792794 / 2^53 = 0.8 + 0.4 * 2^-53 ---- *)
Definition m08 : Z := 7205759403792794.

Lemma core_arith maxb S K J m2 :
  0 <= maxb < 2 ^ 50 -> 8 <= S -> 1 <= K <= 2 ^ 53 -> 0 < J -> K * J = S * 2 ^ 53 ->
  (m2 = (maxb * S * m08) / K \/ m2 = (maxb * S * m08) / K + 1) ->
  m2 / J = 4 * maxb / 5.
Proof.
  intros Hmax HS HK HJ HKJ Hm2.
  set (q := 4 * maxb / 5). set (r := (4 * maxb) mod 5).
  assert (Hqr : 4 * maxb = 5 * q + r /\ 0 <= r < 5).
  { unfold q, r. pose proof (Z.div_mod (4 * maxb) 5 ltac:(lia)).
    pose proof (Z.mod_pos_bound (4 * maxb) 5 ltac:(lia)). lia. }
  set (F := maxb * m08 - q * 2 ^ 53).
  assert (HF5 : 5 * F = r * 2 ^ 53 + 2 * maxb) by (unfold F, m08; lia).
  assert (HF : 0 <= F <= 7656119366529843) by lia.
  set (P := maxb * S * m08) in *.
  assert (HP : P = q * (S * 2 ^ 53) + S * F) by (unfold P, F; lia).
  assert (HSF : 0 <= S * F <= S * 7656119366529843).
  { split; [apply Z.mul_nonneg_nonneg; lia | apply Z.mul_le_mono_nonneg_l; lia]. }
  assert (Hq0 : 0 <= q) by (unfold q; apply Z.div_pos; lia).
  assert (Hlo : q * J <= P / K).
  { apply Z.div_le_lower_bound; [lia|]. rewrite Z.mul_assoc, (Z.mul_comm K q), <- Z.mul_assoc, HKJ. lia. }
  assert (Hhi : P / K + 1 < (q + 1) * J).
  { assert (P / K < (q + 1) * J - 1); [|lia].
    apply Z.div_lt_upper_bound; [lia|].
    replace (K * ((q + 1) * J - 1)) with ((q + 1) * (K * J) - K) by lia. rewrite HKJ. lia. }
  symmetry. apply Z.div_unique with (r := m2 - q * J); lia.
Qed.

Lemma pow2_div a b : 0 <= b <= a -> 2 ^ a / 2 ^ b = 2 ^ (a - b).
Proof.
  intros H. replace a with ((a - b) + b) at 1 by lia. rewrite pow_split by lia.
  apply Z.div_mul. apply Z.pow_nonzero; lia.
Qed.

Theorem evict_target_four_fifths maxb : 0 <= maxb < 2 ^ 50 -> evict_target maxb = 4 * maxb / 5.
Proof.
  intros Hmax. destruct maxb as [|p|p]; [reflexivity| |lia].
  destruct (f64_of_Z_spec p ltac:(lia)) as [mz [Hmz [Hdig Hof]]].
  set (d := Zdigits2 (Zpos p)) in *.
  pose proof (digits_bounds p) as Hbd. fold d in Hbd.
  assert (Hd1 : 1 <= d) by (unfold d; rewrite Zdigits2_log2; pose proof (Z.log2_nonneg (Zpos p)); lia).
  assert (Hd50 : d <= 50).
  { destruct (Z_le_gt_dec d 50) as [H|H]; [exact H|]. exfalso.
    assert (2 ^ 50 <= 2 ^ (d - 1)) by (apply Z.pow_le_mono_r; lia). lia. }
  unfold evict_target. rewrite Hof. unfold f64_08, f64_prec, f64_emax. cbn [SFmul xorb].
  set (P := (mz * 7205759403792794)%positive).
  assert (HP : Zpos P = Zpos p * 2 ^ (53 - d) * m08) by (unfold P, m08; rewrite Pos2Z.inj_mul, Hmz; reflexivity).
  pose proof (digits_bounds mz) as Hbz. rewrite Hdig in Hbz.
  assert (HPr : 2 ^ 104 <= Zpos P < 2 ^ 106).
  { unfold P. rewrite Pos2Z.inj_mul. nia. }
  set (dp := Zdigits2 (Zpos P)).
  pose proof (digits_bounds P) as Hbp. fold dp in Hbp.
  assert (Hdp : 105 <= dp <= 106).
  { split.
    - destruct (Z_le_gt_dec 105 dp) as [H|H]; [exact H|]. exfalso.
      assert (2 ^ dp <= 2 ^ 104) by (apply Z.pow_le_mono_r; lia). lia.
    - destruct (Z_le_gt_dec dp 106) as [H|H]; [exact H|]. exfalso.
      assert (2 ^ 106 <= 2 ^ (dp - 1)) by (apply Z.pow_le_mono_r; lia). lia. }
  pose proof (round_aux_spec P (d - 53 + -53)) as HR. cbv zeta in HR. fold dp in HR.
  destruct HR as [m2 [m3 [e3 [Hm2 [_ [Hcase [Hm3 Hres]]]]]]]; try lia.
  rewrite Hres. set (k := dp - 53) in *. set (e1 := d - 53 + -53 + k) in *.
  assert (He1 : -53 <= e1 <= -3) by (unfold e1, k; lia).
  (* truncation of the result *)
  assert (Htr : f64_trunc (S754_finite false (Z.to_pos m3) e3) = m2 / 2 ^ (- e1)).
  { cbn [f64_trunc]. assert (He3 : e3 < 0) by (destruct Hcase as [[_ ->]|[_ [_ ->]]]; lia).
    destruct (0 <=? e3) eqn:E; [apply Z.leb_le in E; lia|].
    rewrite Z2Pos.id by lia. rewrite Z.quot_div_nonneg by (try lia; apply Z.pow_pos_nonneg; lia).
    destruct Hcase as [[-> ->]|[-> [-> ->]]]; [reflexivity|].
    rewrite !pow2_div by lia. f_equal. lia. }
  rewrite Htr.
  apply core_arith with (S := 2 ^ (53 - d)) (K := 2 ^ k).
  - lia.
  - change 8 with (2 ^ 3). apply Z.pow_le_mono_r; lia.
  - split; [assert (0 < 2 ^ k) by (apply Z.pow_pos_nonneg; unfold k; lia); lia|].
    apply Z.pow_le_mono_r; unfold k; lia.
  - apply Z.pow_pos_nonneg; lia.
  - rewrite <- !pow_split by (unfold k; lia). f_equal. unfold e1, k. lia.
  - rewrite <- HP. exact Hm2.
Qed.
