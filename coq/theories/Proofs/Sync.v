(* Proofs about Model/Sync.v: the rank discipline gives deadlock freedom and
   completion for every interleaving; the skeleton checker is sound for every
   denotation and every shard map. *)
From Reservoir Require Import Base.Prelude Model.Sync.
From Coq Require Import Arith PeanoNat Lia.

Local Open Scope nat_scope.

(* ------------------------------------------------------------------ *)
(* Basic facts *)

Lemma lock_eqb_eq a b : lock_eqb a b = true <-> a = b.
Proof.
  destruct a, b; simpl; split; intros H; try discriminate; try reflexivity;
    try (apply Nat.eqb_eq in H; congruence);
    try (inversion H; subst; apply Nat.eqb_refl).
Qed.

Lemma lock_eqb_refl a : lock_eqb a a = true.
Proof. apply lock_eqb_eq. reflexivity. Qed.

Lemma lmem_In l h : lmem l h = true <-> In l h.
Proof.
  induction h as [|x r IH]; simpl.
  - split; [discriminate|tauto].
  - rewrite orb_true_iff, IH, lock_eqb_eq. split; intros [H|H]; auto.
Qed.

Lemma lmem_false l h : lmem l h = false <-> ~ In l h.
Proof.
  rewrite <- lmem_In. destruct (lmem l h); split; intros H; try discriminate; auto.
  exfalso; apply H; reflexivity.
Qed.

Lemma is_free_spec s l : is_free s l = true <-> forall t, In t s -> ~ In l (held t).
Proof.
  unfold is_free. rewrite forallb_forall. split; intros H t Ht.
  - apply lmem_false. specialize (H t Ht). destruct (lmem l (held t)); [discriminate|reflexivity].
  - apply H in Ht. apply lmem_false in Ht. rewrite Ht. reflexivity.
Qed.

Lemma not_free_holder s l : is_free s l = false -> exists u, In u s /\ In l (held u).
Proof.
  unfold is_free. induction s as [|t r IH]; simpl; [discriminate|].
  destruct (lmem l (held t)) eqn:E; simpl.
  - intros _. exists t. split; [left; reflexivity|apply lmem_In; exact E].
  - intros H. destruct (IH H) as [u [Hu Hl]]. exists u. split; [right; exact Hu|exact Hl].
Qed.

Lemma remove1_In l x h : In x (remove1 l h) -> In x h.
Proof.
  induction h as [|y r IH]; simpl; [tauto|].
  destruct (lock_eqb l y); simpl; intros H; [right; exact H|].
  destruct H as [H|H]; [left; exact H|right; apply IH; exact H].
Qed.

Lemma remove1_NoDup l h : NoDup h -> NoDup (remove1 l h).
Proof.
  induction 1 as [|y r Hy Hr IH]; simpl; [constructor|].
  destruct (lock_eqb l y); [exact Hr|].
  constructor; [|exact IH]. intros H. apply Hy. eapply remove1_In; exact H.
Qed.

(* upd_nth *)
Lemma nth_error_upd_same {A} i (x : A) l t : nth_error l i = Some t -> nth_error (upd_nth i x l) i = Some x.
Proof.
  revert i; induction l as [|y r IH]; intros [|i]; simpl; try discriminate; auto.
Qed.

Lemma nth_error_upd_other {A} i j (x : A) l : i <> j -> nth_error (upd_nth i x l) j = nth_error l j.
Proof.
  revert i j; induction l as [|y r IH]; intros [|i] [|j] H; simpl; try reflexivity; try congruence.
  apply IH. congruence.
Qed.

Lemma In_upd_nth {A} i (x y : A) l : In y (upd_nth i x l) -> y = x \/ In y l.
Proof.
  revert i; induction l as [|z r IH]; intros [|i]; simpl; try tauto.
  - intros [H|H]; auto.
  - intros [H|H]; auto. destruct (IH i H); auto.
Qed.

Lemma In_nth_error_ex {A} (x : A) l : In x l -> exists i, nth_error l i = Some x.
Proof. apply In_nth_error. Qed.

(* ------------------------------------------------------------------ *)
(* Well-formed systems: lock exclusivity + every thread obeys the discipline *)

Definition excl (s : sys) : Prop :=
  (forall t, In t s -> NoDup (held t)) /\
  (forall i j ti tj l, nth_error s i = Some ti -> nth_error s j = Some tj ->
                        In l (held ti) -> In l (held tj) -> i = j).

Definition wf (s : sys) : Prop :=
  excl s /\ forall t, In t s -> disc (held t) (code t).

Lemma excl_upd s i t t' :
  excl s -> nth_error s i = Some t -> NoDup (held t') ->
  (forall l, In l (held t') -> In l (held t) \/ is_free s l = true) ->
  excl (upd_nth i t' s).
Proof.
  intros [Hnd Hex] Hi Hnd' Hsub. split.
  - intros u Hu. apply In_upd_nth in Hu as [->|Hu]; auto.
  - intros a b ta tb l Ha Hb Hla Hlb.
    destruct (Nat.eq_dec i a) as [<-|Hia]; destruct (Nat.eq_dec i b) as [<-|Hib]; try reflexivity.
    + rewrite (nth_error_upd_same _ _ _ _ Hi) in Ha. inversion Ha; subst ta.
      rewrite nth_error_upd_other in Hb by exact Hib.
      destruct (Hsub l Hla) as [Hl|Hf].
      * eapply Hex; eauto.
      * exfalso. rewrite is_free_spec in Hf. eapply Hf; [eapply nth_error_In; exact Hb|exact Hlb].
    + rewrite (nth_error_upd_same _ _ _ _ Hi) in Hb. inversion Hb; subst tb.
      rewrite nth_error_upd_other in Ha by exact Hia.
      destruct (Hsub l Hlb) as [Hl|Hf].
      * eapply Hex; eauto.
      * exfalso. rewrite is_free_spec in Hf. eapply Hf; [eapply nth_error_In; exact Ha|exact Hla].
    + rewrite nth_error_upd_other in Ha by exact Hia.
      rewrite nth_error_upd_other in Hb by exact Hib.
      eapply Hex; eauto.
Qed.

Lemma thread_step_wf s i t c t' :
  wf s -> nth_error s i = Some t -> thread_step s t c = Some t' -> wf (upd_nth i t' s).
Proof.
  intros [Hex Hd] Hi Hst.
  assert (Hin : In t s) by (eapply nth_error_In; exact Hi).
  pose proof (Hd t Hin) as Hdt.
  pose proof (proj1 Hex t Hin) as Hndt.
  assert (Hgoal : NoDup (held t') /\
                  (forall l, In l (held t') -> In l (held t) \/ is_free s l = true) /\
                  disc (held t') (code t')).
  { unfold thread_step in Hst. destruct (code t) as [|l k|l k|l kok kfail|k1 k2|k|k] eqn:Ec; simpl in Hdt.
    - discriminate.
    - destruct (is_free s l) eqn:Ef; [|discriminate]. inversion Hst; subst t'; simpl.
      split; [|split].
      + constructor; [|exact Hndt]. rewrite is_free_spec in Ef. apply Ef; exact Hin.
      + intros l' [<-|H]; auto.
      + apply Hdt.
    - destruct (lmem l (held t)) eqn:Em; [|discriminate]. inversion Hst; subst t'; simpl.
      split; [|split].
      + apply remove1_NoDup; exact Hndt.
      + intros l' H; left; eapply remove1_In; exact H.
      + apply Hdt.
    - destruct (is_free s l) eqn:Ef; inversion Hst; subst t'; simpl.
      + assert (Hnl : ~ In l (held t)) by (rewrite is_free_spec in Ef; apply Ef; exact Hin).
        split; [|split].
        * constructor; assumption.
        * intros l' [<-|H]; auto.
        * apply (proj1 Hdt); exact Hnl.
      + split; [exact Hndt|split; [auto|apply Hdt]].
    - inversion Hst; subst t'; simpl. split; [exact Hndt|split; [auto|]].
      destruct c; apply Hdt.
    - inversion Hst; subst t'; simpl. split; [exact Hndt|split; [auto|apply Hdt]].
    - inversion Hst; subst t'; simpl. split; [exact Hndt|split; [auto|exact Hdt]]. }
  destruct Hgoal as [H1 [H2 H3]]. split.
  - eapply excl_upd; eauto.
  - intros u Hu. apply In_upd_nth in Hu as [->|Hu]; auto.
Qed.

Lemma sys_step_wf s i c s' : wf s -> sys_step s i c = Some s' -> wf s'.
Proof.
  unfold sys_step. intros Hwf H.
  destruct (nth_error s i) as [t|] eqn:Hi; [|discriminate].
  destruct (thread_step s t c) as [t'|] eqn:Hst; [|discriminate].
  inversion H; subst s'. eapply thread_step_wf; eauto.
Qed.

Lemma run_wf sched : forall s s', wf s -> run s sched = Some s' -> wf s'.
Proof.
  induction sched as [|[i c] r IH]; simpl; intros s s' Hwf H.
  - inversion H; subst; exact Hwf.
  - destruct (sys_step s i c) as [s1|] eqn:E; [|discriminate].
    eapply IH; [eapply sys_step_wf; eauto|exact H].
Qed.

Lemma spawn_wf ps : (forall p, In p ps -> disc [] p) -> wf (spawn ps).
Proof.
  intros H. split; [split|].
  - intros t Ht. unfold spawn in Ht. apply in_map_iff in Ht as [p [<- _]]. simpl. constructor.
  - intros i j ti tj l Hi _ Hl _. exfalso.
    apply nth_error_In in Hi. unfold spawn in Hi. apply in_map_iff in Hi as [p [<- _]]. simpl in Hl. exact Hl.
  - intros t Ht. unfold spawn in Ht. apply in_map_iff in Ht as [p [<- Hp]]. simpl. apply H; exact Hp.
Qed.

(* ------------------------------------------------------------------ *)
(* Progress: no reachable state is a deadlock *)

Definition awaited (t : thread) : option lock :=
  match code t with PAcq l _ => Some l | _ => None end.

Definition blocked (s : sys) (t : thread) : bool :=
  match code t with PAcq l _ => negb (is_free s l) | _ => false end.

Definition wrank (t : thread) : nat :=
  match code t with PAcq l _ => rank l | _ => 0 end.

Lemma exists_max {A} (f : A -> nat) (l : list A) :
  l <> [] -> exists x, In x l /\ forall y, In y l -> f y <= f x.
Proof.
  induction l as [|a r IH]; [congruence|]. intros _.
  destruct r as [|b r'].
  - exists a. split; [left; reflexivity|]. intros y [<-|[]]. lia.
  - destruct IH as [x [Hx Hmax]]; [discriminate|].
    destruct (le_lt_dec (f a) (f x)) as [Hle|Hlt].
    + exists x. split; [right; exact Hx|]. intros y [<-|Hy]; auto.
    + exists a. split; [left; reflexivity|]. intros y [<-|Hy]; [lia|]. specialize (Hmax y Hy). lia.
Qed.

Lemma unblocked_moves s t c :
  disc (held t) (code t) -> is_done t = false -> blocked s t = false ->
  thread_step s t c <> None.
Proof.
  unfold is_done, blocked, thread_step. intros Hd Hdone Hb.
  destruct (code t) as [|l k|l k|l kok kfail|k1 k2|k|k]; simpl in *; try discriminate.
  - destruct (is_free s l); [discriminate|discriminate].
  - destruct Hd as [Hin _]. apply lmem_In in Hin. rewrite Hin. discriminate.
  - destruct (is_free s l); discriminate.
Qed.

Theorem progress s :
  wf s -> quiescent s = false ->
  exists i t c, nth_error s i = Some t /\ at_block t = false /\ thread_step s t c <> None.
Proof.
  intros [Hex Hd] Hq.
  (* some thread is neither finished nor waiting for the environment *)
  assert (Hactive : exists t, In t s /\ is_done t = false /\ at_block t = false).
  { unfold quiescent in Hq.
    assert (Hex' : exists t, In t s /\ ((is_done t || at_block t) && match held t with [] => true | _ => false end) = false).
    { clear -Hq. induction s as [|t r IH]; simpl in Hq; [discriminate|].
      apply andb_false_iff in Hq as [H|H].
      - exists t. split; [left; reflexivity|exact H].
      - destruct (IH H) as [u [Hu Hu']]. exists u. split; [right; exact Hu|exact Hu']. }
    destruct Hex' as [t [Ht Hf]]. exists t. split; [exact Ht|].
    pose proof (Hd t Ht) as Hdt.
    unfold is_done, at_block in *. destruct (code t); simpl in *; auto.
    - subst. rewrite Hdt in Hf. discriminate.
    - destruct Hdt as [Hh _]. rewrite Hh in Hf. discriminate. }
  destruct Hactive as [t0 [Ht0 [Hnd0 Hnb0]]].
  (* either an active thread is not blocked ... *)
  destruct (existsb (fun t => negb (is_done t) && negb (at_block t) && negb (blocked s t)) s) eqn:Emov.
  { apply existsb_exists in Emov as [t [Ht Hc]].
    apply andb_true_iff in Hc as [Hc Hb]. apply andb_true_iff in Hc as [Hdn Hbl].
    apply negb_true_iff in Hdn, Hbl, Hb.
    destruct (In_nth_error_ex t s Ht) as [i Hi].
    exists i, t, true. split; [exact Hi|split; [exact Hbl|]].
    apply unblocked_moves; auto. }
  (* ... or all of them wait for a lock: take the one waiting for the highest rank *)
  exfalso.
  assert (Hall : forall t, In t s -> is_done t = false -> at_block t = false -> blocked s t = true).
  { intros t Ht H1 H2. destruct (blocked s t) eqn:Eb; [reflexivity|].
    assert (existsb (fun t => negb (is_done t) && negb (at_block t) && negb (blocked s t)) s = true).
    { apply existsb_exists. exists t. split; [exact Ht|]. rewrite H1, H2, Eb. reflexivity. }
    congruence. }
  set (W := filter (blocked s) s).
  assert (HW : W <> []).
  { intros E. assert (In t0 W) by (apply filter_In; split; [exact Ht0|apply Hall; auto]).
    rewrite E in H. exact H. }
  destruct (exists_max wrank W HW) as [t [HtW Hmax]].
  apply filter_In in HtW as [Hts Htb].
  unfold blocked in Htb. destruct (code t) as [|l k| | | | |] eqn:Ect; try discriminate.
  apply negb_true_iff in Htb.
  destruct (not_free_holder s l Htb) as [u [Hus Hlu]].
  pose proof (Hd u Hus) as Hdu.
  assert (Hund : is_done u = false).
  { unfold is_done. destruct (code u); auto. simpl in Hdu. rewrite Hdu in Hlu. destruct Hlu. }
  assert (Hunb : at_block u = false).
  { unfold at_block. destruct (code u); auto. simpl in Hdu. destruct Hdu as [Hh _]. rewrite Hh in Hlu. destruct Hlu. }
  pose proof (Hall u Hus Hund Hunb) as Hub.
  assert (HuW : In u W) by (apply filter_In; split; assumption).
  specialize (Hmax u HuW).
  unfold blocked in Hub. unfold wrank in Hmax. rewrite Ect in Hmax.
  destruct (code u) as [|l' k'| | | | |]; try discriminate.
  simpl in Hdu. destruct Hdu as [Hrk _]. specialize (Hrk l Hlu). lia.
Qed.

(* ------------------------------------------------------------------ *)
(* Termination measure *)

Lemma thread_step_size s t c t' : thread_step s t c = Some t' -> psize (code t') < psize (code t).
Proof.
  unfold thread_step. destruct (code t) as [|l k|l k|l kok kfail|k1 k2|k|k]; simpl; intros H; try discriminate.
  - destruct (is_free s l); inversion H; subst; simpl; lia.
  - destruct (lmem l (held t)); inversion H; subst; simpl; lia.
  - destruct (is_free s l); inversion H; subst; simpl; lia.
  - inversion H; subst; simpl. destruct c; lia.
  - inversion H; subst; simpl; lia.
  - inversion H; subst; simpl; lia.
Qed.

Lemma total_upd s : forall i t t', nth_error s i = Some t ->
  total (upd_nth i t' s) + psize (code t) = total s + psize (code t').
Proof.
  induction s as [|x r IH]; intros [|i] t t' H; simpl in *; try discriminate.
  - inversion H; subst. lia.
  - specialize (IH i t t' H). lia.
Qed.

Lemma sys_step_total s i c s' : sys_step s i c = Some s' -> total s' < total s.
Proof.
  unfold sys_step. destruct (nth_error s i) as [t|] eqn:Hi; [|discriminate].
  destruct (thread_step s t c) as [t'|] eqn:Hst; [|discriminate].
  intros H; inversion H; subst s'.
  pose proof (total_upd s i t t' Hi). pose proof (thread_step_size _ _ _ _ Hst). lia.
Qed.

Lemma run_total sched : forall s s', run s sched = Some s' -> length sched + total s' <= total s.
Proof.
  induction sched as [|[i c] r IH]; simpl; intros s s' H.
  - inversion H; subst; lia.
  - destruct (sys_step s i c) as [s1|] eqn:E; [|discriminate].
    pose proof (sys_step_total _ _ _ _ E). specialize (IH _ _ H). lia.
Qed.

(* ------------------------------------------------------------------ *)
(* Wait-free threads always move *)

Lemma wait_free_moves s t c :
  disc (held t) (code t) -> wait_free (code t) = true -> is_done t = false ->
  exists t', thread_step s t c = Some t' /\ wait_free (code t') = true.
Proof.
  unfold thread_step, is_done. intros Hd Hw Hdn.
  destruct (code t) as [|l k|l k|l kok kfail|k1 k2|k|k]; simpl in *; try discriminate.
  - destruct Hd as [Hin _]. apply lmem_In in Hin. rewrite Hin. eexists; split; [reflexivity|exact Hw].
  - apply andb_true_iff in Hw as [H1 H2].
    destruct (is_free s l); eexists; split; try reflexivity; assumption.
  - apply andb_true_iff in Hw as [H1 H2].
    eexists; split; [reflexivity|]. simpl. destruct c; assumption.
  - eexists; split; [reflexivity|exact Hw].
Qed.

(* ------------------------------------------------------------------ *)
(* Soundness of the skeleton checker *)

Lemma slock_eqb_eq a b : slock_eqb a b = true <-> a = b.
Proof.
  destruct a, b; simpl; split; intros H; try discriminate; try reflexivity;
    try (apply Nat.eqb_eq in H; congruence);
    try (inversion H; subst; apply Nat.eqb_refl).
Qed.

Lemma smem_In l h : smem l h = true <-> In l h.
Proof.
  induction h as [|x r IH]; simpl.
  - split; [discriminate|tauto].
  - rewrite orb_true_iff, IH, slock_eqb_eq. split; intros [H|H]; auto.
Qed.

Lemma sheld_eqb_eq a b : sheld_eqb a b = true <-> a = b.
Proof.
  revert b; induction a as [|x a IH]; intros [|y b]; simpl; split; intros H; try discriminate; try reflexivity.
  - apply andb_true_iff in H as [H1 H2]. apply slock_eqb_eq in H1. apply IH in H2. congruence.
  - inversion H; subst. apply andb_true_iff. split; [apply slock_eqb_eq; reflexivity|apply IH; reflexivity].
Qed.

Lemma rank_plock rho l : rank (plock rho l) = srank l.
Proof. destruct l; reflexivity. Qed.

Lemma phys_upd_env rho v i h : smem (SShard v) h = false -> phys (upd_env rho v i) h = phys rho h.
Proof.
  induction h as [|x r IH]; simpl; [reflexivity|]. intros H.
  apply orb_false_iff in H as [Hx Hr]. rewrite (IH Hr). f_equal.
  destruct x as [|w|n]; simpl; try reflexivity.
  unfold upd_env. simpl in Hx. rewrite Nat.eqb_sym in Hx. rewrite Hx. reflexivity.
Qed.

Lemma phys_remove1 rho l h :
  NoDup (phys rho h) -> In l h -> phys rho (sremove1 l h) = remove1 (plock rho l) (phys rho h).
Proof.
  induction h as [|x r IH]; simpl; [tauto|]. intros Hnd Hin.
  inversion Hnd as [|? ? Hx Hr]; subst.
  destruct (slock_eqb l x) eqn:E.
  - apply slock_eqb_eq in E; subst x. rewrite lock_eqb_refl. reflexivity.
  - destruct Hin as [Heq|Hin]; [subst x; rewrite (proj2 (slock_eqb_eq l l) eq_refl) in E; discriminate|].
    destruct (lock_eqb (plock rho l) (plock rho x)) eqn:E2.
    + exfalso. apply lock_eqb_eq in E2. apply Hx. rewrite <- E2. apply in_map. exact Hin.
    + simpl. f_equal. apply IH; assumption.
Qed.

Lemma cjoin_l a b h : cjoin a b <> CFail -> a = CExit h -> cjoin a b = CExit h.
Proof.
  intros Hn ->. destruct b as [| |h2]; simpl in *; try congruence.
  destruct (sheld_eqb h h2); congruence.
Qed.

Lemma cjoin_r a b h : cjoin a b <> CFail -> b = CExit h -> cjoin a b = CExit h.
Proof.
  intros Hn ->. destruct a as [| |h1]; simpl in *; try congruence.
  destruct (sheld_eqb h1 h) eqn:E; [|congruence]. apply sheld_eqb_eq in E. congruence.
Qed.

Lemma cjoin_nf_l a b : cjoin a b <> CFail -> a <> CFail.
Proof. destruct a; simpl; congruence. Qed.

Lemma cjoin_nf_r a b : cjoin a b <> CFail -> b <> CFail.
Proof. destruct a, b; simpl; congruence. Qed.

Theorem check_sound s rho kn kr p :
  den s rho kn kr p ->
  forall h hret,
    check s h hret <> CFail ->
    NoDup (phys rho h) ->
    disc (phys rho hret) kr ->
    (forall h', check s h hret = CExit h' -> NoDup (phys rho h') -> disc (phys rho h') kn) ->
    disc (phys rho h) p.
Proof.
  induction 1 as
    [ rho kn kr
    | l rho kn kr
    | l rho kn kr
    | l ok fail rho kn kr pok pfail Hok IHok Hfail IHfail
    | a b rho kn kr pb p Hb IHb Ha IHa
    | a b rho kn kr pa pb Ha IHa Hb IHb
    | a rho kn kr
    | a rho kn kr ploop pbody Hloop IHloop Hbody IHbody
    | v body rho i kn kr p Hbody IHbody
    | rho kn kr
    | rho kn kr
    | rho kn kr
    | body rho kn kr p Hbody IHbody ];
    intros h hret Hnf Hnd Hkr Hkn; cbn [check] in *.
  - (* SSkip *) apply Hkn; auto.
  - (* SAcq *)
    destruct (forallb (fun l' => Nat.ltb (srank l') (srank l)) h) eqn:E; [|congruence].
    assert (Hrk : forall l', In l' (phys rho h) -> rank l' < rank (plock rho l)).
    { intros l' Hl'. unfold phys in Hl'. apply in_map_iff in Hl' as [x [<- Hx]].
      rewrite !rank_plock. rewrite forallb_forall in E. specialize (E x Hx). apply Nat.ltb_lt in E. exact E. }
    simpl. split; [exact Hrk|].
    apply (Hkn (l :: h)); [reflexivity|]. simpl. constructor; [|exact Hnd].
    intros Hin. specialize (Hrk _ Hin). lia.
  - (* SRel *)
    destruct (smem l h) eqn:E; [|congruence]. apply smem_In in E.
    simpl. split; [unfold phys; apply in_map; exact E|].
    rewrite <- phys_remove1 by assumption.
    apply Hkn; [reflexivity|]. rewrite phys_remove1 by assumption. apply remove1_NoDup; exact Hnd.
  - (* STry *)
    simpl. destruct (smem l h) eqn:E.
    + split.
      * intros Hn. exfalso. apply Hn. apply smem_In in E. unfold phys; apply in_map; exact E.
      * apply (IHfail h hret); auto.
    + split.
      * intros Hn. apply (IHok (l :: h) hret).
        -- eapply cjoin_nf_l; exact Hnf.
        -- simpl. constructor; assumption.
        -- exact Hkr.
        -- intros h' Hc Hnd'. apply Hkn; [eapply cjoin_l; eauto|exact Hnd'].
      * apply (IHfail h hret).
        -- eapply cjoin_nf_r; exact Hnf.
        -- exact Hnd.
        -- exact Hkr.
        -- intros h' Hc Hnd'. apply Hkn; [eapply cjoin_r; eauto|exact Hnd'].
  - (* SSeq *)
    destruct (check a h hret) as [| |h1] eqn:Ea; [congruence| |].
    + apply (IHa h hret); auto; [congruence|]. intros h' Hc; congruence.
    + apply (IHa h hret); auto; [congruence|].
      intros h' Hc Hnd'. rewrite Ea in Hc. inversion Hc; subst h'.
      apply (IHb h1 hret); auto.
  - (* SAlt *)
    simpl. split.
    + apply (IHa h hret); auto; [eapply cjoin_nf_l; exact Hnf|].
      intros h' Hc Hnd'. apply Hkn; [eapply cjoin_l; eauto|exact Hnd'].
    + apply (IHb h hret); auto; [eapply cjoin_nf_r; exact Hnf|].
      intros h' Hc Hnd'. apply Hkn; [eapply cjoin_r; eauto|exact Hnd'].
  - (* SStar, exit *)
    apply Hkn; [|exact Hnd].
    destruct (check a h hret) as [| |h1]; [congruence|reflexivity|].
    destruct (sheld_eqb h1 h); [reflexivity|congruence].
  - (* SStar, one more iteration *)
    assert (Hstar : check (SStar a) h hret = CExit h).
    { cbn [check]. destruct (check a h hret) as [| |h1]; [congruence|reflexivity|].
      destruct (sheld_eqb h1 h); [reflexivity|congruence]. }
    simpl. split.
    + apply Hkn; [|exact Hnd].
      destruct (check a h hret) as [| |h1]; [congruence|reflexivity|].
      destruct (sheld_eqb h1 h); [reflexivity|congruence].
    + apply (IHbody h hret); auto.
      * destruct (check a h hret) as [| |h1]; congruence.
      * intros h' Hc Hnd'.
        assert (h' = h).
        { rewrite Hc in Hnf. destruct (sheld_eqb h' h) eqn:E; [apply sheld_eqb_eq in E; exact E|congruence]. }
        subst h'. apply (IHloop h hret); auto.
  - (* SBind *)
    destruct (smem (SShard v) h) eqn:E1; [simpl in Hnf; congruence|].
    destruct (smem (SShard v) hret) eqn:E2; [simpl in Hnf; congruence|]. simpl in Hnf, Hkn.
    rewrite <- (phys_upd_env rho v i h E1).
    apply (IHbody h hret).
    + destruct (check body h hret); congruence.
    + rewrite phys_upd_env by exact E1. exact Hnd.
    + rewrite phys_upd_env by exact E2. exact Hkr.
    + intros h' Hc Hnd'. rewrite Hc in Hnf, Hkn.
      destruct (smem (SShard v) h') eqn:E3; [congruence|].
      rewrite phys_upd_env in * by exact E3. apply Hkn; auto.
  - (* SBlock *)
    destruct h as [|x r]; [|congruence]. simpl. split; [reflexivity|].
    apply (Hkn []); [reflexivity|constructor].
  - (* SIO *) simpl. apply Hkn; auto.
  - (* SRet *)
    destruct (sheld_eqb h hret) eqn:E; [|congruence]. apply sheld_eqb_eq in E. subst. exact Hkr.
  - (* SFun *)
    assert (Hfun : check (SFun body) h hret = CExit h).
    { cbn [check]. destruct (check body h h) as [| |h1]; [congruence|reflexivity|].
      destruct (sheld_eqb h1 h); [reflexivity|congruence]. }
    assert (Hk : disc (phys rho h) kn) by (apply Hkn; [|exact Hnd];
      destruct (check body h h) as [| |h1]; [congruence|reflexivity|];
      destruct (sheld_eqb h1 h); [reflexivity|congruence]).
    apply (IHbody h h); auto.
    + destruct (check body h h); congruence.
    + intros h' Hc Hnd'. rewrite Hc in Hnf.
      destruct (sheld_eqb h' h) eqn:E; [|congruence]. apply sheld_eqb_eq in E. subst h'. exact Hk.
Qed.

Lemma entry_disc e rho p : entry_ok e = true -> den (SFun e) rho PDone PDone p -> disc [] p.
Proof.
  unfold entry_ok. intros Hok Hden.
  change (disc (phys rho []) p).
  eapply (check_sound _ _ _ _ _ Hden [] []).
  - destruct (check (SFun e) [] []); congruence.
  - constructor.
  - reflexivity.
  - intros h' Hc _. rewrite Hc in Hok. destruct h'; [reflexivity|discriminate].
Qed.

(* ------------------------------------------------------------------ *)
(* Wait-free skeletons denote wait-free programs *)

Lemma waitfree_den s rho kn kr p :
  den s rho kn kr p -> waitfree_skel s = true -> wait_free kn = true -> wait_free kr = true ->
  wait_free p = true.
Proof.
  induction 1; cbn [waitfree_skel]; intros Hs Hn Hr; simpl; auto; try discriminate.
  - apply andb_true_iff in Hs as [H1 H2]. rewrite IHden1, IHden2; auto.
  - apply andb_true_iff in Hs as [H1 H2]. apply IHden2; auto.
  - apply andb_true_iff in Hs as [H1 H2]. rewrite IHden1, IHden2; auto.
  - rewrite Hn. simpl. apply IHden2; auto.
Qed.

Lemma no_shard_den s rho kn kr p :
  den s rho kn kr p -> no_shard_acq s = true ->
  never_awaits_shard kn = true -> never_awaits_shard kr = true ->
  never_awaits_shard p = true.
Proof.
  induction 1; cbn [no_shard_acq]; intros Hs Hn Hr; simpl; auto; try discriminate.
  - destruct l; simpl in *; try discriminate; auto.
  - apply andb_true_iff in Hs as [H1 H2]. rewrite IHden1, IHden2; auto.
  - apply andb_true_iff in Hs as [H1 H2]. apply IHden2; auto.
  - apply andb_true_iff in Hs as [H1 H2]. rewrite IHden1, IHden2; auto.
  - rewrite Hn. simpl. apply IHden2; auto.
Qed.

(* ------------------------------------------------------------------ *)
(* The statements used by Properties/C14.v *)

Theorem disciplined_systems_complete ps sched s' :
  (forall p, In p ps -> disc [] p) ->
  run (spawn ps) sched = Some s' ->
  (quiescent s' = true \/
   exists i t c, nth_error s' i = Some t /\ at_block t = false /\ thread_step s' t c <> None)
  /\ length sched + total s' <= total (spawn ps).
Proof.
  intros Hd Hrun. split.
  - destruct (quiescent s') eqn:Eq; [left; reflexivity|right].
    apply progress; [|exact Eq]. eapply run_wf; [apply spawn_wf; exact Hd|exact Hrun].
  - apply run_total; exact Hrun.
Qed.

Theorem checked_entries_deadlock_free entries ps sched s' :
  forallb entry_ok entries = true ->
  (forall p, In p ps -> thread_of entries p) ->
  run (spawn ps) sched = Some s' ->
  (quiescent s' = true \/
   exists i t c, nth_error s' i = Some t /\ at_block t = false /\ thread_step s' t c <> None)
  /\ length sched + total s' <= total (spawn ps).
Proof.
  intros Hok Hth. apply disciplined_systems_complete.
  intros p Hp. destruct (Hth p Hp) as [e [rho [He Hden]]].
  rewrite forallb_forall in Hok. eapply entry_disc; [apply Hok; exact He|exact Hden].
Qed.

(* A thread running a wait-free entry moves whenever it is scheduled, in any
   reachable state of any system of checked entries, until it has finished. *)
Theorem waitfree_entry_never_waits entries ps sched s' i t c :
  forallb entry_ok entries = true ->
  (forall p, In p ps -> thread_of entries p) ->
  run (spawn ps) sched = Some s' ->
  nth_error s' i = Some t -> wait_free (code t) = true -> is_done t = false ->
  exists t', thread_step s' t c = Some t' /\ wait_free (code t') = true.
Proof.
  intros Hok Hth Hrun Hi Hw Hdn.
  assert (Hwf : wf s').
  { eapply run_wf; [apply spawn_wf|exact Hrun].
    intros p Hp. destruct (Hth p Hp) as [e [rho [He Hden]]].
    rewrite forallb_forall in Hok. eapply entry_disc; [apply Hok; exact He|exact Hden]. }
  apply wait_free_moves; auto. apply (proj2 Hwf). eapply nth_error_In; exact Hi.
Qed.

Theorem waitfree_entry_program e rho p :
  waitfree_skel e = true -> den (SFun e) rho PDone PDone p -> wait_free p = true.
Proof.
  intros Hw Hden. eapply waitfree_den; [exact Hden|exact Hw|reflexivity|reflexivity].
Qed.

Theorem no_shard_entry_program e rho p :
  no_shard_acq e = true -> den (SFun e) rho PDone PDone p -> never_awaits_shard p = true.
Proof.
  intros Hw Hden. eapply no_shard_den; [exact Hden|exact Hw|reflexivity|reflexivity].
Qed.
