(* Proofs about Model/Auth.v (C20). Everything is proved for every password-hash
   scheme (H, verify, mkhash), every route table and every history. *)
From Reservoir Require Import Base.Prelude Model.Auth.

(* ---------- the route table ---------- *)

Lemma routes_guarded_sound : forall table, routes_guarded table = true ->
  forall r, In r table -> is_login_route r = false -> r_auth r = true.
Proof.
  intros table Hg r Hin Hl. unfold routes_guarded in Hg.
  rewrite forallb_forall in Hg. specialize (Hg r Hin). rewrite Hl in Hg. exact Hg.
Qed.

Lemma mux_found : forall table m p r, mux table m p = MFound r ->
  In r table /\ route_matches m p r = true.
Proof.
  intros table m p r H. unfold mux in H.
  destruct (find (route_matches m p) table) as [r'|] eqn:E.
  - inversion H; subst. apply find_some in E. exact E.
  - destruct (existsb _ table); discriminate.
Qed.

Lemma meth_eqb_eq a b : meth_eqb a b = true <-> a = b.
Proof. destruct a, b; simpl; split; intros; try reflexivity; try discriminate. Qed.

Lemma meth_matches_post pat : meth_matches pat POST = true -> pat = POST.
Proof. destruct pat; simpl; intros; try reflexivity; discriminate. Qed.

Lemma meth_matches_is_post pat m : pat = POST -> meth_matches pat m = true -> m = POST.
Proof. intros ->. destruct m; simpl; intros; try reflexivity; discriminate. Qed.

Lemma kind_login_iff r : kind_of r = HLogin <-> is_login_route r = true.
Proof.
  unfold kind_of, is_login_route.
  destruct (r_method r); simpl; try (split; discriminate).
  - destruct (str_eqb (r_path r) p_login); [split; reflexivity|].
    destruct (str_eqb (r_path r) p_logout); split; discriminate.
  - destruct (str_eqb (r_path r) p_change); [split; discriminate|].
    destruct (str_eqb (r_path r) p_config); split; discriminate.
Qed.

Lemma kind_logout_inv r : kind_of r = HLogout -> r_method r = POST /\ r_path r = p_logout.
Proof.
  unfold kind_of. destruct (r_method r); try discriminate.
  - destruct (str_eqb (r_path r) p_login); [discriminate|].
    destruct (str_eqb (r_path r) p_logout) eqn:E; [|discriminate].
    intros _. split; [reflexivity|]. apply str_eqb_eq. exact E.
  - destruct (str_eqb (r_path r) p_change); [discriminate|].
    destruct (str_eqb (r_path r) p_config); discriminate.
Qed.

Lemma kind_logout_of r : r_method r = POST -> r_path r = p_logout -> kind_of r = HLogout.
Proof.
  intros Hm Hp. unfold kind_of. rewrite Hm, Hp.
  replace (str_eqb p_logout p_login) with false by (vm_compute; reflexivity).
  rewrite str_eqb_refl. reflexivity.
Qed.

(* a request that looks like a logout reaches the logout handler, and only such a request does *)
Lemma logout_req_kind : forall q r,
  route_matches (q_method q) (q_path q) r = true ->
  (is_logout_req q = true <-> kind_of r = HLogout).
Proof.
  intros q r Hm. unfold route_matches in Hm. apply andb_true_iff in Hm as [Hmm Hp].
  apply str_eqb_eq in Hp. unfold is_logout_req. split.
  - intros H. apply andb_true_iff in H as [H1 H2].
    apply meth_eqb_eq in H1. apply str_eqb_eq in H2.
    apply kind_logout_of; [|congruence].
    rewrite H1 in Hmm. apply meth_matches_post. exact Hmm.
  - intros H. apply kind_logout_inv in H as [H1 H2].
    apply andb_true_iff. split.
    + apply meth_eqb_eq. eapply meth_matches_is_post; eassumption.
    + apply str_eqb_eq. congruence.
Qed.

Section WithHash.
Variable H : Type.
Variable verify : H -> Z -> bool.
Variable mkhash : Z -> H.

Notation state := (state H).
Notation effect := (effect H).
Notation api_step := (api_step H verify mkhash).
Notation handle := (handle H verify mkhash).
Notation step := (step H verify mkhash).
Notation run := (run H verify mkhash).
Notation lookup := (lookup H).
Notation authorises := (authorises H).
Notation apply_effect := (apply_effect H).
Notation apply_effects := (apply_effects H).
Notation login_ok := (login_ok H verify).
Notation created := (created H).

(* ---------- lookup ---------- *)

Lemma lookup_unauth : forall (st : state) c, authorises st c = false -> lookup st c = (None, []).
Proof.
  intros st c Ha. unfold authorises in Ha. unfold Auth.lookup.
  destruct c as [sid|]; [|reflexivity].
  destruct (s_sess H st sid) as [[uid e]|]; [|reflexivity].
  destruct (e <=? s_now H st) eqn:E; [reflexivity|]. lia.
Qed.

Lemma lookup_auth : forall (st : state) c s es, lookup st c = (Some s, es) -> authorises st c = true.
Proof.
  intros st c s es Hl. unfold Auth.lookup in Hl. unfold Auth.authorises.
  destruct c as [sid|]; [|discriminate].
  destruct (s_sess H st sid) as [[uid e]|]; [|discriminate].
  destruct (e <=? s_now H st) eqn:E; [discriminate|]. lia.
Qed.

(* ---------- C20_unauth_no_effect ---------- *)

(* On a route other than login, without the cookie of a live session: 401 (403 when the
   cross-site layer refuses first) and nothing at all happens -- no handler, no session change. *)
Theorem unauth_no_effect : forall table (st : state) q r,
  routes_guarded table = true ->
  mux table (q_method q) (q_path q) = MFound r ->
  is_login_route r = false ->
  authorises st (q_cookie q) = false ->
  api_step table st q =
    (if harden_blocks (q_method q) (q_origin q) (q_site q) then 403 else 401, []) /\
  apply_effects st (snd (api_step table st q)) = st.
Proof.
  intros table st q r Hg Hm Hl Ha.
  assert (E : api_step table st q =
              (if harden_blocks (q_method q) (q_origin q) (q_site q) then 403 else 401, [])).
  { unfold Auth.api_step. destruct (harden_blocks _ _ _); [reflexivity|].
    rewrite Hm. rewrite (lookup_unauth _ _ Ha).
    destruct (mux_found _ _ _ _ Hm) as [Hin _].
    rewrite (routes_guarded_sound _ Hg _ Hin Hl). reflexivity. }
  split; [exact E|]. rewrite E. reflexivity.
Qed.

(* Anything that happens at all happens on a registered route, past the cross-site layer,
   and either on the login route or for the cookie of a live session. *)
Theorem effects_need_session : forall table (st : state) q,
  routes_guarded table = true ->
  snd (api_step table st q) <> [] ->
  harden_blocks (q_method q) (q_origin q) (q_site q) = false /\
  exists r, mux table (q_method q) (q_path q) = MFound r /\
            (is_login_route r = true \/ authorises st (q_cookie q) = true).
Proof.
  intros table st q Hg Hne. unfold Auth.api_step in Hne.
  destruct (harden_blocks _ _ _) eqn:Hb; [exfalso; apply Hne; reflexivity|].
  split; [reflexivity|].
  destruct (mux table (q_method q) (q_path q)) as [r| |] eqn:Hm;
    [|exfalso; apply Hne; reflexivity|exfalso; apply Hne; reflexivity].
  exists r. split; [reflexivity|].
  destruct (is_login_route r) eqn:Hl; [left; reflexivity|right].
  destruct (authorises st (q_cookie q)) eqn:Ha; [reflexivity|exfalso].
  rewrite (lookup_unauth _ _ Ha) in Hne.
  destruct (mux_found _ _ _ _ Hm) as [Hin _].
  rewrite (routes_guarded_sound _ Hg _ Hin Hl) in Hne. apply Hne. reflexivity.
Qed.

(* ---------- C20_harden_first ---------- *)

Lemma cross_site_blocks : forall q,
  cross_site q = true \/ preflight q = true ->
  harden_blocks (q_method q) (q_origin q) (q_site q) = true.
Proof.
  intros q [Hc|Hp]; unfold harden_blocks.
  - unfold cross_site in Hc.
    repeat (apply andb_true_iff in Hc as [Hc ?]).
    destruct (emptyb (q_origin q)); [discriminate|].
    destruct (emptyb (q_site q)); [discriminate|].
    destruct (str_eqb (q_site q) s_same_origin); [discriminate|].
    destruct (str_eqb (q_site q) s_same_site); [discriminate|]. reflexivity.
  - unfold preflight in Hp. rewrite Hp. apply orb_true_r.
Qed.

(* A cross-site request is answered 403 before the mux is consulted: no route is looked up,
   no cookie is presented to the session store, no handler runs, nothing changes. *)
Theorem harden_first : forall table (st : state) q,
  cross_site q = true \/ preflight q = true ->
  api_step table st q = (403, []) /\ apply_effects st (snd (api_step table st q)) = st.
Proof.
  intros table st q Hc.
  assert (E : api_step table st q = (403, [])).
  { unfold Auth.api_step. rewrite (cross_site_blocks _ Hc). reflexivity. }
  rewrite E. split; reflexivity.
Qed.

(* ---------- what the handlers can do ---------- *)

Inductive handled (st : state) (r : route) (sess : option (Z * Z)) (q : request) : Z -> list effect -> Prop :=
| HdNothing code : (kind_of r = HLogout -> code <> 204) -> handled st r sess q code []
| HdCreate u name pw h :
    kind_of r = HLogin -> sess = None ->
    login_creds (q_body q) = Some (name, pw) ->
    user_by_name H (s_users H st) name = Some u -> u_hash H u = Some h -> verify h pw = true ->
    handled st r sess q 200 [ECreate (q_fresh q) (u_id H u) (s_now H st + lifetime)]
| HdDelete c uid :
    kind_of r = HLogout -> sess = Some (c, uid) -> handled st r sess q 204 [EDelete c]
| HdHash code uid h : kind_of r <> HLogout -> handled st r sess q code [ESetHash uid h]
| HdCfg code v : kind_of r <> HLogout -> handled st r sess q code [ESetCfg v].

Lemma handle_handled : forall (st : state) r sess q code es,
  handle st r sess q = (code, es) -> handled st r sess q code es.
Proof.
  intros st r sess q code es Hh. unfold Auth.handle in Hh.
  destruct (kind_of r) eqn:Hk.
  - (* login *)
    destruct (login_creds (q_body q)) as [[name pw]|] eqn:Hc.
    + destruct sess as [s|].
      * inversion Hh; subst. apply HdNothing. discriminate.
      * destruct (user_by_name H (s_users H st) name) as [u|] eqn:Hu.
        -- destruct (u_hash H u) as [h|] eqn:Hhash.
           ++ destruct (verify h pw) eqn:Hv; inversion Hh; subst.
              ** eapply HdCreate; eauto.
              ** apply HdNothing. discriminate.
           ++ inversion Hh; subst. apply HdNothing. discriminate.
        -- inversion Hh; subst. apply HdNothing. discriminate.
    + inversion Hh; subst. apply HdNothing. discriminate.
  - (* logout *)
    destruct sess as [[c uid]|]; inversion Hh; subst.
    + eapply HdDelete; eauto.
    + apply HdNothing. intros _. discriminate.
  - (* change password *)
    destruct (q_body q) as [|name pw|cur new|v]; try (inversion Hh; subst; apply HdNothing; discriminate).
    destruct sess as [[c uid]|]; [|inversion Hh; subst; apply HdNothing; discriminate].
    destruct ((cur <? 0) || (new <? 0)); [inversion Hh; subst; apply HdNothing; discriminate|].
    destruct (user_by_id H (s_users H st) uid) as [u|]; [|inversion Hh; subst; apply HdNothing; discriminate].
    destruct (u_hash H u) as [h|]; [|inversion Hh; subst; apply HdNothing; discriminate].
    destruct (verify h cur); inversion Hh; subst.
    + apply HdHash. rewrite Hk. discriminate.
    + apply HdNothing. discriminate.
  - (* config patch *)
    destruct (q_body q) as [|name pw|cur new|v]; inversion Hh; subst;
      try (apply HdNothing; congruence).
    apply HdCfg. rewrite Hk. discriminate.
  - inversion Hh; subst. apply HdNothing. congruence.
Qed.

(* one request, taken apart *)
Inductive stepped (table : list route) (st : state) (q : request) : Z -> list effect -> Prop :=
| StBlocked : harden_blocks (q_method q) (q_origin q) (q_site q) = true -> stepped table st q 403 []
| StNoRoute code :
    harden_blocks (q_method q) (q_origin q) (q_site q) = false ->
    (forall r, mux table (q_method q) (q_path q) <> MFound r) -> stepped table st q code []
| StRefused r e1 :
    harden_blocks (q_method q) (q_origin q) (q_site q) = false ->
    mux table (q_method q) (q_path q) = MFound r ->
    lookup st (q_cookie q) = (None, e1) -> r_auth r = true -> stepped table st q 401 e1
| StHandled r sess e1 code e2 :
    harden_blocks (q_method q) (q_origin q) (q_site q) = false ->
    mux table (q_method q) (q_path q) = MFound r ->
    lookup st (q_cookie q) = (sess, e1) ->
    handled st r sess q code e2 -> stepped table st q code (e1 ++ EHandler r :: e2).

Lemma api_step_stepped : forall table (st : state) q code es,
  api_step table st q = (code, es) -> stepped table st q code es.
Proof.
  intros table st q code es Hs. unfold Auth.api_step in Hs.
  destruct (harden_blocks _ _ _) eqn:Hb.
  { inversion Hs; subst. apply StBlocked. exact Hb. }
  destruct (mux table (q_method q) (q_path q)) as [r| |] eqn:Hm.
  - destruct (lookup st (q_cookie q)) as [sess e1] eqn:Hl.
    destruct sess as [s|].
    + destruct (handle st r (Some s) q) as [c e2] eqn:Hh. inversion Hs; subst.
      eapply StHandled; eauto. apply handle_handled. exact Hh.
    + destruct (r_auth r) eqn:Ha.
      * inversion Hs; subst. eapply StRefused; eauto.
      * destruct (handle st r None q) as [c e2] eqn:Hh. inversion Hs; subst.
        eapply StHandled; eauto. apply handle_handled. exact Hh.
  - inversion Hs; subst. apply StNoRoute; [exact Hb|]. intros r. rewrite Hm. discriminate.
  - inversion Hs; subst. apply StNoRoute; [exact Hb|]. intros r. rewrite Hm. discriminate.
Qed.

(* ---------- C20_login_needs_password ---------- *)

Lemma lookup_effects : forall (st : state) c sess e1, lookup st c = (sess, e1) ->
  e1 = [] \/ exists sid uid e, c = Some sid /\ sess = Some (sid, uid) /\ s_sess H st sid = Some (uid, e) /\
                              s_now H st < e /\ e - s_now H st <= extend_threshold /\
                              e1 = [EExtend sid (s_now H st + lifetime)].
Proof.
  intros st c sess e1 Hl. unfold Auth.lookup in Hl.
  destruct c as [sid|]; [|inversion Hl; left; reflexivity].
  destruct (s_sess H st sid) as [[uid e]|] eqn:Es; [|inversion Hl; left; reflexivity].
  destruct (e <=? s_now H st) eqn:E1; [inversion Hl; left; reflexivity|].
  destruct (e - s_now H st <=? extend_threshold) eqn:E2; inversion Hl; subst; [|left; reflexivity].
  right. exists sid, uid, e. apply Z.leb_gt in E1. apply Z.leb_le in E2.
  split; [reflexivity|]. split; [reflexivity|]. split; [exact Es|]. split; [exact E1|]. split; [exact E2|reflexivity].
Qed.

(* A session is created by one step only on the login route, past the cross-site layer, with
   the password that the stored (well-formed) hash of the named user verifies. *)
Theorem create_needs_password : forall table (st : state) q sid uid exp,
  In (ECreate sid uid exp) (snd (api_step table st q)) ->
  login_ok table st q = true /\ sid = q_fresh q /\ exp = s_now H st + lifetime.
Proof.
  intros table st q sid uid exp Hin.
  destruct (api_step table st q) as [code es] eqn:Hs. cbn [snd] in Hin.
  apply api_step_stepped in Hs.
  destruct Hs as [Hb|code Hb Hno|r e1 Hb Hm Hl Ha|r sess e1 code e2 Hb Hm Hl Hh].
  - destruct Hin.
  - destruct Hin.
  - destruct (lookup_effects _ _ _ _ Hl) as [->|(s & u & e & _ & _ & _ & _ & _ & ->)].
    + destruct Hin.
    + destruct Hin as [Hin|[]]. discriminate.
  - apply in_app_or in Hin. destruct Hin as [Hin|Hin].
    + destruct (lookup_effects _ _ _ _ Hl) as [->|(s & u & e & _ & _ & _ & _ & _ & ->)].
      * destruct Hin.
      * destruct Hin as [Hin|[]]. discriminate.
    + destruct Hin as [Hin|Hin]; [discriminate|].
      destruct Hh as [c Hc|u name pw h Hk Hsess Hcr Hu Hhash Hv|c u Hk Hsess|c u h Hk|c v Hk].
      { destruct Hin. }
      2: { destruct Hin as [Hin|[]]. discriminate. }
      2: { destruct Hin as [Hin|[]]. discriminate. }
      2: { destruct Hin as [Hin|[]]. discriminate. }
      destruct Hin as [Hin|[]]. inversion Hin; subst.
      split; [|split; reflexivity].
      unfold Auth.login_ok. rewrite Hb, Hm. cbn [negb andb].
      apply kind_login_iff in Hk. rewrite Hk, Hcr, Hu, Hhash. exact Hv.
Qed.

(* ---------- effects and the session table ---------- *)

Lemma apply_effect_now : forall (st : state) e, s_now H (apply_effect st e) = s_now H st.
Proof.
  intros st e. destruct e; cbn [Auth.apply_effect s_now]; try reflexivity.
  destruct (s_sess H st sid) as [[u x]|]; reflexivity.
Qed.

Lemma apply_effects_now : forall es (st : state), s_now H (apply_effects st es) = s_now H st.
Proof.
  induction es as [|e es IH]; intros st; [reflexivity|].
  unfold Auth.apply_effects in *. cbn [fold_left]. rewrite IH. apply apply_effect_now.
Qed.

Lemma apply_effects_app : forall a b (st : state),
  apply_effects st (a ++ b) = apply_effects (apply_effects st a) b.
Proof. intros. unfold Auth.apply_effects. apply fold_left_app. Qed.

(* a session id in the table after some effects was there before or was created by one of them *)
Lemma sess_origin_effects : forall es (st : state) sid v,
  s_sess H (apply_effects st es) sid = Some v ->
  (exists v', s_sess H st sid = Some v') \/ (exists uid exp, In (ECreate sid uid exp) es).
Proof.
  induction es as [|e es IH]; intros st sid v Hs.
  - left. exists v. exact Hs.
  - unfold Auth.apply_effects in Hs. cbn [fold_left] in Hs.
    destruct (IH _ _ _ Hs) as [[v' Hv]|[uid [exp Hin]]].
    + destruct e; cbn [Auth.apply_effect s_sess] in Hv.
      * unfold sess_set in Hv. destruct (sid =? sid0) eqn:E.
        -- right. apply Z.eqb_eq in E. subst. do 2 eexists. left. reflexivity.
        -- left. eauto.
      * unfold sess_del in Hv. destruct (sid =? sid0); [discriminate|]. left. eauto.
      * destruct (s_sess H st sid0) as [[u x]|] eqn:E0.
        -- cbn [s_sess] in Hv. unfold sess_set in Hv. destruct (sid =? sid0) eqn:E.
           ++ apply Z.eqb_eq in E. subst. left. eauto.
           ++ left. eauto.
        -- left. eauto.
      * left. eauto.
      * left. eauto.
      * left. eauto.
    + right. exists uid, exp. right. exact Hin.
Qed.

(* ---------- C20_session_lifecycle ---------- *)

(* the entry for sid, if any, has run out *)
Definition dead (st : state) (sid : Z) : Prop :=
  match s_sess H st sid with
  | None => True
  | Some (_, e) => e <= s_now H st
  end.

(* how the life read off the trace relates to the session table *)
Definition Inv (st : state) (sid : Z) (l : lstate) : Prop :=
  match l with
  | LLive e => (exists u, s_sess H st sid = Some (u, e)) \/ (e <= s_now H st /\ dead st sid)
  | LNone => dead st sid
  end.

Lemma inv_authorises : forall st sid l, Inv st sid l ->
  authorises st (Some sid) = life_authorises (s_now H st) l.
Proof.
  intros st sid l HI. unfold Auth.authorises, life_authorises, Inv, dead in *.
  destruct l as [|e].
  - destruct (s_sess H st sid) as [[u e']|]; [|reflexivity]. lia.
  - destruct HI as [[u Hu]|[He Hd]].
    + rewrite Hu. reflexivity.
    + destruct (s_sess H st sid) as [[u e']|]; lia.
Qed.

Lemma inv_ext : forall st st' sid l,
  s_now H st' = s_now H st -> s_sess H st' sid = s_sess H st sid -> Inv st sid l -> Inv st' sid l.
Proof.
  intros st st' sid l Hn Hs HI. unfold Inv, dead in *. rewrite Hn, Hs. exact HI.
Qed.

Lemma opt_is_some k sid : opt_is (Some k) sid = (k =? sid).
Proof. reflexivity. Qed.

(* the lookup phase: presenting sid moves the table exactly as life_look says *)
Lemma lookup_inv : forall st c sess e1 sid l,
  lookup st c = (sess, e1) -> Inv st sid l ->
  Inv (apply_effects st e1) sid (if opt_is c sid then life_look (s_now H st) l else l).
Proof.
  intros st c sess e1 sid l Hl HI. unfold Auth.lookup in Hl.
  destruct c as [k|]; [|inversion Hl; subst; exact HI].
  rewrite opt_is_some.
  destruct (s_sess H st k) as [[uid e0]|] eqn:Ek.
  - destruct (e0 <=? s_now H st) eqn:E1.
    + (* expired: refused, left alone *)
      inversion Hl; subst. cbn [Auth.apply_effects fold_left].
      destruct (k =? sid) eqn:Eks; [|exact HI]. apply Z.eqb_eq in Eks. subst k.
      unfold Inv, dead, life_look in *. rewrite Ek in *.
      destruct l as [|e]; [exact HI|].
      destruct HI as [[u Hu]|[He Hd]].
      * inversion Hu; subst. rewrite E1. lia.
      * replace (e <=? s_now H st) with true by lia. exact Hd.
    + destruct (e0 - s_now H st <=? extend_threshold) eqn:E2.
      * (* near expiry: extended *)
        inversion Hl; subst. unfold Auth.apply_effects. cbn [fold_left Auth.apply_effect].
        rewrite Ek.
        destruct (k =? sid) eqn:Eks.
        -- apply Z.eqb_eq in Eks. subst k.
           unfold Inv, dead, life_look in *. cbn [s_sess s_now]. rewrite Ek in *.
           destruct l as [|e]; [lia|].
           destruct HI as [[u Hu]|[He Hd]]; [|lia].
           inversion Hu; subst. rewrite E1, E2. left. eexists.
           unfold sess_set. rewrite Z.eqb_refl. reflexivity.
        -- eapply inv_ext; [| |exact HI]; cbn [s_now s_sess]; [reflexivity|].
           unfold sess_set. rewrite Z.eqb_sym, Eks. reflexivity.
      * (* comfortably alive: nothing changes *)
        inversion Hl; subst. cbn [Auth.apply_effects fold_left].
        destruct (k =? sid) eqn:Eks; [|exact HI]. apply Z.eqb_eq in Eks. subst k.
        unfold Inv, dead, life_look in *. rewrite Ek in *.
        destruct l as [|e]; [lia|].
        destruct HI as [[u Hu]|[He Hd]]; [|lia].
        inversion Hu; subst. rewrite E1, E2. left. exists u. reflexivity.
  - (* unknown id *)
    inversion Hl; subst. cbn [Auth.apply_effects fold_left].
    destruct (k =? sid) eqn:Eks; [|exact HI]. apply Z.eqb_eq in Eks. subst k.
    unfold Inv, dead, life_look in *. rewrite Ek in *.
    destruct l as [|e]; [exact I|].
    destruct HI as [[u Hu]|[He Hd]]; [discriminate|].
    replace (e <=? s_now H st) with true by lia. exact I.
Qed.

Lemma lookup_some_cookie : forall st c k uid e1, lookup st c = (Some (k, uid), e1) -> c = Some k.
Proof.
  intros st c k uid e1 Hl. unfold Auth.lookup in Hl.
  destruct c as [k'|]; [|discriminate].
  destruct (s_sess H st k') as [[u e]|]; [|discriminate].
  destruct (e <=? s_now H st); [discriminate|].
  destruct (e - s_now H st <=? extend_threshold); inversion Hl; reflexivity.
Qed.

Lemma lookup_none_effects : forall st c e1, lookup st c = (None, e1) -> e1 = [].
Proof.
  intros st c e1 Hl. destruct (lookup_effects _ _ _ _ Hl) as [->|(s & u & e & _ & Hs & _)];
    [reflexivity|discriminate].
Qed.

Lemma created_lookup : forall st c sess e1 es, lookup st c = (sess, e1) -> created (e1 ++ es) = created es.
Proof.
  intros st c sess e1 es Hl.
  destruct (lookup_effects _ _ _ _ Hl) as [->|(s & u & e & _ & _ & _ & _ & _ & ->)]; reflexivity.
Qed.

(* one request preserves the relation, whatever it is *)
Lemma req_inv : forall table st q code es sid l,
  api_step table st q = (code, es) -> Inv st sid l ->
  Inv (apply_effects st es) sid
      (life_req H table sid (s_now H st) l
                {| x_req := q; x_status := code; x_new := created es; x_effects := es |}).
Proof.
  intros table st q code es sid l Hs HI.
  apply api_step_stepped in Hs. unfold life_req. cbn [x_req x_status x_new].
  destruct Hs as [Hb|code Hb Hno|r e1 Hb Hm Hl Ha|r sess e1 code e2 Hb Hm Hl Hh].
  - (* refused by the cross-site layer *)
    unfold touches. rewrite Hb. cbn [negb andb]. exact HI.
  - (* no such route *)
    unfold touches.
    destruct (mux table (q_method q) (q_path q)) as [r| |] eqn:Hm; [exfalso; eapply Hno; reflexivity| |];
      rewrite andb_false_r; cbn [andb]; exact HI.
  - (* 401 *)
    pose proof (lookup_none_effects _ _ _ Hl) as ->.
    unfold touches. rewrite Hb, Hm. cbn [negb andb created find opt_is].
    replace (401 =? 204) with false by reflexivity. rewrite andb_false_r.
    exact (lookup_inv _ _ _ _ sid l Hl HI).
  - (* a handler ran *)
    pose proof (lookup_inv _ _ _ _ sid l Hl HI) as HI1.
    rewrite (created_lookup _ _ _ _ _ Hl).
    rewrite apply_effects_app.
    set (st1 := apply_effects st e1) in *.
    assert (Hn1 : s_now H st1 = s_now H st) by apply apply_effects_now.
    unfold touches. rewrite Hb, Hm. cbn [negb andb].
    set (l1 := if opt_is (q_cookie q) sid then life_look (s_now H st) l else l) in *.
    destruct (mux_found _ _ _ _ Hm) as [_ Hrm].
    pose proof (logout_req_kind q r Hrm) as Hlk.
    destruct Hh as [c Hc|u name pw h Hk Hsess Hcr Hu Hhash Hv|c uid Hk Hsess|c uid h Hk|c v Hk].
    + (* no effect of the handler *)
      cbn [created find opt_is]. unfold Auth.apply_effects. cbn [fold_left Auth.apply_effect].
      destruct (opt_is (q_cookie q) sid && is_logout_req q && (c =? 204)) eqn:E; [|exact HI1].
      exfalso. apply andb_true_iff in E as [E E3]. apply andb_true_iff in E as [_ E2].
      apply Z.eqb_eq in E3. apply Hc; [|exact E3]. apply Hlk. exact E2.
    + (* login created a session *)
      cbn [created find opt_is]. unfold Auth.apply_effects. cbn [fold_left Auth.apply_effect].
      destruct (q_fresh q =? sid) eqn:Ef.
      * apply Z.eqb_eq in Ef. unfold Inv. left. exists (u_id H u). cbn [s_sess].
        unfold sess_set. rewrite <- Ef, Z.eqb_refl. reflexivity.
      * replace (200 =? 204) with false by reflexivity. rewrite andb_false_r.
        eapply inv_ext; [| |exact HI1]; cbn [s_now s_sess]; [reflexivity|].
        unfold sess_set. rewrite Z.eqb_sym, Ef. reflexivity.
    + (* logout destroyed the presented session *)
      subst sess. pose proof (lookup_some_cookie _ _ _ _ _ Hl) as Hck.
      cbn [created find opt_is]. unfold Auth.apply_effects. cbn [fold_left Auth.apply_effect].
      rewrite Hck in *. rewrite opt_is_some in *.
      replace (is_logout_req q) with true by (symmetry; apply Hlk; exact Hk).
      replace (204 =? 204) with true by reflexivity. rewrite !andb_true_r.
      destruct (c =? sid) eqn:Ecs.
      * apply Z.eqb_eq in Ecs. subst c. unfold Inv, dead. cbn [s_sess].
        unfold sess_del. rewrite Z.eqb_refl. exact I.
      * eapply inv_ext; [| |exact HI1]; cbn [s_now s_sess]; [reflexivity|].
        unfold sess_del. rewrite Z.eqb_sym, Ecs. reflexivity.
    + (* password changed *)
      cbn [created find opt_is]. unfold Auth.apply_effects. cbn [fold_left Auth.apply_effect].
      replace (is_logout_req q) with false
        by (destruct (is_logout_req q) eqn:E; [exfalso; apply Hk, Hlk; reflexivity|reflexivity]).
      rewrite andb_false_r. cbn [andb].
      eapply inv_ext; [| |exact HI1]; reflexivity.
    + (* configuration changed *)
      cbn [created find opt_is]. unfold Auth.apply_effects. cbn [fold_left Auth.apply_effect].
      replace (is_logout_req q) with false
        by (destruct (is_logout_req q) eqn:E; [exfalso; apply Hk, Hlk; reflexivity|reflexivity]).
      rewrite andb_false_r. cbn [andb].
      eapply inv_ext; [| |exact HI1]; reflexivity.
Qed.

Definition life_obs (table : list route) (sid : Z) (nl : Z * lstate) (o : obs H) : Z * lstate :=
  life H table sid (fst nl) (snd nl) [o].

Lemma step_inv : forall table st ev sid l,
  Inv st sid l ->
  let '(st', o) := step table st ev in
  let '(now', l') := life H table sid (s_now H st) l [o] in
  now' = s_now H st' /\ Inv st' sid l'.
Proof.
  intros table st ev sid l HI. destruct ev as [q|d| |uid h]; cbn [Auth.step].
  - destruct (api_step table st q) as [code es] eqn:Hs. cbn [life].
    split; [symmetry; apply apply_effects_now|]. apply req_inv; assumption.
  - cbn [life s_now]. split; [reflexivity|].
    unfold Inv, dead in *. cbn [s_now s_sess].
    destruct l as [|e].
    + destruct (s_sess H st sid) as [[u e']|]; [lia|exact I].
    + destruct HI as [HI|[He Hd]]; [left; exact HI|right]. split; [lia|].
      destruct (s_sess H st sid) as [[u e']|]; [lia|exact I].
  - cbn [life s_now]. split; [reflexivity|].
    unfold Inv, dead in *. cbn [s_now s_sess]. unfold sess_gc.
    destruct l as [|e].
    + destruct (s_sess H st sid) as [[u e']|]; [|exact I].
      destruct (e' <? s_now H st); [exact I|exact HI].
    + destruct HI as [[u Hu]|[He Hd]].
      * rewrite Hu. destruct (e <? s_now H st) eqn:E; [right; split; [lia|exact I]|left; eauto].
      * right. split; [exact He|].
        destruct (s_sess H st sid) as [[u e']|]; [|exact I].
        destruct (e' <? s_now H st); [exact I|exact Hd].
  - cbn [life s_now]. split; [reflexivity|]. exact HI.
Qed.

Lemma run_inv : forall table evs st sid l,
  Inv st sid l ->
  let '(st', tr) := run table st evs in
  let '(now', l') := life H table sid (s_now H st) l tr in
  now' = s_now H st' /\ Inv st' sid l'.
Proof.
  intros table evs. induction evs as [|ev evs IH]; intros st sid l HI.
  - cbn [Auth.run life]. split; [reflexivity|exact HI].
  - cbn [Auth.run].
    pose proof (step_inv table st ev sid l HI) as Hst.
    destruct (step table st ev) as [st1 o] eqn:Es.
    destruct (life H table sid (s_now H st) l [o]) as [now1 l1] eqn:El.
    destruct Hst as [Hn1 HI1].
    specialize (IH st1 sid l1 HI1).
    destruct (run table st1 evs) as [st2 os] eqn:Er.
    assert (Hcons : life H table sid (s_now H st) l (o :: os) = life H table sid now1 l1 os).
    { destruct o as [x|d| |]; cbn [life] in *; inversion El; subst; reflexivity. }
    rewrite Hcons, Hn1. exact IH.
Qed.

(* The lifecycle theorem: after ANY history (requests of any kind, clock advances, GC passes,
   out-of-band edits of the stored hashes) started from an empty session table, a cookie
   authorises at the current instant exactly when the life read off the observable trace says
   so: issued by a successful login, no accepted logout with it since, never presented at or
   after its expiry, and now before the expiry obtained by the sliding rule. *)
Theorem session_lifecycle : forall table (st0 : state) evs sid,
  (forall k, s_sess H st0 k = None) ->
  let '(st, tr) := run table st0 evs in
  authorises st (Some sid) =
    life_authorises (s_now H st) (snd (life H table sid (s_now H st0) LNone tr)).
Proof.
  intros table st0 evs sid Hempty.
  assert (HI : Inv st0 sid LNone) by (unfold Inv, dead; rewrite Hempty; exact I).
  pose proof (run_inv table evs st0 sid LNone HI) as Hr.
  destruct (run table st0 evs) as [st tr].
  destruct (life H table sid (s_now H st0) LNone tr) as [now' l'].
  destruct Hr as [_ HI']. cbn [snd]. apply inv_authorises. exact HI'.
Qed.

(* A lookup at or after expiry refuses and does not extend -- as one step ... *)
Theorem expired_refused_not_extended : forall table (st : state) q sid uid e r,
  routes_guarded table = true ->
  q_cookie q = Some sid -> s_sess H st sid = Some (uid, e) -> e <= s_now H st ->
  mux table (q_method q) (q_path q) = MFound r -> is_login_route r = false ->
  fst (api_step table st q) <> 200 /\ snd (api_step table st q) = [] /\
  s_sess H (apply_effects st (snd (api_step table st q))) sid = Some (uid, e).
Proof.
  intros table st q sid uid e r Hg Hc Hs He Hm Hl.
  assert (Ha : authorises st (q_cookie q) = false).
  { rewrite Hc. unfold Auth.authorises. rewrite Hs. lia. }
  destruct (unauth_no_effect table st q r Hg Hm Hl Ha) as [E1 E2].
  rewrite E1. cbn [fst snd]. split; [destruct (harden_blocks _ _ _); discriminate|].
  split; [reflexivity|exact Hs].
Qed.

(* ... even on the login route (which is exempt from the 401): the expired session is not touched *)
Theorem expired_never_extended : forall table (st : state) q sid uid e,
  q_cookie q = Some sid -> s_sess H st sid = Some (uid, e) -> e <= s_now H st ->
  q_fresh q <> sid ->
  s_sess H (apply_effects st (snd (api_step table st q))) sid = Some (uid, e).
Proof.
  intros table st q sid uid e Hc Hs He Hf.
  destruct (api_step table st q) as [code es] eqn:Hst. cbn [snd].
  apply api_step_stepped in Hst.
  assert (Hlk : lookup st (q_cookie q) = (None, [])).
  { apply lookup_unauth. rewrite Hc. unfold Auth.authorises. rewrite Hs. lia. }
  destruct Hst as [Hb|code Hb Hno|r e1 Hb Hm Hl Ha|r sess e1 code e2 Hb Hm Hl Hh]; try exact Hs.
  - rewrite Hlk in Hl. inversion Hl; subst. exact Hs.
  - rewrite Hlk in Hl. inversion Hl; subst. cbn [app].
    unfold Auth.apply_effects. cbn [fold_left Auth.apply_effect].
    destruct Hh as [c Hc'|u name pw h Hk Hsess Hcr Hu Hhash Hv|c u Hk Hsess|c u h Hk|c v Hk];
      cbn [fold_left Auth.apply_effect s_sess]; try exact Hs; try discriminate.
    unfold sess_set. destruct (sid =? q_fresh q) eqn:E; [apply Z.eqb_eq in E; congruence|exact Hs].
Qed.

(* ... and over histories: once dead (logged out, or presented at/after expiry), a session id
   stays dead through every continuation in which no new login happens to issue the same id *)
Lemma life_none_stays : forall table sid tr now,
  (forall x, In (OReq x) tr -> x_new H x <> Some sid) ->
  snd (life H table sid now LNone tr) = LNone.
Proof.
  intros table sid tr. induction tr as [|o tr IH]; intros now Hnew; [reflexivity|].
  destruct o as [x|d| |]; cbn [life].
  - assert (E : life_req H table sid now LNone x = LNone).
    { unfold life_req. specialize (Hnew x (or_introl eq_refl)).
      destruct (x_new H x) as [k|] eqn:Ex; cbn [opt_is].
      - destruct (k =? sid) eqn:Ek; [apply Z.eqb_eq in Ek; congruence|].
        destruct (touches table (x_req H x) && opt_is (q_cookie (x_req H x)) sid);
          cbn [life_look andb]; destruct (is_logout_req (x_req H x) && (x_status H x =? 204)); reflexivity.
      - destruct (touches table (x_req H x) && opt_is (q_cookie (x_req H x)) sid);
          cbn [life_look andb]; destruct (is_logout_req (x_req H x) && (x_status H x =? 204)); reflexivity. }
    rewrite E. apply IH. intros y Hy. apply Hnew. right. exact Hy.
  - apply IH. intros y Hy. apply Hnew. right. exact Hy.
  - apply IH. intros y Hy. apply Hnew. right. exact Hy.
  - apply IH. intros y Hy. apply Hnew. right. exact Hy.
Qed.

Lemma run_app : forall table a b (st : state),
  run table st (a ++ b) =
  let '(st1, t1) := run table st a in let '(st2, t2) := run table st1 b in (st2, t1 ++ t2).
Proof.
  intros table a. induction a as [|ev a IH]; intros b st.
  - cbn [app Auth.run]. destruct (run table st b); reflexivity.
  - cbn [app Auth.run]. destruct (step table st ev) as [st1 o].
    rewrite IH. destruct (run table st1 a) as [st2 t1]. destruct (run table st2 b) as [st3 t2]. reflexivity.
Qed.

Theorem dead_stays_dead : forall table (st : state) sid evs,
  authorises st (Some sid) = false ->
  (match s_sess H st sid with Some (_, e) => e <= s_now H st | None => True end) ->
  let '(st', tr) := run table st evs in
  (forall x, In (OReq x) tr -> x_new H x <> Some sid) ->
  authorises st' (Some sid) = false.
Proof.
  intros table st sid evs _ Hd.
  assert (HI : Inv st sid LNone) by exact Hd.
  pose proof (run_inv table evs st sid LNone HI) as Hr.
  destruct (run table st evs) as [st' tr].
  intros Hnew. pose proof (life_none_stays table sid tr (s_now H st) Hnew) as Hl.
  destruct (life H table sid (s_now H st) LNone tr) as [now' l']. cbn [snd] in Hl. subst l'.
  destruct Hr as [_ HI']. rewrite (inv_authorises _ _ _ HI'). reflexivity.
Qed.

(* ---------- sessions over histories need the password ---------- *)

Lemma step_sess_origin : forall table (st : state) ev sid v,
  s_sess H (fst (step table st ev)) sid = Some v ->
  (exists v', s_sess H st sid = Some v') \/
  (exists q, ev = EvReq q /\ login_ok table st q = true /\ q_fresh q = sid).
Proof.
  intros table st ev sid v Hs. destruct ev as [q|d| |uid h]; cbn [Auth.step] in Hs.
  - destruct (api_step table st q) as [code es] eqn:Ha. cbn [fst] in Hs.
    destruct (sess_origin_effects _ _ _ _ Hs) as [Hold|[uid [exp Hin]]]; [left; exact Hold|right].
    exists q. split; [reflexivity|].
    pose proof (create_needs_password table st q sid uid exp) as Hc.
    rewrite Ha in Hc. cbn [snd] in Hc. destruct (Hc Hin) as [H1 [H2 _]]. split; [exact H1|congruence].
  - cbn [fst s_sess] in Hs. left. eauto.
  - cbn [fst s_sess] in Hs. unfold sess_gc in Hs.
    destruct (s_sess H st sid) as [[u e]|]; [|discriminate]. left. eauto.
  - cbn [fst s_sess] in Hs. left. eauto.
Qed.

(* Every session in the table after any history from an empty table was issued by a login
   request that presented the password verifying against the hash stored at that moment. *)
Theorem sessions_need_password : forall table evs (st0 : state) sid v,
  (forall k, s_sess H st0 k = None) ->
  s_sess H (fst (run table st0 evs)) sid = Some v ->
  exists evs1 q evs2, evs = evs1 ++ EvReq q :: evs2 /\
    login_ok table (fst (run table st0 evs1)) q = true /\ q_fresh q = sid.
Proof.
  intros table evs. induction evs as [|ev evs IH] using rev_ind; intros st0 sid v Hempty Hs.
  - cbn [Auth.run fst] in Hs. rewrite Hempty in Hs. discriminate.
  - rewrite run_app in Hs.
    destruct (run table st0 evs) as [st1 t1] eqn:Er.
    cbn [Auth.run] in Hs. destruct (step table st1 ev) as [st2 o] eqn:Es. cbn [fst] in Hs.
    assert (Hs' : s_sess H (fst (step table st1 ev)) sid = Some v) by (rewrite Es; exact Hs).
    destruct (step_sess_origin _ _ _ _ _ Hs') as [[v' Hold]|[q [-> [Hok Hf]]]].
    + assert (Hs1 : s_sess H (fst (run table st0 evs)) sid = Some v') by (rewrite Er; exact Hold).
      destruct (IH st0 sid v' Hempty Hs1) as (evs1 & q & evs2 & -> & Hok & Hf).
      exists evs1, q, (evs2 ++ [ev]). split; [|split; assumption].
      rewrite <- app_assoc. reflexivity.
    + exists evs, q, []. split; [reflexivity|]. rewrite Er. split; assumption.
Qed.

End WithHash.
