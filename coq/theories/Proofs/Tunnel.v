(* Proofs about Model/Tunnel.v: isolation of the exchanges on a tunnel, the
   leak of the one-responder loop, and agreement of the two responders on what
   the property compares. *)
From Reservoir Require Import Base.Prelude Model.Relay Model.Tunnel Proofs.Relay.

(* ------------------------------------------------------------------------ *)
(* Isolation *)
Lemma script_loop_fresh xs : forall s,
  script_loop false s xs = map (fun sc => snd (raw_script fresh sc)) xs.
Proof.
  induction xs as [|x xs IH]; intros s; cbn [script_loop map]; [reflexivity|].
  destruct (raw_script fresh x) as [s1 out] eqn:E. cbn [snd]. rewrite IH. reflexivity.
Qed.

Theorem tunnel_isolation xs : tunnel_run xs = map single_exchange xs.
Proof.
  unfold tunnel_run, tunnel_loop. rewrite script_loop_fresh, map_map. reflexivity.
Qed.

(* whatever state an earlier part of the tunnel left behind is irrelevant *)
Theorem tunnel_isolation_any_state s xs : tunnel_loop false s xs = map single_exchange xs.
Proof. unfold tunnel_loop. rewrite script_loop_fresh, map_map. reflexivity. Qed.

(* the i-th response is a function of the i-th request alone *)
Theorem response_depends_on_own_exchange pre pre' x :
  nth (length pre) (tunnel_run (pre ++ [x])) [] = nth (length pre') (tunnel_run (pre' ++ [x])) [].
Proof.
  rewrite !tunnel_isolation, !map_app. cbn [map].
  rewrite !app_nth2 by (rewrite map_length; lia). rewrite !map_length, !Nat.sub_diag. reflexivity.
Qed.

(* the loop that keeps one responder for the whole tunnel does leak: a 206 from
   the store followed by a chunked 200 *)
Definition leak_origin : hdrs := [([88;45;66;105;103], [[49]])].      (* X-Big: 1 *)
Definition leak_first : exchange :=
  {| x_meth := MPlain; x_proto := [72;84;84;80;47;49;46;49];
     x_kind := KPartial leak_origin [] [] [98;121;116;101;115;32;50;45;53;47;50;48] [52] [50;51;52;53];
     x_body := [] |}.
Definition leak_second : exchange :=
  {| x_meth := MPlain; x_proto := [72;84;84;80;47;49;46;49];
     x_kind := KDirect 200 [] [];
     x_body := [104;101;108;108;111;32;119;111;114;108;100] |}.

Theorem reuse_leaks : tunnel_loop true fresh [leak_first; leak_second] <> map single_exchange [leak_first; leak_second].
Proof. vm_compute. discriminate. Qed.

(* ... concretely: the second body is cut to the first one's Content-Length and Content-Range survives *)
Theorem reuse_leak_shape :
  match nth 1 (tunnel_loop true fresh [leak_first; leak_second]) [] with
  | [w] => w_body w = [104;101;108;108] /\ hraw_get s_Content_Range (w_hdrs w) <> [] /\ w_framing w = FLen 4
  | _ => False
  end.
Proof. vm_compute. repeat split; discriminate. Qed.

(* ------------------------------------------------------------------------ *)
(* The two responders agree on status, fields and relayed body *)
Definition is_hdr_op (o : rop) : Prop :=
  match o with RWrite _ _ => False | RWriteError _ _ => False | _ => True end.

Lemma raw_pre m pre : Forall is_hdr_op pre -> forall s out,
  fold_left (raw_op m) pre (s, out) =
  ({| rs_status := rs_status s; rs_hdrs := fold_left hdr_op pre (rs_hdrs s); rs_cl := rs_cl s; rs_chunked := rs_chunked s |}, out).
Proof.
  induction 1 as [|o pre Ho _ IH]; intros s out; cbn [fold_left].
  - destruct s; reflexivity.
  - destruct o; try contradiction; cbn [raw_op]; rewrite IH; reflexivity.
Qed.

Lemma plain_pre m pre : Forall is_hdr_op pre -> forall h out,
  fold_left (plain_op m) pre (h, out) = (fold_left hdr_op pre h, out).
Proof.
  induction 1 as [|o pre Ho _ IH]; intros h out; cbn [fold_left]; [reflexivity|].
  destruct o; try contradiction; cbn [plain_op]; rewrite IH; reflexivity.
Qed.

(* what net/http guarantees about an upstream message: a declared length of 0 and a
   status without body both come with an empty body *)
Definition sane_write (h : hdrs) (st : Z) (body : str) : Prop :=
  (content_length h = 0 -> body = []) /\ (body_allowed st = false -> body = []).

Lemma zfirstn_nil {A} n : @ztake A n [] = [].
Proof. unfold ztake, zfirstn. rewrite firstn_nil. destruct (zlen [] <=? n); reflexivity. Qed.

Lemma ztake_firstn {A} n (l : list A) : ztake n l = zfirstn n l.
Proof.
  unfold ztake, zfirstn, zlen. destruct (Z.leb_spec (Z.of_nat (length l)) n); [|reflexivity].
  symmetry. apply firstn_all2. lia.
Qed.

Lemma sent_agree m h st body :
  sane_write h st body ->
  w_body (snd (write_response m {| rs_status := st; rs_hdrs := h; rs_cl := content_length h; rs_chunked := false |} body false))
  = plain_sent m st h body.
Proof.
  intros [S0 SA]. unfold write_response, plain_sent. cbn [rs_cl rs_status rs_hdrs rs_chunked].
  remember (content_length h) as n eqn:En.
  destruct (Z.ltb_spec n 0) as [Hneg|Hnn].
  - (* unknown length *)
    destruct (body_allowed st) eqn:BA; cbn [snd response_write rs_chunked rs_cl rs_status w_body].
    + destruct m; try reflexivity;
        (destruct (Z.leb_spec 0 n); [lia|reflexivity]).
    + rewrite (SA eq_refl). cbn [Z.eqb]. destruct m; cbn; rewrite ?BA; reflexivity.
  - cbn [snd response_write rs_chunked rs_cl rs_status w_body negb andb].
    destruct (Z.eqb_spec n 0) as [Hz|Hnz].
    + rewrite (S0 Hz). subst n. rewrite Hz. cbn [Z.eqb Z.ltb Z.compare orb andb].
      destruct m; cbn; destruct (body_allowed st); reflexivity.
    + assert (0 <? n = true) as P by (apply Z.ltb_lt; lia). rewrite P. cbn [orb].
      destruct (Z.leb_spec 0 n); [|lia].
      destruct m; cbn [w_body]; try reflexivity;
        (destruct (body_allowed st) eqn:BA; [reflexivity | rewrite (SA eq_refl); apply zfirstn_nil]).
Qed.

Lemma filter_filter {A} (p q : A -> bool) l : filter p (filter q l) = filter (fun x => q x && p x) l.
Proof.
  induction l as [|a l IH]; cbn [filter]; [reflexivity|].
  destruct (q a); cbn [filter andb]; [destruct (p a); rewrite IH; reflexivity | exact IH].
Qed.

Lemma hraw_del_cons_ne k k0 vs h : str_eqb k k0 = false -> hraw_del k ((k0, vs) :: h) = (k0, vs) :: hraw_del k h.
Proof. intros E. unfold hraw_del. cbn [filter fst]. rewrite E. reflexivity. Qed.

Lemma error_headers_agree h :
  strip_framing (hset s_X_Content_Type_Options s_nosniff (hset s_Content_Type s_text_plain h)) =
  strip_framing (hset s_X_Content_Type_Options s_nosniff (hset s_Content_Type s_text_plain (hdel s_Content_Length h))).
Proof.
  unfold strip_framing, hset, hdel, hraw_put.
  change (canon_key s_X_Content_Type_Options) with s_X_Content_Type_Options.
  change (canon_key s_Content_Type) with s_Content_Type.
  change (canon_key s_Content_Length) with s_Content_Length.
  rewrite !hraw_del_cons_ne by reflexivity. f_equal. f_equal.
  unfold hraw_del. rewrite !filter_filter.
  apply filter_ext. intros [k vs]. cbn [fst].
  destruct (str_eqb s_Content_Length k), (str_eqb s_Content_Type k), (str_eqb s_X_Content_Type_Options k),
           (str_eqb s_Trailer k), (str_eqb s_Transfer_Encoding k); reflexivity.
Qed.

Definition is_write (o : rop) : Prop :=
  match o with RWrite _ _ => True | RWriteError _ _ => True | _ => False end.

(* a script as handleHTTP produces it: header calls, then exactly one write *)
Definition wf_script (sc : script) : Prop :=
  exists pre fin, snd sc = pre ++ [fin] /\ Forall is_hdr_op pre /\ is_write fin /\
    match fin with
    | RWrite st body => sane_write (fold_left hdr_op pre []) st body
    | _ => True
    end.

Theorem script_responders_agree sc :
  wf_script sc -> map proj (snd (raw_script fresh sc)) = map proj (plain_script sc).
Proof.
  intros [pre [fin [Hops [Hpre [Hfin Hsane]]]]]. destruct sc as [m ops]. cbn [snd] in Hops. subst ops.
  unfold raw_script, plain_script. cbn [fst snd]. rewrite !fold_left_app.
  rewrite (raw_pre m pre Hpre), (plain_pre m pre Hpre). cbn [fold_left fresh rs_hdrs rs_status rs_cl rs_chunked].
  destruct fin as [| | | st body | msg code]; try contradiction.
  - cbn [raw_op plain_op rs_hdrs rs_chunked].
    pose proof (sent_agree m (fold_left hdr_op pre []) st body Hsane) as SA.
    destruct (write_response m _ body false) as [s2 w] eqn:EW. cbn [snd app map].
    unfold proj at 1 2. cbn [w_status w_hdrs w_gen w_body].
    unfold write_response in EW.
    assert (w_status w = st /\ w_hdrs w = strip_framing (fold_left hdr_op pre []) /\ w_gen w = false) as [A [B C]].
    { cbn [rs_cl rs_status rs_hdrs rs_chunked] in EW.
      destruct (content_length (fold_left hdr_op pre []) <? 0); [destruct (body_allowed st)|];
        inversion EW; subst; cbn; repeat split. }
    cbn [snd] in SA. rewrite A, B, C, SA. reflexivity.
  - cbn [raw_op plain_op rs_hdrs rs_chunked].
    destruct (write_response m _ msg true) as [s2 w] eqn:EW. cbn [snd app map].
    unfold proj at 1 2. cbn [w_status w_hdrs w_gen w_body].
    unfold write_response in EW.
    assert (w_status w = code /\ w_hdrs w = strip_framing (hset s_X_Content_Type_Options s_nosniff (hset s_Content_Type s_text_plain (fold_left hdr_op pre []))) /\ w_gen w = true) as [A [B C]].
    { cbn [rs_cl rs_status rs_hdrs rs_chunked] in EW.
      destruct (zlen msg <? 0); [destruct (body_allowed code)|];
        inversion EW; subst; cbn; repeat split. }
    rewrite A, B, C, error_headers_agree. reflexivity.
Qed.

(* every script handleHTTP produces has that shape *)
Lemma exchange_script_shape x :
  exists pre fin, exchange_ops x = pre ++ [fin] /\ Forall is_hdr_op pre /\ is_write fin.
Proof.
  destruct x as [m proto kind body]. unfold exchange_ops. cbn [x_kind x_proto x_body].
  destruct kind as [status o cs | hs o etag lm cs age | o etag lm cr clen section | cr | ].
  - rewrite app_assoc. eexists. eexists. split; [reflexivity|]. split; [|exact I].
    apply Forall_app. split; [repeat constructor|].
    destruct ((200 <=? status) && (status <? 300)); unfold cache_header_ops; repeat constructor.
  - rewrite !app_assoc. eexists. eexists. split; [reflexivity|]. split; [|exact I].
    repeat (apply Forall_app; split); unfold cache_header_ops; try (repeat constructor).
    destruct hs; repeat constructor.
  - exists [RSetAll (remove_hop_by_hop o); RSet s_Accept_Ranges s_bytes; RSet s_Content_Range cr;
            RSet s_Content_Length clen; RSet s_ETag etag; RSet s_Last_Modified lm]. eexists.
    split; [reflexivity|]. split; [repeat constructor|exact I].
  - exists [RSet s_Accept_Ranges s_bytes; RSet s_Content_Range cr]. eexists.
    split; [reflexivity|]. split; [repeat constructor|exact I].
  - exists []. eexists. split; [reflexivity|]. split; [constructor|exact I].
Qed.

(* the body offered to the responder is consistent with the header it is written under *)
Definition sane_exchange (x : exchange) : Prop :=
  forall pre st body, exchange_ops x = pre ++ [RWrite st body] -> sane_write (fold_left hdr_op pre []) st body.

Lemma sane_exchange_wf x : sane_exchange x -> wf_script (script_of x).
Proof.
  intros S. destruct (exchange_script_shape x) as [pre [fin [Hops [Hpre Hfin]]]].
  exists pre, fin. cbn [script_of snd]. repeat split; try assumption.
  destruct fin; try exact I. apply S. exact Hops.
Qed.

Theorem tunnel_equals_plain xs :
  Forall sane_exchange xs -> map (map proj) (tunnel_run xs) = map (map proj) (plain_run xs).
Proof.
  intros H. rewrite tunnel_isolation. unfold plain_run. rewrite !map_map.
  apply map_ext_in. intros x Hin. rewrite Forall_forall in H.
  unfold single_exchange, raw_exchange, plain_exchange.
  apply script_responders_agree. apply sane_exchange_wf. apply H. exact Hin.
Qed.

(* X-Cache is part of what is compared *)
Theorem tunnel_same_xcache x w w' :
  sane_exchange x -> single_exchange x = [w] -> plain_exchange x = [w'] ->
  hraw_get s_X_Cache (w_hdrs w) = hraw_get s_X_Cache (w_hdrs w') /\ w_status w = w_status w'.
Proof.
  intros S E1 E2.
  pose proof (script_responders_agree (script_of x) (sane_exchange_wf x S)) as A.
  unfold single_exchange, raw_exchange in E1. unfold plain_exchange in E2. rewrite E1, E2 in A.
  cbn [map] in A. unfold proj in A. split; congruence.
Qed.
