From Reservoir Require Import Base.Prelude Model.Event.
From Coq Require Import Arith PeanoNat.

Local Open Scope nat_scope.

(* ---------------------------------------------------------------------- *)
(* heap access                                                             *)

Lemma upd_length h : forall id f, length (upd h id f) = length h.
Proof. induction h as [|s r IH]; intros [|n] f; cbn; auto. Qed.

Lemma get_upd_same h : forall id f, id < length h -> get (upd h id f) id = f (get h id).
Proof.
  unfold get. induction h as [|s r IH]; intros [|n] f H; cbn in *; try lia; auto.
  apply IH. lia.
Qed.

Lemma get_upd_other h : forall id j f, j <> id -> get (upd h id f) j = get h j.
Proof.
  unfold get. induction h as [|s r IH]; intros [|n] [|m] f H; cbn in *; auto; try congruence.
Qed.

Lemma get_app_old h x id : id < length h -> get (h ++ [x]) id = get h id.
Proof. unfold get. intros H. apply app_nth1. exact H. Qed.

Lemma get_app_new h x : get (h ++ [x]) (length h) = x.
Proof. unfold get. rewrite app_nth2 by lia. rewrite Nat.sub_diag. reflexivity. Qed.

Lemma get_out h id : length h <= id -> get h id = dflt_sub.
Proof. unfold get. apply nth_overflow. Qed.

(* membership as a boolean *)
Definition memb (id : nat) (l : list nat) : bool := existsb (Nat.eqb id) l.

Lemma memb_in id l : memb id l = true <-> In id l.
Proof.
  unfold memb. rewrite existsb_exists. split.
  - intros (x & Hx & E). apply Nat.eqb_eq in E. subst. exact Hx.
  - intros H. exists id. split; [exact H|apply Nat.eqb_refl].
Qed.

Lemma memb_app id a b : memb id (a ++ b) = memb id a || memb id b.
Proof. unfold memb. apply existsb_app. Qed.

Lemma memb_filter x id l :
  memb x (filter (fun y => negb (Nat.eqb y id)) l) = memb x l && negb (Nat.eqb x id).
Proof.
  induction l as [|y r IH]; [reflexivity|]. cbn [filter].
  destruct (Nat.eqb y id) eqn:E; cbn [negb].
  - apply Nat.eqb_eq in E. subst y. unfold memb in *. cbn [existsb]. rewrite IH.
    destruct (Nat.eqb x id); cbn; [rewrite andb_false_r; reflexivity|reflexivity].
  - unfold memb in *. cbn [existsb]. rewrite IH.
    destruct (Nat.eqb x y) eqn:F; cbn; [|reflexivity].
    apply Nat.eqb_eq in F. subst y. rewrite E. reflexivity.
Qed.

(* ---------------------------------------------------------------------- *)
(* removal by identity refines set removal                                  *)

Lemma filter_notin id l : ~ In id l -> filter (fun y => negb (Nat.eqb y id)) l = l.
Proof.
  induction l as [|y r IH]; intros H; [reflexivity|]. cbn [filter].
  destruct (Nat.eqb y id) eqn:E.
  - apply Nat.eqb_eq in E. subst. exfalso. apply H. left. reflexivity.
  - cbn. f_equal. apply IH. intros G. apply H. right. exact G.
Qed.

Lemma find_index_none id l : find_index id l = None -> ~ In id l.
Proof.
  induction l as [|y r IH]; cbn; [auto|].
  destruct (Nat.eqb y id) eqn:E; [discriminate|].
  destruct (find_index id r); [discriminate|]. intros _ [H|H].
  - subst. rewrite Nat.eqb_refl in E. discriminate.
  - exact (IH eq_refl H).
Qed.

Lemma remove_spec id l : NoDup l ->
  match find_index id l with
  | Some i => go_remove i l = Ok (filter (fun y => negb (Nat.eqb y id)) l)
  | None => filter (fun y => negb (Nat.eqb y id)) l = l
  end.
Proof.
  induction l as [|y r IH]; intros Hnd; [reflexivity|].
  inversion Hnd as [|? ? Hni Hnd']; subst. cbn [find_index filter].
  destruct (Nat.eqb y id) eqn:E.
  - apply Nat.eqb_eq in E. subst y. cbn. rewrite filter_notin by exact Hni. reflexivity.
  - specialize (IH Hnd'). destruct (find_index id r) as [i|].
    + unfold go_remove in *. cbn [length firstn skipn negb].
      destruct (Nat.leb (S i) (length r)) eqn:L; [|discriminate].
      assert (L' : Nat.leb (S (S i)) (S (length r)) = true) by exact L.
      rewrite L'. inversion IH as [IH']. cbn [app]. rewrite IH'. reflexivity.
    + cbn [negb]. rewrite IH. reflexivity.
Qed.

(* ---------------------------------------------------------------------- *)
(* Fire touches exactly the subscribers                                     *)

Lemma fire_fold_length v l : forall h,
  length (fold_left (fun h id => upd h id (fire_fields v)) l h) = length h.
Proof. induction l as [|x r IH]; intros h; cbn; [reflexivity|]. rewrite IH. apply upd_length. Qed.

Lemma fire_fold_get v l : forall h id,
  NoDup l -> (forall x, In x l -> x < length h) ->
  get (fold_left (fun h id => upd h id (fire_fields v)) l h) id =
  if memb id l then fire_fields v (get h id) else get h id.
Proof.
  induction l as [|x r IH]; intros h id Hnd Hb; [reflexivity|].
  inversion Hnd as [|? ? Hni Hnd']; subst. cbn [fold_left].
  rewrite IH; [|exact Hnd'|intros y Hy; rewrite upd_length; apply Hb; right; exact Hy].
  unfold memb at 2. cbn [existsb]. fold (memb id r).
  destruct (Nat.eqb id x) eqn:E.
  - apply Nat.eqb_eq in E. subst x. cbn [orb].
    assert (memb id r = false) as ->.
    { destruct (memb id r) eqn:M; [|reflexivity]. apply memb_in in M. contradiction. }
    apply get_upd_same. apply Hb. left. reflexivity.
  - cbn [orb]. apply Nat.eqb_neq in E.
    rewrite (get_upd_other h x id _ E). reflexivity.
Qed.

(* ---------------------------------------------------------------------- *)
(* The invariant                                                            *)

Definition sub_ok (fired : list Z) (live : bool) (s : sub) : Prop :=
  s_active s = live /\
  (s_active s = true -> s_log s ++ s_pending s = skipn (s_since s) fired) /\
  (s_pending s <> [] -> s_running s = true) /\
  (s_active s = false -> s_pending s = []) /\
  (s_incall s = true -> s_running s = true) /\
  s_since s <= length fired.

Definition Inv (st : est) : Prop :=
  NoDup (e_subs st) /\
  (forall id, In id (e_subs st) -> id < length (e_heap st)) /\
  (forall id, id < length (e_heap st) -> sub_ok (e_fired st) (memb id (e_subs st)) (get (e_heap st) id)).

Lemma inv_init : Inv e_init.
Proof.
  unfold Inv, e_init. cbn. split; [constructor|]. split; [intros id []|intros id H; lia].
Qed.

Lemma skipn_snoc {A} n (l : list A) x : n <= length l -> skipn n (l ++ [x]) = skipn n l ++ [x].
Proof. intros H. rewrite skipn_app. replace (n - length l) with 0 by lia. reflexivity. Qed.

Lemma NoDup_snoc (l : list nat) n : NoDup l -> ~ In n l -> NoDup (l ++ [n]).
Proof.
  induction 1 as [|x r Hx Hr IH]; intros Hn; cbn.
  - constructor; [intros []|constructor].
  - constructor.
    + rewrite in_app_iff. intros [H|[H|[]]]; [contradiction|]. subst. apply Hn. left. reflexivity.
    + apply IH. intros H. apply Hn. right. exact H.
Qed.

Lemma memb_false_notin id l : memb id l = false <-> ~ In id l.
Proof.
  split; intros H.
  - intros G. apply memb_in in G. congruence.
  - destruct (memb id l) eqn:M; [|reflexivity]. apply memb_in in M. contradiction.
Qed.

Lemma inv_sub st : Inv st ->
  Inv {| e_subs := e_subs st ++ [length (e_heap st)];
         e_heap := e_heap st ++ [new_sub (length (e_fired st))];
         e_fired := e_fired st |}.
Proof.
  intros (Hnd & Hb & Hs). unfold Inv. cbn [e_subs e_heap e_fired]. split; [|split].
  - apply NoDup_snoc; [exact Hnd|]. intros H. apply Hb in H. lia.
  - intros id H. rewrite app_length. cbn. apply in_app_iff in H as [H|[H|[]]]; [apply Hb in H; lia|lia].
  - intros id H. rewrite app_length in H. cbn in H. rewrite memb_app.
    destruct (Nat.eq_dec id (length (e_heap st))) as [->|Hne].
    + rewrite get_app_new. unfold memb at 2. cbn [existsb]. rewrite Nat.eqb_refl, orb_true_r.
      unfold sub_ok, new_sub. cbn. repeat split; try congruence; try lia.
      intros _. rewrite skipn_all. reflexivity.
    + rewrite get_app_old by lia. unfold memb at 2. cbn [existsb].
      apply Nat.eqb_neq in Hne. rewrite Hne. cbn [orb]. rewrite orb_false_r. apply Hs. apply Nat.eqb_neq in Hne. lia.
Qed.

Lemma inv_unsub st id : Inv st -> id < length (e_heap st) ->
  Inv {| e_subs := filter (fun y => negb (Nat.eqb y id)) (e_subs st);
         e_heap := upd (e_heap st) id unsub_fields;
         e_fired := e_fired st |}.
Proof.
  intros (Hnd & Hb & Hs) Hid. unfold Inv. cbn [e_subs e_heap e_fired]. split; [|split].
  - apply NoDup_filter. exact Hnd.
  - intros x H. apply filter_In in H as [H _]. rewrite upd_length. apply Hb. exact H.
  - intros x H. rewrite upd_length in H. rewrite memb_filter.
    destruct (Nat.eq_dec x id) as [->|Hne].
    + rewrite get_upd_same by exact H. rewrite Nat.eqb_refl. cbn [negb]. rewrite andb_false_r.
      destruct (Hs id H) as (H1 & H2 & H3 & H4 & H5 & H6).
      unfold sub_ok, unsub_fields. cbn. repeat split; try congruence; try assumption.
    + rewrite get_upd_other by exact Hne. apply Nat.eqb_neq in Hne. rewrite Hne. cbn [negb].
      rewrite andb_true_r. apply Hs. exact H.
Qed.

Lemma inv_fire st v : Inv st ->
  Inv {| e_subs := e_subs st;
         e_heap := fold_left (fun h id => upd h id (fire_fields v)) (e_subs st) (e_heap st);
         e_fired := e_fired st ++ [v] |}.
Proof.
  intros (Hnd & Hb & Hs). unfold Inv. cbn [e_subs e_heap e_fired]. rewrite fire_fold_length.
  split; [exact Hnd|]. split; [exact Hb|].
  intros id H. rewrite fire_fold_get by assumption.
  destruct (Hs id H) as (H1 & H2 & H3 & H4 & H5 & H6).
  destruct (memb id (e_subs st)) eqn:M.
  - unfold sub_ok, fire_fields. cbn. rewrite app_length. cbn. repeat split; try assumption; try lia.
    + intros _. rewrite app_assoc, (H2 H1). symmetry. apply skipn_snoc. exact H6.
    + intros G. congruence.
  - unfold sub_ok. rewrite app_length. cbn. repeat split; try assumption; try lia.
    intros G. congruence.
Qed.

Lemma inv_upd_one st id f :
  Inv st -> id < length (e_heap st) ->
  sub_ok (e_fired st) (memb id (e_subs st)) (f (get (e_heap st) id)) ->
  Inv {| e_subs := e_subs st; e_heap := upd (e_heap st) id f; e_fired := e_fired st |}.
Proof.
  intros (Hnd & Hb & Hs) Hid Hf. unfold Inv. cbn [e_subs e_heap e_fired]. rewrite upd_length.
  split; [exact Hnd|]. split; [exact Hb|].
  intros x H. destruct (Nat.eq_dec x id) as [->|Hne].
  - rewrite get_upd_same by exact H. exact Hf.
  - rewrite get_upd_other by exact Hne. apply Hs. exact H.
Qed.

Lemma running_in_heap st id : s_running (get (e_heap st) id) = true -> id < length (e_heap st).
Proof.
  intros H. destruct (Nat.lt_ge_cases id (length (e_heap st))) as [L|L]; [exact L|].
  rewrite get_out in H by exact L. discriminate.
Qed.

Lemma incall_in_heap st id : s_incall (get (e_heap st) id) = true -> id < length (e_heap st).
Proof.
  intros H. destruct (Nat.lt_ge_cases id (length (e_heap st))) as [L|L]; [exact L|].
  rewrite get_out in H by exact L. discriminate.
Qed.

Lemma step_inv st a : Inv st -> exists st', step st a = Ok st' /\ Inv st'.
Proof.
  intros HI. destruct a as [|id|v|id|id]; cbn [step].
  - eexists; split; [reflexivity|apply inv_sub; exact HI].
  - destruct (Nat.leb (length (e_heap st)) id) eqn:L; [eexists; split; [reflexivity|exact HI]|].
    apply Nat.leb_gt in L.
    pose proof (remove_spec id (e_subs st) (proj1 HI)) as R.
    destruct (find_index id (e_subs st)) as [i|].
    + rewrite R. eexists; split; [reflexivity|apply inv_unsub; assumption].
    + eexists; split; [reflexivity|]. rewrite <- R at 1. apply inv_unsub; assumption.
  - eexists; split; [reflexivity|apply inv_fire; exact HI].
  - destruct (s_running (get (e_heap st) id) && negb (s_incall (get (e_heap st) id))) eqn:C;
      [|eexists; split; [reflexivity|exact HI]].
    apply andb_true_iff in C as [Cr Ci]. apply negb_true_iff in Ci.
    pose proof (running_in_heap st id Cr) as Hid.
    pose proof HI as HI'. destruct HI as (Hnd & Hb & Hs). destruct (Hs id Hid) as (H1 & H2 & H3 & H4 & H5 & H6).
    destruct (s_active (get (e_heap st) id)) eqn:A; [destruct (s_pending (get (e_heap st) id)) as [|v rest] eqn:P|].
    + eexists; split; [reflexivity|]. apply inv_upd_one; [exact HI'|exact Hid|].
      unfold sub_ok, exit_fields. cbn. rewrite A, P. repeat split; try assumption; try congruence.
    + eexists; split; [reflexivity|]. apply inv_upd_one; [exact HI'|exact Hid|].
      unfold sub_ok, call_fields. cbn. rewrite A. repeat split; try assumption; try congruence.
      intros _. rewrite <- app_assoc. cbn. apply H2. reflexivity.
    + eexists; split; [reflexivity|]. apply inv_upd_one; [exact HI'|exact Hid|].
      unfold sub_ok, exit_fields. cbn. rewrite A.
      repeat split; try assumption; try congruence; auto.
  - destruct (s_incall (get (e_heap st) id)) eqn:C; [|eexists; split; [reflexivity|exact HI]].
    pose proof (incall_in_heap st id C) as Hid.
    pose proof HI as HI'. destruct HI as (Hnd & Hb & Hs). destruct (Hs id Hid) as (H1 & H2 & H3 & H4 & H5 & H6).
    eexists; split; [reflexivity|]. apply inv_upd_one; [exact HI'|exact Hid|].
    unfold sub_ok, return_fields. cbn. repeat split; try assumption; congruence.
Qed.

(* ---------------------------------------------------------------------- *)
(* Refinement to the set model                                              *)

Definition rel (st : est) (s : spec) : Prop :=
  e_subs st = sp_live s /\ length (e_heap st) = sp_next s /\ e_fired st = sp_fired s.

Lemma step_inv' st a st' : Inv st -> step st a = Ok st' -> Inv st'.
Proof. intros HI H. destruct (step_inv st a HI) as (x & E & Hx). congruence. Qed.

Lemma step_rel st a st' s : Inv st -> rel st s -> step st a = Ok st' -> rel st' (spec_step s a).
Proof.
  intros HI (R1 & R2 & R3) H. destruct a as [|id|v|id|id]; cbn [step spec_step] in *.
  - inversion H; subst st'. unfold rel. cbn. rewrite app_length, R1, R2, R3. cbn. repeat split; lia.
  - destruct (Nat.leb (length (e_heap st)) id) eqn:L.
    + inversion H; subst st'. apply Nat.leb_le in L. unfold rel. cbn. rewrite <- R1, <- R2, <- R3.
      rewrite filter_notin; [auto|]. intros G. apply (proj1 (proj2 HI)) in G. lia.
    + pose proof (remove_spec id (e_subs st) (proj1 HI)) as R.
      destruct (find_index id (e_subs st)) as [i|].
      * rewrite R in H. inversion H; subst st'. unfold rel. cbn. rewrite upd_length, <- R1. auto.
      * inversion H; subst st'. unfold rel. cbn. rewrite upd_length, <- R1, R. auto.
  - inversion H; subst st'. unfold rel. cbn. rewrite fire_fold_length, R3. auto.
  - destruct (s_running (get (e_heap st) id) && negb (s_incall (get (e_heap st) id))).
    + destruct (s_active (get (e_heap st) id)); [destruct (s_pending (get (e_heap st) id))|];
        inversion H; subst st'; unfold rel; cbn; rewrite upd_length; auto.
    + inversion H; subst st'. unfold rel. auto.
  - destruct (s_incall (get (e_heap st) id)); inversion H; subst st'; unfold rel; cbn; rewrite ?upd_length; auto.
Qed.

Lemma run_from_cons st a t : run_from st (a :: t) =
  match step st a with Ok st' => run_from st' t | Err => Err | Panic => Panic end.
Proof.
  unfold run_from. cbn [fold_left res_bind].
  destruct (step st a); [reflexivity| |].
  - induction t as [|b t IH]; [reflexivity|exact IH].
  - induction t as [|b t IH]; [reflexivity|exact IH].
Qed.

Lemma run_from_app st t1 t2 : run_from st (t1 ++ t2) =
  match run_from st t1 with Ok st' => run_from st' t2 | Err => Err | Panic => Panic end.
Proof.
  revert st. induction t1 as [|a t1 IH]; intros st; [reflexivity|].
  cbn [app]. rewrite !run_from_cons. destruct (step st a); [apply IH|reflexivity|reflexivity].
Qed.

Lemma run_from_refines t : forall st s, Inv st -> rel st s ->
  exists st', run_from st t = Ok st' /\ Inv st' /\ rel st' (fold_left spec_step t s).
Proof.
  induction t as [|a t IH]; intros st s HI HR.
  - exists st. auto.
  - destruct (step_inv st a HI) as (st1 & E & HI1). rewrite run_from_cons, E. cbn [fold_left].
    apply IH; [exact HI1|]. exact (step_rel st a st1 s HI HR E).
Qed.

Theorem unsub_any_order_lemma (t : list act) :
  exists st, run t = Ok st /\
             e_subs st = sp_live (spec_run t) /\
             length (e_heap st) = sp_next (spec_run t) /\
             e_fired st = sp_fired (spec_run t).
Proof.
  destruct (run_from_refines t e_init spec_init inv_init) as (st & E & _ & R).
  - unfold rel. auto.
  - exists st. split; [exact E|exact R].
Qed.

Lemma run_inv t st : run t = Ok st -> Inv st.
Proof.
  intros H. destruct (run_from_refines t e_init spec_init inv_init) as (st' & E & HI & _).
  - unfold rel. auto.
  - unfold run in H. congruence.
Qed.

Theorem run_no_panic (t : list act) : run t <> Panic.
Proof. destruct (unsub_any_order_lemma t) as (st & E & _). congruence. Qed.

(* the reference itself is the obvious one: the live set is "subscribed and
   not unsubscribed", fresh ids are never reused *)
Lemma spec_live_char t : forall s id,
  In id (sp_live (fold_left spec_step t s)) <->
  (In id (sp_live s) /\ ~ In (AUnsub id) t) \/
  (exists t1 t2, t = t1 ++ ASub :: t2 /\ id = sp_next (fold_left spec_step t1 s) /\ ~ In (AUnsub id) t2).
Proof.
  induction t as [|a t IH]; intros s id.
  - cbn. split; [intros H; left; auto|].
    intros [[H _]|(t1 & t2 & E & _)]; [exact H|destruct t1; discriminate].
  - cbn [fold_left]. rewrite IH. split.
    + intros [[H Hn]|(t1 & t2 & E & Hid & Hn)].
      * destruct a as [|j|v|j|j]; cbn [spec_step sp_live] in H.
        -- apply in_app_iff in H as [H|[H|[]]].
           ++ left. split; [exact H|]. intros [G|G]; [discriminate|contradiction].
           ++ right. exists [], t. cbn. auto.
        -- apply filter_In in H as [H Hj]. left. split; [exact H|].
           intros [G|G]; [|contradiction]. inversion G; subst. rewrite Nat.eqb_refl in Hj. discriminate.
        -- left. split; [exact H|]. intros [G|G]; [discriminate|contradiction].
        -- left. split; [exact H|]. intros [G|G]; [discriminate|contradiction].
        -- left. split; [exact H|]. intros [G|G]; [discriminate|contradiction].
      * right. exists (a :: t1), t2. subst t. cbn [app fold_left]. auto.
    + intros [[H Hn]|(t1 & t2 & E & Hid & Hn)].
      * left. split; [|intros G; apply Hn; right; exact G].
        destruct a as [|j|v|j|j]; cbn [spec_step sp_live]; try exact H.
        -- apply in_app_iff. left. exact H.
        -- apply filter_In. split; [exact H|]. apply negb_true_iff. apply Nat.eqb_neq.
           intros ->. apply Hn. left. reflexivity.
      * destruct t1 as [|b t1]; cbn [app] in E; inversion E as [[Ea Et]]; clear E.
        -- left. cbn [fold_left] in Hid. rewrite Hid. cbn [spec_step sp_live].
           split; [apply in_app_iff; right; left; reflexivity|rewrite <- Hid; exact Hn].
        -- right. exists t1, t2. cbn [fold_left] in Hid. auto.
Qed.

(* ---------------------------------------------------------------------- *)
(* No notification after unsubscribe                                        *)

Lemma inactive_not_member st id : Inv st -> id < length (e_heap st) ->
  s_active (get (e_heap st) id) = false -> memb id (e_subs st) = false.
Proof. intros (_ & _ & Hs) Hid A. destruct (Hs id Hid) as (H1 & _). congruence. Qed.

Lemma step_frozen st a st' id :
  Inv st -> id < length (e_heap st) -> s_active (get (e_heap st) id) = false ->
  step st a = Ok st' ->
  id < length (e_heap st') /\ s_active (get (e_heap st') id) = false /\
  s_log (get (e_heap st') id) = s_log (get (e_heap st) id).
Proof.
  intros HI Hid A H. destruct a as [|j|v|j|j]; cbn [step] in H.
  - inversion H; subst st'. cbn [e_heap]. rewrite app_length, get_app_old by exact Hid. cbn. repeat split; auto; lia.
  - destruct (Nat.leb (length (e_heap st)) j) eqn:L; [inversion H; subst; auto|].
    assert (G : e_heap st' = upd (e_heap st) j unsub_fields).
    { destruct (find_index j (e_subs st)) as [i|]; [destruct (go_remove i (e_subs st))|]; inversion H; reflexivity. }
    rewrite G, upd_length. split; [exact Hid|].
    destruct (Nat.eq_dec id j) as [->|Hne].
    + apply Nat.leb_gt in L. rewrite get_upd_same by exact L. cbn. auto.
    + rewrite get_upd_other by exact Hne. auto.
  - inversion H; subst st'. cbn [e_heap e_subs e_fired]. rewrite fire_fold_length.
    rewrite fire_fold_get; [|exact (proj1 HI)|exact (proj1 (proj2 HI))].
    rewrite (inactive_not_member st id HI Hid A). auto.
  - destruct (s_running (get (e_heap st) j) && negb (s_incall (get (e_heap st) j))); [|inversion H; subst; auto].
    destruct (Nat.eq_dec id j) as [->|Hne].
    + rewrite A in H. inversion H; subst st'. cbn [e_heap]. rewrite upd_length, get_upd_same by exact Hid. cbn. auto.
    + destruct (s_active (get (e_heap st) j)); [destruct (s_pending (get (e_heap st) j))|];
        inversion H; subst st'; cbn [e_heap]; rewrite upd_length, get_upd_other by exact Hne; auto.
  - destruct (s_incall (get (e_heap st) j)); [|inversion H; subst; auto].
    inversion H; subst st'. cbn [e_heap]. rewrite upd_length.
    destruct (Nat.eq_dec id j) as [->|Hne].
    + rewrite get_upd_same by exact Hid. cbn. auto.
    + rewrite get_upd_other by exact Hne. auto.
Qed.

Lemma run_frozen t : forall st st' id,
  Inv st -> id < length (e_heap st) -> s_active (get (e_heap st) id) = false ->
  run_from st t = Ok st' ->
  s_active (get (e_heap st') id) = false /\ s_log (get (e_heap st') id) = s_log (get (e_heap st) id).
Proof.
  induction t as [|a t IH]; intros st st' id HI Hid A H.
  - inversion H; subst. auto.
  - rewrite run_from_cons in H. destruct (step st a) as [st1| |] eqn:E; try discriminate.
    destruct (step_frozen st a st1 id HI Hid A E) as (Hid1 & A1 & L1).
    destruct (IH st1 st' id (step_inv' st a st1 HI E) Hid1 A1 H) as (A2 & L2).
    split; [exact A2|congruence].
Qed.

Theorem no_late_notification_lemma (t1 t2 : list act) (id : nat) (st1 st : est) :
  run t1 = Ok st1 -> id < length (e_heap st1) ->
  run (t1 ++ AUnsub id :: t2) = Ok st ->
  s_log (get (e_heap st) id) = s_log (get (e_heap st1) id).
Proof.
  intros H1 Hid H. unfold run in *. rewrite run_from_app, H1, run_from_cons in H.
  pose proof (run_inv t1 st1 H1) as HI.
  destruct (step st1 (AUnsub id)) as [st2| |] eqn:E; try discriminate.
  assert (G : id < length (e_heap st2) /\ s_active (get (e_heap st2) id) = false /\
              s_log (get (e_heap st2) id) = s_log (get (e_heap st1) id)).
  { cbn [step] in E. apply Nat.leb_gt in Hid as L. rewrite L in E.
    assert (G : e_heap st2 = upd (e_heap st1) id unsub_fields).
    { destruct (find_index id (e_subs st1)) as [i|]; [destruct (go_remove i (e_subs st1))|]; inversion E; reflexivity. }
    rewrite G, upd_length, get_upd_same by exact Hid. cbn. auto. }
  destruct G as (Hid2 & A2 & L2).
  destruct (run_frozen t2 st2 st id (step_inv' _ _ _ HI E) Hid2 A2 H) as (_ & L).
  congruence.
Qed.

(* ---------------------------------------------------------------------- *)
(* A live listener has been handed exactly the values fired since it
   subscribed, in order, except those still pending; so once nothing is
   pending the last value it saw is the last one fired. *)

Theorem exact_fifo_lemma (t : list act) (st : est) (id : nat) :
  run t = Ok st -> In id (e_subs st) ->
  let s := get (e_heap st) id in
  s_log s ++ s_pending s = skipn (s_since s) (e_fired st) /\
  (s_pending s <> [] -> s_running s = true) /\ (s_incall s = true -> s_running s = true).
Proof.
  intros H Hin. destruct (run_inv t st H) as (_ & Hb & Hs).
  destruct (Hs id (Hb id Hin)) as (H1 & H2 & H3 & _ & H5 & _).
  apply memb_in in Hin. cbn zeta. split; [apply H2; congruence|auto].
Qed.

Lemma last_skipn {A} (l : list A) : forall n d, n < length l -> last (skipn n l) d = last l d.
Proof.
  induction l as [|x r IH]; intros n d H; [cbn in H; lia|].
  destruct n as [|n]; [reflexivity|]. cbn [skipn]. cbn [length] in H.
  rewrite IH by lia. destruct r; [cbn in H; lia|reflexivity].
Qed.

Theorem latest_wins_lemma (t : list act) (st : est) (id : nat) (d : Z) :
  run t = Ok st -> In id (e_subs st) ->
  let s := get (e_heap st) id in
  s_pending s = [] -> s_since s < length (e_fired st) ->
  last (s_log s) d = last (e_fired st) d.
Proof.
  intros H Hin s P Hlt. destruct (exact_fifo_lemma t st id H Hin) as (E & _).
  fold s in E. rewrite P, app_nil_r in E. rewrite E. apply last_skipn. exact Hlt.
Qed.

(* progress: whenever a live listener that is not inside a call has something
   pending, its delivery goroutine exists and its next iteration hands over
   the oldest pending value *)
Theorem progress_lemma (t : list act) (st : est) (id : nat) (v : Z) (rest : list Z) :
  run t = Ok st -> In id (e_subs st) ->
  let s := get (e_heap st) id in
  s_pending s = v :: rest -> s_incall s = false ->
  exists st', step st (ADeliver id) = Ok st' /\
              s_log (get (e_heap st') id) = s_log s ++ [v] /\ s_pending (get (e_heap st') id) = rest.
Proof.
  intros H Hin s P C. destruct (run_inv t st H) as (_ & Hb & Hs).
  pose proof (Hb id Hin) as Hid. destruct (Hs id Hid) as (H1 & _ & H3 & _).
  apply memb_in in Hin. fold s in H1, H3.
  assert (R : s_running s = true) by (apply H3; rewrite P; discriminate).
  assert (A : s_active s = true) by congruence.
  unfold step. fold s. rewrite R, C, A, P. cbn [andb negb].
  eexists; split; [reflexivity|]. cbn [e_heap]. rewrite get_upd_same by exact Hid. cbn. auto.
Qed.
