(* Proofs about Model/Proxy.v: one request (all origin answers, all cache faults) and
   whole histories (induction over the step list).

   C06  - client conditionals never influence anything the proxy sends upstream or keeps;
          a stale entry is revalidated with exactly its saved validators, which are those
          of the 200 answer it was stored from; a 304 renews by the configured default and
          changes nothing else; a storable 200 replaces the entry, after which only bodies
          the origin handed out from then on are ever served; any other answer is relayed
          and leaves the store alone.
   C09  - if every upstream request of a step was answered with 2xx / 304, the client gets
          one of those answers or a 200 built from a body the origin handed out in a 200
          answer - never the proxy's own 502 - whatever the cache does underneath. *)
From Reservoir Require Import Base.Prelude Base.Strings Model.Freshness Model.Proxy.

(* ---- header maps -------------------------------------------------------------------- *)

Lemma get_set_same n v h : get_field n (set_field n v h) = Some [v].
Proof.
  induction h as [|[m vs] r IH]; simpl.
  - rewrite Z.eqb_refl. reflexivity.
  - destruct (n <? m) eqn:E1; simpl.
    + rewrite Z.eqb_refl. reflexivity.
    + destruct (n =? m) eqn:E2; simpl.
      * rewrite Z.eqb_refl. reflexivity.
      * rewrite E2. exact IH.
Qed.

Lemma get_set_other k n v h : k <> n -> get_field k (set_field n v h) = get_field k h.
Proof.
  intros Hk. induction h as [|[m vs] r IH]; simpl.
  - destruct (k =? n) eqn:E; [apply Z.eqb_eq in E; contradiction|reflexivity].
  - destruct (n <? m) eqn:E1; simpl.
    + destruct (k =? n) eqn:E; [apply Z.eqb_eq in E; contradiction|reflexivity].
    + destruct (n =? m) eqn:E2; simpl.
      * apply Z.eqb_eq in E2. subst m.
        destruct (k =? n) eqn:E; [apply Z.eqb_eq in E; contradiction|reflexivity].
      * destruct (k =? m); [reflexivity|exact IH].
Qed.

Lemma get_strip_regular k h : is_regular k = true -> get_field k (strip_regular h) = None.
Proof.
  intros Hk. induction h as [|[m vs] r IH]; simpl; [reflexivity|].
  destruct (is_regular m) eqn:Em; simpl.
  - exact IH.
  - destruct (k =? m) eqn:E; [|exact IH].
    apply Z.eqb_eq in E. subst m. congruence.
Qed.

Lemma get_strip_other k h : is_regular k = false -> get_field k (strip_regular h) = get_field k h.
Proof.
  intros Hk. induction h as [|[m vs] r IH]; simpl; [reflexivity|].
  destruct (is_regular m) eqn:Em; simpl.
  - destruct (k =? m) eqn:E; [|exact IH].
    apply Z.eqb_eq in E. subst m. congruence.
  - destruct (k =? m); [reflexivity|exact IH].
Qed.

(* a header map without any of the four regular conditionals *)
Definition no_conditionals (h : cmap) : Prop :=
  forall n, is_regular n = true -> get_field n h = None.

(* exactly the validators saved with entry e: If-None-Match iff the saved tag is not empty,
   If-Modified-Since always, no If-Match, no If-Unmodified-Since *)
Definition carries_validators (e : entry) (h : cmap) : Prop :=
  get_field IF_NONE_MATCH h = match e_etag e with [] => None | t => Some [CRaw t] end /\
  get_field IF_MODIFIED_SINCE h = Some [CDate (e_lm e)] /\
  get_field IF_MATCH h = None /\
  get_field IF_UNMODIFIED_SINCE h = None.

Lemma strip_no_conditionals h : no_conditionals (strip_regular h).
Proof. intros n Hn. apply get_strip_regular. exact Hn. Qed.

Lemma set_validators_carries e h : no_conditionals h -> carries_validators e (set_validators e h).
Proof.
  intros Hh. unfold set_validators, carries_validators, IF_NONE_MATCH, IF_MODIFIED_SINCE, IF_MATCH, IF_UNMODIFIED_SINCE.
  repeat split.
  - rewrite get_set_other by lia.
    destruct (e_etag e) eqn:Et; [apply Hh; reflexivity|apply get_set_same].
  - apply get_set_same.
  - rewrite get_set_other by lia.
    destruct (e_etag e); [|rewrite get_set_other by lia]; apply Hh; reflexivity.
  - rewrite get_set_other by lia.
    destruct (e_etag e); [|rewrite get_set_other by lia]; apply Hh; reflexivity.
Qed.

(* the fields that are not regular conditionals (If-Range) pass through *)
Lemma set_validators_other k e h : is_regular k = false -> get_field k (set_validators e h) = get_field k h.
Proof.
  intros Hk. unfold set_validators, IF_NONE_MATCH, IF_MODIFIED_SINCE.
  assert (k <> 0 /\ k <> 1) as [H0 H1].
  { unfold is_regular in Hk. split; intros ->; discriminate. }
  rewrite get_set_other by exact H1.
  destruct (e_etag e); [reflexivity|apply get_set_other; exact H0].
Qed.

(* ---- client conditionals do not matter ------------------------------------------------- *)

Lemma step_ignores_client_conditionals cfg now st rq rq' answers flt :
  rq_meth rq = rq_meth rq' ->
  strip_regular (rq_hdr rq) = strip_regular (rq_hdr rq') ->
  proxy_step cfg now st rq answers flt = proxy_step cfg now st rq' answers flt.
Proof. intros Hm Hh. unfold proxy_step. rewrite Hm, Hh. reflexivity. Qed.

(* ---- shape of one step --------------------------------------------------------------------- *)

Definition is_answer (r : oresult) : bool := match r with OAnswer _ => true | OFail => false end.

(* every upstream request of the step got an answer from the origin *)
Definition all_answered (ups : list upreq) (answers : list oresult) : Prop :=
  (length ups <= length answers)%nat /\ forallb is_answer (firstn (length ups) answers) = true.

Definition entry_shape (cfg : pconfig) (now : Z) (st : option entry) (cons : list oresult) (st' : option entry) : Prop :=
  st' = None \/ st' = st
  \/ (exists e0, st = Some e0 /\ st' = Some (renew e0 (now + default_age (pc_pol cfg))))
  \/ (exists a, In (OAnswer a) cons /\ oa_status a = 200 /\ st' = Some (new_entry (pc_pol cfg) now a)).

Definition resp_shape (st st' : option entry) (ups : list upreq) (answers : list oresult) (resp : response) : Prop :=
  match resp with
  | RStored hs us e =>
      (hs = HsHit /\ st = Some e /\ st' = st /\ ups = []) \/ (hs <> HsHit /\ st' = Some e /\ ups <> [])
  | RRelay a => In (OAnswer a) (firstn (length ups) answers)
  | RBadGateway => ~ all_answered ups answers
  end.

Ltac break_match :=
  match goal with
  | H : context [match ?x with _ => _ end] |- _ => destruct x eqn:?
  | |- context [match ?x with _ => _ end] => destruct x eqn:?
  end.

Ltac inv_pair :=
  repeat match goal with
  | H : (_, _) = (_, _) |- _ => inversion H; subst; clear H
  end.

Ltac shape_solve :=
  first [ left; reflexivity
        | right; left; reflexivity
        | right; right; left; eexists; split; reflexivity
        | right; right; right; eexists; split; [left; reflexivity|split; [lia|reflexivity]] ].

Lemma handle_store_shape cfg now m st a flt st' r :
  handle_store cfg now m st a flt = (st', r) ->
  entry_shape cfg now st [OAnswer a] st'
  /\ (forall e us, r = FCached e us -> st' = Some e)
  /\ (forall a', r = FDirect a' -> a' = a /\ st' = st)
  /\ r <> FFail.
Proof.
  unfold handle_store, entry_shape. intros H.
  repeat break_match; inv_pair;
    (split; [shape_solve|split; [intros; congruence|split; [intros; split; congruence|congruence]]]).
Qed.

Definition vshape (cfg : pconfig) (now : Z) (st : option entry) (flt : faults) (cons : list oresult) (st' : option entry) : Prop :=
  entry_shape cfg now (vanished flt st) cons st'.

Lemma entry_shape_vanished cfg now st flt cons st' :
  entry_shape cfg now (vanished flt st) cons st' -> entry_shape cfg now st cons st'.
Proof.
  unfold entry_shape, vanished. destruct (f_vanish flt); [|tauto].
  intros [H|[H|[(e0 & H & _)|H]]]; try discriminate; auto.
Qed.

Lemma fetch_upstream_shape cfg now m st u answers flt st' r rest ups :
  fetch_upstream cfg now m st u answers flt = (st', r, rest, ups) ->
  ups <> [] /\ rest = skipn (length ups) answers /\ Forall (eq u) ups
  /\ entry_shape cfg now (vanished flt st) (firstn (length ups) answers) st'
  /\ (forall e us, r = FCached e us -> st' = Some e)
  /\ (forall a, r = FDirect a -> In (OAnswer a) (firstn (length ups) answers) /\ st' = vanished flt st)
  /\ (r = FFail -> ~ all_answered ups answers)
  /\ (r <> FFail -> all_answered ups answers).
Proof.
  unfold fetch_upstream, handle. intros H.
  assert (Hnone : forall c, entry_shape cfg now (vanished flt st) c (vanished flt st))
    by (intros; unfold entry_shape; auto).
  destruct answers as [|[a|] rest0].
  - inv_pair. simpl. repeat split; try congruence; auto.
    intros _ [Hl _]. simpl in Hl. lia.
  - destruct ((oa_status a =? 416) && pc_retry416 cfg) eqn:E416.
    + destruct rest0 as [|[a2|] rest2].
      * inv_pair. simpl. repeat split; try congruence; auto.
        intros _ [Hl _]. simpl in Hl. lia.
      * destruct (handle_store cfg now m (vanished flt st) a2 flt) as [st2 r2] eqn:Eh.
        inv_pair. apply handle_store_shape in Eh as (Hs & Hc & Hd & Hf).
        simpl.
        split; [congruence|]. split; [reflexivity|]. split; [auto|].
        split.
        { unfold entry_shape in *. destruct Hs as [Hs|[Hs|[Hs|(a3 & [Hin|[]] & H200 & Hs)]]]; auto.
          inversion Hin; subst a3. right. right. right. exists a2. simpl. auto. }
        split; [exact Hc|].
        split.
        { intros a3 Ha3. apply Hd in Ha3 as [-> ->]. auto. }
        split; [intros; contradiction|].
        intros _. unfold all_answered. simpl. split; [lia|reflexivity].
      * inv_pair. simpl. repeat split; try congruence; auto.
        intros _ [_ Hf]. simpl in Hf. discriminate.
    + destruct (handle_store cfg now m (vanished flt st) a flt) as [st2 r2] eqn:Eh.
      inv_pair. apply handle_store_shape in Eh as (Hs & Hc & Hd & Hf).
      simpl.
      split; [congruence|]. split; [reflexivity|]. split; [auto|].
      split; [exact Hs|].
      split; [exact Hc|].
      split.
      { intros a3 Ha3. apply Hd in Ha3 as [-> ->]. auto. }
      split; [intros; contradiction|].
      intros _. unfold all_answered. simpl. split; [lia|reflexivity].
  - inv_pair. simpl. repeat split; try congruence; auto.
    intros _ [_ Hf]. simpl in Hf. discriminate.
Qed.

(* ---- list facts about "the answers consumed so far" ---------------------------------------- *)

Lemma in_firstn_mono {A} (x : A) n m l : In x (firstn n l) -> (n <= m)%nat -> In x (firstn m l).
Proof.
  revert m l. induction n as [|n IH]; intros m l Hin Hle; simpl in Hin; [contradiction|].
  destruct l as [|y l]; [contradiction|]. destruct m as [|m]; [lia|]. simpl.
  destruct Hin as [->|Hin]; [left; reflexivity|right; apply IH; [exact Hin|lia]].
Qed.

Lemma skipn_head_in_firstn {A} (x : A) n l r : skipn n l = x :: r -> In x (firstn (S n) l).
Proof.
  revert l. induction n as [|n IH]; intros l H; simpl in H.
  - subst l. simpl. auto.
  - destruct l as [|y l]; [discriminate|]. simpl. right. apply IH. exact H.
Qed.

Lemma firstn_snoc_skipn {A} n (l : list A) x r :
  skipn n l = x :: r -> firstn (S n) l = firstn n l ++ [x].
Proof.
  revert l. induction n as [|n IH]; intros l H; simpl in H.
  - subst l. reflexivity.
  - destruct l as [|y l]; [discriminate|]. simpl. f_equal. apply IH. exact H.
Qed.

Lemma skipn_cons_length {A} n (l : list A) x r : skipn n l = x :: r -> (S n <= length l)%nat.
Proof.
  revert l. induction n as [|n IH]; intros l H; simpl in H.
  - subst l. simpl. lia.
  - destruct l as [|y l]; [discriminate|]. simpl. apply IH in H. lia.
Qed.

Lemma all_answered_snoc ups u answers a r :
  all_answered ups answers -> skipn (length ups) answers = OAnswer a :: r ->
  all_answered (ups ++ [u]) answers.
Proof.
  intros [Hl Hf] Hs. unfold all_answered. rewrite app_length. simpl.
  replace (length ups + 1)%nat with (S (length ups)) by lia.
  split; [eapply skipn_cons_length; exact Hs|].
  rewrite (firstn_snoc_skipn _ _ _ _ Hs), forallb_app, Hf. reflexivity.
Qed.

Lemma all_answered_prefix ups ups2 answers :
  all_answered (ups ++ ups2) answers -> all_answered ups answers.
Proof.
  intros [Hl Hf]. rewrite app_length in *. split; [lia|].
  rewrite <- (firstn_skipn (length ups) (firstn (length ups + length ups2) answers)) in Hf.
  rewrite forallb_app in Hf. apply andb_true_iff in Hf as [Hf _].
  rewrite firstn_firstn in Hf. replace (Nat.min (length ups) (length ups + length ups2)) with (length ups) in Hf by lia.
  exact Hf.
Qed.

Lemma not_answered_snoc ups u answers :
  match skipn (length ups) answers with OAnswer _ :: _ => False | _ => True end ->
  ~ all_answered (ups ++ [u]) answers.
Proof.
  intros Hs [Hl Hf]. rewrite app_length in *. simpl in *.
  destruct (skipn (length ups) answers) as [|[a|] r] eqn:E; try contradiction.
  - assert (length (skipn (length ups) answers) = 0)%nat by (rewrite E; reflexivity).
    rewrite skipn_length in H. lia.
  - replace (length ups + 1)%nat with (S (length ups)) in Hf by lia.
    rewrite (firstn_snoc_skipn _ _ _ _ E), forallb_app in Hf.
    apply andb_true_iff in Hf as [_ Hf]. simpl in Hf. discriminate.
Qed.

Lemma direct_fetch_shape u answers resp ups :
  direct_fetch u answers = (resp, ups) ->
  ups = [u] /\
  match answers with
  | OAnswer a :: _ => resp = RRelay a
  | _ => resp = RBadGateway
  end.
Proof. unfold direct_fetch. destruct answers as [|[a|] r]; intros H; inv_pair; auto. Qed.

Lemma entry_shape_mono cfg now st c1 c2 st' :
  (forall x, In x c1 -> In x c2) -> entry_shape cfg now st c1 st' -> entry_shape cfg now st c2 st'.
Proof.
  intros Hsub [H|[H|[H|(a & Hin & H2 & H3)]]]; unfold entry_shape; auto.
  right. right. right. exists a. auto.
Qed.

Lemma firstn_app_length_sub {A} (x : A) n k l : In x (firstn n l) -> In x (firstn (n + k) l).
Proof. intros H. eapply in_firstn_mono; [exact H|lia]. Qed.

(* fetchUpstream followed by the GET path's treatment of its result *)
Lemma finish_get_shape cfg now st u plain hs answers flt st' resp ups :
  hs <> HsHit ->
  finish_get plain hs (fetch_upstream cfg now GET st u answers flt) = (st', resp, ups) ->
  entry_shape cfg now st (firstn (length ups) answers) st'
  /\ resp_shape st st' ups answers resp
  /\ (exists ups2, ups = u :: ups2).
Proof.
  intros Hhs H. unfold finish_get in H.
  destruct (fetch_upstream cfg now GET st u answers flt) as [[[st1 r] rest] ups1] eqn:Ef.
  apply fetch_upstream_shape in Ef as (Hne & Hrest & Hall & Hs & Hc & Hd & Hf & Hok).
  assert (Hhd : exists t, ups1 = u :: t).
  { destruct ups1 as [|u1 t]; [congruence|]. inversion Hall; subst. eauto. }
  apply entry_shape_vanished in Hs.
  destruct r as [e us|a| |].
  - inv_pair. split; [exact Hs|]. split; [|exact Hhd].
    simpl. right. split; [exact Hhs|]. split; [eapply Hc; reflexivity|exact Hne].
  - destruct (direct_fetch plain rest) as [resp2 ups2] eqn:Ed.
    apply direct_fetch_shape in Ed as [-> Hr]. inv_pair.
    rewrite app_length. simpl.
    split; [eapply entry_shape_mono; [|exact Hs]; intros x; apply firstn_app_length_sub|].
    split; [|destruct Hhd as [t ->]; simpl; eauto].
    assert (Hans : all_answered ups1 answers) by (apply Hok; congruence).
    destruct (skipn (length ups1) answers) as [|[a2|] r2] eqn:Es.
    + subst resp. simpl. apply not_answered_snoc. rewrite Es. exact I.
    + subst resp. simpl. rewrite app_length. simpl.
      replace (length ups1 + 1)%nat with (S (length ups1)) by lia.
      eapply skipn_head_in_firstn. exact Es.
    + subst resp. simpl. apply not_answered_snoc. rewrite Es. exact I.
  - destruct (direct_fetch plain rest) as [resp2 ups2] eqn:Ed.
    apply direct_fetch_shape in Ed as [-> Hr]. inv_pair.
    rewrite app_length. simpl.
    split; [eapply entry_shape_mono; [|exact Hs]; intros x; apply firstn_app_length_sub|].
    split; [|destruct Hhd as [t ->]; simpl; eauto].
    destruct (skipn (length ups1) answers) as [|[a2|] r2] eqn:Es.
    + subst resp. simpl. apply not_answered_snoc. rewrite Es. exact I.
    + subst resp. simpl. rewrite app_length. simpl.
      replace (length ups1 + 1)%nat with (S (length ups1)) by lia.
      eapply skipn_head_in_firstn. exact Es.
    + subst resp. simpl. apply not_answered_snoc. rewrite Es. exact I.
  - inv_pair. split; [exact Hs|]. split; [|exact Hhd]. simpl. apply Hf. reflexivity.
Qed.

Lemma storable_needs_get pol m status hv now : is_get m = false -> storable pol m status hv now = false.
Proof. intros H. unfold storable. rewrite H. apply andb_false_r. Qed.

Lemma vanished_none flt : vanished flt None = None.
Proof. unfold vanished. destruct (f_vanish flt); reflexivity. Qed.

Lemma handle_store_other cfg now m a flt st' r :
  is_get m = false -> handle_store cfg now m None a flt = (st', r) ->
  st' = None /\ forall e us, r <> FCached e us.
Proof.
  intros Hm. unfold handle_store. rewrite (storable_needs_get _ _ _ _ _ Hm).
  repeat break_match; intros H; inv_pair; split; congruence.
Qed.

(* under the key of another method nothing is ever stored or found *)
Lemma other_never_cached cfg now m u answers flt st' r rest ups :
  is_get m = false -> fetch_upstream cfg now m None u answers flt = (st', r, rest, ups) ->
  st' = None /\ forall e us, r <> FCached e us.
Proof.
  intros Hm. unfold fetch_upstream, handle. rewrite vanished_none.
  repeat break_match; intros H; inv_pair;
    try (split; congruence);
    match goal with Hh : handle_store _ _ _ None _ _ = _ |- _ => eapply handle_store_other; eauto end.
Qed.

Lemma proxy_step_shape cfg now st rq answers flt st' resp ups :
  proxy_step cfg now st rq answers flt = (st', resp, ups) ->
  entry_shape cfg now st (firstn (length ups) answers) st'
  /\ resp_shape st st' ups answers resp.
Proof.
  unfold proxy_step. destruct (is_get (rq_meth rq)) eqn:Eg.
  - unfold get_step. destruct st as [e|].
    + destruct (f_lookup_err flt).
      * destruct (direct_fetch _ answers) as [resp2 ups2] eqn:Ed. intros H. inv_pair.
        apply direct_fetch_shape in Ed as [-> Hr].
        split.
        { unfold entry_shape, vanished. destruct (f_vanish flt); auto. }
        destruct answers as [|[a|] r]; subst resp; simpl; auto.
        -- intros [Hl _]. simpl in Hl. lia.
        -- intros [_ Hf]. simpl in Hf. discriminate.
      * destruct (fresh e now).
        -- intros H. inv_pair. split; [unfold entry_shape; auto|]. simpl. left. auto.
        -- intros H. apply finish_get_shape in H; [|discriminate]. tauto.
    + intros H. apply finish_get_shape in H; [|discriminate]. tauto.
  - unfold other_step.
    destruct (fetch_upstream cfg now (rq_meth rq) None _ answers flt) as [[[st1 r] rest] ups1] eqn:Ef.
    pose proof Ef as Ef0.
    apply fetch_upstream_shape in Ef as (Hne & Hrest & Hall & Hs & Hc & Hd & Hf & Hok).
    assert (Hv : forall c, entry_shape cfg now st c (vanished flt st)).
    { intros c. unfold entry_shape, vanished. destruct (f_vanish flt); auto. }
    destruct r as [e us|a| |].
    + exfalso. eapply other_never_cached in Ef0 as [_ Hn]; [eapply Hn; reflexivity|exact Eg].
    + intros H. inv_pair. split; [apply Hv|]. simpl. apply Hd. reflexivity.
    + destruct (direct_fetch _ rest) as [resp2 ups2] eqn:Ed. intros H.
      apply direct_fetch_shape in Ed as [-> Hr]. inv_pair. split; [apply Hv|].
      destruct (skipn (length ups1) answers) as [|[a2|] r2] eqn:Es.
      * subst resp. simpl. apply not_answered_snoc. rewrite Es. exact I.
      * subst resp. simpl. rewrite app_length. simpl.
        replace (length ups1 + 1)%nat with (S (length ups1)) by lia.
        eapply skipn_head_in_firstn. exact Es.
      * subst resp. simpl. apply not_answered_snoc. rewrite Es. exact I.
    + intros H. inv_pair. split; [apply Hv|]. simpl. apply Hf. reflexivity.
Qed.

(* ---- upstream requests of one step ------------------------------------------------------------ *)

Lemma finish_get_ups cfg now st u plain hs answers flt st' resp ups :
  finish_get plain hs (fetch_upstream cfg now GET st u answers flt) = (st', resp, ups) ->
  (exists t, ups = u :: t) /\ Forall (fun x => x = u \/ x = plain) ups.
Proof.
  intros H. unfold finish_get in H.
  destruct (fetch_upstream cfg now GET st u answers flt) as [[[st1 r] rest] ups1] eqn:Ef.
  apply fetch_upstream_shape in Ef as (Hne & _ & Hall & _).
  assert (Hhd : exists t, ups1 = u :: t).
  { destruct ups1 as [|u1 t]; [congruence|]. inversion Hall; subst. eauto. }
  assert (Hall' : Forall (fun x => x = u \/ x = plain) ups1).
  { eapply Forall_impl; [|exact Hall]. intros x Hx. left. symmetry. exact Hx. }
  destruct r as [e us|a| |]; inv_pair; auto.
  - destruct (direct_fetch plain rest) as [resp2 ups2] eqn:Ed.
    apply direct_fetch_shape in Ed as [-> _]. inv_pair.
    split; [destruct Hhd as [t ->]; simpl; eauto|]. apply Forall_app. split; [exact Hall'|]. constructor; [right; reflexivity|constructor].
  - destruct (direct_fetch plain rest) as [resp2 ups2] eqn:Ed.
    apply direct_fetch_shape in Ed as [-> _]. inv_pair.
    split; [destruct Hhd as [t ->]; simpl; eauto|]. apply Forall_app. split; [exact Hall'|]. constructor; [right; reflexivity|constructor].
Qed.

(* is this request a revalidation of entry e? *)
Definition revalidates (st : option entry) (rq : request) (flt : faults) (now : Z) (e : entry) : Prop :=
  st = Some e /\ is_get (rq_meth rq) = true /\ f_lookup_err flt = false /\ fresh e now = false.

Lemma proxy_step_ups cfg now st rq answers flt st' resp ups :
  proxy_step cfg now st rq answers flt = (st', resp, ups) ->
  Forall (fun u => u_meth u = rq_meth rq /\
                   (u_hdr u = strip_regular (rq_hdr rq)
                    \/ exists e, revalidates st rq flt now e /\ u_hdr u = set_validators e (strip_regular (rq_hdr rq)))) ups
  /\ (forall e, revalidates st rq flt now e ->
        exists t, ups = {| u_meth := GET; u_hdr := set_validators e (strip_regular (rq_hdr rq)) |} :: t).
Proof.
  unfold proxy_step, revalidates. destruct (is_get (rq_meth rq)) eqn:Eg.
  - assert (Hm : rq_meth rq = GET) by (destruct (rq_meth rq); simpl in Eg; congruence).
    unfold get_step. destruct st as [e|].
    + destruct (f_lookup_err flt) eqn:El.
      * destruct (direct_fetch _ answers) as [resp2 ups2] eqn:Ed. intros H. inv_pair.
        apply direct_fetch_shape in Ed as [-> _]. split.
        -- repeat constructor; simpl; auto.
        -- intros e0 (_ & _ & Hc & _). discriminate.
      * destruct (fresh e now) eqn:Ef.
        -- intros H. inv_pair. split; [constructor|]. intros e0 (He & _ & _ & Hfr). inversion He; subst. congruence.
        -- intros H. apply finish_get_ups in H as [[t ->] Hall]. split.
           ++ eapply Forall_impl; [|exact Hall]. intros x [->| ->]; simpl; split; auto.
              right. exists e. auto.
           ++ intros e0 (He & _). inversion He; subst. eauto.
    + intros H. apply finish_get_ups in H as [[t ->] Hall]. split.
      * eapply Forall_impl; [|exact Hall]. intros x [->| ->]; simpl; split; auto.
      * intros e0 (He & _). discriminate.
  - unfold other_step.
    destruct (fetch_upstream cfg now (rq_meth rq) None _ answers flt) as [[[st1 r] rest] ups1] eqn:Ef.
    apply fetch_upstream_shape in Ef as (Hne & _ & Hall & _).
    assert (Hall' : Forall (fun u => u_meth u = rq_meth rq /\
                   (u_hdr u = strip_regular (rq_hdr rq)
                    \/ exists e, (st = Some e /\ false = true /\ f_lookup_err flt = false /\ fresh e now = false)
                                 /\ u_hdr u = set_validators e (strip_regular (rq_hdr rq)))) ups1).
    { eapply Forall_impl; [|exact Hall]. intros x <-. simpl. auto. }
    destruct r as [e us|a| |]; intros H.
    + inv_pair. split; [exact Hall'|]. intros e0 (_ & Hc & _). discriminate.
    + inv_pair. split; [exact Hall'|]. intros e0 (_ & Hc & _). discriminate.
    + destruct (direct_fetch _ rest) as [resp2 ups2] eqn:Ed.
      apply direct_fetch_shape in Ed as [-> _]. inv_pair. split.
      * apply Forall_app. split; [exact Hall'|]. repeat constructor; simpl; auto.
      * intros e0 (_ & Hc & _). discriminate.
    + inv_pair. split; [exact Hall'|]. intros e0 (_ & Hc & _). discriminate.
Qed.

(* ---- histories ---------------------------------------------------------------------------------- *)

Lemma events_cons s x h :
  events s (x :: h) =
  match snd (step s x) with Some ev => ev :: events (fst (step s x)) h | None => events (fst (step s x)) h end.
Proof.
  unfold events. simpl. destruct (step s x) as [s1 oev]. simpl.
  destruct (run s1 h) as [evs s2]. destruct oev; reflexivity.
Qed.

(* induction over histories: [P] is kept by every step, [Q] holds of every event in the context
   of the events before it *)
Lemma history_induction (P : hstate -> list event -> Prop) (Q : list event -> event -> Prop) :
  (forall s past x, P s past ->
     match step s x with
     | (s', None) => P s' past
     | (s', Some ev) => Q past ev /\ P s' (past ++ [ev])
     end) ->
  forall h s past, P s past ->
  forall evs1 ev evs2, events s h = evs1 ++ ev :: evs2 -> Q (past ++ evs1) ev.
Proof.
  intros Hstep. induction h as [|x h IH]; intros s past HP evs1 ev evs2 Hev.
  - unfold events in Hev. simpl in Hev. destruct evs1; discriminate.
  - rewrite events_cons in Hev. specialize (Hstep s past x HP).
    destruct (step s x) as [s1 [ev0|]]; simpl in Hev.
    + destruct Hstep as [HQ HP1]. destruct evs1 as [|e1 evs1].
      * simpl in Hev. inversion Hev; subst. rewrite app_nil_r. exact HQ.
      * simpl in Hev. inversion Hev; subst e1.
        replace (past ++ ev0 :: evs1) with ((past ++ [ev0]) ++ evs1) by (rewrite <- app_assoc; reflexivity).
        eapply (IH s1); [exact HP1|exact H1].
    + eapply (IH s1); [exact Hstep|exact Hev].
Qed.

Definition answers_in (l : list oresult) : list oanswer :=
  flat_map (fun r => match r with OAnswer a => [a] | OFail => [] end) l.

(* every answer the origin gave during the events *)
Definition issued (evs : list event) : list oanswer := flat_map (fun ev => answers_in (consumed ev)) evs.

Lemma answers_in_spec a l : In a (answers_in l) <-> In (OAnswer a) l.
Proof.
  unfold answers_in. rewrite in_flat_map. split.
  - intros ([b|] & Hin & Hx); simpl in Hx; [|contradiction]. destruct Hx as [->|[]]. exact Hin.
  - intros Hin. exists (OAnswer a). simpl. auto.
Qed.

Lemma issued_app a b : issued (a ++ b) = issued a ++ issued b.
Proof. unfold issued. apply flat_map_app. Qed.

Lemma issued_snoc past ev : issued (past ++ [ev]) = issued past ++ answers_in (consumed ev).
Proof. rewrite issued_app. unfold issued at 2. simpl. rewrite app_nil_r. reflexivity. Qed.

(* entry e holds the body and the validators of the 200 answer a *)
Definition from_answer (a : oanswer) (e : entry) : Prop :=
  oa_status a = 200 /\ e_version e = oa_version a /\ e_etag e = oa_etag a /\
  e_lm e = match oa_lm a with Some t => t | None => e_stored_at e end.

Definition prov (past : list event) (e : entry) : Prop :=
  exists a, In a (issued past) /\ from_answer a e.

Lemma prov_mono past more e : prov past e -> prov (past ++ more) e.
Proof. intros (a & Hin & Hf). exists a. split; [rewrite issued_app; apply in_or_app; auto|exact Hf]. Qed.

Lemma from_answer_renew a e x : from_answer a e -> from_answer a (renew e x).
Proof. unfold from_answer, renew. simpl. tauto. Qed.

Lemma from_answer_new pol now a : oa_status a = 200 -> from_answer a (new_entry pol now a).
Proof. intros H. unfold from_answer, new_entry. simpl. destruct (oa_lm a); auto. Qed.

Definition entry_inv (s : hstate) (past : list event) : Prop :=
  forall e, hs_entry s = Some e -> prov past e.

(* the stored entry always comes from a 200 answer the origin gave earlier in the history *)
Lemma step_keeps_prov s past x :
  entry_inv s past ->
  match step s x with
  | (s', None) => entry_inv s' past
  | (s', Some ev) =>
      (forall hs us e, ev_resp ev = RStored hs us e -> prov (past ++ [ev]) e) /\ entry_inv s' (past ++ [ev])
  end.
Proof.
  intros Hinv. destruct x as [d|c| |rq answers flt]; simpl; try exact Hinv.
  - intros e He. discriminate.
  - destruct (proxy_step (hs_cfg s) (hs_now s) (hs_entry s) rq answers flt) as [[st' resp] ups] eqn:Ep.
    apply proxy_step_shape in Ep as [Hs Hr].
    set (ev := {| ev_cfg := hs_cfg s; ev_now := hs_now s; ev_before := hs_entry s; ev_rq := rq;
                  ev_answers := answers; ev_flt := flt; ev_resp := resp; ev_ups := ups; ev_after := st' |}).
    assert (Hafter : forall e, st' = Some e -> prov (past ++ [ev]) e).
    { intros e He. destruct Hs as [Hs|[Hs|[(e0 & H0 & Hs)|(a & Hin & H200 & Hs)]]].
      - congruence.
      - apply prov_mono. apply Hinv. congruence.
      - rewrite Hs in He. inversion He; subst e. apply prov_mono.
        destruct (Hinv e0 H0) as (a & Hin & Hf). exists a. split; [exact Hin|apply from_answer_renew; exact Hf].
      - rewrite Hs in He. inversion He; subst e. exists a. split.
        + rewrite issued_snoc. apply in_or_app. right. apply answers_in_spec. exact Hin.
        + apply from_answer_new. exact H200. }
    split.
    + simpl. intros hs us e Hresp. subst resp. simpl in Hr.
      destruct Hr as [(_ & Hst & _ & _)|(_ & Hst & _)].
      * apply prov_mono. apply Hinv. exact Hst.
      * apply Hafter. exact Hst.
    + intros e He. simpl in He. apply Hafter. exact He.
Qed.

(* ---- C09: no error of the proxy's making ------------------------------------------------------- *)

(* every upstream request of the event was answered by the origin, with 2xx or 304 *)
Definition origin_good (ev : event) : Prop :=
  (length (ev_ups ev) <= length (ev_answers ev))%nat /\ forallb good_result (consumed ev) = true.

Lemma good_is_answer l : forallb good_result l = true -> forallb is_answer l = true.
Proof.
  induction l as [|[a|] l IH]; simpl; intros H; try reflexivity; try discriminate.
  apply andb_true_iff in H as [_ H]. auto.
Qed.

Definition c09_ok (past : list event) (ev : event) : Prop :=
  origin_good ev ->
  match ev_resp ev with
  | RRelay a => In (OAnswer a) (consumed ev)                (* an answer the origin gave to this very request *)
  | RStored _ _ e => prov (past ++ [ev]) e                   (* a 200 built from a body the origin handed out in a 200 answer *)
  | RBadGateway => False
  end.

Lemma no_manufactured_error cfg0 now0 h evs1 ev evs2 :
  events (init_state cfg0 now0) h = evs1 ++ ev :: evs2 -> c09_ok evs1 ev.
Proof.
  intros Hev.
  change evs1 with ([] ++ evs1).
  eapply (history_induction entry_inv c09_ok); [| |exact Hev].
  - intros s past x Hinv. pose proof (step_keeps_prov s past x Hinv) as Hk.
    destruct x as [d|c| |rq answers flt]; simpl in *; try exact Hk.
    destruct (proxy_step (hs_cfg s) (hs_now s) (hs_entry s) rq answers flt) as [[st' resp] ups] eqn:Ep.
    destruct Hk as [Hst Hinv']. split; [|exact Hinv'].
    unfold c09_ok, origin_good, consumed. simpl. intros [Hl Hg].
    apply proxy_step_shape in Ep as [_ Hr].
    destruct resp as [hs us e|a|]; simpl in Hr.
    + eapply Hst. reflexivity.
    + exact Hr.
    + apply Hr. split; [exact Hl|apply good_is_answer; exact Hg].
  - intros e He. discriminate.
Qed.

(* ---- C06: validators --------------------------------------------------------------------------- *)

Definition validators_ok (past : list event) (ev : event) : Prop :=
  (* every upstream request is unconditional, or carries exactly the validators of the entry that was
     stored (and stale) when the request arrived - which are those of a 200 answer of the origin *)
  Forall (fun u =>
            no_conditionals (u_hdr u)
            \/ exists e, revalidates (ev_before ev) (ev_rq ev) (ev_flt ev) (ev_now ev) e
                         /\ carries_validators e (u_hdr u) /\ prov past e) (ev_ups ev)
  (* and a stale entry is revalidated: the first upstream request carries them *)
  /\ (forall e, revalidates (ev_before ev) (ev_rq ev) (ev_flt ev) (ev_now ev) e ->
        exists u t, ev_ups ev = u :: t /\ carries_validators e (u_hdr u))
  (* fields that are not regular conditionals (If-Range) are passed on as the client sent them *)
  /\ Forall (fun u => forall k, is_regular k = false -> get_field k (u_hdr u) = get_field k (rq_hdr (ev_rq ev))) (ev_ups ev).

Lemma validators_history cfg0 now0 h evs1 ev evs2 :
  events (init_state cfg0 now0) h = evs1 ++ ev :: evs2 -> validators_ok evs1 ev.
Proof.
  intros Hev.
  change evs1 with ([] ++ evs1).
  eapply (history_induction entry_inv validators_ok); [| |exact Hev].
  - intros s past x Hinv. pose proof (step_keeps_prov s past x Hinv) as Hk.
    destruct x as [d|c| |rq answers flt]; simpl in *; try exact Hk.
    destruct (proxy_step (hs_cfg s) (hs_now s) (hs_entry s) rq answers flt) as [[st' resp] ups] eqn:Ep.
    destruct Hk as [_ Hinv']. split; [|exact Hinv'].
    apply proxy_step_ups in Ep as [Hall Hfirst].
    unfold validators_ok. simpl. split; [|split].
    + eapply Forall_impl; [|exact Hall]. intros u [_ [Hu|(e & Hrev & Hu)]].
      * left. rewrite Hu. apply strip_no_conditionals.
      * right. exists e. split; [exact Hrev|]. split.
        -- rewrite Hu. apply set_validators_carries. apply strip_no_conditionals.
        -- apply Hinv. destruct Hrev as [He _]. exact He.
    + intros e Hrev. destruct (Hfirst e Hrev) as [t ->]. eexists. eexists. split; [reflexivity|].
      simpl. apply set_validators_carries. apply strip_no_conditionals.
    + eapply Forall_impl; [|exact Hall]. intros u [_ [Hu|(e & _ & Hu)]] k Hk; rewrite Hu.
      * apply get_strip_other. exact Hk.
      * rewrite set_validators_other by exact Hk. apply get_strip_other. exact Hk.
  - intros e He. discriminate.
Qed.

(* ---- C06: the three kinds of answer to a revalidation -------------------------------------------- *)

Lemma is_get_GET m : is_get m = true -> m = GET.
Proof. destruct m; simpl; congruence. Qed.

(* 304: the stored entry stays, only its expiry moves to now + default; it is what the client gets *)
Lemma revalidation_304 cfg now e rq a rest flt :
  revalidates (Some e) rq flt now e ->
  f_vanish flt = false -> f_reget flt = RgOk ->
  oa_status a = 304 ->
  let e' := renew e (now + default_age (pc_pol cfg)) in
  proxy_step cfg now (Some e) rq (OAnswer a :: rest) flt =
  (Some e', RStored HsRevalidated 304 e',
   [{| u_meth := GET; u_hdr := set_validators e (strip_regular (rq_hdr rq)) |}]).
Proof.
  intros (_ & Hg & Hl & Hf) Hv Hr Hs. unfold proxy_step, get_step, fetch_upstream, handle, handle_store, finish_get, vanished.
  rewrite Hg, Hl, Hf, Hv, Hr, Hs. simpl. reflexivity.
Qed.

(* the renewed lifetime is exactly the configured default *)
Lemma renewed_lifetime e now dflt d :
  fresh (renew e (now + dflt)) (now + d) = true <-> d <= dflt.
Proof. unfold fresh, renew. simpl. rewrite negb_true_iff, Z.ltb_ge. lia. Qed.

(* ... so the next request within it is served from the store without asking the origin, and the
   first request after it asks the origin again *)
Lemma after_304_hit cfg now e' rq answers flt :
  is_get (rq_meth rq) = true -> f_lookup_err flt = false -> fresh e' now = true ->
  proxy_step cfg now (Some e') rq answers flt = (Some e', RStored HsHit 0 e', []).
Proof.
  intros Hg Hl Hf. unfold proxy_step, get_step. rewrite Hg, Hl, Hf. reflexivity.
Qed.

(* 200 (storable, the cache accepts it): the entry is replaced and the new body served *)
Lemma revalidation_200 cfg now st rq a rest flt :
  is_get (rq_meth rq) = true ->
  (match st with Some e => f_lookup_err flt = false /\ fresh e now = false | None => True end) ->
  oa_status a = 200 -> storable (pc_pol cfg) GET 200 (oa_hv a) now = true -> f_store_fail flt = false ->
  let e' := new_entry (pc_pol cfg) now a in
  exists u, proxy_step cfg now st rq (OAnswer a :: rest) flt =
            (Some e', RStored (match st with Some _ => HsRevalidated | None => HsMiss end) 200 e', [u]).
Proof.
  intros Hg Hst Hs Hsto Hsf. unfold proxy_step, get_step, fetch_upstream, handle, handle_store, finish_get.
  rewrite Hg. destruct st as [e|].
  - destruct Hst as [Hl Hf]. rewrite Hl, Hf, Hs. simpl. rewrite Hsto, Hsf. simpl. eauto.
  - rewrite Hs. simpl. rewrite Hsto, Hsf. simpl. eauto.
Qed.

(* any other answer (not 200 / 304 / 416, or a 200 that may not be stored): the store is left alone,
   the client's own request is sent again and what the origin then says is relayed *)
Definition other_answer (cfg : pconfig) (now : Z) (a : oanswer) : Prop :=
  oa_status a <> 304 /\ (oa_status a = 416 -> pc_retry416 cfg = false) /\
  (oa_status a = 200 -> storable (pc_pol cfg) GET 200 (oa_hv a) now = false).

Lemma revalidation_other cfg now e rq a rest flt :
  revalidates (Some e) rq flt now e ->
  other_answer cfg now a ->
  proxy_step cfg now (Some e) rq (OAnswer a :: rest) flt =
  (vanished flt (Some e),
   match rest with OAnswer a2 :: _ => RRelay a2 | _ => RBadGateway end,
   [{| u_meth := GET; u_hdr := set_validators e (strip_regular (rq_hdr rq)) |};
    {| u_meth := GET; u_hdr := strip_regular (rq_hdr rq) |}]).
Proof.
  intros (_ & Hg & Hl & Hf) (H304 & H416 & H200).
  unfold proxy_step, get_step, fetch_upstream, handle, handle_store, finish_get.
  rewrite Hg, Hl, Hf.
  assert (E416 : (oa_status a =? 416) && pc_retry416 cfg = false).
  { destruct (oa_status a =? 416) eqn:E; [|reflexivity]. apply Z.eqb_eq in E. rewrite (H416 E). reflexivity. }
  rewrite E416.
  destruct (oa_status a =? 200) eqn:E200.
  - apply Z.eqb_eq in E200. rewrite (H200 E200). simpl. destruct rest as [|[a2|] r]; reflexivity.
  - assert (E304 : (oa_status a =? 304) = false) by (apply Z.eqb_neq; exact H304).
    rewrite E304. simpl. destruct rest as [|[a2|] r]; reflexivity.
Qed.

(* ---- C06: after a replacement only bodies handed out from then on are served ----------------------- *)

Definition versions200 (l : list oanswer) : list Z :=
  map oa_version (filter (fun a => oa_status a =? 200) l).

Lemma versions200_app a b : versions200 (a ++ b) = versions200 a ++ versions200 b.
Proof. unfold versions200. rewrite filter_app, map_app. reflexivity. Qed.

Definition ver_inv (v0 : Z) (s : hstate) (past : list event) : Prop :=
  forall e, hs_entry s = Some e -> In (e_version e) (v0 :: versions200 (issued past)).

Definition ver_ok (v0 : Z) (past : list event) (ev : event) : Prop :=
  forall hs us e, ev_resp ev = RStored hs us e -> In (e_version e) (v0 :: versions200 (issued (past ++ [ev]))).

Lemma served_versions v0 s h evs1 ev evs2 :
  (forall e, hs_entry s = Some e -> e_version e = v0) ->
  events s h = evs1 ++ ev :: evs2 -> ver_ok v0 evs1 ev.
Proof.
  intros H0 Hev.
  change evs1 with ([] ++ evs1).
  eapply (history_induction (ver_inv v0) (ver_ok v0)); [| |exact Hev].
  - clear. intros s past x Hinv.
    destruct x as [d|c| |rq answers flt]; simpl; try exact Hinv.
    + intros e He. discriminate.
    + destruct (proxy_step (hs_cfg s) (hs_now s) (hs_entry s) rq answers flt) as [[st' resp] ups] eqn:Ep.
      apply proxy_step_shape in Ep as [Hs Hr].
      set (ev := {| ev_cfg := hs_cfg s; ev_now := hs_now s; ev_before := hs_entry s; ev_rq := rq;
                    ev_answers := answers; ev_flt := flt; ev_resp := resp; ev_ups := ups; ev_after := st' |}).
      assert (Hmono : forall v, In v (v0 :: versions200 (issued past)) -> In v (v0 :: versions200 (issued (past ++ [ev])))).
      { intros v [->|Hv]; [left; reflexivity|right]. rewrite issued_snoc, versions200_app. apply in_or_app. auto. }
      assert (Hafter : forall e, st' = Some e -> In (e_version e) (v0 :: versions200 (issued (past ++ [ev])))).
      { intros e He. destruct Hs as [Hs|[Hs|[(e0 & H0 & Hs)|(a & Hin & H200 & Hs)]]].
        - congruence.
        - apply Hmono. apply Hinv. congruence.
        - rewrite Hs in He. inversion He; subst e. simpl. apply Hmono. apply (Hinv e0 H0).
        - rewrite Hs in He. inversion He; subst e. right.
          rewrite issued_snoc, versions200_app. apply in_or_app. right.
          unfold versions200. simpl. apply in_map_iff. exists a. split; [reflexivity|].
          apply filter_In. split; [apply answers_in_spec; exact Hin|apply Z.eqb_eq; exact H200]. }
      split.
      * unfold ver_ok. simpl. intros hs us e Hresp. subst resp. simpl in Hr.
        destruct Hr as [(_ & Hst & _ & _)|(_ & Hst & _)].
        -- apply Hmono. apply Hinv. exact Hst.
        -- apply Hafter. exact Hst.
      * intros e He. simpl in He. apply Hafter. exact He.
  - intros e He. left. symmetry. apply H0. exact He.
Qed.

(* consequences in terms of status codes *)
Lemma good_status cfg0 now0 h evs1 ev evs2 :
  events (init_state cfg0 now0) h = evs1 ++ ev :: evs2 -> origin_good ev ->
  is_2xx (status_of (ev_resp ev)) || (status_of (ev_resp ev) =? 304) = true.
Proof.
  intros Hev Hg. pose proof (no_manufactured_error _ _ _ _ _ _ Hev Hg) as H.
  destruct (ev_resp ev) as [hs us e|a|]; simpl in *; [reflexivity| |contradiction].
  destruct Hg as [_ Hg]. rewrite forallb_forall in Hg. apply (Hg _ H).
Qed.

(* after a replacement: the combined statement *)
Lemma replaced_never_served cfg now st rq a rest flt h evs1 ev evs2 :
  is_get (rq_meth rq) = true ->
  (match st with Some e => f_lookup_err flt = false /\ fresh e now = false | None => True end) ->
  oa_status a = 200 -> storable (pc_pol cfg) GET 200 (oa_hv a) now = true -> f_store_fail flt = false ->
  let s1 := fst (step {| hs_cfg := cfg; hs_now := now; hs_entry := st |} (Request rq (OAnswer a :: rest) flt)) in
  events s1 h = evs1 ++ ev :: evs2 ->
  forall hs us e, ev_resp ev = RStored hs us e ->
  In (e_version e) (oa_version a :: versions200 (issued (evs1 ++ [ev]))).
Proof.
  intros Hg Hst Hs Hsto Hsf s1 Hev.
  destruct (revalidation_200 cfg now st rq a rest flt Hg Hst Hs Hsto Hsf) as [u Hstep].
  assert (Hs1 : hs_entry s1 = Some (new_entry (pc_pol cfg) now a)).
  { unfold s1. simpl. rewrite Hstep. reflexivity. }
  eapply (served_versions (oa_version a) s1 h evs1 ev evs2); [|exact Hev].
  intros e He. rewrite Hs1 in He. inversion He. reflexivity.
Qed.
