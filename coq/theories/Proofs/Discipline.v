(* C15 — soundness of the three-way discipline (guarded / read-only / confined): no reachable state of
   any number of threads under any schedule has a race. *)
From Reservoir Require Import Base.Prelude Model.Sync Model.Race Model.Discipline Proofs.Sync Proofs.Race.
From Coq Require Import Arith PeanoNat Lia.

Definition dwf (C : loc -> lclass) (s : rsys) : Prop :=
  lock_inv s /\ forall i t, nth_error s i = Some t -> disc C i (rheld t) (rcode t) = true.

Lemma rthread_step_dwf C s i t c t' :
  dwf C s -> nth_error s i = Some t -> rthread_step s t c = Some t' -> dwf C (upd_nth i t' s).
Proof.
  intros [Hinv Hg] Hi Hst.
  pose proof (Hg i t Hi) as Hgt.
  assert (Hgoal : (forall l m, In (l, m) (rheld t') -> In (l, m) (rheld t) \/ can_acq s l m = true) /\
                  disc C i (rheld t') (rcode t') = true).
  { unfold rthread_step in Hst.
    destruct (rcode t) as [|l m k|l m k|l m kok kfail|a b|x w k|k] eqn:Ec; cbn [disc] in Hgt.
    - discriminate.
    - destruct (can_acq s l m) eqn:Ea; [|discriminate]. inversion Hst; subst t'; simpl.
      split; [|exact Hgt]. intros l' m' [H|H]; [inversion H; subst; right; exact Ea|left; exact H].
    - destruct (hmem (l, m) (rheld t)) eqn:Em; [|discriminate]. inversion Hst; subst t'; simpl.
      apply andb_true_iff in Hgt as [_ Hk].
      split; [|exact Hk]. intros l' m' H. left. eapply hremove1_In; exact H.
    - apply andb_true_iff in Hgt as [Hok Hfail].
      destruct (can_acq s l m) eqn:Ea; inversion Hst; subst t'; simpl.
      + split; [|exact Hok]. intros l' m' [H|H]; [inversion H; subst; right; exact Ea|left; exact H].
      + split; [auto|exact Hfail].
    - apply andb_true_iff in Hgt as [Ha Hb]. inversion Hst; subst t'; simpl.
      split; [auto|]. destruct c; assumption.
    - inversion Hst; subst t'; simpl. split; [auto|].
      apply andb_true_iff in Hgt as [_ Hk]. exact Hk.
    - inversion Hst; subst t'; simpl. split; [auto|exact Hgt]. }
  destruct Hgoal as [H1 H2]. split.
  - eapply lock_inv_upd; eauto.
  - intros j u Hu. destruct (Nat.eq_dec i j) as [<-|Hij].
    + rewrite (nth_error_upd_same _ _ _ _ Hi) in Hu. inversion Hu; subst u. exact H2.
    + rewrite nth_error_upd_other in Hu by exact Hij. apply Hg; exact Hu.
Qed.

Lemma rrun_dwf C sched : forall s s', dwf C s -> rrun s sched = Some s' -> dwf C s'.
Proof.
  induction sched as [|[i c] r IH]; simpl; intros s s' Hwf H.
  - inversion H; subst; exact Hwf.
  - unfold rsys_step in H.
    destruct (nth_error s i) as [t|] eqn:Hi; [|discriminate].
    destruct (rthread_step s t c) as [t'|] eqn:Hst; [|discriminate].
    eapply IH; [eapply rthread_step_dwf; eauto|exact H].
Qed.

Lemma disc_all_nth C ps : forall base i p,
  disc_all C base ps = true -> nth_error ps i = Some p -> disc C (base + i)%nat [] p = true.
Proof.
  induction ps as [|q r IH]; intros base i p H Hn; [destruct i; discriminate|].
  cbn [disc_all] in H. apply andb_true_iff in H as [Hq Hr].
  destruct i as [|i]; simpl in Hn.
  - inversion Hn; subst. rewrite Nat.add_0_r. exact Hq.
  - replace (base + S i)%nat with (S base + i)%nat by lia. eapply IH; eauto.
Qed.

Lemma rspawn_dwf C ps : disc_all C 0 ps = true -> dwf C (rspawn ps).
Proof.
  intros H. split.
  - intros i j ti tj l m Hi _ Hl _. exfalso.
    apply nth_error_In in Hi. unfold rspawn in Hi. apply in_map_iff in Hi as [p [<- _]]. exact Hl.
  - intros i t Ht. unfold rspawn in Ht. rewrite nth_error_map in Ht.
    destruct (nth_error ps i) as [p|] eqn:Hp; [|discriminate]. inversion Ht; subst t. simpl.
    exact (disc_all_nth C ps 0 i p H Hp).
Qed.

Lemma disc_pending C i t x w :
  disc C i (rheld t) (rcode t) = true -> pending t = Some (x, w) -> acc_ok C i (rheld t) x w = true.
Proof.
  unfold pending. destruct (rcode t) as [| | | | |y w' k|]; try discriminate.
  intros Hg Hp. inversion Hp; subst y w'. cbn [disc] in Hg.
  apply andb_true_iff in Hg as [Hh _]. exact Hh.
Qed.

Theorem dwf_no_race C s : dwf C s -> has_race s = false.
Proof.
  intros [Hinv Hg]. destruct (has_race s) eqn:E; [|reflexivity]. exfalso.
  destruct (has_race_spec s E) as [i [j [ti [tj [Hne [Hi [Hj Hc]]]]]]].
  unfold conflict in Hc.
  destruct (pending ti) as [[x w1]|] eqn:Pi; [|discriminate].
  destruct (pending tj) as [[y w2]|] eqn:Pj; [|discriminate].
  apply andb_true_iff in Hc as [Hxy Hw]. apply Nat.eqb_eq in Hxy. subst y.
  pose proof (disc_pending C i ti x w1 (Hg i ti Hi) Pi) as A1.
  pose proof (disc_pending C j tj x w2 (Hg j tj Hj) Pj) as A2.
  unfold acc_ok in A1, A2. destruct (C x) as [g| |o].
  - assert (H1 : (w1 = true -> In (g, MW) (rheld ti)) /\ (In (g, MR) (rheld ti) \/ In (g, MW) (rheld ti))).
    { destruct w1.
      - apply hmem_In in A1. split; auto.
      - apply orb_true_iff in A1 as [A|A]; apply hmem_In in A; split; auto; discriminate. }
    assert (H2 : (w2 = true -> In (g, MW) (rheld tj)) /\ (In (g, MR) (rheld tj) \/ In (g, MW) (rheld tj))).
    { destruct w2.
      - apply hmem_In in A2. split; auto.
      - apply orb_true_iff in A2 as [A|A]; apply hmem_In in A; split; auto; discriminate. }
    destruct H1 as [Hw1 Hh1], H2 as [Hw2 Hh2].
    apply orb_true_iff in Hw as [Hw|Hw]; subst.
    + specialize (Hw1 eq_refl). destruct Hh2 as [H|H]; apply Hne; eapply Hinv; eauto.
    + specialize (Hw2 eq_refl). destruct Hh1 as [H|H]; apply Hne; symmetry; eapply Hinv; eauto.
  - destruct w1, w2; simpl in *; discriminate.
  - apply Nat.eqb_eq in A1, A2. apply Hne. congruence.
Qed.

Theorem discipline_sound C ps sched s' :
  disc_all C 0 ps = true -> rrun (rspawn ps) sched = Some s' -> has_race s' = false.
Proof.
  intros Hg Hrun. apply (dwf_no_race C). eapply rrun_dwf; [apply rspawn_dwf; exact Hg|exact Hrun].
Qed.

(* The lockset discipline of Model/Race.v is the special case in which every location is guarded. *)
Lemma guarded_disc G C me : (forall x g, G x = Some g -> C x = CGuard g) ->
  forall p h, guarded G h p = true -> disc C me h p = true.
Proof.
  intros HG. induction p as [|l m k IH|l m k IH|l m kok IH1 kfail IH2|a IHa b IHb|x w k IH|k IH]; intros h H; cbn [guarded disc] in *.
  - reflexivity.
  - apply IH; exact H.
  - apply andb_true_iff in H as [H1 H2]. rewrite H1. simpl. apply IH; exact H2.
  - apply andb_true_iff in H as [H1 H2]. rewrite (IH1 _ H1), (IH2 _ H2). reflexivity.
  - apply andb_true_iff in H as [H1 H2]. rewrite (IHa _ H1), (IHb _ H2). reflexivity.
  - destruct (G x) as [g|] eqn:Eg; [|discriminate]. apply andb_true_iff in H as [H1 H2].
    unfold acc_ok. rewrite (HG _ _ Eg). rewrite H1. simpl. apply IH; exact H2.
  - apply IH; exact H.
Qed.

(* A write to a read-only location, or an access to another thread's confined location, is rejected. *)
Lemma readonly_write_rejected C me h x k : C x = CReadOnly -> disc C me h (RAcc x true k) = false.
Proof. intros H. cbn [disc]. unfold acc_ok. rewrite H. reflexivity. Qed.

Lemma foreign_access_rejected C me o h x w k : C x = COwner o -> o <> me -> disc C me h (RAcc x w k) = false.
Proof.
  intros H Hne. cbn [disc]. unfold acc_ok. rewrite H.
  destruct (Nat.eqb o me) eqn:E; [apply Nat.eqb_eq in E; contradiction|reflexivity].
Qed.
