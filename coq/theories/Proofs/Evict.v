(* Proofs about Model/Evict.v: the eviction loop for every resolution of map
   order, sort ties and TryLock skips; the characterisation [evict_allowed]; the
   store / cycle trigger; cleanExpiredEntries for every placement of concurrent
   operations; run-time limit and interval changes. *)
From Coq Require Import Sorting.Sorted Sorting.Permutation.
From Reservoir Require Import Base.Prelude Model.Evict.

(* ------------------------------------------------------------------------- *)
(* small list facts *)

Lemma zmem_In x l : zmem x l = true <-> In x l.
Proof.
  unfold zmem. rewrite existsb_exists. split.
  - intros [y [Hy E]]. apply Z.eqb_eq in E. subst. exact Hy.
  - intros H. exists x. split; [exact H | apply Z.eqb_refl].
Qed.

Lemma zmem_false x l : zmem x l = false <-> ~ In x l.
Proof.
  rewrite <- zmem_In. destruct (zmem x l); split; intros H.
  - discriminate.
  - exfalso. apply H. reflexivity.
  - intros H'. discriminate.
  - reflexivity.
Qed.

Lemma znodup_NoDup l : znodup l = true <-> NoDup l.
Proof.
  induction l as [|x l IH]; simpl.
  - split; intros _; [constructor | reflexivity].
  - rewrite andb_true_iff, negb_true_iff, zmem_false, IH. split.
    + intros [H1 H2]. constructor; assumption.
    + intros H. inversion H; subst. split; assumption.
Qed.

Lemma sum_sizes_app a b : sum_sizes (a ++ b) = sum_sizes a + sum_sizes b.
Proof. induction a as [|x a IH]; simpl; [reflexivity | rewrite IH; lia]. Qed.

Lemma sum_sizes_perm a b : Permutation a b -> sum_sizes a = sum_sizes b.
Proof. induction 1; simpl; lia. Qed.

Lemma sum_sizes_nonneg l : Forall (fun e => 0 <= e_size e) l -> 0 <= sum_sizes l.
Proof. induction 1; simpl; lia. Qed.

Lemma NoDup_map_inv_local {A B} (f : A -> B) l : NoDup (map f l) -> NoDup l.
Proof.
  induction l as [|x l IH]; simpl; intros H; [constructor|].
  inversion H; subst. constructor.
  - intros Hin. apply H2. apply in_map. exact Hin.
  - apply IH. exact H3.
Qed.

Lemma key_inj l a b : NoDup (map e_key l) -> In a l -> In b l -> e_key a = e_key b -> a = b.
Proof.
  induction l as [|x l IH]; simpl; intros Hnd Ha Hb E; [contradiction|].
  inversion Hnd; subst.
  destruct Ha as [Ha|Ha], Hb as [Hb|Hb]; subst.
  - reflexivity.
  - exfalso. apply H1. rewrite E. apply in_map. exact Hb.
  - exfalso. apply H1. rewrite <- E. apply in_map. exact Ha.
  - apply IH; assumption.
Qed.

Lemma filter_nil_iff {A} (f : A -> bool) l : filter f l = [] <-> forall x, In x l -> f x = false.
Proof.
  induction l as [|x l IH]; simpl.
  - split; [intros _ y [] | reflexivity].
  - destruct (f x) eqn:E.
    + split; [discriminate|]. intros H. specialize (H x (or_introl eq_refl)). congruence.
    + rewrite IH. split.
      * intros H y [->|Hy]; [exact E | apply H; exact Hy].
      * intros H y Hy. apply H. right. exact Hy.
Qed.

Lemma NoDup_filter_local {A} (f : A -> bool) l : NoDup l -> NoDup (filter f l).
Proof.
  induction 1 as [|x l Hx Hnd IH]; simpl; [constructor|].
  destruct (f x); [|exact IH]. constructor; [|exact IH].
  intros Hin. apply filter_In in Hin. apply Hx. apply Hin.
Qed.

Lemma Permutation_filter_local {A} (f : A -> bool) l l' :
  Permutation l l' -> Permutation (filter f l) (filter f l').
Proof.
  induction 1; simpl.
  - constructor.
  - destruct (f x); [constructor|]; assumption.
  - destruct (f x), (f y); try constructor; apply Permutation_refl.
  - eapply Permutation_trans; eassumption.
Qed.

(* ------------------------------------------------------------------------- *)
(* descending priority order *)

Definition pdesc (a b : entry) : Prop := priority b <= priority a.
Definition unheld (held : list Z) (l : list entry) : list entry :=
  filter (fun e => negb (is_held held e)) l.

Lemma pdesc_trans : Relations_1.Transitive pdesc.
Proof. intros a b c. unfold pdesc. lia. Qed.

Lemma SS_filter (f : entry -> bool) l : StronglySorted pdesc l -> StronglySorted pdesc (filter f l).
Proof.
  induction 1 as [|x l Hs IH Hx]; simpl; [constructor|].
  destruct (f x); [|exact IH]. constructor; [exact IH|].
  rewrite Forall_forall in *. intros y Hy. apply Hx. apply filter_In in Hy. apply Hy.
Qed.

Lemma SS_app_cross a b : StronglySorted pdesc (a ++ b) ->
  forall x y, In x a -> In y b -> priority y <= priority x.
Proof.
  induction a as [|h a IH]; simpl; intros Hs x y Hx Hy; [contradiction|].
  inversion Hs; subst. destruct Hx as [->|Hx].
  - rewrite Forall_forall in H2. apply H2. apply in_or_app. right. exact Hy.
  - apply IH; assumption.
Qed.

Lemma SS_app_l a b : StronglySorted pdesc (a ++ b) -> StronglySorted pdesc a.
Proof.
  induction a as [|h a IH]; simpl; intros Hs; [constructor|].
  inversion Hs; subst. constructor; [apply IH; exact H1|].
  rewrite Forall_forall in *. intros y Hy. apply H2. apply in_or_app. left. exact Hy.
Qed.

(* the last element of a descending list is a least one *)
Lemma SS_last_least a l : StronglySorted pdesc (a ++ [l]) ->
  forall r, In r (a ++ [l]) -> priority l <= priority r.
Proof.
  intros Hs r Hr. apply in_app_or in Hr. destruct Hr as [Hr|[->|[]]]; [|lia].
  eapply SS_app_cross; [exact Hs | exact Hr | left; reflexivity].
Qed.

Lemma insert_desc_perm e l : Permutation (e :: l) (insert_desc e l).
Proof.
  induction l as [|x l IH]; simpl; [apply Permutation_refl|].
  destruct (priority x <? priority e); [apply Permutation_refl|].
  eapply Permutation_trans; [apply perm_swap|]. constructor. exact IH.
Qed.

Lemma sort_desc_perm l : Permutation (sort_desc l) l.
Proof.
  induction l as [|x l IH]; simpl; [constructor|].
  eapply Permutation_trans; [apply Permutation_sym, insert_desc_perm|]. constructor. exact IH.
Qed.

Lemma insert_desc_sorted e l : StronglySorted pdesc l -> StronglySorted pdesc (insert_desc e l).
Proof.
  induction 1 as [|x l Hs IH Hx]; simpl.
  - constructor; constructor.
  - destruct (priority x <? priority e) eqn:E.
    + apply Z.ltb_lt in E. constructor; [constructor; assumption|].
      constructor; [unfold pdesc; lia|].
      rewrite Forall_forall in *. intros y Hy. specialize (Hx y Hy). unfold pdesc in *. lia.
    + apply Z.ltb_ge in E. constructor; [exact IH|].
      rewrite Forall_forall in *. intros y Hy.
      apply (Permutation_in _ (Permutation_sym (insert_desc_perm e l))) in Hy.
      destruct Hy as [<-|Hy]; [unfold pdesc; lia | apply Hx; exact Hy].
Qed.

Lemma sort_desc_sorted l : StronglySorted pdesc (sort_desc l).
Proof. induction l as [|x l IH]; simpl; [constructor | apply insert_desc_sorted; exact IH]. Qed.

(* ------------------------------------------------------------------------- *)
(* the loop removes the shortest prefix of the unheld candidates that reaches the target *)

Lemma evict_loop_prefix target held cands cur :
  let U := unheld held cands in
  exists n, (n <= length U)%nat /\
    fst (evict_loop target held cands cur) = firstn n U /\
    snd (evict_loop target held cands cur) = cur - sum_sizes (firstn n U) /\
    (cur - sum_sizes (firstn n U) <= target \/ n = length U) /\
    (forall m, (m < n)%nat -> target < cur - sum_sizes (firstn m U)).
Proof.
  revert cur. induction cands as [|e rest IH]; intros cur.
  - exists 0%nat. cbn. repeat split; try lia; intros; lia.
  - cbn [evict_loop unheld filter]. destruct (cur <=? target) eqn:Ec.
    + apply Z.leb_le in Ec. exists 0%nat. cbn [firstn sum_sizes fold_right fst snd].
      repeat split; try lia; intros; lia.
    + apply Z.leb_gt in Ec. destruct (is_held held e) eqn:Eh; cbn [negb].
      * apply IH.
      * specialize (IH (cur - e_size e)). cbv zeta in IH. fold (unheld held rest) in *.
        destruct IH as [n [Hn [Hf [Hs [Hr Hm]]]]].
        destruct (evict_loop target held rest (cur - e_size e)) as [r c] eqn:El.
        cbn [fst snd] in *. exists (S n). cbn [firstn length sum_sizes fold_right].
        fold (sum_sizes (firstn n (unheld held rest))).
        split; [lia|]. split; [rewrite Hf; reflexivity|]. split; [rewrite Hs; lia|].
        split; [destruct Hr as [Hr|Hr]; [left; lia | right; lia]|].
        intros m Hlt. destruct m as [|m]; cbn [firstn sum_sizes fold_right]; [lia|].
        fold (sum_sizes (firstn m (unheld held rest))).
        specialize (Hm m ltac:(lia)). lia.
Qed.

(* ------------------------------------------------------------------------- *)
(* the order-free characterisation, as a proposition *)

Definition Rof (held : list Z) (pop : list entry) (removed : list Z) : list entry :=
  filter (fun e => zmem (e_key e) removed) (unheld held pop).
Definition Kof (held : list Z) (pop : list entry) (removed : list Z) : list entry :=
  filter (fun e => negb (zmem (e_key e) removed)) (unheld held pop).

Definition evict_outcome (pop : list entry) (cur target : Z) (held removed : list Z) : Prop :=
  let R := Rof held pop removed in
  let K := Kof held pop removed in
  (* distinct keys of entries that are not in use *)
  NoDup removed /\
  (forall k, In k removed -> exists e, In e pop /\ is_held held e = false /\ e_key e = k) /\
  (* least recently used (size-weighted) first: no survivor outranks a removed entry *)
  (forall r u, In r R -> In u K -> priority u <= priority r) /\
  (* down to the target, unless nothing evictable is left *)
  (cur - sum_sizes R <= target \/ K = []) /\
  (* stops as soon as the target is reached *)
  (R = [] \/ exists l, In l R /\ (forall r, In r R -> priority l <= priority r) /\
                       target < cur - sum_sizes R + e_size l).

Lemma unheld_In held pop e : In e (unheld held pop) <-> In e pop /\ is_held held e = false.
Proof. unfold unheld. rewrite filter_In, negb_true_iff. reflexivity. Qed.

Lemma evict_allowed_iff pop cur target held removed :
  evict_allowed pop cur target held removed = true <-> evict_outcome pop cur target held removed.
Proof.
  unfold evict_allowed, evict_outcome. fold (unheld held pop).
  fold (Rof held pop removed). fold (Kof held pop removed).
  set (R := Rof held pop removed). set (K := Kof held pop removed).
  rewrite !andb_true_iff, znodup_NoDup.
  assert (H2 : forallb (fun k => zmem k (map e_key (unheld held pop))) removed = true <->
               (forall k, In k removed -> exists e, In e pop /\ is_held held e = false /\ e_key e = k)).
  { rewrite forallb_forall. split; intros H k Hk; specialize (H k Hk).
    - apply zmem_In, in_map_iff in H. destruct H as [e [Ek He]]. apply unheld_In in He.
      exists e. tauto.
    - destruct H as [e [He [Hh Ek]]]. apply zmem_In, in_map_iff. exists e. split; [exact Ek|].
      apply unheld_In. tauto. }
  assert (H3 : forallb (fun r => forallb (fun u => priority u <=? priority r) K) R = true <->
               (forall r u, In r R -> In u K -> priority u <= priority r)).
  { rewrite forallb_forall. split.
    - intros H r u Hr Hu. specialize (H r Hr). rewrite forallb_forall in H.
      apply Z.leb_le. apply H. exact Hu.
    - intros H r Hr. apply forallb_forall. intros u Hu. apply Z.leb_le. apply H; assumption. }
  assert (H4 : (cur - sum_sizes R <=? target) || match K with [] => true | _ => false end = true <->
               (cur - sum_sizes R <= target \/ K = [])).
  { rewrite orb_true_iff, Z.leb_le. destruct K; split; intros [H|H]; auto; discriminate. }
  assert (H5 : match R with
               | [] => true
               | _ => existsb (fun l => forallb (fun r => priority l <=? priority r) R
                                        && (target <? cur - sum_sizes R + e_size l)) R
               end = true <->
               (R = [] \/ exists l, In l R /\ (forall r, In r R -> priority l <= priority r) /\
                                    target < cur - sum_sizes R + e_size l)).
  { destruct R as [|r0 R'] eqn:ER; [split; auto|]. rewrite existsb_exists. split.
    - intros [l [Hl Hc]]. right. exists l. apply andb_true_iff in Hc. destruct Hc as [Hc1 Hc2].
      rewrite forallb_forall in Hc1. apply Z.ltb_lt in Hc2.
      split; [exact Hl|]. split; [|exact Hc2]. intros r Hr. apply Z.leb_le. apply Hc1. exact Hr.
    - intros [H|[l [Hl [Hm Ht]]]]; [discriminate|]. exists l. split; [exact Hl|].
      apply andb_true_iff. split; [|apply Z.ltb_lt; exact Ht].
      apply forallb_forall. intros r Hr. apply Z.leb_le. apply Hm. exact Hr. }
  rewrite H2, H3, H4, H5. tauto.
Qed.

(* ------------------------------------------------------------------------- *)
(* every resolution of the deterministic loop is an allowed outcome *)

Lemma firstn_snoc {A} (l : list A) m : (m < length l)%nat ->
  exists x, firstn (S m) l = firstn m l ++ [x].
Proof.
  revert m. induction l as [|h l IH]; intros m Hm; simpl in Hm; [lia|].
  destruct m as [|m].
  - exists h. reflexivity.
  - destruct (IH m ltac:(lia)) as [x Hx]. exists x.
    change (firstn (S (S m)) (h :: l)) with (h :: firstn (S m) l). rewrite Hx. reflexivity.
Qed.

Lemma In_firstn_local {A} (l : list A) n x : In x (firstn n l) -> In x l.
Proof.
  revert n. induction l as [|h l IH]; intros n H; destruct n; simpl in *; try contradiction.
  destruct H as [->|H]; [left; reflexivity | right; eapply IH; exact H].
Qed.

Lemma In_skipn_local {A} (l : list A) n x : In x (skipn n l) -> In x l.
Proof.
  revert n. induction l as [|h l IH]; intros n H; destruct n; simpl in *; try contradiction; auto.
  right. eapply IH. exact H.
Qed.

Lemma NoDup_firstn {A} (l : list A) n : NoDup l -> NoDup (firstn n l).
Proof.
  revert n. induction l as [|h l IH]; intros n Hnd; destruct n; simpl; try constructor.
  - inversion Hnd; subst. intros Hin. apply H1. eapply In_firstn_local. exact Hin.
  - inversion Hnd; subst. apply IH. exact H2.
Qed.

Lemma nodup_keys_filter (f : entry -> bool) l : NoDup (map e_key l) -> NoDup (map e_key (filter f l)).
Proof.
  induction l as [|x l IH]; simpl; intros H; [constructor|]. inversion H; subst.
  destruct (f x); simpl; [|apply IH; exact H3]. constructor; [|apply IH; exact H3].
  intros Hin. apply H2. apply in_map_iff in Hin. destruct Hin as [y [Ey Hy]].
  apply filter_In in Hy. apply in_map_iff. exists y. tauto.
Qed.

Theorem evict_loop_outcome pop cands cur target held :
  NoDup (map e_key pop) -> Permutation cands pop -> Sorted pdesc cands ->
  let R := fst (evict_loop target held cands cur) in
  evict_outcome pop cur target held (map e_key R) /\
  snd (evict_loop target held cands cur) = cur - sum_sizes R /\
  Permutation (Rof held pop (map e_key R)) R.
Proof.
  intros Hnd Hperm Hsorted R.
  assert (Hss : StronglySorted pdesc (unheld held cands)).
  { apply SS_filter. apply Sorted_StronglySorted; [exact pdesc_trans | exact Hsorted]. }
  destruct (evict_loop_prefix target held cands cur) as [n [Hn [Hf [Hs [Hreach Hm]]]]].
  set (Uc := unheld held cands) in *. fold R in Hf. rewrite <- Hf in *.
  assert (Hndc : NoDup (map e_key cands)).
  { eapply Permutation_NoDup; [apply Permutation_map, Permutation_sym, Hperm | exact Hnd]. }
  assert (HndU : NoDup (map e_key Uc)) by (apply nodup_keys_filter; exact Hndc).
  assert (Hsplit : Uc = R ++ skipn n Uc) by (rewrite Hf; symmetry; apply firstn_skipn).
  assert (HRU : forall e, In e R -> In e Uc) by (intros e He; rewrite Hf in He; eapply In_firstn_local; exact He).
  assert (HUpop : forall e, In e Uc <-> In e pop /\ is_held held e = false).
  { intros e. unfold Uc. rewrite unheld_In. split; intros [H1 H2]; split; auto.
    - eapply Permutation_in; eassumption.
    - eapply Permutation_in; [apply Permutation_sym|]; eassumption. }
  (* F1 *)
  assert (F1 : forall e, In e (Rof held pop (map e_key R)) <-> In e R).
  { intros e. unfold Rof. rewrite filter_In, unheld_In, zmem_In, in_map_iff. split.
    - intros [[Hp Hh] [r [Ek Hr]]]. assert (e = r); [|subst; exact Hr].
      eapply key_inj; [exact Hnd | exact Hp | | symmetry; exact Ek].
      apply HUpop. apply HRU. exact Hr.
    - intros He. split; [apply HUpop, HRU, He|]. exists e. split; [reflexivity | exact He]. }
  (* F2 *)
  assert (F2 : forall u, In u (Kof held pop (map e_key R)) -> In u (skipn n Uc)).
  { intros u. unfold Kof. rewrite filter_In, unheld_In, negb_true_iff, zmem_false. intros [Hu Hk].
    apply HUpop in Hu. rewrite Hsplit in Hu. apply in_app_or in Hu. destruct Hu as [Hu|Hu]; [|exact Hu].
    exfalso. apply Hk. apply in_map. exact Hu. }
  assert (HndR : NoDup R).
  { rewrite Hf. apply NoDup_firstn. eapply NoDup_map_inv_local. exact HndU. }
  assert (F3 : Permutation (Rof held pop (map e_key R)) R).
  { apply NoDup_Permutation; [|exact HndR|exact F1].
    unfold Rof, unheld. apply NoDup_filter_local, NoDup_filter_local.
    eapply NoDup_map_inv_local. exact Hnd. }
  assert (Hsum : sum_sizes (Rof held pop (map e_key R)) = sum_sizes R) by (apply sum_sizes_perm; exact F3).
  split; [|split; [exact Hs | exact F3]].
  unfold evict_outcome. rewrite Hsum. split; [|split; [|split; [|split]]].
  - rewrite Hf, <- firstn_map. apply NoDup_firstn. exact HndU.
  - intros k Hk. apply in_map_iff in Hk. destruct Hk as [e [Ek He]]. exists e.
    apply HRU, HUpop in He. tauto.
  - intros r u Hr Hu. apply F1 in Hr. apply F2 in Hu.
    eapply SS_app_cross; [rewrite <- Hsplit; exact Hss | exact Hr | exact Hu].
  - destruct Hreach as [Hr|Hr]; [left; exact Hr|]. right.
    apply filter_nil_iff. intros u Hu. apply negb_false_iff, zmem_In, in_map.
    apply unheld_In in Hu. apply HUpop in Hu. rewrite Hf, Hr, firstn_all. exact Hu.
  - destruct n as [|m].
    + left. assert (HR0 : R = []) by (rewrite Hf; reflexivity).
      rewrite HR0 in F3 |- *. apply Permutation_nil, Permutation_sym, F3.
    + right. destruct (firstn_snoc Uc m ltac:(lia)) as [l Hl].
      assert (HR : R = firstn m Uc ++ [l]) by (rewrite Hf; exact Hl).
      exists l. split; [apply F1; rewrite HR; apply in_or_app; right; left; reflexivity|]. split.
      * intros r Hr'. apply F1 in Hr'. apply SS_last_least with (a := firstn m Uc).
        -- rewrite <- HR. eapply SS_app_l. rewrite <- Hsplit. exact Hss.
        -- rewrite <- HR. exact Hr'.
      * specialize (Hm m ltac:(lia)). rewrite HR, sum_sizes_app. cbn. lia.
Qed.

Corollary evict_model_allowed pop cands cur target held :
  NoDup (map e_key pop) -> Permutation cands pop -> Sorted pdesc cands ->
  evict_allowed pop cur target held (map e_key (fst (evict_loop target held cands cur))) = true.
Proof. intros H1 H2 H3. apply evict_allowed_iff. apply evict_loop_outcome; assumption. Qed.

Lemma evict_loop_below target held cands cur :
  cur <= target -> evict_loop target held cands cur = ([], cur).
Proof.
  intros H. destruct cands as [|e r]; [reflexivity|]. cbn [evict_loop].
  apply Z.leb_le in H. rewrite H. reflexivity.
Qed.

(* nothing is removed at or below the target, for every allowed outcome *)
Lemma evict_outcome_below pop cur target held removed :
  Forall (fun e => 0 <= e_size e) pop -> cur <= target ->
  evict_outcome pop cur target held removed -> removed = [].
Proof.
  intros Hsz Hle (Hnd & Hkeys & _ & _ & Hstop).
  assert (HR : Rof held pop removed = []).
  { destruct Hstop as [H|[l [Hl [_ Ht]]]]; [exact H|]. exfalso.
    assert (Hin : incl (Rof held pop removed) pop).
    { intros x Hx. unfold Rof in Hx. apply filter_In in Hx. destruct Hx as [Hx _].
      apply unheld_In in Hx. tauto. }
    assert (HszR : Forall (fun e => 0 <= e_size e) (Rof held pop removed)).
    { rewrite Forall_forall in *. intros x Hx. apply Hsz, Hin, Hx. }
    apply in_split in Hl. destruct Hl as [a [b Hab]]. rewrite Hab in Ht, HszR.
    rewrite sum_sizes_app in Ht. cbn in Ht.
    apply Forall_app in HszR. destruct HszR as [Ha Hb]. apply Forall_cons_iff in Hb.
    destruct Hb as [Hl0 Hb].
    pose proof (sum_sizes_nonneg a Ha). pose proof (sum_sizes_nonneg b Hb).
    fold (sum_sizes b) in Ht. lia. }
  destruct removed as [|k r]; [reflexivity|]. exfalso.
  destruct (Hkeys k (or_introl eq_refl)) as [e [He [Hh Ek]]].
  assert (In e (Rof held pop (k :: r))).
  { unfold Rof. apply filter_In. split; [apply unheld_In; tauto|]. apply zmem_In. left. auto. }
  rewrite HR in H. contradiction.
Qed.

(* above the target something is removed whenever something evictable exists *)
Lemma evict_outcome_progress pop cur target held removed :
  target < cur -> (exists u, In u pop /\ is_held held u = false) ->
  evict_outcome pop cur target held removed -> removed <> [].
Proof.
  intros Hgt [u [Hu Hh]] (_ & _ & _ & Hreach & _) ->.
  assert (HR : Rof held pop [] = []).
  { unfold Rof. apply filter_nil_iff. intros x _. reflexivity. }
  rewrite HR in Hreach. cbn in Hreach. destruct Hreach as [H|H]; [lia|].
  assert (In u (Kof held pop [])).
  { unfold Kof. apply filter_In. split; [apply unheld_In; tauto | reflexivity]. }
  rewrite H in H0. contradiction.
Qed.

(* the common elapsed time: adding a constant to every age changes neither which orders
   are sorted nor what the loop does *)
Definition age_shift (d : Z) (e : entry) : entry :=
  mkE (e_key e) (e_shard e) (e_size e) (e_age e + d) (e_exp e).

Lemma priority_shift d e : priority (age_shift d e) = priority e + d.
Proof. unfold priority, age_shift. cbn. lia. Qed.

Lemma sorted_shift d l : Sorted pdesc (map (age_shift d) l) <-> Sorted pdesc l.
Proof.
  induction l as [|x l IH]; cbn [map]; [split; constructor|].
  split; intros H; inversion H; subst; constructor; try (apply IH; assumption).
  - destruct l; [constructor|]. cbn [map] in H3. inversion H3; subst. constructor.
    unfold pdesc in *. rewrite !priority_shift in H1. lia.
  - destruct l; cbn [map]; [constructor|]. inversion H3; subst. constructor.
    unfold pdesc in *. rewrite !priority_shift. lia.
Qed.

Lemma evict_loop_shift d target held cands cur :
  evict_loop target held (map (age_shift d) cands) cur =
  (map (age_shift d) (fst (evict_loop target held cands cur)), snd (evict_loop target held cands cur)).
Proof.
  revert cur. induction cands as [|e r IH]; intros cur; cbn [map evict_loop]; [reflexivity|].
  destruct (cur <=? target); [reflexivity|].
  change (is_held held (age_shift d e)) with (is_held held e).
  destruct (is_held held e); [apply IH|].
  change (e_size (age_shift d e)) with (e_size e). rewrite IH.
  destruct (evict_loop target held r (cur - e_size e)); reflexivity.
Qed.

(* ------------------------------------------------------------------------- *)
(* the trigger: stores and cycles evict iff the counter is at or over the limit *)

Definition valid_ord (ord : list entry -> list entry) : Prop :=
  forall l, Permutation (ord l) l /\ Sorted pdesc (ord l).

Lemma sort_desc_valid : valid_ord sort_desc.
Proof.
  intros l. split; [apply sort_desc_perm | apply StronglySorted_Sorted, sort_desc_sorted].
Qed.

Lemma remove_key_In k l x : In x (remove_key k l) <-> In x l /\ e_key x <> k.
Proof.
  unfold remove_key. rewrite filter_In, negb_true_iff, Z.eqb_neq. reflexivity.
Qed.

Lemma without_In R l x : In x (without R l) <-> In x l /\ ~ In (e_key x) (map e_key R).
Proof. unfold without. rewrite filter_In, negb_true_iff, zmem_false. reflexivity. Qed.

Lemma insert_In s e x :
  In x (c_ents (insert s e)) <-> x = e \/ (In x (c_ents s) /\ e_key x <> e_key e).
Proof.
  unfold insert, set_ents. cbn [c_ents]. cbn [In]. rewrite remove_key_In.
  split; intros [H|H]; auto.
Qed.

(* what one evict call of the deterministic model does to a state *)
Definition evicted (ord : list entry -> list entry) (limit : Z) (held : list Z) (s : cstate) : list entry :=
  fst (evict_loop (evict_target limit) held (ord (c_ents s)) (c_bytes s)).

Lemma run_evict_det ord limit held s :
  run_evict (det_evictor ord) limit held s =
  Some (set_ents s (without (evicted ord limit held s) (c_ents s))
                 (c_bytes s - sum_sizes (evicted ord limit held s))).
Proof. reflexivity. Qed.

Lemma evicted_outcome ord limit held s :
  valid_ord ord -> NoDup (map e_key (c_ents s)) ->
  evict_outcome (c_ents s) (c_bytes s) (evict_target limit) held (map e_key (evicted ord limit held s)).
Proof.
  intros Hv Hnd. destruct (Hv (c_ents s)) as [Hp Hs].
  apply (evict_loop_outcome (c_ents s) (ord (c_ents s)) (c_bytes s) (evict_target limit) held Hnd Hp Hs).
Qed.

Definition store_held (b : backend) (e : entry) (held : list Z) : list Z :=
  match b with Mem => e_shard e :: held | File => held end.

Theorem store_trigger ord b held e s s' ok :
  valid_ord ord -> NoDup (map e_key (c_ents s)) ->
  store (det_evictor ord) b held e s = Some (s', ok) ->
  let limit := store_limit b s in
  (* below the limit nothing is evicted *)
  (c_bytes s < limit ->
     forall x, In x (c_ents s) -> e_key x <> e_key e -> In x (c_ents s')) /\
  (* at or over the limit: exactly one evict call, with that limit; the storing caller's shard
     counts as in use on the memory backend *)
  (limit <= c_bytes s ->
     exists removed,
       evict_outcome (c_ents s) (c_bytes s) (evict_target limit) (store_held b e held) removed /\
       forall x, In x (c_ents s) -> e_key x <> e_key e ->
                 (In x (c_ents s') <-> ~ In (e_key x) removed)).
Proof.
  intros Hv Hnd Hst limit. subst limit. split.
  - intros Hlt x Hx Hk. destruct b; cbn [store] in Hst.
    + destruct (store_limit Mem s <=? c_bytes s) eqn:E; [apply Z.leb_le in E; lia|].
      inversion Hst; subst. apply insert_In. right. tauto.
    + destruct (store_limit File s <=? c_bytes s) eqn:E; [apply Z.leb_le in E; lia|].
      destruct (e_size e =? 0); inversion Hst; subst; [exact Hx|]. apply insert_In. right. tauto.
  - intros Hge. exists (map e_key (evicted ord (store_limit b s) (store_held b e held) s)).
    split; [apply evicted_outcome; assumption|].
    intros x Hx Hk. apply Z.leb_le in Hge. destruct b; cbn [store store_held] in *.
    + rewrite Hge, run_evict_det in Hst.
      set (s1 := set_ents s _ _) in Hst.
      destruct (store_limit Mem s1 <=? c_bytes s1); inversion Hst; subst.
      * unfold s1, set_ents. cbn [c_ents]. rewrite without_In. tauto.
      * rewrite insert_In. unfold s1, set_ents. cbn [c_ents]. rewrite without_In.
        split; [intros [->|H]; tauto | intros H; right; tauto].
    + rewrite Hge, run_evict_det in Hst.
      set (s1 := set_ents s _ _) in Hst.
      destruct (e_size e =? 0); inversion Hst; subst.
      * unfold s1, set_ents. cbn [c_ents]. rewrite without_In. tauto.
      * rewrite insert_In. unfold s1, set_ents. cbn [c_ents]. rewrite without_In.
        split; [intros [->|H]; tauto | intros H; right; tauto].
Qed.

Theorem ensure_trigger ord held s s' :
  valid_ord ord -> NoDup (map e_key (c_ents s)) ->
  ensure_size (det_evictor ord) held s = Some s' ->
  (c_bytes s < c_cfgmax s -> s' = s) /\
  (c_cfgmax s <= c_bytes s ->
     exists removed,
       evict_outcome (c_ents s) (c_bytes s) (evict_target (c_cfgmax s)) held removed /\
       forall x, In x (c_ents s) -> (In x (c_ents s') <-> ~ In (e_key x) removed)).
Proof.
  intros Hv Hnd He. unfold ensure_size in He. split.
  - intros Hlt. apply Z.ltb_lt in Hlt. rewrite Hlt in He. inversion He. reflexivity.
  - intros Hge. exists (map e_key (evicted ord (c_cfgmax s) held s)).
    split; [apply evicted_outcome; assumption|]. intros x Hx.
    apply Z.ltb_ge in Hge. rewrite Hge, run_evict_det in He. inversion He; subst.
    unfold set_ents. cbn [c_ents]. rewrite without_In. tauto.
Qed.

(* ------------------------------------------------------------------------- *)
(* cleanExpiredEntries, for every placement of concurrent operations *)

Definition yop_key (y : yop) : Z :=
  match y with YStore e => e_key e | YRefresh k _ => k | YDelete k => k end.
Definition touched (ys : list yop) : list Z := map yop_key ys.

Definition refresh_fn (k exp : Z) (e : entry) : entry :=
  if e_key e =? k then mkE (e_key e) (e_shard e) (e_size e) 0 exp else e.

Lemma refresh_fn_key k exp e : e_key (refresh_fn k exp e) = e_key e.
Proof. unfold refresh_fn. destruct (e_key e =? k); reflexivity. Qed.

Lemma apply_yop_other l y x : e_key x <> yop_key y -> (In x (apply_yop l y) <-> In x l).
Proof.
  intros Hk. destruct y as [e|k exp|k]; cbn [apply_yop yop_key] in *.
  - cbn [In]. rewrite remove_key_In. split; [intros [->|H]; [congruence | tauto] | intros H; right; tauto].
  - fold (refresh_fn k exp). rewrite in_map_iff. split.
    + intros [y [Ey Hy]]. unfold refresh_fn in Ey. destruct (e_key y =? k) eqn:E.
      * apply Z.eqb_eq in E. subst x. cbn in Hk. congruence.
      * subst. exact Hy.
    + intros Hx. exists x. split; [|exact Hx]. unfold refresh_fn.
      destruct (e_key x =? k) eqn:E; [apply Z.eqb_eq in E; congruence | reflexivity].
  - rewrite remove_key_In. tauto.
Qed.

Lemma apply_yops_other l ys x :
  ~ In (e_key x) (touched ys) -> (In x (apply_yops l ys) <-> In x l).
Proof.
  revert l. induction ys as [|y ys IH]; intros l Hk; cbn [apply_yops fold_left]; [reflexivity|].
  cbn [touched map In] in Hk. fold (apply_yops (apply_yop l y) ys).
  rewrite IH by (unfold touched; tauto). apply apply_yop_other. intros E. apply Hk. left. auto.
Qed.

Lemma remove_key_keys k l : ~ In k (map e_key (remove_key k l)).
Proof.
  intros H. apply in_map_iff in H. destruct H as [x [E Hx]]. apply remove_key_In in Hx. tauto.
Qed.

Lemma apply_yop_nodup l y : NoDup (map e_key l) -> NoDup (map e_key (apply_yop l y)).
Proof.
  intros H. destruct y as [e|k exp|k]; cbn [apply_yop].
  - cbn [map]. constructor; [apply remove_key_keys | apply nodup_keys_filter; exact H].
  - fold (refresh_fn k exp). rewrite map_map.
    rewrite (map_ext _ e_key) by (intros a; apply refresh_fn_key). exact H.
  - apply nodup_keys_filter. exact H.
Qed.

Lemma apply_yops_nodup l ys : NoDup (map e_key l) -> NoDup (map e_key (apply_yops l ys)).
Proof.
  revert l. induction ys as [|y ys IH]; intros l H; cbn [apply_yops fold_left]; [exact H|].
  apply IH. apply apply_yop_nodup. exact H.
Qed.

Lemma apply_yop_keys l y k :
  In k (map e_key (apply_yop l y)) -> In k (map e_key l) \/ k = yop_key y.
Proof.
  destruct y as [e|k' exp|k']; cbn [apply_yop yop_key].
  - cbn [map In]. intros [H|H]; [right; auto|]. left.
    apply in_map_iff in H. destruct H as [x [E Hx]]. apply remove_key_In in Hx.
    apply in_map_iff. exists x. tauto.
  - fold (refresh_fn k' exp). rewrite map_map.
    rewrite (map_ext _ e_key) by (intros a; apply refresh_fn_key). auto.
  - intros H. left. apply in_map_iff in H. destruct H as [x [E Hx]]. apply remove_key_In in Hx.
    apply in_map_iff. exists x. tauto.
Qed.

Lemma apply_yops_keys l ys k :
  In k (map e_key (apply_yops l ys)) -> In k (map e_key l) \/ In k (touched ys).
Proof.
  revert l. induction ys as [|y ys IH]; intros l H; cbn [apply_yops fold_left] in *; [auto|].
  apply IH in H. cbn [touched map In]. destruct H as [H|H]; [|right; right; exact H].
  apply apply_yop_keys in H. destruct H as [H|H]; [left; exact H | right; left; auto].
Qed.

Lemma lookup_Some l k e : lookup k l = Some e -> In e l /\ e_key e = k.
Proof.
  induction l as [|x l IH]; cbn [lookup]; [discriminate|].
  destruct (e_key x =? k) eqn:E.
  - intros H. inversion H; subst. apply Z.eqb_eq in E. split; [left; reflexivity | exact E].
  - intros H. apply IH in H. split; [right; tauto | tauto].
Qed.

Lemma lookup_nodup l x : NoDup (map e_key l) -> In x l -> lookup (e_key x) l = Some x.
Proof.
  induction l as [|h l IH]; cbn [lookup map]; intros Hnd Hx; [contradiction|].
  inversion Hnd; subst. destruct Hx as [->|Hx]; [rewrite Z.eqb_refl; reflexivity|].
  destruct (e_key h =? e_key x) eqn:E; [|apply IH; assumption].
  apply Z.eqb_eq in E. exfalso. apply H1. rewrite E. apply in_map. exact Hx.
Qed.

(* what one janitor step can do *)
Lemma clean_one_cases held l k sh :
  (clean_one held l (k, sh) = (l, [])) \/
  (exists e, zmem sh held = false /\ lookup k l = Some e /\ expired e = true /\
             clean_one held l (k, sh) = (remove_key k l, [e])).
Proof.
  cbn [clean_one]. destruct (zmem sh held); [left; reflexivity|].
  destruct (lookup k l) as [e|] eqn:E; [|left; reflexivity].
  destruct (expired e) eqn:Ex; [|left; reflexivity].
  right. exists e. auto.
Qed.

(* the janitor only ever removes an entry that is, at that moment, present under its key
   and expired: never a fresh one, wherever the concurrent operations land *)
Theorem clean_loop_removes_only_expired held scanned batches l :
  Forall (fun e => expired e = true) (snd (clean_loop held scanned batches l)).
Proof.
  revert batches l. induction scanned as [|[k sh] rest IH]; intros batches l; cbn [clean_loop].
  - constructor.
  - set (l1 := apply_yops l (hd [] batches)).
    destruct (clean_one_cases held l1 k sh) as [H|[e [_ [_ [Hex H]]]]]; rewrite H;
      specialize (IH (tl batches));
      [ specialize (IH l1) | specialize (IH (remove_key k l1)) ];
      destruct (clean_loop held rest (tl batches) _) as [l3 rs]; cbn [snd app] in *.
    + exact IH.
    + constructor; assumption.
Qed.

(* a janitor step keeps every fresh entry *)
Lemma clean_one_keeps_fresh held l ks x :
  NoDup (map e_key l) -> In x l -> expired x = false -> In x (fst (clean_one held l ks)).
Proof.
  intros Hnd Hx Hf. destruct ks as [k sh].
  destruct (clean_one_cases held l k sh) as [H|[e [_ [Hl [Hex H]]]]]; rewrite H; cbn [fst]; [exact Hx|].
  apply remove_key_In. split; [exact Hx|]. intros Ek.
  apply lookup_Some in Hl. destruct Hl as [He Eke].
  assert (x = e) by (eapply key_inj; eauto; congruence). subst. congruence.
Qed.

Lemma clean_one_sub held l ks x : In x (fst (clean_one held l ks)) -> In x l.
Proof.
  destruct ks as [k sh]. destruct (clean_one_cases held l k sh) as [H|[e [_ [_ [_ H]]]]]; rewrite H; cbn [fst]; auto.
  intros Hx. apply remove_key_In in Hx. tauto.
Qed.

Lemma clean_one_nodup held l ks : NoDup (map e_key l) -> NoDup (map e_key (fst (clean_one held l ks))).
Proof.
  intros Hnd. destruct ks as [k sh].
  destruct (clean_one_cases held l k sh) as [H|[e [_ [_ [_ H]]]]]; rewrite H; cbn [fst]; auto.
  apply nodup_keys_filter. exact Hnd.
Qed.

Lemma clean_one_other held l k sh x : e_key x <> k -> In x l -> In x (fst (clean_one held l (k, sh))).
Proof.
  intros Hk Hx. destruct (clean_one_cases held l k sh) as [H|[e [_ [_ [_ H]]]]]; rewrite H; cbn [fst]; auto.
  apply remove_key_In. tauto.
Qed.

(* keys that nobody touches and that are not in the map stay out of it *)
Lemma clean_loop_keys held scanned batches l k :
  ~ In k (map e_key l) -> ~ In k (touched (concat batches)) ->
  ~ In k (map e_key (fst (clean_loop held scanned batches l))).
Proof.
  revert batches l. induction scanned as [|[k' sh] rest IH]; intros batches l Hk Ht; cbn [clean_loop fst].
  - intros H. apply apply_yops_keys in H. tauto.
  - set (l1 := apply_yops l (hd [] batches)).
    assert (Hb : ~ In k (touched (hd [] batches)) /\ ~ In k (touched (concat (tl batches)))).
    { destruct batches as [|b bs]; cbn [hd tl concat] in *; [split; auto|].
      unfold touched in *. rewrite map_app, in_app_iff in Ht. tauto. }
    assert (Hk1 : ~ In k (map e_key l1)).
    { intros H. apply apply_yops_keys in H. tauto. }
    destruct (clean_one held l1 (k', sh)) as [l2 r] eqn:E1.
    assert (Hk2 : ~ In k (map e_key l2)).
    { intros H. apply Hk1. apply in_map_iff in H. destruct H as [x [Ex Hx]].
      apply in_map_iff. exists x. split; [exact Ex|]. eapply clean_one_sub. rewrite E1. exact Hx. }
    specialize (IH (tl batches) l2 Hk2 (proj2 Hb)).
    destruct (clean_loop held rest (tl batches) l2) as [l3 rs]. exact IH.
Qed.

(* an untouched entry whose key is not (any more) in the scan list stays *)
Lemma clean_loop_unscanned held scanned batches l x :
  ~ In (e_key x) (map fst scanned) -> In x l -> ~ In (e_key x) (touched (concat batches)) ->
  In x (fst (clean_loop held scanned batches l)).
Proof.
  revert batches l. induction scanned as [|[k sh] rest IH]; intros batches l Hs Hx Ht; cbn [clean_loop fst].
  - apply apply_yops_other; assumption.
  - set (l1 := apply_yops l (hd [] batches)).
    assert (Hb : ~ In (e_key x) (touched (hd [] batches)) /\ ~ In (e_key x) (touched (concat (tl batches)))).
    { destruct batches as [|b bs]; cbn [hd tl concat] in *; [split; auto|].
      unfold touched in *. rewrite map_app, in_app_iff in Ht. tauto. }
    assert (Hx1 : In x l1) by (apply apply_yops_other; tauto).
    cbn [map fst In] in Hs.
    destruct (clean_one held l1 (k, sh)) as [l2 r] eqn:E1.
    assert (Hx2 : In x l2).
    { change l2 with (fst (l2, r)). rewrite <- E1. apply clean_one_other; [intros E; apply Hs; auto | exact Hx1]. }
    specialize (IH (tl batches) l2 ltac:(tauto) Hx2 (proj2 Hb)).
    destruct (clean_loop held rest (tl batches) l2) as [l3 rs]. exact IH.
Qed.

(* an untouched scanned entry is removed iff its shard lock is free *)
Lemma clean_loop_scanned held scanned batches l x :
  NoDup (map fst scanned) -> In (e_key x, e_shard x) scanned ->
  NoDup (map e_key l) -> In x l -> expired x = true ->
  ~ In (e_key x) (touched (concat batches)) ->
  (In x (fst (clean_loop held scanned batches l)) <-> is_held held x = true).
Proof.
  revert batches l. induction scanned as [|[k sh] rest IH]; intros batches l Hnds Hin Hnd Hx Hex Ht;
    [contradiction|].
  cbn [clean_loop]. set (l1 := apply_yops l (hd [] batches)).
  assert (Hb : ~ In (e_key x) (touched (hd [] batches)) /\ ~ In (e_key x) (touched (concat (tl batches)))).
  { destruct batches as [|b bs]; cbn [hd tl concat] in *; [split; auto|].
    unfold touched in *. rewrite map_app, in_app_iff in Ht. tauto. }
  assert (Hx1 : In x l1) by (apply apply_yops_other; tauto).
  assert (Hnd1 : NoDup (map e_key l1)) by (apply apply_yops_nodup; exact Hnd).
  cbn [map fst] in Hnds. inversion Hnds as [|? ? Hk Hnds']; subst.
  destruct Hin as [Hin|Hin].
  - (* this is the step for x *)
    inversion Hin; subst k sh. unfold is_held.
    destruct (clean_one_cases held l1 (e_key x) (e_shard x)) as [H|[e [Hh [Hl [_ H]]]]]; rewrite H.
    + (* left alone: must be because the lock is held *)
      assert (Hheld : zmem (e_shard x) held = true).
      { cbn [clean_one] in H. destruct (zmem (e_shard x) held); [reflexivity|].
        rewrite (lookup_nodup l1 x Hnd1 Hx1), Hex in H. discriminate H. }
      pose proof (clean_loop_unscanned held rest (tl batches) l1 x Hk Hx1 (proj2 Hb)) as Hkeep.
      destruct (clean_loop held rest (tl batches) l1) as [l3 rs]. cbn [fst] in *. tauto.
    + pose proof (clean_loop_keys held rest (tl batches) (remove_key (e_key x) l1) (e_key x)
                    (remove_key_keys _ _) (proj2 Hb)) as Hgone.
      destruct (clean_loop held rest (tl batches) (remove_key (e_key x) l1)) as [l3 rs]. cbn [fst] in *.
      split; [|congruence]. intros Hx3. exfalso. apply Hgone. apply in_map. exact Hx3.
  - (* another key's step *)
    assert (Hne : e_key x <> k).
    { intros E. apply Hk. subst k. apply in_map_iff. exists (e_key x, e_shard x). auto. }
    destruct (clean_one held l1 (k, sh)) as [l2 r] eqn:E1.
    assert (Hx2 : In x l2).
    { change l2 with (fst (l2, r)). rewrite <- E1. apply clean_one_other; assumption. }
    assert (Hnd2 : NoDup (map e_key l2)).
    { change l2 with (fst (l2, r)). rewrite <- E1. apply clean_one_nodup. exact Hnd1. }
    specialize (IH (tl batches) l2 Hnds' Hin Hnd2 Hx2 Hex (proj2 Hb)).
    destruct (clean_loop held rest (tl batches) l2) as [l3 rs]. exact IH.
Qed.

Lemma scan_expired_In l k sh :
  In (k, sh) (scan_expired l) <-> exists e, In e l /\ expired e = true /\ e_key e = k /\ e_shard e = sh.
Proof.
  unfold scan_expired. rewrite in_map_iff. split.
  - intros [e [E He]]. apply filter_In in He. inversion E; subst. exists e. tauto.
  - intros [e [He [Hx [Ek Es]]]]. exists e. subst. split; [reflexivity|]. apply filter_In. tauto.
Qed.

Lemma scan_expired_nodup l : NoDup (map e_key l) -> NoDup (map fst (scan_expired l)).
Proof.
  intros H. unfold scan_expired. rewrite map_map. cbn [fst].
  change (fun x : entry => e_key x) with e_key. apply nodup_keys_filter. exact H.
Qed.

(* a cycle removes exactly the entries whose lifetime has elapsed and whose lock is free;
   wherever other operations land, this holds for every entry they do not touch *)
Theorem clean_expired_exact held batches l x :
  NoDup (map e_key l) -> In x l -> ~ In (e_key x) (touched (concat batches)) ->
  (In x (clean_expired held batches l) <-> ~ (expired x = true /\ is_held held x = false)).
Proof.
  intros Hnd Hx Ht. unfold clean_expired, clean_expired_log.
  destruct (expired x) eqn:Hex.
  - rewrite (clean_loop_scanned held (scan_expired l) batches l x); auto.
    + destruct (is_held held x); split; intros H.
      * intros [_ H']. discriminate.
      * reflexivity.
      * discriminate.
      * exfalso. apply H. auto.
    + apply scan_expired_nodup. exact Hnd.
    + apply scan_expired_In. exists x. auto.
  - split; [intros _ [H _]; discriminate|]. intros _.
    apply clean_loop_unscanned; auto. intros Hin.
    apply in_map_iff in Hin. destruct Hin as [[k sh] [Ek Hks]]. cbn [fst] in Ek. subst k.
    apply scan_expired_In in Hks. destruct Hks as [e [He [Hexe [Eke _]]]].
    assert (e = x) by (eapply key_inj; eauto). subst. congruence.
Qed.

(* ------------------------------------------------------------------------- *)
(* run-time limit changes govern the following stores and cycles *)

Fixpoint run (ev : evictor) (b : backend) (s : cstate) (ops : list op) : option cstate :=
  match ops with
  | [] => Some s
  | o :: r => match step ev b s o with
              | Some (s1, _) => run ev b s1 r
              | None => None
              end
  end.

(* the configured limit after a history: the value of the last update *)
Definition last_limit (init : Z) (ops : list op) : Z :=
  fold_left (fun a o => match o with OSetLimit n => n | _ => a end) ops init.

(* at most one limit change is in flight: an update is issued only when the previous one
   has reached the listener *)
Fixpoint calm (ev : evictor) (b : backend) (s : cstate) (ops : list op) : Prop :=
  match ops with
  | [] => True
  | o :: r =>
      match o with OSetLimit _ => c_pending s = [] | _ => True end /\
      match step ev b s o with
      | Some (s1, _) => calm ev b s1 r
      | None => True
      end
  end.

Definition lim_inv (s : cstate) : Prop :=
  (c_pending s = [] /\ c_stmax s = c_cfgmax s) \/ c_pending s = [c_cfgmax s].

Ltac crush :=
  repeat match goal with
         | H : Some _ = Some _ |- _ => inversion H; subst; clear H
         | H : None = Some _ |- _ => discriminate H
         | H : context [match ?x with _ => _ end] |- _ => destruct x eqn:?
         | H : context [if ?x then _ else _] |- _ => destruct x eqn:?
         end.

Definition same_lims (s s' : cstate) : Prop :=
  c_cfgmax s' = c_cfgmax s /\ c_stmax s' = c_stmax s /\ c_pending s' = c_pending s /\ c_memcap s' = c_memcap s.

Lemma run_evict_lims ev limit held s s' : run_evict ev limit held s = Some s' -> same_lims s s'.
Proof. unfold run_evict. intros H. crush. unfold same_lims, set_ents. cbn. auto. Qed.

Lemma same_lims_trans a b c : same_lims a b -> same_lims b c -> same_lims a c.
Proof. unfold same_lims. intros (?&?&?&?) (?&?&?&?). repeat split; congruence. Qed.

Lemma same_lims_refl a : same_lims a a.
Proof. unfold same_lims. auto. Qed.

Lemma insert_lims s e : same_lims s (insert s e).
Proof. unfold same_lims, insert, set_ents. cbn. auto. Qed.

Lemma store_lims ev b held e s s' ok : store ev b held e s = Some (s', ok) -> same_lims s s'.
Proof.
  unfold store. intros H. destruct b.
  - destruct (store_limit Mem s <=? c_bytes s).
    + destruct (run_evict ev (store_limit Mem s) (e_shard e :: held) s) as [s1|] eqn:E; [|discriminate].
      apply run_evict_lims in E.
      destruct (store_limit Mem s1 <=? c_bytes s1); inversion H; subst; [exact E|].
      eapply same_lims_trans; [exact E | apply insert_lims].
    + inversion H; subst. apply insert_lims.
  - destruct (store_limit File s <=? c_bytes s).
    + destruct (run_evict ev (store_limit File s) held s) as [s1|] eqn:E; [|discriminate].
      apply run_evict_lims in E.
      destruct (e_size e =? 0); inversion H; subst; [exact E|].
      eapply same_lims_trans; [exact E | apply insert_lims].
    + destruct (e_size e =? 0); inversion H; subst; [apply same_lims_refl | apply insert_lims].
Qed.

Lemma cycle_lims ev held bs s s' : cycle ev held bs s = Some s' -> same_lims s s'.
Proof.
  unfold cycle, ensure_size. intros H.
  assert (same_lims s (clean_state held bs s)) by (unfold same_lims, clean_state, set_ents; cbn; auto).
  destruct (c_bytes (clean_state held bs s) <? c_cfgmax (clean_state held bs s)).
  - inversion H; subst. assumption.
  - apply run_evict_lims in H. eapply same_lims_trans; eassumption.
Qed.

Lemma step_lims ev b s o s' ok :
  step ev b s o = Some (s', ok) ->
  match o with
  | OSetLimit n => c_cfgmax s' = n /\ c_stmax s' = c_stmax s /\ c_pending s' = c_pending s ++ [n]
  | ODeliver i =>
      c_cfgmax s' = c_cfgmax s /\
      match nth_error (c_pending s) i with
      | Some n => c_stmax s' = n /\ c_pending s' = remove_nth i (c_pending s)
      | None => s' = s
      end
  | OSetMemCap _ => c_cfgmax s' = c_cfgmax s /\ c_stmax s' = c_stmax s /\ c_pending s' = c_pending s
  | _ => same_lims s s'
  end.
Proof.
  destruct o; cbn [step]; intros H.
  - eapply store_lims. exact H.
  - inversion H; subst. unfold same_lims, set_ents. cbn. auto.
  - destruct (lookup k (c_ents s)); inversion H; subst; unfold same_lims, set_ents; cbn; auto.
  - destruct (run_evict ev limit held s) eqn:E; cbn in H; inversion H; subst.
    eapply run_evict_lims. exact E.
  - destruct (cycle ev held (batch0 ys) s) eqn:E; cbn in H; inversion H; subst.
    eapply cycle_lims. exact E.
  - inversion H; subst. unfold same_lims, clean_state, set_ents. cbn. auto.
  - inversion H; subst. cbn. auto.
  - destruct (nth_error (c_pending s) i); inversion H; subst; cbn; auto.
  - inversion H; subst. cbn. auto.
  - inversion H; subst. unfold same_lims, set_ents. cbn. auto.
Qed.

Lemma step_lim_inv ev b s o s' ok :
  lim_inv s -> match o with OSetLimit _ => c_pending s = [] | _ => True end ->
  step ev b s o = Some (s', ok) ->
  lim_inv s' /\ c_cfgmax s' = match o with OSetLimit n => n | _ => c_cfgmax s end.
Proof.
  intros Hinv Hc Hs. apply step_lims in Hs. unfold lim_inv in *.
  destruct o; try (destruct Hs as (H1 & H2 & H3 & _); rewrite H1, H2, H3; split; [exact Hinv | reflexivity]).
  - destruct Hs as (H1 & H2 & H3). rewrite H1, H3, Hc. split; [right; reflexivity | reflexivity].
  - destruct Hs as [H1 H2]. split; [|exact H1]. rewrite H1.
    destruct Hinv as [[Hp He]|Hp]; rewrite Hp in H2.
    + destruct i; cbn in H2; subst; left; auto.
    + destruct i as [|i]; cbn in H2.
      * destruct H2 as [H2 H3]. left. cbn in H3. auto.
      * destruct i; cbn in H2; subst; right; exact Hp.
  - destruct Hs as (H1 & H2 & H3). rewrite H1, H2, H3. split; [exact Hinv | reflexivity].
Qed.

Theorem limit_follows ev b ops : forall s s',
  lim_inv s -> calm ev b s ops -> run ev b s ops = Some s' ->
  lim_inv s' /\ c_cfgmax s' = last_limit (c_cfgmax s) ops.
Proof.
  induction ops as [|o r IH]; intros s s' Hinv Hcalm Hrun; cbn [run calm last_limit fold_left] in *.
  - inversion Hrun; subst. auto.
  - destruct Hcalm as [Hc Hcalm]. destruct (step ev b s o) as [[s1 ok]|] eqn:Es; [|discriminate].
    destruct (step_lim_inv ev b s o s1 ok Hinv Hc Es) as [Hinv1 Hcfg].
    destruct (IH s1 s' Hinv1 Hcalm Hrun) as [Hi Hl]. split; [exact Hi|].
    rewrite Hl, Hcfg. unfold last_limit. reflexivity.
Qed.

(* ------------------------------------------------------------------------- *)
(* the ticker: a received interval governs every following cycle *)

Fixpoint jticks (n : nat) (s : jstate) : res jstate :=
  match n with
  | O => Ok s
  | S m => match jstep s JTick with Ok s1 => jticks m s1 | Err => Err | Panic => Panic end
  end.

Lemma jticks_next n d t0 : jticks n (mkJ d t0) = Ok (mkJ d (t0 + Z.of_nat n * d)).
Proof.
  revert t0. induction n as [|n IH]; intros t0; cbn [jticks jstep j_interval j_next].
  - f_equal. f_equal. lia.
  - rewrite IH. f_equal. f_equal. lia.
Qed.

Theorem interval_follows s t d n :
  0 < d ->
  exists s1, jstep s (JInterval t d) = Ok s1 /\
             jticks n s1 = Ok (mkJ d (t + d + Z.of_nat n * d)).
Proof.
  intros Hd. exists (mkJ d (t + d)). split.
  - cbn [jstep]. destruct (d <=? 0) eqn:E; [apply Z.leb_le in E; lia | reflexivity].
  - apply jticks_next.
Qed.

Lemma interval_nonpositive_panics s t d : d <= 0 -> jstep s (JInterval t d) = Panic.
Proof. intros H. cbn [jstep]. apply Z.leb_le in H. rewrite H. reflexivity. Qed.
