(* Shared vocabulary of every model: bytes, strings, Go int64 wrap-around,
   three-valued results with an explicit Panic outcome, small list helpers.
   Definitions only are executable (vm_compute); the lemmas here are the
   generic facts later proofs rely on. *)
From Coq Require Export List ZArith Bool Lia.
Export ListNotations.
Open Scope Z_scope.

(* A byte is a Z in [0,255]; a Go string is a list of bytes. *)
Definition byte := Z.
Definition str := list Z.

(* Outcome of a Go function that can return a value, return an error, or panic. *)
Inductive res (A : Type) : Type :=
| Ok (a : A)
| Err
| Panic.
Arguments Ok {A} a.
Arguments Err {A}.
Arguments Panic {A}.

Definition res_bind {A B} (r : res A) (f : A -> res B) : res B :=
  match r with Ok a => f a | Err => Err | Panic => Panic end.

Definition is_panic {A} (r : res A) : bool :=
  match r with Panic => true | _ => false end.

(* Go int64 *)
Definition min_int64 : Z := - 2^63.
Definition max_int64 : Z := 2^63 - 1.
Definition wrap64 (z : Z) : Z := (z + 2^63) mod 2^64 - 2^63.
Definition in_int64 (z : Z) : bool := (min_int64 <=? z) && (z <=? max_int64).

Lemma wrap64_id z : min_int64 <= z <= max_int64 -> wrap64 z = z.
Proof.
  unfold wrap64, min_int64, max_int64. intros H.
  rewrite Z.mod_small; lia.
Qed.

Lemma wrap64_range z : min_int64 <= wrap64 z <= max_int64.
Proof.
  unfold wrap64, min_int64, max_int64.
  pose proof (Z.mod_pos_bound (z + 2^63) (2^64) ltac:(lia)). lia.
Qed.

(* Byte-string equality *)
Fixpoint str_eqb (a b : str) : bool :=
  match a, b with
  | [], [] => true
  | x :: a', y :: b' => (x =? y) && str_eqb a' b'
  | _, _ => false
  end.

Lemma str_eqb_eq a b : str_eqb a b = true <-> a = b.
Proof.
  revert b; induction a as [|x a IH]; intros [|y b]; simpl; split; intros H;
    try reflexivity; try discriminate.
  - apply andb_true_iff in H as [H1 H2]. apply Z.eqb_eq in H1. apply IH in H2. congruence.
  - inversion H; subst. rewrite Z.eqb_refl. simpl. apply IH. reflexivity.
Qed.

Lemma str_eqb_refl a : str_eqb a a = true.
Proof. apply str_eqb_eq. reflexivity. Qed.

Lemma str_eqb_neq a b : str_eqb a b = false <-> a <> b.
Proof.
  split; intros H.
  - intros ->. rewrite str_eqb_refl in H. discriminate.
  - destruct (str_eqb a b) eqn:E; [|reflexivity]. apply str_eqb_eq in E. contradiction.
Qed.

(* Generic boolean helpers over lists *)
Fixpoint list_eqb {A} (eqb : A -> A -> bool) (a b : list A) : bool :=
  match a, b with
  | [], [] => true
  | x :: a', y :: b' => eqb x y && list_eqb eqb a' b'
  | _, _ => false
  end.

Definition opt_eqb {A} (eqb : A -> A -> bool) (a b : option A) : bool :=
  match a, b with
  | None, None => true
  | Some x, Some y => eqb x y
  | _, _ => false
  end.

Definition pair_eqb {A B} (ea : A -> A -> bool) (eb : B -> B -> bool) (a b : A * B) : bool :=
  ea (fst a) (fst b) && eb (snd a) (snd b).

Definition res_eqb {A} (eqb : A -> A -> bool) (a b : res A) : bool :=
  match a, b with
  | Ok x, Ok y => eqb x y
  | Err, Err => true
  | Panic, Panic => true
  | _, _ => false
  end.

Definition zz_eqb : Z * Z -> Z * Z -> bool := pair_eqb Z.eqb Z.eqb.

(* ASCII classes *)
Definition is_digit (c : Z) : bool := (48 <=? c) && (c <=? 57).
Definition is_upper (c : Z) : bool := (65 <=? c) && (c <=? 90).
Definition is_lower (c : Z) : bool := (97 <=? c) && (c <=? 122).
Definition to_lower (c : Z) : Z := if is_upper c then c + 32 else c.
Definition to_upper (c : Z) : Z := if is_lower c then c - 32 else c.
Definition lower_str (s : str) : str := map to_lower s.

(* Value of a decimal digit string as an unbounded integer. *)
Fixpoint dec_acc (acc : Z) (s : str) : Z :=
  match s with
  | [] => acc
  | c :: r => dec_acc (acc * 10 + (c - 48)) r
  end.
Definition dec_value (s : str) : Z := dec_acc 0 s.

Definition all_digits (s : str) : bool := forallb is_digit s.

(* Index bookkeeping for case files: indices are Z, starting at 0. *)
Fixpoint filter_idx {A} (p : A -> bool) (i : Z) (l : list A) : list Z :=
  match l with
  | [] => []
  | x :: r => if p x then i :: filter_idx p (i + 1) r else filter_idx p (i + 1) r
  end.

(* Tag histogram: count occurrences of small integer tags. *)
Fixpoint bump (t : Z) (h : list (Z * Z)) : list (Z * Z) :=
  match h with
  | [] => [(t, 1)]
  | (t', n) :: r => if t =? t' then (t', n + 1) :: r else (t', n) :: bump t r
  end.
Definition histogram (l : list Z) : list (Z * Z) := fold_left (fun h t => bump t h) l [].

(* Report produced by every case-file evaluation. *)
Record report := {
  rp_total : Z;
  rp_mismatch : list Z;   (* model <> implementation on the projected observables *)
  rp_propfail : list Z;   (* implementation observation violates the property's own checker *)
  rp_tags : list (Z * Z)  (* which model branches the cases reached *)
}.

Definition mk_report {A} (mism propf : A -> bool) (tag : A -> Z) (cases : list A) : report :=
  {| rp_total := Z.of_nat (length cases);
     rp_mismatch := filter_idx mism 0 cases;
     rp_propfail := filter_idx propf 0 cases;
     rp_tags := histogram (map tag cases) |}.

(* firstn/skipn on Z offsets, as Go slicing does on validated bounds *)
Definition zfirstn {A} (n : Z) (l : list A) : list A := firstn (Z.to_nat n) l.
Definition zskipn {A} (n : Z) (l : list A) : list A := skipn (Z.to_nat n) l.
Definition zlen {A} (l : list A) : Z := Z.of_nat (length l).
