(* Association lists keyed by Z, used as finite maps by the Store model
   (entries, directory, inode table, handle table).  [aset] replaces in place
   or appends, [adel] removes every binding of the key; lookups see the first. *)
From Reservoir Require Import Base.Prelude.

Section Amap.
  Context {V : Type}.

  Fixpoint aget (k : Z) (m : list (Z * V)) : option V :=
    match m with
    | [] => None
    | (k', v) :: r => if k =? k' then Some v else aget k r
    end.

  Fixpoint aset (k : Z) (v : V) (m : list (Z * V)) : list (Z * V) :=
    match m with
    | [] => [(k, v)]
    | (k', v') :: r => if k =? k' then (k, v) :: r else (k', v') :: aset k v r
    end.

  Fixpoint adel (k : Z) (m : list (Z * V)) : list (Z * V) :=
    match m with
    | [] => []
    | (k', v') :: r => if k =? k' then adel k r else (k', v') :: adel k r
    end.

  Definition ahas (k : Z) (m : list (Z * V)) : bool :=
    match aget k m with Some _ => true | None => false end.

  Definition akeys (m : list (Z * V)) : list Z := map fst m.

  (* sum of a measure over the bindings *)
  Fixpoint asum (f : V -> Z) (m : list (Z * V)) : Z :=
    match m with
    | [] => 0
    | (_, v) :: r => f v + asum f r
    end.

  Lemma aget_aset_eq k v m : aget k (aset k v m) = Some v.
  Proof.
    induction m as [|[k' v'] r IH]; simpl.
    - rewrite Z.eqb_refl. reflexivity.
    - destruct (k =? k') eqn:E; simpl; [rewrite Z.eqb_refl|rewrite E]; auto.
  Qed.

  Lemma aget_aset_neq k k2 v m : k2 <> k -> aget k2 (aset k v m) = aget k2 m.
  Proof.
    intros N. induction m as [|[k' v'] r IH]; simpl.
    - destruct (k2 =? k) eqn:E; [apply Z.eqb_eq in E; contradiction|reflexivity].
    - destruct (k =? k') eqn:E; simpl.
      + apply Z.eqb_eq in E. subst k'.
        destruct (k2 =? k) eqn:E2; [apply Z.eqb_eq in E2; contradiction|reflexivity].
      + destruct (k2 =? k'); auto.
  Qed.

  Lemma aget_adel_eq k m : aget k (adel k m) = None.
  Proof.
    induction m as [|[k' v'] r IH]; simpl; auto.
    destruct (k =? k') eqn:E; simpl; [|rewrite E]; auto.
  Qed.

  Lemma aget_adel_neq k k2 m : k2 <> k -> aget k2 (adel k m) = aget k2 m.
  Proof.
    intros N. induction m as [|[k' v'] r IH]; simpl; auto.
    destruct (k =? k') eqn:E; simpl.
    - apply Z.eqb_eq in E. subst k'.
      destruct (k2 =? k) eqn:E2; [apply Z.eqb_eq in E2; contradiction|auto].
    - destruct (k2 =? k'); auto.
  Qed.

  Lemma aget_aset k k2 v m : aget k2 (aset k v m) = if k2 =? k then Some v else aget k2 m.
  Proof.
    destruct (k2 =? k) eqn:E.
    - apply Z.eqb_eq in E. subst. apply aget_aset_eq.
    - apply Z.eqb_neq in E. apply aget_aset_neq; auto.
  Qed.

  Lemma aget_adel k k2 m : aget k2 (adel k m) = if k2 =? k then None else aget k2 m.
  Proof.
    destruct (k2 =? k) eqn:E.
    - apply Z.eqb_eq in E. subst. apply aget_adel_eq.
    - apply Z.eqb_neq in E. apply aget_adel_neq; auto.
  Qed.

  Lemma aget_In k v m : aget k m = Some v -> In (k, v) m.
  Proof.
    induction m as [|[k' v'] r IH]; simpl; [discriminate|].
    destruct (k =? k') eqn:E; intros H.
    - apply Z.eqb_eq in E. inversion H; subst. auto.
    - right. auto.
  Qed.

  Lemma aget_None_notin k m : aget k m = None -> ~ In k (akeys m).
  Proof.
    induction m as [|[k' v'] r IH]; simpl; [tauto|].
    destruct (k =? k') eqn:E; [discriminate|].
    apply Z.eqb_neq in E. intros H [H1|H1]; [congruence|]. apply IH; auto.
  Qed.

  Lemma notin_aget_None k m : ~ In k (akeys m) -> aget k m = None.
  Proof.
    induction m as [|[k' v'] r IH]; simpl; [auto|].
    intros H. destruct (k =? k') eqn:E.
    - apply Z.eqb_eq in E. subst. tauto.
    - apply IH. tauto.
  Qed.

  Lemma In_aget k v m : NoDup (akeys m) -> In (k, v) m -> aget k m = Some v.
  Proof.
    induction m as [|[k' v'] r IH]; simpl; [tauto|].
    intros ND [H|H].
    - inversion H; subst. rewrite Z.eqb_refl. reflexivity.
    - inversion ND as [|? ? NI ND']; subst.
      destruct (k =? k') eqn:E.
      + apply Z.eqb_eq in E. subst. exfalso. apply NI.
        change (In (fst (k', v)) (map fst r)). apply in_map. exact H.
      + auto.
  Qed.

  Lemma akeys_aset_in k v m x : In x (akeys (aset k v m)) <-> x = k \/ In x (akeys m).
  Proof.
    induction m as [|[k' v'] r IH]; simpl.
    - intuition.
    - destruct (k =? k') eqn:E; simpl.
      + apply Z.eqb_eq in E. subst. intuition.
      + rewrite IH. intuition.
  Qed.

  Lemma akeys_adel_in k m x : In x (akeys (adel k m)) <-> x <> k /\ In x (akeys m).
  Proof.
    induction m as [|[k' v'] r IH]; simpl.
    - intuition.
    - destruct (k =? k') eqn:E; simpl.
      + apply Z.eqb_eq in E. subst. rewrite IH. intuition congruence.
      + apply Z.eqb_neq in E. rewrite IH. intuition congruence.
  Qed.

  Lemma NoDup_aset k v m : NoDup (akeys m) -> NoDup (akeys (aset k v m)).
  Proof.
    induction m as [|[k' v'] r IH]; simpl; intros ND.
    - constructor; [simpl; tauto|constructor].
    - inversion ND as [|? ? NI ND']; subst.
      destruct (k =? k') eqn:E; simpl.
      + apply Z.eqb_eq in E. subst. constructor; auto.
      + apply Z.eqb_neq in E. constructor; auto.
        intros H. apply akeys_aset_in in H. destruct H; [congruence|contradiction].
  Qed.

  Lemma NoDup_adel k m : NoDup (akeys m) -> NoDup (akeys (adel k m)).
  Proof.
    induction m as [|[k' v'] r IH]; simpl; intros ND; [constructor|].
    inversion ND as [|? ? NI ND']; subst.
    destruct (k =? k') eqn:E; simpl; auto.
    constructor; auto. intros H. apply akeys_adel_in in H. tauto.
  Qed.

  Lemma adel_notin k m : aget k m = None -> adel k m = m.
  Proof.
    induction m as [|[k' v'] r IH]; simpl; auto.
    destruct (k =? k') eqn:E; [discriminate|]. intros H. f_equal. auto.
  Qed.

  (* sums and lengths under update, for maps without duplicate keys *)
  Definition oget (f : V -> Z) (o : option V) : Z := match o with Some v => f v | None => 0 end.
  Definition ocount (o : option V) : Z := match o with Some _ => 1 | None => 0 end.

  Lemma asum_adel f k m : NoDup (akeys m) -> asum f (adel k m) = asum f m - oget f (aget k m).
  Proof.
    induction m as [|[k' v'] r IH]; simpl; intros ND; [lia|].
    inversion ND as [|? ? NI ND']; subst.
    destruct (k =? k') eqn:E; simpl.
    - apply Z.eqb_eq in E. subst. rewrite adel_notin by (apply notin_aget_None; auto). lia.
    - rewrite IH by auto. lia.
  Qed.

  Lemma asum_aset f k v m : NoDup (akeys m) -> asum f (aset k v m) = asum f m - oget f (aget k m) + f v.
  Proof.
    induction m as [|[k' v'] r IH]; simpl; intros ND; [lia|].
    inversion ND as [|? ? NI ND']; subst.
    destruct (k =? k') eqn:E; simpl.
    - lia.
    - rewrite IH by auto. lia.
  Qed.

  Lemma zlen_cons {A} (x : A) l : zlen (x :: l) = zlen l + 1.
  Proof. unfold zlen. cbn [length]. rewrite Nat2Z.inj_succ. lia. Qed.

  Lemma zlen_nil {A} : zlen (@nil A) = 0.
  Proof. reflexivity. Qed.

  Lemma zlen_nonneg {A} (l : list A) : 0 <= zlen l.
  Proof. unfold zlen. lia. Qed.

  Lemma zlen_adel k m : NoDup (akeys m) -> zlen (adel k m) = zlen m - ocount (aget k m).
  Proof.
    induction m as [|[k' v'] r IH]; cbn [adel aget akeys map fst]; intros ND; [cbn; lia|].
    inversion ND as [|? ? NI ND']; subst.
    destruct (k =? k') eqn:E.
    - apply Z.eqb_eq in E. subst. rewrite adel_notin by (apply notin_aget_None; auto).
      rewrite zlen_cons. cbn [ocount]. lia.
    - rewrite !zlen_cons. rewrite IH by auto. lia.
  Qed.

  Lemma zlen_aset k v m : NoDup (akeys m) -> zlen (aset k v m) = zlen m - ocount (aget k m) + 1.
  Proof.
    induction m as [|[k' v'] r IH]; cbn [aset aget akeys map fst]; intros ND; [cbn; lia|].
    inversion ND as [|? ? NI ND']; subst.
    destruct (k =? k') eqn:E.
    - rewrite !zlen_cons. cbn [ocount]. lia.
    - rewrite !zlen_cons. rewrite IH by auto. lia.
  Qed.

  Lemma asum_nonneg f m : (forall k v, In (k, v) m -> 0 <= f v) -> 0 <= asum f m.
  Proof.
    induction m as [|[k' v'] r IH]; simpl; intros H; [lia|].
    pose proof (H k' v' (or_introl eq_refl)).
    assert (0 <= asum f r) by (apply IH; intros; eapply H; right; eauto). lia.
  Qed.

  Lemma asum_ext f g m : (forall k v, In (k, v) m -> f v = g v) -> asum f m = asum g m.
  Proof.
    induction m as [|[k' v'] r IH]; simpl; intros H; [lia|].
    rewrite (H k' v' (or_introl eq_refl)). rewrite IH; auto. intros; eapply H; right; eauto.
  Qed.
End Amap.
