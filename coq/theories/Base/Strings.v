(* Lexical vocabulary shared by header models and reference predicates:
   ASCII classes, trimming, splitting on a separator byte, joining, prefix
   cutting, signed decimal numerals.  No decision logic lives here. *)
From Reservoir Require Import Base.Prelude.

Definition is_ascii (c : Z) : bool := (0 <=? c) && (c <? 128).
Definition all_ascii (s : str) : bool := forallb is_ascii s.

(* Go's asciiSpace table: \t \n \v \f \r and blank *)
Definition is_ws (c : Z) : bool := (c =? 32) || ((9 <=? c) && (c <=? 13)).

Fixpoint drop_ws (s : str) : str :=
  match s with
  | [] => []
  | c :: r => if is_ws c then drop_ws r else s
  end.

Definition ascii_trim (s : str) : str := rev (drop_ws (rev (drop_ws s))).

(* strings.Split(s, sep) for a one-byte separator: never returns the empty list *)
Fixpoint split_on (sep : Z) (s : str) : list str :=
  match s with
  | [] => [[]]
  | c :: r =>
      if c =? sep then [] :: split_on sep r
      else match split_on sep r with
           | h :: t => (c :: h) :: t
           | [] => [[c]]
           end
  end.

(* strings.Join(parts, sep) for a one-byte separator *)
Fixpoint join_with (sep : Z) (parts : list str) : str :=
  match parts with
  | [] => []
  | [a] => a
  | a :: rest => a ++ sep :: join_with sep rest
  end.

(* strings.CutPrefix *)
Fixpoint cut_prefix (p s : str) : option str :=
  match p, s with
  | [], _ => Some s
  | x :: p', y :: s' => if x =? y then cut_prefix p' s' else None
  | _ :: _, [] => None
  end.

(* [+-]? DIGIT+ as an unbounded integer *)
Definition signed_decimal (s : str) : option Z :=
  match s with
  | [] => None
  | c :: r =>
      let neg := c =? 45 in
      let ds := if (c =? 43) || (c =? 45) then r else s in
      match ds with
      | [] => None
      | _ => if all_digits ds then Some (if neg then - dec_value ds else dec_value ds) else None
      end
  end.

Fixpoint list_max (l : list Z) (d : Z) : Z :=
  match l with [] => d | x :: r => Z.max x (list_max r d) end.
Fixpoint list_min (l : list Z) (d : Z) : Z :=
  match l with [] => d | x :: r => Z.min x (list_min r d) end.
Definition last_or (l : list Z) (d : Z) : Z := last l d.

(* ---- facts ---- *)

Lemma split_on_nonempty sep s : split_on sep s <> [].
Proof.
  destruct s as [|c r]; simpl; [discriminate|].
  destruct (c =? sep); [discriminate|].
  destruct (split_on sep r); discriminate.
Qed.

Lemma split_on_app sep a b :
  split_on sep (a ++ sep :: b) = split_on sep a ++ split_on sep b.
Proof.
  induction a as [|c a IH]; simpl.
  - rewrite Z.eqb_refl. reflexivity.
  - destruct (c =? sep); [rewrite IH; reflexivity|].
    rewrite IH. destruct (split_on sep a) as [|h t] eqn:E.
    + exfalso. revert E. apply split_on_nonempty.
    + reflexivity.
Qed.

Lemma split_join sep (ls : list str) :
  ls <> [] -> split_on sep (join_with sep ls) = flat_map (split_on sep) ls.
Proof.
  induction ls as [|a rest IH]; intros H; [congruence|].
  destruct rest as [|b rest'].
  - simpl. rewrite app_nil_r. reflexivity.
  - change (join_with sep (a :: b :: rest')) with (a ++ sep :: join_with sep (b :: rest')).
    rewrite split_on_app, IH by discriminate. reflexivity.
Qed.

Lemma all_ascii_app a b : all_ascii (a ++ b) = all_ascii a && all_ascii b.
Proof. apply forallb_app. Qed.

Lemma all_ascii_rev a : all_ascii (rev a) = all_ascii a.
Proof.
  induction a as [|c a IH]; simpl; [reflexivity|].
  rewrite all_ascii_app, IH. simpl. rewrite andb_true_r. apply andb_comm.
Qed.

Lemma is_ws_ascii c : is_ws c = true -> is_ascii c = true.
Proof. unfold is_ws, is_ascii. lia. Qed.

Lemma all_ascii_drop_ws s : all_ascii (drop_ws s) = all_ascii s.
Proof.
  induction s as [|c r IH]; simpl; [reflexivity|].
  destruct (is_ws c) eqn:E; [|reflexivity].
  rewrite IH, (is_ws_ascii _ E). reflexivity.
Qed.

Lemma all_ascii_trim s : all_ascii (ascii_trim s) = all_ascii s.
Proof.
  unfold ascii_trim.
  rewrite all_ascii_rev, all_ascii_drop_ws, all_ascii_rev, all_ascii_drop_ws. reflexivity.
Qed.

Lemma all_ascii_lower s : all_ascii (lower_str s) = all_ascii s.
Proof.
  induction s as [|c r IH]; simpl; [reflexivity|]. rewrite IH. f_equal.
  unfold to_lower, is_upper, is_ascii.
  destruct ((65 <=? c) && (c <=? 90)) eqn:E; lia.
Qed.

Lemma all_ascii_split sep s p :
  all_ascii s = true -> In p (split_on sep s) -> all_ascii p = true.
Proof.
  revert p. induction s as [|c r IH]; simpl; intros p Hs Hp.
  - destruct Hp as [<-|[]]. reflexivity.
  - apply andb_true_iff in Hs as [Hc Hr].
    destruct (c =? sep).
    + destruct Hp as [<-|Hp]; [reflexivity|auto].
    + destruct (split_on sep r) as [|h t] eqn:E.
      * destruct Hp as [<-|[]]. simpl. rewrite Hc. reflexivity.
      * destruct Hp as [<-|Hp].
        -- simpl. rewrite Hc. apply IH; [assumption|left; reflexivity].
        -- apply IH; [assumption|right; assumption].
Qed.

Lemma all_ascii_join sep ls :
  is_ascii sep = true -> forallb all_ascii ls = true -> all_ascii (join_with sep ls) = true.
Proof.
  intros Hsep. induction ls as [|a rest IH]; intros H; [reflexivity|].
  simpl in H. apply andb_true_iff in H as [Ha Hr].
  destruct rest as [|b rest']; [exact Ha|].
  change (join_with sep (a :: b :: rest')) with (a ++ sep :: join_with sep (b :: rest')).
  rewrite all_ascii_app, Ha. simpl. rewrite Hsep. simpl. apply IH. exact Hr.
Qed.

Lemma cut_prefix_app p s r : cut_prefix p s = Some r -> s = p ++ r.
Proof.
  revert s. induction p as [|x p IH]; intros s H; simpl in *.
  - congruence.
  - destruct s as [|y s]; [discriminate|].
    destruct (x =? y) eqn:E; [|discriminate].
    apply Z.eqb_eq in E. subst. f_equal. auto.
Qed.

Lemma all_digits_ascii s : all_digits s = true -> all_ascii s = true.
Proof.
  induction s as [|c r IH]; simpl; [reflexivity|]. intros H.
  apply andb_true_iff in H as [Hc Hr]. rewrite (IH Hr), andb_true_r.
  unfold is_digit in Hc. unfold is_ascii. lia.
Qed.

Lemma signed_decimal_ascii s v : signed_decimal s = Some v -> all_ascii s = true.
Proof.
  unfold signed_decimal. destruct s as [|c r]; [discriminate|].
  destruct ((c =? 43) || (c =? 45)) eqn:Es.
  - destruct r as [|d r']; [discriminate|].
    destruct (all_digits (d :: r')) eqn:Ed; [|discriminate]. intros _.
    change (is_ascii c && all_ascii (d :: r') = true).
    rewrite (all_digits_ascii _ Ed), andb_true_r. unfold is_ascii. lia.
  - destruct (all_digits (c :: r)) eqn:Ed; [|discriminate]. intros _.
    apply all_digits_ascii. exact Ed.
Qed.

Lemma dec_acc_nonneg s acc : 0 <= acc -> all_digits s = true -> 0 <= dec_acc acc s.
Proof.
  revert acc. induction s as [|c r IH]; simpl; intros acc Ha H; [assumption|].
  apply andb_true_iff in H as [Hc Hr]. apply IH; [|assumption].
  unfold is_digit in Hc. lia.
Qed.

Lemma list_max_ge l d x : In x l -> x <= list_max l d.
Proof. induction l as [|y r IH]; simpl; [tauto|]. intros [->|H]; [lia|]. specialize (IH H). lia. Qed.

Lemma list_min_le l d x : In x l -> list_min l d <= x.
Proof. induction l as [|y r IH]; simpl; [tauto|]. intros [->|H]; [lia|]. specialize (IH H). lia. Qed.

Lemma last_in (l : list Z) d : l <> [] -> In (last l d) l.
Proof.
  induction l as [|x r IH]; [congruence|]. intros _.
  destruct r as [|y r']; [left; reflexivity|]. right. apply IH. discriminate.
Qed.
