(* Compact literals for byte strings in case files.

   coqc spends about 15 us per term node when it reads a case file, and a byte
   written as a Z numeral is about ten nodes (one per bit).  [bs len [c0%uint63; c1%uint63; ...]]
   gives the same string from primitive 63-bit integer literals (one node each)
   holding seven bytes apiece, little-endian: the first byte of the string is
   (first chunk) mod 256.  The list of Z is rebuilt by vm_compute when the case
   file is evaluated; models, checkers and theorems never see the packed form. *)
(* A case file that uses [bs] starts with
     From Coq Require Import Uint63.
   (before the Reservoir imports) to get the literal notation 123%uint63. *)
From Coq Require Import Uint63.
From Reservoir Require Import Base.Prelude.

Fixpoint unpack_fuel (n : nat) (z : Z) : list Z :=
  match n with
  | O => []
  | S n' => Z.land z 255 :: unpack_fuel n' (Z.shiftr z 8)
  end.

Fixpoint bs_go (len : nat) (cs : list Uint63.int) : list Z :=
  match cs with
  | [] => []
  | c :: r => let k := Nat.min len 7 in unpack_fuel k (Uint63.to_Z c) ++ bs_go (len - k) r
  end.

Definition bs (len : Z) (cs : list Uint63.int) : str := bs_go (Z.to_nat len) cs.

Example bs_abc : bs 3 [6513249%uint63] = [97; 98; 99].
Proof. vm_compute. reflexivity. Qed.
Example bs_two_chunks : bs 9 [29104508263162465%uint63; 26984%uint63] = [97; 98; 99; 100; 101; 102; 103; 104; 105].
Proof. vm_compute. reflexivity. Qed.
Example bs_zero_tail : bs 3 [97%uint63] = [97; 0; 0].
Proof. vm_compute. reflexivity. Qed.
