(* C09 — Cache-side trouble never turns a good origin answer into an error.
   This file contains only statements; every proof is [exact <lemma>].

   Model/Proxy.v: [proxy_step cfg now st rq answers flt] is one client request without a
   Range field; [answers] are the origin's results in the order its upstream requests
   arrive, [flt] says what the cache does underneath the request: the lookup fails, the
   entry is removed (evicted, deleted, replaced) while the upstream exchange is in flight,
   the store is refused (full with nothing evictable, empty body, create / write error),
   the entry is gone or unreadable between the 304's metadata update and the re-read.
   A history is any list of clock advances, configuration switches, removals of the entry
   between requests and requests, each request with its own answers and its own faults.
   [proxy_step] is a total function: every request terminates with a response. *)
From Reservoir Require Import Base.Prelude Base.Strings Model.Freshness Model.Proxy Proofs.Proxy.
From Reservoir Require Model.Coalesce Proofs.CoalesceNoError.

(* For ALL histories and ALL fault oracles: if the origin answered every upstream request of a
   client request, each time with 2xx or 304 ([origin_good]), then the client receives one of
   those very answers, or a 200 built from a stored body that the origin handed out in a 200
   answer earlier in the history (or just now) - never the proxy's own 502. *)
Theorem C09_no_manufactured_error : forall cfg0 now0 h evs1 ev evs2,
  events (init_state cfg0 now0) h = evs1 ++ ev :: evs2 ->
  origin_good ev ->
  match ev_resp ev with
  | RRelay a => In (OAnswer a) (consumed ev)
  | RStored _ _ e => exists a, In a (issued (evs1 ++ [ev])) /\ from_answer a e
  | RBadGateway => False
  end.
Proof. exact no_manufactured_error. Qed.
Print Assumptions C09_no_manufactured_error.

(* the same in status codes: the client sees 2xx or 304 *)
Theorem C09_status_is_good : forall cfg0 now0 h evs1 ev evs2,
  events (init_state cfg0 now0) h = evs1 ++ ev :: evs2 -> origin_good ev ->
  is_2xx (status_of (ev_resp ev)) || (status_of (ev_resp ev) =? 304) = true.
Proof. exact good_status. Qed.
Print Assumptions C09_status_is_good.

(* One step from ANY state (reachable or not), any answers, any faults: the response is a stored
   entry (the one present before, or the one the step leaves behind), an answer the origin gave
   during the step, or - only if some upstream request got no answer - the proxy's 502; the entry
   afterwards is gone, unchanged, renewed, or the 200 answer just received. *)
Theorem C09_step_shape : forall cfg now st rq answers flt st' resp ups,
  proxy_step cfg now st rq answers flt = (st', resp, ups) ->
  entry_shape cfg now st (firstn (length ups) answers) st'
  /\ match resp with
     | RStored hs us e =>
         (hs = HsHit /\ st = Some e /\ st' = st /\ ups = []) \/ (hs <> HsHit /\ st' = Some e /\ ups <> [])
     | RRelay a => In (OAnswer a) (firstn (length ups) answers)
     | RBadGateway => ~ all_answered ups answers
     end.
Proof. exact proxy_step_shape. Qed.
Print Assumptions C09_step_shape.

(* Concurrent requests for one key (Model/Coalesce.v: every interleaving of arrivals, the shared
   fetch, hand-overs, client disconnects and evictions, any number of clients, every origin answer
   kind including a body the origin cuts short and a 304 for an entry evicted meanwhile): no client
   ever receives the proxy's own error.  Another client hanging up, or the entry disappearing
   between the shared fetch and a follower's own lookup, costs nobody their answer. *)
Theorem C09_coalesced_never_error : forall ks tr s,
  Coalesce.run (Coalesce.init ks) tr = Some s -> forall c, Coalesce.ph s c <> Coalesce.Done Coalesce.RError.
Proof. exact CoalesceNoError.coalesced_never_error. Qed.
Print Assumptions C09_coalesced_never_error.

(* ---- the hypotheses are satisfiable: faults that used to end in 502 -------------------------------- *)

Definition ex_cfg : pconfig := {| pc_pol := {| ignore_cc := false; force_default := false; default_age := 3600 * second |};
                                  pc_retry416 := false |}.
Definition ex_hv : hview := {| cc_lines := [[109;97;120;45;97;103;101;61;54;48]]; expires := ExpAbsent; resp_range := false |}.
Definition ex_a (v : Z) : oanswer := {| oa_status := 200; oa_hv := ex_hv; oa_version := v; oa_etag := [34;97;34]; oa_lm := None |}.
Definition ex_304 : oanswer := {| oa_status := 304; oa_hv := {| cc_lines := []; expires := ExpAbsent; resp_range := false |};
                                  oa_version := 1; oa_etag := []; oa_lm := None |}.
Definition ex_get : request := {| rq_meth := GET; rq_hdr := [] |}.
Definition ex_full : faults := {| f_lookup_err := false; f_vanish := false; f_store_fail := true; f_reget := RgOk |}.
Definition ex_vanish : faults := {| f_lookup_err := false; f_vanish := true; f_store_fail := false; f_reget := RgOk |}.

(* store refused on a miss, then: stored, aged, revalidated with 304 while the entry is evicted *)
Definition ex_history : list hstep :=
  [ Request ex_get [OAnswer (ex_a 1); OAnswer (ex_a 1)] ex_full;
    Request ex_get [OAnswer (ex_a 1)] no_faults;
    Advance (100 * second);
    Request ex_get [OAnswer ex_304; OAnswer (ex_a 2)] ex_vanish ].

Example C09_example :
  map (fun ev => (status_of (ev_resp ev), version_of (ev_resp ev), length (ev_ups ev), from_store (ev_resp ev)))
      (events (init_state ex_cfg 0) ex_history)
  = [(200, 1, 2%nat, false); (200, 1, 1%nat, true); (200, 2, 2%nat, false)]
  /\ Forall origin_good (events (init_state ex_cfg 0) ex_history).
Proof.
  split; [vm_compute; reflexivity|].
  repeat constructor; vm_compute; try reflexivity; intros; discriminate.
Qed.
