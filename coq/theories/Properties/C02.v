(* C02 — Distinct resources never share a cache entry.
   Statements only; every proof is [exact <lemma>] (Proofs/Key.v).
   The theorems are about the pre-hash key string of cache.MakeFromRequest
   (BLAKE2b-256 collision-freedom is an assumption, see props/C02.py). *)
From Reservoir Require Import Base.Prelude Model.Key Proofs.Key.

(* The property: inside the statement's domain (ASCII host; path empty, "*" or rooted, which is
   what net/http delivers) two requests with the same scheme component get the same key string
   iff they name the same resource: same method, same host up to ASCII letter case, same path
   up to dot-segments and duplicate slashes (trailing slash significant), same raw query. *)
Theorem C02_key_iff_same_resource : forall a b : request,
  wire_req a -> wire_req b -> r_tls a = r_tls b ->
  (key_string a = key_string b <-> same_resource a b).
Proof. exact key_iff_same_resource. Qed.
Print Assumptions C02_key_iff_same_resource.

(* Separation needs no hypothesis on the scheme: distinct resources never share. *)
Theorem C02_distinct_never_share : forall a b : request,
  wire_req a -> wire_req b -> ~ same_resource a b -> key_string a <> key_string b.
Proof. exact distinct_never_share. Qed.
Print Assumptions C02_distinct_never_share.

(* The length-prefixed join is injective for ARBITRARY byte strings in every component
   (separators, digits, colons, NUL, anything): no characters can move across a boundary. *)
Theorem C02_key_injective_components : forall t1 m1 h1 p1 q1 t2 m2 h2 p2 q2,
  encode t1 m1 h1 p1 q1 = encode t2 m2 h2 p2 q2 ->
  t1 = t2 /\ m1 = m2 /\ h1 = h2 /\ p1 = p2 /\ q1 = q2.
Proof. exact encode_inj. Qed.
Print Assumptions C02_key_injective_components.

(* path.Clean (as modelled by clean_go) plus reservoir's trailing-slash rule computes exactly the
   reference normal form of every rooted path. *)
Theorem C02_clean_go_is_norm : forall p : str, rooted p = true -> key_path p = norm_path p.
Proof. exact clean_go_is_norm. Qed.
Print Assumptions C02_clean_go_is_norm.

(* "characters moved across the path/query (or any other component) boundary never share" *)
Theorem C02_component_shift_never_shares : forall a b : request,
  wire_path (r_path a) -> wire_path (r_path b) ->
  key_string a = key_string b ->
  r_method a = r_method b /\ r_query a = r_query b /\ norm_path (r_path a) = norm_path (r_path b).
Proof. exact component_shift_never_shares. Qed.
Print Assumptions C02_component_shift_never_shares.

(* "a trailing slash distinguishes": for every path of slash-free segments ending in a real one *)
Theorem C02_trailing_slash_never_shares : forall (r : request) (xs : list str) (s : str),
  normal_seg s -> noslash s -> Forall noslash xs ->
  key_string (set_path r (path_of (xs ++ [s; []]))) <> key_string (set_path r (path_of (xs ++ [s]))).
Proof. exact trailing_slash_never_shares. Qed.
Print Assumptions C02_trailing_slash_never_shares.

(* "host letter case does share" *)
Theorem C02_host_case_shares : forall (r : request) (h' : str),
  lower_str h' = lower_str (r_host r) -> key_string (set_host r h') = key_string r.
Proof. exact host_case_shares. Qed.
Print Assumptions C02_host_case_shares.

Theorem C02_host_upper_shares : forall r : request,
  key_string (set_host r (map to_upper (r_host r))) = key_string r.
Proof. exact host_upper_shares. Qed.
Print Assumptions C02_host_upper_shares.

(* "dot-segments do share": a "." or empty segment, or "seg/..", before the last segment *)
Theorem C02_dot_segment_shares : forall (r : request) (xs ys : list str) (s : str),
  s = [] \/ s = [DOT] -> ys <> [] -> Forall noslash (xs ++ ys) ->
  key_string (set_path r (path_of (xs ++ s :: ys))) = key_string (set_path r (path_of (xs ++ ys))).
Proof. exact dot_segment_shares. Qed.
Print Assumptions C02_dot_segment_shares.

Theorem C02_dotdot_segment_shares : forall (r : request) (xs ys : list str) (s : str),
  normal_seg s -> noslash s -> ys <> [] -> Forall noslash (xs ++ ys) ->
  key_string (set_path r (path_of (xs ++ s :: [DOT; DOT] :: ys))) =
  key_string (set_path r (path_of (xs ++ ys))).
Proof. exact dotdot_segment_shares. Qed.
Print Assumptions C02_dotdot_segment_shares.

(* Non-vacuity and the two repaired witnesses. GET example.com *)
Definition rq (h p q : str) : request :=
  {| r_tls := false; r_method := [71;69;84]; r_host := h; r_path := p; r_query := q |}.
Definition ex_host : str := [101;120;97;109;112;108;101;46;99;111;109].
Definition EX_HOST : str := [69;88;65;77;80;76;69;46;67;79;77].
(* /a|b ? c   vs   /a ? b|c *)
Example ex_pipe : key_string (rq ex_host [47;97;124;98] [99]) <> key_string (rq ex_host [47;97] [98;124;99]).
Proof. vm_compute. discriminate. Qed.
(* /dir/ vs /dir *)
Example ex_trailing : key_string (rq ex_host [47;100;105;114;47] []) <> key_string (rq ex_host [47;100;105;114] []).
Proof. vm_compute. discriminate. Qed.
(* EXAMPLE.COM/a/./b/../c//d  and  example.com/a/c/d *)
Example ex_share :
  key_string (rq EX_HOST [47;97;47;46;47;98;47;46;46;47;99;47;47;100] [120;61;49]) =
  key_string (rq ex_host [47;97;47;99;47;100] [120;61;49]).
Proof. vm_compute. reflexivity. Qed.
Example ex_wire : wire_req (rq ex_host [47;97;124;98] [99]).
Proof. split; [repeat constructor; lia | right; right; reflexivity]. Qed.
Example ex_key : key_string (rq ex_host [47;97;47] [99]) =
  (* http|3:GET|11:example.com|3:/a/|1:c *)
  [104;116;116;112;124;51;58;71;69;84;124;49;49;58;101;120;97;109;112;108;101;46;99;111;109;124;51;58;47;97;47;124;49;58;99].
Proof. vm_compute. reflexivity. Qed.
