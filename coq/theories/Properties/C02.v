From Reservoir Require Import Base.Prelude Model.Key.
Theorem C02_placeholder : forall s : str, s = s.
Proof. reflexivity. Qed.
Print Assumptions C02_placeholder.
