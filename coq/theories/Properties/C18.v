(* C18 — Only workable configurations are accepted; a rejected update changes nothing.
   This file contains only statements; every proof is [exact <lemma>].

   The configuration is described by a field table (json path, value kind, restart flag, default
   of every setting) regenerated from the source on every run; all theorems hold for every table
   that passes table_ok (the regenerated one is re-checked each run, coq/gen/ConfigFields.v is the
   committed snapshot used by the examples).  A document is the JSON tree the API hands to
   UpdatePartialFromConfig, its objects listed in the order Go's map iteration visits them:
   "for every document" is also "for every map order".  lib_dur / lib_level / addr_ok are the library
   oracles (time.ParseDuration, slog.Level JSON, net.SplitHostPort + net.LookupPort): arbitrary
   functions here. *)
From Coq Require Import String.
From Reservoir Require Import Base.Prelude Model.ByteSize Model.ConfigProp Model.ConfigTxn Proofs.ConfigTxn.
From ReservoirGen Require Import ConfigFields.
Open Scope Z_scope.

(* A refused or failed update -- a value of the wrong type or out of range, an invalid
   combination, a key that fails after earlier keys were staged, the file write failing after any
   number of bytes -- leaves the effective value of every setting, everything every listener has
   been told (hence every component that follows the settings), the file, the restart flag and the
   liveness of the process exactly as they were; from a state with no update in flight the whole
   state is identical.  For every table, state, document, map order and write-fault point. *)
Theorem C18_reject_is_noop :
  forall lib_dur lib_level addr_ok (tbl : table) (s : st) (doc : jmap) (fault : option Z) (wlen : Z) (s' : st),
  update lib_dur lib_level addr_ok tbl s doc fault wlen = Ok (s', Failed) ->
  effective s' = effective s /\ s_log s' = s_log s /\ s_file s' = s_file s /\
  s_alive s' = s_alive s /\ s_restart s' = s_restart s /\
  map c_committed (s_props s') = map c_committed (s_props s) /\
  (settled s -> s' = s).
Proof. exact reject_is_noop. Qed.
Print Assumptions C18_reject_is_noop.

(* An accepted update changes exactly the addressed settings: a setting the document addresses
   (lookup_path) now holds the decoded value as its saved value, keeps its command-line override,
   and its listeners were told exactly once, the value Read() now returns; every other setting and
   its listeners' history are untouched.  The file holds exactly the new saved values and the next
   start loads it with those values; both the effective and the saved configuration pass verify;
   nothing is left staged; the process is as alive as before (no listener was handed a value it
   dies on). *)
Theorem C18_accept_exact :
  forall lib_dur lib_level addr_ok (tbl : table) (s : st) (doc : jmap) (fault : option Z) (wlen : Z)
         (s' : st) (stt : status),
  table_ok tbl = true -> wf_jmap doc = true -> wf_state tbl s -> settled s ->
  update lib_dur lib_level addr_ok tbl s doc fault wlen = Ok (s', stt) -> stt <> Failed ->
  (forall i f, nth_error tbl i = Some f ->
     match lookup_path doc (f_path f) with
     | Some j => exists x p lg, decode lib_dur lib_level (f_kind f) j = Ok x /\
                   nth_error (s_props s) i = Some p /\ nth_error (s_log s) i = Some lg /\
                   nth_error (s_props s') i = Some (committed_to x p) /\
                   nth_error (s_log s') i = Some (lg ++ [cp_read (committed_to x p)])
     | None => nth_error (s_props s') i = nth_error (s_props s) i /\
               nth_error (s_log s') i = nth_error (s_log s) i
     end) /\
  s_file s' = FGood (bases s') /\ load addr_ok tbl (s_file s') = Ok (bases s') /\
  verify_view addr_ok tbl (effective s') = true /\ verify_view addr_ok tbl (bases s') = true /\
  settled s' /\ wf_state tbl s' /\ s_alive s' = s_alive s.
Proof. exact accept_exact. Qed.
Print Assumptions C18_accept_exact.

(* What verify accepts, the code that uses the settings can run under: both servers get an
   address net.Listen can parse, the CA paths and the cache directory are not empty, the cache type
   is one NewProxy knows, startWebServer does not panic, NewTicker/Reset get a positive interval,
   make() can allocate the lock shards and getLock indexes inside them for every 32-bit key hash. *)
Theorem C18_verify_implies_can_run :
  forall addr_ok (tbl : table) (vs : list fval),
  verify_view addr_ok tbl vs = true -> can_run addr_ok tbl vs.
Proof. exact verify_implies_can_run. Qed.
Print Assumptions C18_verify_implies_can_run.

(* ... in particular a configuration file is loaded only if the proxy can run under it. *)
Theorem C18_load_implies_can_run :
  forall addr_ok (tbl : table) (f : file) (vs : list fval),
  load addr_ok tbl f = Ok vs -> can_run addr_ok tbl vs.
Proof. exact load_implies_can_run. Qed.
Print Assumptions C18_load_implies_can_run.

(* No document makes the update panic (the configuration slice of C16). *)
Theorem C18_update_never_panics :
  forall lib_dur lib_level addr_ok (tbl : table) (s : st) (doc : option jmap) (fault : option Z) (wlen : Z),
  update_opt lib_dur lib_level addr_ok tbl s doc fault wlen <> Panic.
Proof. exact config_update_total. Qed.
Print Assumptions C18_update_never_panics.

(* Histories.  Start from any file (LoadOrDefault), then any sequence of update documents (valid,
   refused, nil, with any write-fault points) and command-line overrides: the run never panics,
   nothing stays staged, and at every point the file is exactly what the next start will load --
   the saved values of the running configuration, i.e. of the last accepted update.  The process
   stays alive unless one of the command-line overrides itself hands a listener a value it dies on. *)
Theorem C18_history :
  forall lib_dur lib_level addr_ok (tbl : table),
  table_ok tbl = true ->
  load addr_ok tbl (FGood (defaults tbl)) = Ok (defaults tbl) ->
  forall (f0 : file) (ops : list op), docs_wf ops ->
  exists s, run lib_dur lib_level addr_ok tbl (start addr_ok tbl f0) ops = Ok s /\
            inv addr_ok tbl s /\ s_alive s = harmless tbl ops.
Proof. exact history_from_start. Qed.
Print Assumptions C18_history.

(* ---------------------------------------------------------------------- *)
(* Non-vacuity, on the table of the current source (snapshot).              *)

Definition ex_dur (s : str) : option Z :=
  if str_eqb s (bs "-1s") then Some (-1000000000) else if str_eqb s (bs "30m") then Some 1800000000000 else None.
Definition ex_lvl (s : str) : option Z := if str_eqb s (bs "DEBUG") then Some (-4) else None.
Definition ex_addr (s : str) : bool := str_eqb s (bs ":9999") || str_eqb s (bs "localhost:8080").
Definition ex_s0 : st := start ex_addr cfg_table FAbsent.

Definition obj1 (k : string) (v : json) : jmap := MCons (bs k) v MNil.
Definition ex_upd (doc : jmap) (fault : option Z) := update ex_dur ex_lvl ex_addr cfg_table ex_s0 doc fault 850.

Example ex_table_ok : table_ok cfg_table = true /\ fields_covered cfg_table = true /\
                      load ex_addr cfg_table (FGood (defaults cfg_table)) = Ok (defaults cfg_table).
Proof. vm_compute. repeat split; reflexivity. Qed.

(* {"cache":{"lock_shards":8,"cleanup_interval":"-1s"}}: the later key is refused, nothing has changed *)
Example ex_reject :
  ex_upd (obj1 "cache" (JObj (MCons (bs "lock_shards") (JNum 8) (MCons (bs "cleanup_interval") (JStr (bs "-1s")) MNil)))) None
  = Ok (ex_s0, Failed).
Proof. vm_compute. reflexivity. Qed.

(* lock_shards: 0 is refused; the consumer would divide by zero *)
Example ex_lock_shards_0 :
  ex_upd (obj1 "cache" (JObj (obj1 "lock_shards" (JNum 0)))) None = Ok (ex_s0, Failed) /\ get_lock 0 12345 = Panic.
Proof. vm_compute. split; reflexivity. Qed.

(* the document that used to panic in reflect is an ordinary refusal *)
Example ex_object_for_property :
  ex_upd (obj1 "proxy" (JObj (obj1 "listen" (JObj (obj1 "" (JNum 5)))))) None = Ok (ex_s0, Failed).
Proof. vm_compute. reflexivity. Qed.

(* a valid document whose file write fails after 849 of 850 bytes: refused, nothing has changed *)
Example ex_write_fault :
  ex_upd (obj1 "logging" (JObj (obj1 "compress" (JBool false)))) (Some 849) = Ok (ex_s0, Failed).
Proof. vm_compute. reflexivity. Qed.

(* the same document without the fault is accepted: exactly logging.compress changes, its
   listeners are told once, the file holds the new values and loads *)
Example ex_accept :
  match ex_upd (obj1 "logging" (JObj (obj1 "compress" (JBool false)))) (Some 850) with
  | Ok (s', stt) =>
      stt = Success /\ nth_error (effective s') 22 = Some (VB false) /\ nth_error (effective ex_s0) 22 = Some (VB true) /\
      nth_error (s_log s') 22 = Some [VB false] /\
      firstn 22 (effective s') = firstn 22 (effective ex_s0) /\ skipn 23 (effective s') = skipn 23 (effective ex_s0) /\
      s_file s' = FGood (bases s') /\ load ex_addr cfg_table (s_file s') = Ok (bases s') /\ s_alive s' = true
  | _ => False
  end.
Proof. vm_compute. repeat split; reflexivity. Qed.

(* a restart-required setting and a live one in one document; the janitor is told the new interval *)
Example ex_accept_two :
  match ex_upd (obj1 "cache" (JObj (MCons (bs "lock_shards") (JNum 8) (MCons (bs "cleanup_interval") (JStr (bs "30m")) MNil)))) None with
  | Ok (s', stt) => stt = RestartRequired /\ nth_error (s_log s') 14 = Some [VZ 1800000000000] /\
                    nth_error (bases s') 15 = Some (VZ 8) /\ s_alive s' = true
  | _ => False
  end.
Proof. vm_compute. repeat split; reflexivity. Qed.
