From Reservoir Require Import Base.Prelude Model.Freshness.
Theorem C04_placeholder : True. Proof. exact I. Qed.
Print Assumptions C04_placeholder.
