(* C04 — Exactly the storable responses are stored.
   This file contains only statements; every proof is [exact <lemma>].

   Vocabulary: Model/Freshness.v is the executable model of the decision code
   (parseCacheControl, ParseHeaderDirective, ShouldCache, GetExpiresOrDefault,
   shouldResponseBeCached), Model/FreshHistory.v the per-resource request-history
   model built on it, Model/FreshnessSpec.v the reference predicates written from the
   property statement: [may_store] = "a 200 answer to a GET that the origin did not
   mark no-store, no-cache, private, max-age=0 or already expired, unless the operator
   ignores the marks"; [must_store] = "a 200 GET response that carries a positive
   max-age (and no mark), or no Cache-Control and no past Expires; every 200 GET
   response with directives ignored". *)
From Reservoir Require Import Base.Prelude Base.Strings Model.Freshness Model.FreshnessSpec
  Model.FreshHistory Proofs.Freshness Proofs.FreshHistory.

(* Decision, only-if: for EVERY header byte string (any case, any number of lines, any
   junk), method, status and policy, what the proxy decides to store is allowed. *)
Theorem C04_decision_only_if : forall pol m status hv now,
  zero_time < now ->
  storable pol m status hv now = true -> may_store pol m status hv now = true.
Proof. exact storable_only_if. Qed.
Print Assumptions C04_decision_only_if.

(* Decision, converse. *)
Theorem C04_decision_converse : forall pol m status hv now,
  must_store pol m status hv now = true -> storable pol m status hv now = true.
Proof. exact storable_converse. Qed.
Print Assumptions C04_decision_converse.

(* The number parseCacheControl accepts after "max-age=" is exactly [+-]?DIGIT+ of any
   length, saturated to int64 (no wrap-around, nothing else accepted). *)
Theorem C04_max_age_number : forall s,
  max_age_number s = option_map clamp64 (signed_decimal s).
Proof. exact max_age_number_spec. Qed.
Print Assumptions C04_max_age_number.

(* History, only-if: in every request history (any mix of methods, origin answers, clock
   advances, policy switches), a response that did not reach the origin is the body of an
   earlier 200 answer to a GET that was fetched from the origin and was allowed to be
   stored under the policy of that moment.  Contrapositive: every request that cannot be
   answered this way reaches the origin. *)
Theorem C04_only_storable : forall pol0 now0 h evs1 ev evs2,
  events (init_state pol0 now0) h = evs1 ++ ev :: evs2 ->
  r_contacted (ev_resp ev) = false ->
  exists ev0,
    In ev0 evs1 /\ ev_meth ev0 = GET /\ oa_status (ev_oa ev0) = 200 /\ r_contacted (ev_resp ev0) = true /\
    ev_meth ev = GET /\ r_status (ev_resp ev) = 200 /\ r_version (ev_resp ev) = oa_version (ev_oa ev0) /\
    (zero_time < ev_now ev0 -> may_store (ev_pol ev0) GET 200 (oa_hv (ev_oa ev0)) (ev_now ev0) = true) /\
    ((zero_time < ev_now ev0 ->
      force_default (ev_pol ev0) = true \/ ascii_header (oa_hv (ev_oa ev0)) = true ->
      ev_now ev - ev_now ev0 <= lifetime_upper (ev_pol ev0) (oa_hv (ev_oa ev0)) (ev_now ev0))
     \/ exists ev1, In ev1 evs1 /\ ev_meth ev1 = GET /\ r_contacted (ev_resp ev1) = true /\
                    r_version (ev_resp ev1) = r_version (ev_resp ev) /\
                    ev_now ev - ev_now ev1 <= default_age (ev_pol ev1)).
Proof. exact hist_reuse_spec. Qed.
Print Assumptions C04_only_storable.

(* History, converse: from any state in which the origin's answer actually arrives (no
   entry, or a stale one that the origin does not confirm with 304), a must-store answer
   is stored, and every later GET is answered from the store with that body - whatever
   else happens in between (other methods, policy switches, time passing) - for as long
   as the clock has not passed the entry's expiry ... *)
Theorem C04_converse : forall s oa r304 s' oev,
  answer_arrives s r304 ->
  must_store (hs_pol s) GET (oa_status oa) (oa_hv oa) (hs_now s) = true ->
  step s (Request GET oa r304) = (s', oev) ->
  exists ev, oev = Some ev /\
    r_contacted (ev_resp ev) = true /\ r_status (ev_resp ev) = 200 /\
    r_version (ev_resp ev) = oa_version oa /\ ev_effect ev = EStored /\
    forall cont, Forall forward cont ->
      hs_now s + total_advance cont <= store_expiry (hs_pol s) (oa_hv oa) (hs_now s) ->
      Forall (is_hit_of (oa_version oa)) (events s' cont).
Proof. exact hist_converse. Qed.
Print Assumptions C04_converse.

(* ... in particular for every continuation that stays strictly inside the lifetime the
   property prescribes. *)
Theorem C04_converse_lifetime : forall s oa r304 s' oev cont,
  answer_arrives s r304 ->
  must_store (hs_pol s) GET (oa_status oa) (oa_hv oa) (hs_now s) = true ->
  step s (Request GET oa r304) = (s', oev) ->
  force_default (hs_pol s) = true \/ ascii_header (oa_hv oa) = true ->
  Forall forward cont ->
  total_advance cont < lifetime_lower (hs_pol s) (oa_hv oa) (hs_now s) ->
  Forall (is_hit_of (oa_version oa)) (events s' cont).
Proof. exact hist_converse_spec. Qed.
Print Assumptions C04_converse_lifetime.

(* ---- non-vacuity ------------------------------------------------------------------- *)
Definition honour : policy := {| ignore_cc := false; force_default := false; default_age := 3600 * second |}.
Definition ignore : policy := {| ignore_cc := true; force_default := false; default_age := 3600 * second |}.
Definition t0 : Z := 1790000000 * second.
Definition hv_of (lines : list str) : hview := {| cc_lines := lines; expires := ExpAbsent; resp_range := false |}.
(* "max-age=60" *)
Definition s_max_age_60 : str := [109;97;120;45;97;103;101;61;54;48].
(* "private, max-age=60" *)
Definition s_private_60 : str := [112;114;105;118;97;116;101;44;32] ++ s_max_age_60.
(* "No-Store" *)
Definition s_No_Store : str := [78;111;45;83;116;111;114;101].
(* "no-store, max-age=abc" *)
Definition s_nostore_abc : str := [110;111;45;115;116;111;114;101;44;32;109;97;120;45;97;103;101;61;97;98;99].
(* "max-age=9223372037" *)
Definition s_big : str := [109;97;120;45;97;103;101;61;57;50;50;51;51;55;50;48;51;55].

Example ex_must_store : must_store honour GET 200 (hv_of [s_max_age_60]) t0 = true.
Proof. vm_compute. reflexivity. Qed.
Example ex_stored : storable honour GET 200 (hv_of [s_max_age_60]) t0 = true.
Proof. vm_compute. reflexivity. Qed.
Example ex_private : storable honour GET 200 (hv_of [s_private_60]) t0 = false
                     /\ marked_uncacheable (hv_of [s_private_60]) t0 = true.
Proof. vm_compute. split; reflexivity. Qed.
Example ex_second_line : storable honour GET 200 (hv_of [s_max_age_60; s_No_Store]) t0 = false.
Proof. vm_compute. reflexivity. Qed.
Example ex_bad_age : storable honour GET 200 (hv_of [s_nostore_abc]) t0 = false.
Proof. vm_compute. reflexivity. Qed.
Example ex_ignored : storable ignore GET 200 (hv_of [s_nostore_abc]) t0 = true.
Proof. vm_compute. reflexivity. Qed.
Example ex_big : storable honour GET 200 (hv_of [s_big]) t0 = true
                 /\ store_expiry honour (hv_of [s_big]) t0 = t0 + 9223372036 * second.
Proof. vm_compute. split; reflexivity. Qed.
Example ex_post : storable ignore POST 200 (hv_of [s_max_age_60]) t0 = false.
Proof. vm_compute. reflexivity. Qed.
Example ex_404 : storable ignore GET 404 (hv_of [s_max_age_60]) t0 = false.
Proof. vm_compute. reflexivity. Qed.
Example ex_expired : storable honour GET 200 {| cc_lines := []; expires := ExpUnparseable; resp_range := false |} t0 = false.
Proof. vm_compute. reflexivity. Qed.

(* a history with a hit (so the hypothesis "not contacted" of C04_only_storable is met):
   GET (stored), 30 s, GET (hit), 40 s, GET (stale: revalidated) *)
Definition oa60 : oanswer := {| oa_status := 200; oa_hv := hv_of [s_max_age_60]; oa_version := 7; oa_age := None |}.
Definition h_demo : list hstep :=
  [Request GET oa60 true; Advance (30 * second); Request GET oa60 true; Advance (40 * second); Request GET oa60 true].
Example ex_history :
  map (fun ev => (r_contacted (ev_resp ev), r_label (ev_resp ev), r_version (ev_resp ev)))
      (events (init_state honour t0) h_demo)
  = [(true, Some HsMiss, 7); (false, Some HsHit, 7); (true, Some HsRevalidated, 7)].
Proof. vm_compute. reflexivity. Qed.
