(* C20 — Dashboard API needs a live session obtained with the right password.
   This file contains only statements; every proof is [exact <lemma>]. *)
From Reservoir Require Import Base.Prelude Model.Phc Proofs.Phc.

(* No stored password-hash string makes the parser behind login panic. *)
Theorem C20_stored_hash_parse_total : forall s : str, phc_parse s <> Panic.
Proof. exact phc_parse_total. Qed.
Print Assumptions C20_stored_hash_parse_total.
