(* C20 — Dashboard API needs a live session obtained with the right password.
   This file contains only statements; every proof is [exact <lemma>].

   Model/Auth.v is parameterised by the password-hash scheme (H, verify, mkhash) and by the
   route table; every theorem below holds for every scheme, every table satisfying the
   regenerated obligation [routes_guarded table = true], every state and every history.
   ReservoirGen.Routes.table is the snapshot of the table extracted from the source; the
   driver re-extracts it from the working tree on every run and re-checks the obligation. *)
From Reservoir Require Import Base.Prelude Model.Auth Proofs.Auth Model.Phc Proofs.Phc.
From ReservoirGen Require Routes.

Section C20.
Variable H : Type.
Variable verify : H -> Z -> bool.
Variable mkhash : Z -> H.

(* Every registered route except POST /api/auth/login demands a session. *)
Theorem C20_routes_guarded : forall table, routes_guarded table = true ->
  forall r, In r table -> is_login_route r = false -> r_auth r = true.
Proof. exact routes_guarded_sound. Qed.

(* ... in particular the routes of the repository (snapshot; re-extracted at every run). *)
Theorem C20_routes_guarded_snapshot :
  forall r, In r Routes.table -> is_login_route r = false -> r_auth r = true.
Proof. exact Routes.routes_guarded_here. Qed.

(* On a route other than login, a request without the cookie of a live session is answered
   401 (403 if the cross-site layer refuses it first) and has no effect: the effect list is
   empty (no handler invoked, no session touched) and the state is unchanged. *)
Theorem C20_unauth_no_effect : forall table (st : state H) q r,
  routes_guarded table = true ->
  mux table (q_method q) (q_path q) = MFound r ->
  is_login_route r = false ->
  authorises H st (q_cookie q) = false ->
  api_step H verify mkhash table st q =
    (if harden_blocks (q_method q) (q_origin q) (q_site q) then 403 else 401, []) /\
  apply_effects H st (snd (api_step H verify mkhash table st q)) = st.
Proof. exact (unauth_no_effect H verify mkhash). Qed.

(* Conversely, whatever happens happens past the cross-site layer on a registered route,
   and either on the login route or for the cookie of a live session. *)
Theorem C20_effects_need_session : forall table (st : state H) q,
  routes_guarded table = true ->
  snd (api_step H verify mkhash table st q) <> [] ->
  harden_blocks (q_method q) (q_origin q) (q_site q) = false /\
  exists r, mux table (q_method q) (q_path q) = MFound r /\
            (is_login_route r = true \/ authorises H st (q_cookie q) = true).
Proof. exact (effects_need_session H verify mkhash). Qed.

(* Session lifecycle: after ANY history of requests, clock advances, GC passes and out-of-band
   edits of stored hashes, started from an empty session table, a cookie authorises at the
   current instant iff the life read off the observable trace says so (life, Model/Auth.v):
   issued by a successful login; no accepted logout with it since; never presented at or after
   its expiry; now before the expiry obtained by the sliding rule.  GC passes, other session
   ids, refused requests and handler effects do not matter. *)
Theorem C20_session_lifecycle : forall table (st0 : state H) evs sid,
  (forall k, s_sess H st0 k = None) ->
  let '(st, tr) := run H verify mkhash table st0 evs in
  authorises H st (Some sid) =
    life_authorises (s_now H st) (snd (life H table sid (s_now H st0) LNone tr)).
Proof. exact (session_lifecycle H verify mkhash). Qed.

(* A lookup at or after expiry refuses and does not extend (one step, any route but login) ... *)
Theorem C20_expired_refused_not_extended : forall table (st : state H) q sid uid e r,
  routes_guarded table = true ->
  q_cookie q = Some sid -> s_sess H st sid = Some (uid, e) -> e <= s_now H st ->
  mux table (q_method q) (q_path q) = MFound r -> is_login_route r = false ->
  fst (api_step H verify mkhash table st q) <> 200 /\
  snd (api_step H verify mkhash table st q) = [] /\
  s_sess H (apply_effects H st (snd (api_step H verify mkhash table st q))) sid = Some (uid, e).
Proof. exact (expired_refused_not_extended H verify mkhash). Qed.

(* ... nor on any route at all, login included: the expired entry is left as it is. *)
Theorem C20_expired_never_extended : forall table (st : state H) q sid uid e,
  q_cookie q = Some sid -> s_sess H st sid = Some (uid, e) -> e <= s_now H st ->
  q_fresh q <> sid ->
  s_sess H (apply_effects H st (snd (api_step H verify mkhash table st q))) sid = Some (uid, e).
Proof. exact (expired_never_extended H verify mkhash). Qed.

(* ... and it is never revived: a session id that is dead (absent, logged out or expired) stays
   dead through every continuation in which no login issues that very id again. *)
Theorem C20_dead_stays_dead : forall table (st : state H) sid evs,
  authorises H st (Some sid) = false ->
  (match s_sess H st sid with Some (_, e) => e <= s_now H st | None => True end) ->
  let '(st', tr) := run H verify mkhash table st evs in
  (forall x, In (OReq x) tr -> x_new H x <> Some sid) ->
  authorises H st' (Some sid) = false.
Proof. exact (dead_stays_dead H verify mkhash). Qed.

(* Login: one step creates a session only on the login route, past the cross-site layer, for
   credentials whose password verifies against the stored, well-formed hash of the named user. *)
Theorem C20_login_needs_password : forall table (st : state H) q sid uid exp,
  In (ECreate sid uid exp) (snd (api_step H verify mkhash table st q)) ->
  login_ok H verify table st q = true /\ sid = q_fresh q /\ exp = s_now H st + lifetime.
Proof. exact (create_needs_password H verify mkhash). Qed.

(* ... and over histories: every session in the table was issued by such a login. *)
Theorem C20_sessions_need_password : forall table evs (st0 : state H) sid v,
  (forall k, s_sess H st0 k = None) ->
  s_sess H (fst (run H verify mkhash table st0 evs)) sid = Some v ->
  exists evs1 q evs2, evs = evs1 ++ EvReq q :: evs2 /\
    login_ok H verify table (fst (run H verify mkhash table st0 evs1)) q = true /\ q_fresh q = sid.
Proof. exact (sessions_need_password H verify mkhash). Qed.

(* Cross-site requests (Origin set and Sec-Fetch-Site present and not same-origin / same-site /
   none; or OPTIONS with Origin) get 403 before the mux: empty effect list, state unchanged. *)
Theorem C20_harden_first : forall table (st : state H) q,
  cross_site q = true \/ preflight q = true ->
  api_step H verify mkhash table st q = (403, []) /\
  apply_effects H st (snd (api_step H verify mkhash table st q)) = st.
Proof. exact (harden_first H verify mkhash). Qed.

End C20.

Print Assumptions C20_routes_guarded.
Print Assumptions C20_routes_guarded_snapshot.
Print Assumptions C20_unauth_no_effect.
Print Assumptions C20_effects_need_session.
Print Assumptions C20_session_lifecycle.
Print Assumptions C20_expired_refused_not_extended.
Print Assumptions C20_expired_never_extended.
Print Assumptions C20_dead_stays_dead.
Print Assumptions C20_login_needs_password.
Print Assumptions C20_sessions_need_password.
Print Assumptions C20_harden_first.

(* No stored password-hash string makes the parser behind login panic (the C16 slice). *)
Theorem C20_stored_hash_parse_total : forall s : str, phc_parse s <> Panic.
Proof. exact phc_parse_total. Qed.
Print Assumptions C20_stored_hash_parse_total.

(* ---------- non-vacuity: a concrete history on the repository's route table ---------- *)

Definition ex_verify (h p : Z) : bool := h =? p.
Definition ex_admin : user Z := {| u_name := [97;100;109;105;110]; u_id := 1; u_hash := Some 7 |}.
Definition ex_st0 : state Z := {| s_now := 0; s_sess := fun _ => None; s_users := [ex_admin]; s_cfg := 75 |}.
Definition ex_req (m : meth) (p : str) (c : option Z) (b : body) (fresh : Z) : request :=
  {| q_method := m; q_path := p; q_cookie := c; q_origin := []; q_site := []; q_body := b; q_fresh := fresh; q_hstatus := 200 |}.
Definition p_me : str := [47;97;112;105;47;97;117;116;104;47;109;101].
Definition minute : Z := 60 * 1000000000.

(* wrong password, right password, use, wait 55 min (inside the threshold: slides), wait 59 min (still
   alive thanks to the slide), wait 61 min (expired: refused), GC, use again (still refused), logout of a
   second session *)
Definition ex_history : list (event Z) :=
  [ EvReq (ex_req POST p_login None (BLogin [97;100;109;105;110] 8) 100)
  ; EvReq (ex_req POST p_login None (BLogin [97;100;109;105;110] 7) 101)
  ; EvReq (ex_req GET p_me (Some 101) BNone 0)
  ; EvAdvance (55 * minute)
  ; EvReq (ex_req GET p_me (Some 101) BNone 0)
  ; EvAdvance (59 * minute)
  ; EvReq (ex_req GET p_me (Some 101) BNone 0)
  ; EvAdvance (61 * minute)
  ; EvReq (ex_req GET p_me (Some 101) BNone 0)
  ; EvGC
  ; EvReq (ex_req GET p_me (Some 101) BNone 0)
  ; EvReq (ex_req POST p_login (Some 101) (BLogin [97;100;109;105;110] 7) 102)
  ; EvReq (ex_req POST p_logout (Some 102) BNone 0)
  ; EvReq (ex_req GET p_me (Some 102) BNone 0) ].

Definition ex_statuses : list Z :=
  flat_map (fun o => match o with OReq x => [x_status Z x] | _ => [] end)
           (snd (run Z ex_verify (fun p => p) Routes.table ex_st0 ex_history)).

Example ex_trace : ex_statuses = [401; 200; 200; 200; 200; 401; 401; 200; 204; 401].
Proof. vm_compute. reflexivity. Qed.

Example ex_guarded : routes_guarded Routes.table = true.
Proof. vm_compute. reflexivity. Qed.

Example ex_login_present : In (Build_route POST p_login false) Routes.table.
Proof. vm_compute. tauto. Qed.

(* the hypotheses of C20_unauth_no_effect are met by a guarded route and a dead cookie *)
Example ex_unauth :
  mux Routes.table GET p_me = MFound (Build_route GET p_me true) /\
  is_login_route (Build_route GET p_me true) = false /\
  authorises Z ex_st0 (Some 5) = false.
Proof. vm_compute. repeat split. Qed.

(* a live session exists in the example after the second request, and the trace-level life agrees *)
Example ex_live :
  let '(st, tr) := run Z ex_verify (fun p => p) Routes.table ex_st0 (firstn 3 ex_history) in
  authorises Z st (Some 101) = true /\
  snd (life Z Routes.table 101 0 LNone tr) = LLive lifetime.
Proof. vm_compute. split; reflexivity. Qed.

(* cross-site: Origin + Sec-Fetch-Site: cross-site on a live session's logout *)
Example ex_cross :
  cross_site {| q_method := POST; q_path := p_logout; q_cookie := Some 1;
                q_origin := [104;116;116;112;58;47;47;101]; q_site := [99;114;111;115;115;45;115;105;116;101];
                q_body := BNone; q_fresh := 0; q_hstatus := 0 |} = true.
Proof. vm_compute. reflexivity. Qed.

Example ex_phc_ok :
  phc_parse long_salt_witness = Err.
Proof. vm_compute. reflexivity. Qed.
