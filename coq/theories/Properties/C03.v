From Reservoir Require Import Base.Prelude Model.Freshness.
Theorem C03_placeholder : True. Proof. exact I. Qed.
Print Assumptions C03_placeholder.
