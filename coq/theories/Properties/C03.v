(* C03 — A stored response is reused only while fresh; expiry forces an origin contact.
   This file contains only statements; every proof is [exact <lemma>].

   [store_expiry pol hv now] is the model of GetExpiresOrDefault on the parsed headers (the
   instant given to the cache when a response is stored at [now]); [lifetime_upper] /
   [lifetime_lower] are the reference reading of "the lifetime given by the origin's
   Cache-Control max-age, else by its Expires date (an unparseable Expires counts as already
   expired), else by the configured default; always the configured default when the
   operator forces it" (Model/FreshnessSpec.v; they coincide unless a header carries
   several different max-age directives or a max-age beyond ~292 years). *)
From Reservoir Require Import Base.Prelude Base.Strings Model.Freshness Model.FreshnessSpec
  Model.FreshHistory Proofs.Freshness Proofs.FreshHistory.

(* ---- the lifetime given to a stored response ---------------------------------------- *)

Theorem C03_lifetime_forced : forall pol hv now,
  force_default pol = true -> store_expiry pol hv now = now + default_age pol.
Proof. exact lifetime_forced. Qed.
Print Assumptions C03_lifetime_forced.

(* never longer than prescribed: max-age, else Expires (unparseable: not after now), else default *)
Theorem C03_lifetime_upper : forall pol hv now,
  zero_time < now -> force_default pol = true \/ ascii_header hv = true ->
  store_expiry pol hv now - now <= lifetime_upper pol hv now.
Proof. exact lifetime_upper_bound. Qed.
Print Assumptions C03_lifetime_upper.

(* ... and never shorter *)
Theorem C03_lifetime_lower : forall pol hv now,
  force_default pol = true \/ ascii_header hv = true ->
  0 < lifetime_lower pol hv now ->
  lifetime_lower pol hv now <= store_expiry pol hv now - now.
Proof. exact lifetime_lower_bound. Qed.
Print Assumptions C03_lifetime_lower.

(* the ordinary case: one max-age directive (any case, blanks, on any line) *)
Theorem C03_lifetime_single_max_age : forall pol hv now v,
  force_default pol = false -> ascii_header hv = true ->
  positive_max_ages (ref_tokens hv) = [v] -> v <= representable_secs ->
  store_expiry pol hv now = now + v * second.
Proof. exact lifetime_single_max_age. Qed.
Print Assumptions C03_lifetime_single_max_age.

(* ---- histories ---------------------------------------------------------------------- *)

(* In every request history, a response that did not reach the origin (a) is the stored body
   of an earlier fetched 200 GET answer that was storable, (b) is served no later than the
   expiry [exp] of that entry, where [exp] is either the lifetime computed when it was
   stored or "revalidation instant + default lifetime" of a later request in which the
   origin was contacted and answered 304, (c) is labelled HIT, with ttl = whole seconds left
   until [exp] and Age = initial age + whole seconds since the store instant. *)
Theorem C03_no_reuse_after_expiry : forall pol0 now0 h evs1 ev evs2,
  events (init_state pol0 now0) h = evs1 ++ ev :: evs2 ->
  r_contacted (ev_resp ev) = false ->
  exists ev0 exp,
    In ev0 evs1 /\ ev_meth ev0 = GET /\ oa_status (ev_oa ev0) = 200 /\
    r_contacted (ev_resp ev0) = true /\ ev_effect ev0 = EStored /\
    storable (ev_pol ev0) GET 200 (oa_hv (ev_oa ev0)) (ev_now ev0) = true /\
    ev_meth ev = GET /\
    ev_resp ev = {| r_status := 200; r_version := oa_version (ev_oa ev0); r_label := Some HsHit;
                    r_cs := Some (make_cache_status HsHit 0 true exp (ev_now ev));
                    r_age := Some (current_age (Some (ev_now ev0)) (oa_age (ev_oa ev0)) (ev_now ev0) (ev_now ev));
                    r_contacted := false |} /\
    ev_now ev <= exp /\
    (exp = store_expiry (ev_pol ev0) (oa_hv (ev_oa ev0)) (ev_now ev0)
     \/ exists ev1, In ev1 evs1 /\ ev_meth ev1 = GET /\ ev_effect ev1 = ERenewed /\
                    r_contacted (ev_resp ev1) = true /\
                    r_version (ev_resp ev1) = oa_version (ev_oa ev0) /\
                    exp = ev_now ev1 + default_age (ev_pol ev1)).
Proof. exact hist_reuse. Qed.
Print Assumptions C03_no_reuse_after_expiry.

(* The same bound in the property's own terms. *)
Theorem C03_reuse_within_lifetime : forall pol0 now0 h evs1 ev evs2,
  events (init_state pol0 now0) h = evs1 ++ ev :: evs2 ->
  r_contacted (ev_resp ev) = false ->
  exists ev0,
    In ev0 evs1 /\ ev_meth ev0 = GET /\ oa_status (ev_oa ev0) = 200 /\ r_contacted (ev_resp ev0) = true /\
    ev_meth ev = GET /\ r_status (ev_resp ev) = 200 /\ r_version (ev_resp ev) = oa_version (ev_oa ev0) /\
    (zero_time < ev_now ev0 -> may_store (ev_pol ev0) GET 200 (oa_hv (ev_oa ev0)) (ev_now ev0) = true) /\
    ((zero_time < ev_now ev0 ->
      force_default (ev_pol ev0) = true \/ ascii_header (oa_hv (ev_oa ev0)) = true ->
      ev_now ev - ev_now ev0 <= lifetime_upper (ev_pol ev0) (oa_hv (ev_oa ev0)) (ev_now ev0))
     \/ exists ev1, In ev1 evs1 /\ ev_meth ev1 = GET /\ r_contacted (ev_resp ev1) = true /\
                    r_version (ev_resp ev1) = r_version (ev_resp ev) /\
                    ev_now ev - ev_now ev1 <= default_age (ev_pol ev1)).
Proof. exact hist_reuse_spec. Qed.
Print Assumptions C03_reuse_within_lifetime.

(* Once the lifetime has elapsed the origin is contacted before the entry is used again:
   a request is answered without contact only if an entry exists whose expiry has not passed. *)
Theorem C03_expiry_forces_contact : forall s m oa r304 s' ev,
  step s (Request m oa r304) = (s', Some ev) ->
  r_contacted (ev_resp ev) = false ->
  exists e, hs_entry s = Some e /\ hs_now s <= e_expires e /\ m = GET /\ s' = s.
Proof. exact expiry_forces_contact. Qed.
Print Assumptions C03_expiry_forces_contact.

(* HIT (X-Cache / Cache-Status) exactly when the response was served without contacting the origin. *)
Theorem C03_label : forall pol0 now0 h evs1 ev evs2,
  events (init_state pol0 now0) h = evs1 ++ ev :: evs2 ->
  (r_label (ev_resp ev) = Some HsHit <-> r_contacted (ev_resp ev) = false).
Proof. exact hist_label. Qed.
Print Assumptions C03_label.

(* what the ttl and Age of those labels are *)
Theorem C03_ttl : forall hs us cached exp now t,
  cs_ttl (make_cache_status hs us cached exp now) = Some t ->
  t = Z.max 0 (trunc_secs (exp - now)) /\ 0 <= t /\ hs <> HsMiss.
Proof. exact ttl_value. Qed.
Print Assumptions C03_ttl.

Theorem C03_age : forall up_age stored_at now,
  stored_at <= now ->
  let init := match up_age with Some a => Z.max 0 a | None => 0 end in
  init + trunc_secs (now - stored_at) <= max_int64 ->
  current_age (Some stored_at) up_age stored_at now = init + trunc_secs (now - stored_at).
Proof. exact age_value. Qed.
Print Assumptions C03_age.

(* ---- non-vacuity ------------------------------------------------------------------- *)
Definition honour : policy := {| ignore_cc := false; force_default := false; default_age := 3600 * second |}.
Definition forced : policy := {| ignore_cc := true; force_default := true; default_age := 90 * second |}.
Definition t0 : Z := 1790000000 * second.
(* "Max-Age=60" *)
Definition s_Max_Age_60 : str := [77;97;120;45;65;103;101;61;54;48].
Definition hv60 : hview := {| cc_lines := [s_Max_Age_60]; expires := ExpAbsent; resp_range := false |}.
Definition hv_exp0 : hview := {| cc_lines := []; expires := ExpUnparseable; resp_range := false |}.
Definition hv_exp (t : Z) : hview := {| cc_lines := []; expires := ExpAt t; resp_range := false |}.

Example ex_max_age : store_expiry honour hv60 t0 = t0 + 60 * second
                     /\ lifetime_upper honour hv60 t0 = 60 * second /\ lifetime_lower honour hv60 t0 = 60 * second.
Proof. vm_compute. repeat split; reflexivity. Qed.
Example ex_forced : store_expiry forced hv60 t0 = t0 + 90 * second.
Proof. vm_compute. reflexivity. Qed.
Example ex_expires : store_expiry honour (hv_exp (t0 + 10 * second)) t0 = t0 + 10 * second.
Proof. vm_compute. reflexivity. Qed.
Example ex_default : store_expiry honour {| cc_lines := []; expires := ExpAbsent; resp_range := false |} t0 = t0 + 3600 * second.
Proof. vm_compute. reflexivity. Qed.
(* Expires: 0 with directives ignored: stored, but already expired *)
Example ex_unparseable : store_expiry forced hv_exp0 t0 = t0 + 90 * second
  /\ (store_expiry {| ignore_cc := true; force_default := false; default_age := 90 * second |} hv_exp0 t0 <? t0) = true.
Proof. vm_compute. split; reflexivity. Qed.

(* GET (stored, max-age 60), +30 s GET (HIT, Age 30, ttl 30), +40 s GET with a 304 (REVALIDATED, default
   lifetime 1 h from now), +3000 s GET (HIT, ttl 600), +700 s GET (stale again) *)
Definition oa60 : oanswer := {| oa_status := 200; oa_hv := hv60; oa_version := 7; oa_age := None |}.
Definition h_demo : list hstep :=
  [Request GET oa60 true; Advance (30 * second); Request GET oa60 true; Advance (40 * second); Request GET oa60 true;
   Advance (3000 * second); Request GET oa60 true; Advance (700 * second); Request GET oa60 false].
Example ex_history :
  map (fun ev => (r_contacted (ev_resp ev), r_label (ev_resp ev), r_age (ev_resp ev),
                  match r_cs (ev_resp ev) with Some c => cs_ttl c | None => None end))
      (events (init_state honour t0) h_demo)
  = [(true, Some HsMiss, None, None); (false, Some HsHit, Some 30, Some 30);
     (true, Some HsRevalidated, Some 70, Some 3600); (false, Some HsHit, Some 3070, Some 600);
     (true, Some HsRevalidated, Some 0, Some 60)].
Proof. vm_compute. reflexivity. Qed.
