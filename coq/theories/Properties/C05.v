(* C05 - Concurrent identical requests share one origin fetch; each gets a full answer.
   This file contains only statements; every proof is [exact <lemma>].

   The model (Model/Coalesce.v) is a labelled transition system for one cache key:
   proxy/fetcher.go dedupFetch / getFromCacheOrFetch plus singleflight by its documented
   contract.  A trace is an arbitrary action list = an arbitrary interleaving of the atomic
   steps of any number of clients, of the proxy and of the origin; [run] is None when the
   list is not executable.  All theorems quantify over every trace.

   Partial: that N real goroutines calling group.Do while the first call is still running are
   all served by that one call is singleflight's contract (a trusted library law), and which
   goroutines arrive "during" the call is the Go scheduler's choice; the model covers every such
   choice (an Arrive joins the running flight, a later one starts a new flight that finds the
   stored entry), the harness forces the overlapping ones with a gate. *)
From Reservoir Require Import Base.Prelude Model.Coalesce Proofs.Coalesce.

(* One fetch.  For every arrival order and overlap of any number of clients on a cold, fresh or
   stale key (in particular when all of them arrive before the flight returns), as long as the
   origin's answers are storable and nothing is evicted: at most one origin request is ever
   made; and as soon as anybody has an answer, exactly one was made (none if the entry was
   fresh), it was a revalidation iff the entry was stale, and every answered client holds the
   complete stored version - all the same one, the one now in the cache.
   Disconnects at any point, of anybody, are part of the quantification. *)
Theorem C05_single_fetch : forall ks tr s,
  run (init ks) tr = Some s ->
  forallb (single_fetch_ok ks) tr = true ->
  origin_count s <= 1 /\
  forall c r, ph s c = Done r ->
    exists v, r = RStored v /\ cache s = Some (v, true) /\ In v (stored s) /\
      origin_count s = (match ks with Fresh => 0 | _ => 1 end) /\
      cond_count s = (match ks with Stale => 1 | _ => 0 end).
Proof. exact single_fetch. Qed.
Print Assumptions C05_single_fetch.

(* Everyone is answered (1): liveness.  In every reachable state, a client that is inside Do or
   past it can be brought to its answer by steps of the proxy, of the origin and of its own
   only: no step of any other client (disconnected, slow or not), no arrival, no eviction is
   needed. *)
Theorem C05_everyone_answered_progress : forall ks tr s c,
  run (init ks) tr = Some s ->
  ph s c = InFlight \/ (exists q, ph s c = Post q) ->
  exists tr' s' r, forallb (step_for c) tr' = true /\ run s tr' = Some s' /\ ph s' c = Done r.
Proof. exact no_client_stuck. Qed.
Print Assumptions C05_everyone_answered_progress.

(* Everyone is answered (2): what the answer is, in every trace.  A cached answer is a version
   that was stored completely (never the reader of the in-flight body); an origin answer relayed
   directly is one fetched by that client's own request; an error is handed out only after a
   shared fetch failed. *)
Theorem C05_everyone_answered_provenance : forall ks tr s,
  run (init ks) tr = Some s ->
  forall c r, ph s c = Done r ->
    match r with
    | RStored v => In v (stored s)
    | RPrivate k n => In (FollowerFallback c k) tr /\ 1 <= n <= origin_count s
    | RError => 0 < faults s
    end.
Proof. exact answer_provenance_full. Qed.
Print Assumptions C05_everyone_answered_provenance.

(* Everyone is answered (3): completely.  When the origin completes every body it starts and the
   entry is not removed under a pending revalidation (no eviction at all, or no 304 at all),
   every answer anybody receives is complete: the stored version or an origin answer of the
   client's own - whoever disconnected, whenever. *)
Theorem C05_everyone_answered : forall ks tr s,
  run (init ks) tr = Some s -> fault_free tr = true ->
  forall c r, ph s c = Done r -> complete r = true.
Proof. exact answers_complete. Qed.
Print Assumptions C05_everyone_answered.

(* A client that disconnects never changes what the others receive: delete the disconnects of
   any set D of clients from any executable trace - the rest is still executable, and every
   client outside D, the cache and the origin's counters end exactly as before. *)
Theorem C05_bystander_independence : forall (D : client -> bool) ks tr s,
  run (init ks) tr = Some s ->
  exists s', run (init ks) (without_disconnects D tr) = Some s' /\
    (forall c, D c = false -> ph s' c = ph s c) /\
    cache s' = cache s /\ origin_count s' = origin_count s /\ cond_count s' = cond_count s.
Proof. exact bystander_independence. Qed.
Print Assumptions C05_bystander_independence.

(* Not cacheable: private copies.  In every trace no origin answer is delivered to two clients;
   a relayed answer is neither a stored version nor anybody else's, and was fetched by that
   client's own request.  And when nothing the origin says is cacheable (key not fresh), every
   answered client holds such a copy of its own. *)
Theorem C05_uncacheable_private_copies : forall ks tr s,
  run (init ks) tr = Some s ->
  (forall c1 c2 k1 k2 n1 n2,
      ph s c1 = Done (RPrivate k1 n1) -> ph s c2 = Done (RPrivate k2 n2) -> c1 <> c2 -> n1 <> n2) /\
  (forall c k n, ph s c = Done (RPrivate k n) ->
      1 <= n <= origin_count s /\ ~ In n (stored s) /\ In (FollowerFallback c k) tr) /\
  (ks <> Fresh -> forallb uncacheable_ok tr = true ->
   forall c r, ph s c = Done r -> exists k n, r = RPrivate k n /\ kind_uncacheable k = true).
Proof. exact private_copies. Qed.
Print Assumptions C05_uncacheable_private_copies.

(* ---- non-vacuity: concrete interleavings meeting the hypotheses ---- *)

Definition outcome (ks : key_state) (tr : list action) (cl : list client) :=
  match run (init ks) tr with
  | Some s => Some (map (ph s) cl, origin_count s, cond_count s, cache s)
  | None => None
  end.

(* three clients overlap on a cold key; the leader disconnects while the origin is gated *)
Definition tr_cold3 : list action :=
  [Arrive 0; LeaderLookup; Arrive 1; Arrive 2; Disconnect 0; OriginAnswer KCacheable; LeaderStore;
   FlightReturn; FollowerReGet 1; FollowerReGet 2; Respond 2; Respond 1].

Example ex_single_fetch_hyp : forallb (single_fetch_ok Cold) tr_cold3 = true.
Proof. vm_compute. reflexivity. Qed.

Example ex_single_fetch :
  outcome Cold tr_cold3 [0; 1; 2] =
  Some ([Gone; Done (RStored 1); Done (RStored 1)], 1, 0, Some (1, true)).
Proof. vm_compute. reflexivity. Qed.

Example ex_bystander :
  outcome Cold (without_disconnects (fun c => c =? 0) tr_cold3) [1; 2] =
  Some ([Done (RStored 1); Done (RStored 1)], 1, 0, Some (1, true)).
Proof. vm_compute. reflexivity. Qed.

(* stale key, 304: one conditional request, the old version for everybody *)
Example ex_revalidation :
  outcome Stale
    [Arrive 5; Arrive 6; LeaderLookup; OriginAnswer KNotModified; Arrive 7; LeaderStore; FlightReturn;
     FollowerReGet 5; FollowerReGet 6; FollowerReGet 7; Respond 5; Respond 6; Respond 7] [5; 6; 7] =
  Some ([Done (RStored 0); Done (RStored 0); Done (RStored 0)], 1, 1, Some (0, true)).
Proof. vm_compute. reflexivity. Qed.

(* no-store: the shared answer is dropped, three clients, three further origin answers *)
Definition tr_nostore3 : list action :=
  [Arrive 0; LeaderLookup; Arrive 1; Arrive 2; OriginAnswer KNoStore; LeaderStore; FlightReturn;
   FollowerFallback 2 KNoStore; FollowerFallback 0 KNotFound; FollowerFallback 1 KNoStore;
   Respond 0; Respond 1; Respond 2].

Example ex_private_hyp : forallb uncacheable_ok tr_nostore3 = true.
Proof. vm_compute. reflexivity. Qed.

Example ex_private :
  outcome Cold tr_nostore3 [0; 1; 2] =
  Some ([Done (RPrivate KNotFound 3); Done (RPrivate KNoStore 4); Done (RPrivate KNoStore 2)], 4, 0, None).
Proof. vm_compute. reflexivity. Qed.

(* the entry vanishes at the yield point after Do returned: own fetches, still complete *)
Definition tr_evict : list action :=
  [Arrive 0; LeaderLookup; Arrive 1; OriginAnswer KCacheable; LeaderStore; FlightReturn; Evict;
   FollowerReGet 1; FollowerReGet 0; FollowerFallback 0 KCacheable; FollowerFallback 1 KNoStore;
   Respond 0; Respond 1].

Example ex_evict_hyp : fault_free tr_evict = true.
Proof. vm_compute. reflexivity. Qed.

Example ex_evict :
  outcome Cold tr_evict [0; 1] =
  Some ([Done (RPrivate KCacheable 2); Done (RPrivate KNoStore 3)], 3, 0, None).
Proof. vm_compute. reflexivity. Qed.

(* entry removed under a pending revalidation: since the repair of C09 (a cache-side failure
   takes the ErrNotCacheable route) the callers fetch for themselves instead of getting 502 *)
Example ex_evicted_under_revalidation :
  outcome Stale
    [Arrive 0; LeaderLookup; Arrive 1; Evict; OriginAnswer KNotModified; LeaderStore; FlightReturn;
     FollowerFallback 0 KCacheable; FollowerFallback 1 KCacheable; Respond 0; Respond 1] [0; 1] =
  Some ([Done (RPrivate KCacheable 2); Done (RPrivate KCacheable 3)], 3, 1, None).
Proof. vm_compute. reflexivity. Qed.

(* the hypothesis of C05_everyone_answered is needed: a body cut by the origin is relayed as it is *)
Example ex_fault_needed :
  outcome Cold
    [Arrive 0; LeaderLookup; OriginAnswer KAbortBody; LeaderStore; FlightReturn;
     FollowerFallback 0 KAbortBody; Respond 0] [0] =
  Some ([Done (RPrivate KAbortBody 2)], 2, 0, None).
Proof. vm_compute. reflexivity. Qed.

(* progress is not vacuous: a follower parked in Do behind a disconnected leader *)
Example ex_progress_state :
  outcome Cold [Arrive 0; LeaderLookup; Arrive 1; Disconnect 0] [0; 1] =
  Some ([Gone; InFlight], 1, 0, None).
Proof. vm_compute. reflexivity. Qed.
