(* C13 — Size limit enforced by LRU eviction; cleanup removes exactly the expired.
   This file contains only statements; every proof is [exact <lemma>].

   Vocabulary (Model/Evict.v): an [entry] carries its key, lock shard, size, age
   since last access and expiry offset; [priority] = age + 100 * (size / MiB);
   [evict_loop target held cands cur] is the loop of cacheJanitor.evict over the
   sorted candidates [cands] with byte counter [cur], where [held] are the lock
   shards whose TryLock fails; [evict_target limit] is int64(float64(limit)*0.8)
   computed in IEEE binary64. *)
From Coq Require Import Sorting.Sorted Sorting.Permutation.
From Reservoir Require Import Base.Prelude Model.Evict Proofs.Evict Proofs.EvictFloat.

(* The eviction, for every population, limit/target, byte counter, set of held shards and
   EVERY order the map iteration and the unstable sort can produce (any priority-descending
   permutation of the population): the removed entries
   - are distinct entries that are not in use,
   - are least-recently-used first, larger entries weighted up: no surviving evictable entry
     has a higher priority than a removed one,
   - bring the counter down to the target, unless every evictable entry was removed,
   - and no more: putting back a removed entry of least priority leaves the counter above
     the target (the loop stopped as soon as the target was reached). *)
Theorem C13_evict_spec : forall pop cands cur target held,
  NoDup (map e_key pop) -> Permutation cands pop -> Sorted pdesc cands ->
  let R := fst (evict_loop target held cands cur) in
  evict_outcome pop cur target held (map e_key R) /\
  snd (evict_loop target held cands cur) = cur - sum_sizes R /\
  Permutation (Rof held pop (map e_key R)) R.
Proof. exact evict_loop_outcome. Qed.
Print Assumptions C13_evict_spec.

(* [evict_allowed] (the relation the correspondence check uses) is exactly that specification ... *)
Theorem C13_allowed_is_spec : forall pop cur target held removed,
  evict_allowed pop cur target held removed = true <-> evict_outcome pop cur target held removed.
Proof. exact evict_allowed_iff. Qed.
Print Assumptions C13_allowed_is_spec.

(* ... and contains every resolution of the deterministic model. *)
Theorem C13_model_allowed : forall pop cands cur target held,
  NoDup (map e_key pop) -> Permutation cands pop -> Sorted pdesc cands ->
  evict_allowed pop cur target held (map e_key (fst (evict_loop target held cands cur))) = true.
Proof. exact evict_model_allowed. Qed.
Print Assumptions C13_model_allowed.

(* At or below the target nothing is removed (every allowed outcome; sizes are byte counts). *)
Theorem C13_nothing_below_target : forall pop cur target held removed,
  Forall (fun e => 0 <= e_size e) pop -> cur <= target ->
  evict_outcome pop cur target held removed -> removed = [].
Proof. exact evict_outcome_below. Qed.
Print Assumptions C13_nothing_below_target.

(* Above the target something is removed whenever something evictable exists. *)
Theorem C13_progress_above_target : forall pop cur target held removed,
  target < cur -> (exists u, In u pop /\ is_held held u = false) ->
  evict_outcome pop cur target held removed -> removed <> [].
Proof. exact evict_outcome_progress. Qed.
Print Assumptions C13_progress_above_target.

(* The time that passes between the harness's base instant and the janitor's time.Now()
   adds one constant to every age: it changes neither which candidate orders are sorted nor
   what the loop removes. *)
Theorem C13_elapsed_time_irrelevant : forall d target held cands cur,
  (Sorted pdesc (map (age_shift d) cands) <-> Sorted pdesc cands) /\
  evict_loop target held (map (age_shift d) cands) cur =
  (map (age_shift d) (fst (evict_loop target held cands cur)), snd (evict_loop target held cands cur)).
Proof. intros. split; [exact (sorted_shift d cands) | exact (evict_loop_shift d target held cands cur)]. Qed.
Print Assumptions C13_elapsed_time_irrelevant.

(* The target is 80 % of the limit: the binary64 computation int64(float64(max) * 0.8)
   equals floor(4*max/5) for every limit below 2^50 bytes (1 PiB). *)
Theorem target_is_four_fifths : forall maxb, 0 <= maxb < 2 ^ 50 -> evict_target maxb = 4 * maxb / 5.
Proof. exact evict_target_four_fifths. Qed.
Print Assumptions target_is_four_fifths.

(* Store-triggered eviction (both backends), for every state, every resolution [ord] of the
   sort and every set of held shards: below the limit (memory: min(max, memoryCap)) no entry
   is evicted; at or over it exactly one eviction to 80 % of that limit happens, in which the
   storing caller's own shard counts as in use on the memory backend. *)
Theorem C13_trigger : forall ord b held e s s' ok,
  valid_ord ord -> NoDup (map e_key (c_ents s)) ->
  store (det_evictor ord) b held e s = Some (s', ok) ->
  let limit := store_limit b s in
  (c_bytes s < limit ->
     forall x, In x (c_ents s) -> e_key x <> e_key e -> In x (c_ents s')) /\
  (limit <= c_bytes s ->
     exists removed,
       evict_outcome (c_ents s) (c_bytes s) (evict_target limit) (store_held b e held) removed /\
       forall x, In x (c_ents s) -> e_key x <> e_key e ->
                 (In x (c_ents s') <-> ~ In (e_key x) removed)).
Proof. exact store_trigger. Qed.
Print Assumptions C13_trigger.

(* The same for the size check of every janitor cycle (it reads the configured limit). *)
Theorem C13_trigger_cycle : forall ord held s s',
  valid_ord ord -> NoDup (map e_key (c_ents s)) ->
  ensure_size (det_evictor ord) held s = Some s' ->
  (c_bytes s < c_cfgmax s -> s' = s) /\
  (c_cfgmax s <= c_bytes s ->
     exists removed,
       evict_outcome (c_ents s) (c_bytes s) (evict_target (c_cfgmax s)) held removed /\
       forall x, In x (c_ents s) -> (In x (c_ents s') <-> ~ In (e_key x) removed)).
Proof. exact ensure_trigger. Qed.
Print Assumptions C13_trigger_cycle.

(* Cleanup, for every population, every set of held shards and EVERY placement of concurrent
   stores / refreshes / deletes between the scan and each removal ([batches]):
   an entry nobody touches meanwhile is removed iff its lifetime has elapsed and it is not in use; *)
Theorem C13_cleanup_exact : forall held batches l x,
  NoDup (map e_key l) -> In x l -> ~ In (e_key x) (touched (concat batches)) ->
  (In x (clean_expired held batches l) <-> ~ (expired x = true /\ is_held held x = false)).
Proof. exact clean_expired_exact. Qed.
Print Assumptions C13_cleanup_exact.

(* and whatever lands in the window, every entry the janitor removes is, at the moment of its
   removal, the entry stored under that key and expired: never a fresh overwrite or refresh. *)
Theorem C13_cleanup_never_fresh : forall held scanned batches l,
  Forall (fun e => expired e = true) (snd (clean_loop held scanned batches l)).
Proof. exact clean_loop_removes_only_expired. Qed.
Print Assumptions C13_cleanup_never_fresh.

Theorem C13_cleanup_step_keeps_fresh : forall held l ks x,
  NoDup (map e_key l) -> In x l -> expired x = false -> In x (fst (clean_one held l ks)).
Proof. exact clean_one_keeps_fresh. Qed.
Print Assumptions C13_cleanup_step_keeps_fresh.

(* Limit changes at run time, for every history of stores, accesses, deletes, evictions,
   cycles, limit updates and listener deliveries in which an update is issued only after the
   previous one reached the listener: the janitor always reads the value of the last update,
   and once nothing is pending the store path uses it too. *)
Theorem C13_limit_follows : forall ev b ops s s',
  lim_inv s -> calm ev b s ops -> run ev b s ops = Some s' ->
  lim_inv s' /\ c_cfgmax s' = last_limit (c_cfgmax s) ops.
Proof. exact limit_follows. Qed.
Print Assumptions C13_limit_follows.

(* Interval changes: once the janitor has received interval d at instant t, the n-th following
   cycle runs at t + n*d whatever the previous interval and tick phase were. *)
Theorem C13_interval_follows : forall s t d n,
  0 < d ->
  exists s1, jstep s (JInterval t d) = Ok s1 /\
             jticks n s1 = Ok (mkJ d (t + d + Z.of_nat n * d)).
Proof. exact interval_follows. Qed.
Print Assumptions C13_interval_follows.

(* ---- non-vacuity ---- *)
Definition ex_pop : list entry :=
  [ mkE 1 1 300 100 3600000; mkE 2 2 300 50 3600000; mkE 3 3 400 10 (-5000); mkE 4 1 2097152 0 60000 ].

(* a sorted permutation exists for every population, so the hypotheses of C13_evict_spec are satisfiable *)
Example ex_sorted : Permutation (sort_desc ex_pop) ex_pop /\ Sorted pdesc (sort_desc ex_pop).
Proof. exact (sort_desc_valid ex_pop). Qed.

(* limit 1000: target 800; the 2 MiB entry outranks the older small ones *)
Example ex_evict :
  map e_key (fst (evict_loop (evict_target 2097900) [] (sort_desc ex_pop) 2098152)) = [4]
  /\ evict_target 2097900 = 1678320.
Proof. vm_compute. split; reflexivity. Qed.

(* with shard 1 held, entries 1 and 4 are skipped and the loop moves on *)
Example ex_evict_held :
  map e_key (fst (evict_loop 500 [1] (sort_desc ex_pop) 2098152)) = [2; 3].
Proof. vm_compute. reflexivity. Qed.

(* the scan/removal window: a fresh overwrite of expired key 3 survives, the unheld expired
   entry 5 goes, the expired entry 6 whose shard is held stays *)
Example ex_window :
  map e_key (clean_expired [9] [[YStore (mkE 3 3 7 0 3600000)]]
               (ex_pop ++ [mkE 5 5 10 0 (-1); mkE 6 9 10 0 (-1)])) = [3; 1; 2; 4; 6].
Proof. vm_compute. reflexivity. Qed.

(* the hypothesis of C13_limit_follows cannot be dropped: two updates in flight, delivered in
   the opposite order, leave the store path on the older limit (utils/event fires one goroutine
   per delivery; ordering is C19's subject) *)
Example ex_overtaken :
  option_map (fun s => (c_cfgmax s, c_stmax s, c_pending s))
    (run (det_evictor sort_desc) Mem (init_state 100 100)
         [OSetLimit 5; OSetLimit 9; ODeliver 1; ODeliver 0]) = Some (9, 5, []).
Proof. vm_compute. reflexivity. Qed.

Example ex_calm :
  calm (det_evictor sort_desc) File (init_state 1000 1000)
       [OStore (mkE 1 1 600 5 3600000) []; OSetLimit 500; ODeliver 0; OStore (mkE 2 2 10 0 3600000) []]
  /\ option_map (fun s => (map e_key (c_ents s), c_bytes s, c_stmax s))
       (run (det_evictor sort_desc) File (init_state 1000 1000)
         [OStore (mkE 1 1 600 5 3600000) []; OSetLimit 500; ODeliver 0; OStore (mkE 2 2 10 0 3600000) []])
     = Some ([2], 10, 500).
Proof. vm_compute. split; [tauto | reflexivity]. Qed.
