(* C14 — No interleaving deadlocks the cache or a request.
   Statements only; every proof is [exact <lemma>].  The theorems are generic in
   the list of skeleton entries: on every run the skeleton is regenerated from
   the Go sources and the hypotheses [forallb entry_ok entries = true] etc. are
   re-checked by coqc on the regenerated term (work/C14/gen/SkeletonRun.v).
   The last theorems instantiate them on the committed snapshot gen/Skeleton.v. *)
From Reservoir Require Import Base.Prelude Model.Sync Proofs.Sync.
From ReservoirGen Require Skeleton.

(* Any number of threads obeying the rank discipline, under EVERY schedule:
   every reachable state is either quiescent (all threads finished, or waiting
   for the environment while holding nothing) or has an enabled step of a thread
   that is not waiting for the environment; and no schedule is longer than the
   total program size, so every operation completes. *)
Theorem C14_rank_discipline_sound : forall ps sched s',
  (forall p, In p ps -> disc [] p) ->
  run (spawn ps) sched = Some s' ->
  (quiescent s' = true \/
   exists i t c, nth_error s' i = Some t /\ at_block t = false /\ thread_step s' t c <> None)
  /\ (length sched + total s' <= total (spawn ps))%nat.
Proof. exact disciplined_systems_complete. Qed.
Print Assumptions C14_rank_discipline_sound.

(* The skeleton checker is sound for every denotation of an entry: every finite
   unrolling of its loops, every choice of physical shard at every execution of
   a lock-variable binding (hence every shard count >= 1 and every key-to-shard map). *)
Theorem C14_checker_sound : forall e rho p,
  entry_ok e = true -> den (SFun e) rho PDone PDone p -> disc [] p.
Proof. exact entry_disc. Qed.
Print Assumptions C14_checker_sound.

(* Hence: checked entries, any number of threads each running any entry. *)
Theorem C14_checked_entries_deadlock_free : forall entries ps sched s',
  forallb entry_ok entries = true ->
  (forall p, In p ps -> thread_of entries p) ->
  run (spawn ps) sched = Some s' ->
  (quiescent s' = true \/
   exists i t c, nth_error s' i = Some t /\ at_block t = false /\ thread_step s' t c <> None)
  /\ (length sched + total s' <= total (spawn ps))%nat.
Proof. exact checked_entries_deadlock_free. Qed.
Print Assumptions C14_checked_entries_deadlock_free.

(* Stopping the cache never blocks: a wait-free entry denotes a wait-free program,
   and a wait-free thread moves whenever scheduled, in every reachable state. *)
Theorem C14_stop_program_wait_free : forall e rho p,
  waitfree_skel e = true -> den (SFun e) rho PDone PDone p -> wait_free p = true.
Proof. exact waitfree_entry_program. Qed.
Print Assumptions C14_stop_program_wait_free.

Theorem C14_stop_never_waits : forall entries ps sched s' i t c,
  forallb entry_ok entries = true ->
  (forall p, In p ps -> thread_of entries p) ->
  run (spawn ps) sched = Some s' ->
  nth_error s' i = Some t -> wait_free (code t) = true -> is_done t = false ->
  exists t', thread_step s' t c = Some t' /\ wait_free (code t') = true.
Proof. exact waitfree_entry_never_waits. Qed.
Print Assumptions C14_stop_never_waits.

(* An eviction never WAITS for a shard lock (it only tries), so one started from
   inside a store cannot wait for the lock its own caller holds. *)
Theorem C14_evict_never_awaits_shard : forall e rho p,
  no_shard_acq e = true -> den (SFun e) rho PDone PDone p -> never_awaits_shard p = true.
Proof. exact no_shard_entry_program. Qed.
Print Assumptions C14_evict_never_awaits_shard.

(* Instantiation on the snapshot of package cache (regenerated and re-checked on every run). *)
Theorem C14_cache_deadlock_free : forall ps sched s',
  (forall p, In p ps -> thread_of Skeleton.entries p) ->
  run (spawn ps) sched = Some s' ->
  (quiescent s' = true \/
   exists i t c, nth_error s' i = Some t /\ at_block t = false /\ thread_step s' t c <> None)
  /\ (length sched + total s' <= total (spawn ps))%nat.
Proof. exact (fun ps sched s' => checked_entries_deadlock_free Skeleton.entries ps sched s' Skeleton.entries_ok). Qed.
Print Assumptions C14_cache_deadlock_free.

Theorem C14_cache_stop_wait_free : forallb waitfree_skel Skeleton.stop_entries = true.
Proof. exact Skeleton.stop_ok. Qed.
Print Assumptions C14_cache_stop_wait_free.

Theorem C14_cache_evict_no_shard_wait : forallb no_shard_acq Skeleton.evict_entries = true.
Proof. exact Skeleton.evict_ok. Qed.
Print Assumptions C14_cache_evict_no_shard_wait.

(* ------------------------------------------------------------------ *)
(* Non-vacuity and discrimination. *)

(* A store into a full memory cache with ONE shard: Lock(shard); evict tries the
   victim's lock (the same physical lock), fails, skips; Lock(mu) ... *)
Definition store_with_evict (own victim : nat) : skel :=
  SBind 0 (SSeq (SAcq (SShard 0))
    (SSeq (SStar (SBind 1 (STry (SShard 1) (SSeq (SAcq SMu) (SSeq (SRel SMu) (SRel (SShard 1)))) SSkip)))
    (SSeq (SAcq SMu) (SSeq (SRel SMu) (SRel (SShard 0)))))).

Example ex_store_ok : entry_ok (store_with_evict 0 0) = true.
Proof. vm_compute. reflexivity. Qed.

(* the same with a blocking Lock on the victim is rejected ... *)
Definition store_with_blocking_evict : skel :=
  SBind 0 (SSeq (SAcq (SShard 0))
    (SSeq (SStar (SBind 1 (SSeq (SAcq (SShard 1)) (SSeq (SAcq SMu) (SSeq (SRel SMu) (SRel (SShard 1)))))))
    (SSeq (SAcq SMu) (SSeq (SRel SMu) (SRel (SShard 0)))))).

Example ex_blocking_rejected : entry_ok store_with_blocking_evict = false.
Proof. vm_compute. reflexivity. Qed.

(* ... and does deadlock: one thread, one shard, one loop iteration. *)
Definition bad_prog : prog :=
  PAcq (Shard 0) (PChoice (PAcq Mu (PRel Mu (PRel (Shard 0) PDone)))
                          (PAcq (Shard 0) (PAcq Mu (PRel Mu (PRel (Shard 0) (PAcq Mu (PRel Mu (PRel (Shard 0) PDone)))))))).

Example ex_bad_is_denotation :
  den (SFun store_with_blocking_evict) (fun _ => 0%nat) PDone PDone bad_prog.
Proof.
  unfold store_with_blocking_evict, bad_prog.
  apply DFun. eapply DBind with (i := 0%nat). eapply DSeq.
  - eapply DSeq.
    + eapply DSeq; [eapply DSeq; [apply DRel|apply DRel]|apply DAcq].
    + eapply DStarS.
      * apply DStar0.
      * eapply DBind with (i := 0%nat). eapply DSeq; [|apply DAcq].
        eapply DSeq; [|apply DAcq]. eapply DSeq; [apply DRel|apply DRel].
  - apply DAcq.
Qed.

Example ex_bad_deadlocks :
  exists s', run (spawn [bad_prog]) [(0%nat, true); (0%nat, false)] = Some s' /\
             quiescent s' = false /\ forall c, sys_step s' 0%nat c = None.
Proof. eexists. split; [vm_compute; reflexivity|]. split; [reflexivity|]. intros c; destruct c; reflexivity. Qed.

(* Two stores and a janitor-style cleaner over the same single shard reach quiescence. *)
Definition good_prog (own victim : nat) : prog :=
  PAcq (Shard own) (PTry (Shard victim) (PAcq Mu (PRel Mu (PRel (Shard victim) (PAcq Mu (PRel Mu (PRel (Shard own) PDone))))))
                                          (PAcq Mu (PRel Mu (PRel (Shard own) PDone)))).

Example ex_good_run :
  exists s', run (spawn [good_prog 0 0; good_prog 0 0])
                 [(0,true);(0,true);(0,true);(0,true);(0,true);(1,true);(1,true);(1,true);(1,true);(1,true)]%nat = Some s'
             /\ quiescent s' = true.
Proof. eexists. split; vm_compute; reflexivity. Qed.
