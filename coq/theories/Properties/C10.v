(* C10 — Each exchange on a CONNECT tunnel is isolated and equals plain proxying.
   This file contains only statements; every proof is [exact <lemma>].
   Vocabulary (Model/Tunnel.v):
     exchange          one request as handleHTTP sees it: method class, protocol, the branch taken and its data
     tunnel_run xs     the wire responses of the tunnel loop of handleCONNECT for the requests xs, in order
     tunnel_loop b s   the same loop started in responder state s; b = the responder is kept across requests
     single_exchange x the wire responses of x alone on a tunnel of its own
     plain_run xs      the same requests through HTTPResponder, net/http giving every request a new ResponseWriter
     proj w            (status, header map without framing fields -- X-Cache included --, relayed body) *)
From Reservoir Require Import Base.Prelude Model.Relay Model.Tunnel Proofs.Relay Proofs.Tunnel.

(* However many requests the tunnel carries, the responses are those each request gets alone. *)
Theorem C10_isolation : forall xs, tunnel_run xs = map single_exchange xs.
Proof. exact tunnel_isolation. Qed.
Print Assumptions C10_isolation.

(* ... from whatever responder state the tunnel is in ... *)
Theorem C10_isolation_any_state : forall s xs, tunnel_loop false s xs = map single_exchange xs.
Proof. exact tunnel_isolation_any_state. Qed.
Print Assumptions C10_isolation_any_state.

(* ... so a response never depends on what came before it on the tunnel. *)
Theorem C10_no_leak : forall pre pre' x,
  nth (length pre) (tunnel_run (pre ++ [x])) [] = nth (length pre') (tunnel_run (pre' ++ [x])) [].
Proof. exact response_depends_on_own_exchange. Qed.
Print Assumptions C10_no_leak.

(* The loop that keeps one responder (the code before the fix) is not isolated: the model itself
   exhibits the leak, so the theorem above is about the construction of the responder per request. *)
Theorem C10_shared_responder_leaks :
  tunnel_loop true fresh [leak_first; leak_second] <> map single_exchange [leak_first; leak_second].
Proof. exact reuse_leaks. Qed.
Print Assumptions C10_shared_responder_leaks.

(* Tunnel = plain proxying on status, end-to-end fields, X-Cache and body, for every history. *)
Theorem C10_equals_plain : forall xs,
  Forall sane_exchange xs -> map (map proj) (tunnel_run xs) = map (map proj) (plain_run xs).
Proof. exact tunnel_equals_plain. Qed.
Print Assumptions C10_equals_plain.

(* The two responders agree for every sequence of header calls followed by one write. *)
Theorem C10_responders_agree : forall sc,
  wf_script sc -> map proj (snd (raw_script fresh sc)) = map proj (plain_script sc).
Proof. exact script_responders_agree. Qed.
Print Assumptions C10_responders_agree.

Theorem C10_same_xcache : forall x w w',
  sane_exchange x -> single_exchange x = [w] -> plain_exchange x = [w'] ->
  hraw_get s_X_Cache (w_hdrs w) = hraw_get s_X_Cache (w_hdrs w') /\ w_status w = w_status w'.
Proof. exact tunnel_same_xcache. Qed.
Print Assumptions C10_same_xcache.

(* --- non-vacuity -------------------------------------------------------- *)
(* the leaking pair, on the loop as it is now: second response chunked, whole body, no Content-Range *)
Example ex_now :
  match nth 1 (tunnel_run [leak_first; leak_second]) [] with
  | [w] => w_body w = [104;101;108;108;111;32;119;111;114;108;100] /\ hraw_get s_Content_Range (w_hdrs w) = [] /\ w_framing w = FChunked
  | _ => False
  end.
Proof. vm_compute. repeat split. Qed.
Example ex_before :
  match nth 1 (tunnel_loop true fresh [leak_first; leak_second]) [] with
  | [w] => w_body w = [104;101;108;108] /\ hraw_get s_Content_Range (w_hdrs w) <> [] /\ w_framing w = FLen 4
  | _ => False
  end.
Proof. exact reuse_leak_shape. Qed.
Example ex_first_is_206 :
  match nth 0 (tunnel_run [leak_first; leak_second]) [] with
  | [w] => w_status w = 206 /\ w_framing w = FLen 4 /\ w_body w = [50;51;52;53]
  | _ => False
  end.
Proof. vm_compute. repeat split. Qed.
(* HEAD and 204: nothing follows the header block *)
Example ex_head_chunked :
  match single_exchange {| x_meth := MHead; x_proto := []; x_kind := KDirect 200 [] []; x_body := [1;2;3] |} with
  | [w] => w_body w = [] /\ w_framing w = FChunked
  | _ => False
  end.
Proof. vm_compute. repeat split. Qed.
Example ex_204 :
  match single_exchange {| x_meth := MPlain; x_proto := []; x_kind := KDirect 204 [] []; x_body := [] |} with
  | [w] => w_body w = [] /\ w_framing w = FBare
  | _ => False
  end.
Proof. vm_compute. repeat split. Qed.
Example ex_sane : sane_exchange leak_second.
Proof.
  intros pre st body H. vm_compute in H.
  destruct pre as [|o1 [|o2 [|o3 [|o4 [|o5 [|o6 pre]]]]]]; cbn in H; inversion H; subst.
  - vm_compute. split; intros; discriminate.
  - destruct pre; discriminate.
Qed.
