(* C10 — placeholder while the proofs are being written *)
From Reservoir Require Import Base.Prelude Model.Relay Model.Tunnel.
Theorem C10_placeholder : True.
Proof. exact I. Qed.
Print Assumptions C10_placeholder.
