(* C06 — Revalidation uses the stored validators; 304 and 200 update the entry correctly.
   This file contains only statements; every proof is [exact <lemma>].

   Model/Proxy.v: [proxy_step cfg now st rq answers flt] is one client request (no Range
   field) for one resource; [rq_hdr rq] holds the conditional fields the client sent (names
   0..3 = If-None-Match, If-Modified-Since, If-Match, If-Unmodified-Since, the "regular"
   conditionals; 4 = If-Range), [answers] the origin's results in order, [flt] the cache
   faults.  [ev_ups ev] are the requests the origin received during event [ev].
   [revalidates st rq flt now e]: [e] is stored, stale, readable and the request is a GET.
   [carries_validators e h]: If-None-Match = the saved ETag iff it is not empty,
   If-Modified-Since = the saved Last-Modified, no If-Match, no If-Unmodified-Since.
   [prov past e]: the body, ETag and Last-Modified of [e] are those of a 200 answer the
   origin gave during [past] (Last-Modified = the store time when that answer had none).

   Interpretation: If-Range is not one of "the conditional headers sent by the client ...
   forwarded in their place": it modifies a Range request and is passed on untouched. *)
From Reservoir Require Import Base.Prelude Base.Strings Model.Freshness Model.Proxy Proofs.Proxy.

(* Whatever regular conditionals the client sends, nothing changes: same upstream requests, same
   response, same entry afterwards. *)
Theorem C06_client_conditionals_ignored : forall cfg now st rq rq' answers flt,
  rq_meth rq = rq_meth rq' ->
  strip_regular (rq_hdr rq) = strip_regular (rq_hdr rq') ->
  proxy_step cfg now st rq answers flt = proxy_step cfg now st rq' answers flt.
Proof. exact step_ignores_client_conditionals. Qed.
Print Assumptions C06_client_conditionals_ignored.

(* In every history, for every request: each upstream request carries no regular conditional at
   all, or exactly the validators of the entry that was stored and stale when the request came
   in, and those are the validators of a 200 answer the origin gave earlier; a stale entry IS
   revalidated (the first upstream request carries them); other fields pass as the client sent them. *)
Theorem C06_validators : forall cfg0 now0 h evs1 ev evs2,
  events (init_state cfg0 now0) h = evs1 ++ ev :: evs2 ->
  Forall (fun u =>
            no_conditionals (u_hdr u)
            \/ exists e, revalidates (ev_before ev) (ev_rq ev) (ev_flt ev) (ev_now ev) e
                         /\ carries_validators e (u_hdr u) /\ prov evs1 e) (ev_ups ev)
  /\ (forall e, revalidates (ev_before ev) (ev_rq ev) (ev_flt ev) (ev_now ev) e ->
        exists u t, ev_ups ev = u :: t /\ carries_validators e (u_hdr u))
  /\ Forall (fun u => forall k, is_regular k = false -> get_field k (u_hdr u) = get_field k (rq_hdr (ev_rq ev))) (ev_ups ev).
Proof. exact validators_history. Qed.
Print Assumptions C06_validators.

(* A 304 keeps the stored entry - body, validators, store time - and moves its expiry to
   now + default_max_age; that entry is what the client is served (REVALIDATED); one upstream
   request was made, the conditional one. *)
Theorem C06_304 : forall cfg now e rq a rest flt,
  revalidates (Some e) rq flt now e ->
  f_vanish flt = false -> f_reget flt = RgOk ->
  oa_status a = 304 ->
  let e' := renew e (now + default_age (pc_pol cfg)) in
  proxy_step cfg now (Some e) rq (OAnswer a :: rest) flt =
  (Some e', RStored HsRevalidated 304 e',
   [{| u_meth := GET; u_hdr := set_validators e (strip_regular (rq_hdr rq)) |}]).
Proof. exact revalidation_304. Qed.
Print Assumptions C06_304.

(* the renewed lifetime is the configured default, exactly *)
Theorem C06_304_lifetime : forall e now dflt d,
  fresh (renew e (now + dflt)) (now + d) = true <-> d <= dflt.
Proof. exact renewed_lifetime. Qed.
Print Assumptions C06_304_lifetime.

(* while it lasts, a GET is answered from the store with that entry and the origin is not asked *)
Theorem C06_304_in_service : forall cfg now e' rq answers flt,
  is_get (rq_meth rq) = true -> f_lookup_err flt = false -> fresh e' now = true ->
  proxy_step cfg now (Some e') rq answers flt = (Some e', RStored HsHit 0 e', []).
Proof. exact after_304_hit. Qed.
Print Assumptions C06_304_in_service.

(* A storable 200 that the cache accepts replaces the entry; the new body is served. *)
Theorem C06_200_replaces : forall cfg now st rq a rest flt,
  is_get (rq_meth rq) = true ->
  (match st with Some e => f_lookup_err flt = false /\ fresh e now = false | None => True end) ->
  oa_status a = 200 -> storable (pc_pol cfg) GET 200 (oa_hv a) now = true -> f_store_fail flt = false ->
  let e' := new_entry (pc_pol cfg) now a in
  exists u, proxy_step cfg now st rq (OAnswer a :: rest) flt =
            (Some e', RStored (match st with Some _ => HsRevalidated | None => HsMiss end) 200 e', [u]).
Proof. exact revalidation_200. Qed.
Print Assumptions C06_200_replaces.

(* ... after which, in EVERY continuation of the history, whatever is served from the store is the
   new body or one the origin handed out in a later 200 answer: the replaced body is never served
   again (unless the origin itself issues that version again). *)
Theorem C06_old_body_never_served : forall cfg now st rq a rest flt h evs1 ev evs2,
  is_get (rq_meth rq) = true ->
  (match st with Some e => f_lookup_err flt = false /\ fresh e now = false | None => True end) ->
  oa_status a = 200 -> storable (pc_pol cfg) GET 200 (oa_hv a) now = true -> f_store_fail flt = false ->
  let s1 := fst (step {| hs_cfg := cfg; hs_now := now; hs_entry := st |} (Request rq (OAnswer a :: rest) flt)) in
  events s1 h = evs1 ++ ev :: evs2 ->
  forall hs us e, ev_resp ev = RStored hs us e ->
  In (e_version e) (oa_version a :: versions200 (issued (evs1 ++ [ev]))).
Proof. exact replaced_never_served. Qed.
Print Assumptions C06_old_body_never_served.

(* Any other answer to a revalidation (not 200 / 304; a 416 unless retry_on_range_416; a 200 that
   may not be stored): the entry is neither replaced nor renewed, the client's own request is sent
   again without validators and the origin's answer to it is relayed. *)
Theorem C06_other_relayed : forall cfg now e rq a rest flt,
  revalidates (Some e) rq flt now e ->
  other_answer cfg now a ->
  proxy_step cfg now (Some e) rq (OAnswer a :: rest) flt =
  (vanished flt (Some e),
   match rest with OAnswer a2 :: _ => RRelay a2 | _ => RBadGateway end,
   [{| u_meth := GET; u_hdr := set_validators e (strip_regular (rq_hdr rq)) |};
    {| u_meth := GET; u_hdr := strip_regular (rq_hdr rq) |}]).
Proof. exact revalidation_other. Qed.
Print Assumptions C06_other_relayed.

(* ---- the hypotheses are satisfiable ------------------------------------------------------------------ *)

Definition ex_cfg : pconfig := {| pc_pol := {| ignore_cc := false; force_default := false; default_age := 3600 * second |};
                                  pc_retry416 := false |}.
Definition ex_hv : hview := {| cc_lines := [[109;97;120;45;97;103;101;61;54;48]]; expires := ExpAbsent; resp_range := false |}.
Definition ex_a (v : Z) (tag : str) (lm : option Z) : oanswer :=
  {| oa_status := 200; oa_hv := ex_hv; oa_version := v; oa_etag := tag; oa_lm := lm |}.
Definition ex_st (s : Z) : oanswer :=
  {| oa_status := s; oa_hv := {| cc_lines := []; expires := ExpAbsent; resp_range := false |}; oa_version := 9; oa_etag := []; oa_lm := None |}.
(* the client sends an RFC 850 date and a tag of its own *)
Definition ex_rq : request :=
  {| rq_meth := GET; rq_hdr := [(IF_NONE_MATCH, [CRaw [34;120;34]]); (IF_MODIFIED_SINCE, [CRaw [83;117;110;100;97;121]]); (IF_RANGE, [CRaw [34;114;34]])] |}.

(* miss (stored), stale -> 304, stale -> 404 (relayed), stale -> 200 (replaced), hit *)
Definition ex_history : list hstep :=
  [ Request ex_rq [OAnswer (ex_a 1 [34;97;34] (Some 5))] no_faults;
    Advance (100 * second);
    Request ex_rq [OAnswer (ex_st 304)] no_faults;
    Advance (4000 * second);
    Request ex_rq [OAnswer (ex_st 404); OAnswer (ex_st 404)] no_faults;
    Request ex_rq [OAnswer (ex_a 2 [] None)] no_faults;
    Advance (10 * second);
    Request ex_rq [] no_faults ].

Example C06_example :
  map (fun ev => (status_of (ev_resp ev), version_of (ev_resp ev), label_of (ev_resp ev), map u_hdr (ev_ups ev)))
      (events (init_state ex_cfg 0) ex_history)
  = [ (200, 1, Some HsMiss, [[(IF_RANGE, [CRaw [34;114;34]])]]);
      (200, 1, Some HsRevalidated, [[(IF_NONE_MATCH, [CRaw [34;97;34]]); (IF_MODIFIED_SINCE, [CDate 5]); (IF_RANGE, [CRaw [34;114;34]])]]);
      (404, 9, None, [[(IF_NONE_MATCH, [CRaw [34;97;34]]); (IF_MODIFIED_SINCE, [CDate 5]); (IF_RANGE, [CRaw [34;114;34]])];
                      [(IF_RANGE, [CRaw [34;114;34]])]]);
      (200, 2, Some HsRevalidated, [[(IF_NONE_MATCH, [CRaw [34;97;34]]); (IF_MODIFIED_SINCE, [CDate 5]); (IF_RANGE, [CRaw [34;114;34]])]]);
      (200, 2, Some HsHit, []) ].
Proof. vm_compute. reflexivity. Qed.
