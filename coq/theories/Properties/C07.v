(* C07 — Range answers are exact slices or explicit refusals.
   This file contains only statements; every proof is [exact <lemma>]. *)
From Reservoir Require Import Base.Prelude Model.Range Proofs.Range.

(* No Range header string makes the parser index out of bounds (no dropped connection). *)
Theorem C07_parse_total : forall s : str, parse_range s <> Panic.
Proof. exact parse_range_no_panic. Qed.
Print Assumptions C07_parse_total.

(* ... nor the request handling built on it, for every If-Range form, stored entry and retry setting. *)
Theorem C07_answer_total : forall retry hdr ir st, serve_range retry hdr ir st <> APanic.
Proof. exact serve_range_no_panic. Qed.
Print Assumptions C07_answer_total.

(* A 206 lies inside the stored representation and announces the slice length. *)
Theorem C07_partial_inside : forall retry rng ir st a b len,
  range_answer retry rng ir st = Partial a b len ->
  0 <= a /\ a <= b /\ b < st_size st /\ len = b - a + 1.
Proof. exact range_answer_inside. Qed.
Print Assumptions C07_partial_inside.

(* ... and carries exactly those bytes of the stored body. *)
Theorem C07_section_length : forall body a len,
  0 <= a -> 0 <= len -> a + len <= zlen body -> zlen (section body a len) = len.
Proof. exact section_length. Qed.
Print Assumptions C07_section_length.

Theorem C07_section_bytes : forall body a len i d,
  0 <= a -> (i < Z.to_nat len)%nat ->
  nth i (section body a len) d = nth (Z.to_nat a + i) body d.
Proof. exact section_nth. Qed.
Print Assumptions C07_section_bytes.

(* A well-formed single byte range (RFC 9110 grammar, digit strings of any
   length, values unbounded) is either served as exactly that range or not
   served as a 206 at all: never a different slice. *)
Theorem C07_wellformed_exact : forall retry hdr ir st sp a b len,
  0 <= st_size st <= max_int64 ->
  wellformed_spec hdr = Some sp ->
  serve_range retry hdr ir st = Partial a b len ->
  (a, b) = spec_slice sp (st_size st).
Proof. exact wellformed_exact. Qed.
Print Assumptions C07_wellformed_exact.

(* ... and it is served whenever it lies inside the representation. *)
Theorem C07_wellformed_inside_served : forall retry hdr st sp,
  0 <= st_size st <= max_int64 ->
  wellformed_spec hdr = Some sp ->
  let '(a, b) := spec_slice sp (st_size st) in
  0 <= a -> a <= b -> b < st_size st ->
  match sp with
  | SSuffix n => 0 <= n <= max_int64
  | SFrom x => x <= max_int64
  | SFromTo x y => x <= max_int64 /\ y <= max_int64
  end ->
  serve_range retry hdr IRNone st = Partial a b (b - a + 1).
Proof. exact wellformed_inside_served. Qed.
Print Assumptions C07_wellformed_inside_served.

(* Everything else is a 416 stating the representation size, or the full 200. *)
Theorem C07_refusals : forall retry rng ir st,
  match range_answer retry rng ir st with
  | Partial _ _ _ => True
  | Refuse416 sz => sz = st_size st /\ retry = false
  | Full s => s = 200
  | APanic => False
  end.
Proof. exact range_answer_refusals. Qed.
Print Assumptions C07_refusals.

(* An If-Range that differs from the stored validator never yields a 206. *)
Theorem C07_if_range_tag_mismatch : forall retry rng st t,
  t <> st_etag st -> range_answer retry (Some rng) (IRTag t) st <> Full 200 ->
  exists sz, range_answer retry (Some rng) (IRTag t) st = Refuse416 sz.
Proof. exact if_range_mismatch_full. Qed.
Print Assumptions C07_if_range_tag_mismatch.

(* a date validator matches only the stored Last-Modified itself: an older AND a later date get the full 200 *)
Theorem C07_if_range_time_mismatch : forall retry rng st t,
  t <> st_lastmod st -> range_answer retry (Some rng) (IRTime t) st <> Full 200 ->
  exists sz, range_answer retry (Some rng) (IRTime t) st = Refuse416 sz.
Proof. exact if_range_time_mismatch_full. Qed.
Print Assumptions C07_if_range_time_mismatch.

(* Non-vacuity: bytes=0-499 on 1000 bytes; suffix; open-ended; sizes 0 and 1;
   an overflowing number. *)
Definition st1000 := {| st_size := 1000; st_etag := [34;97;34]; st_lastmod := 0 |}.
Definition b (s : list Z) := [98;121;116;101;115;61] ++ s.
Example ex_simple : serve_range false (b [48;45;52;57;57]) IRNone st1000 = Partial 0 499 500.
Proof. vm_compute. reflexivity. Qed.
Example ex_suffix : serve_range false (b [45;53;48;48]) IRNone st1000 = Partial 500 999 500.
Proof. vm_compute. reflexivity. Qed.
Example ex_open : serve_range false (b [53;48;48;45]) IRNone st1000 = Partial 500 999 500.
Proof. vm_compute. reflexivity. Qed.
Example ex_size0 : serve_range false (b [48;45;48]) IRNone {| st_size := 0; st_etag := []; st_lastmod := 0 |} = Refuse416 0.
Proof. vm_compute. reflexivity. Qed.
Example ex_size1 : serve_range true (b [45;49]) IRNone {| st_size := 1; st_etag := []; st_lastmod := 0 |} = Partial 0 0 1.
Proof. vm_compute. reflexivity. Qed.
(* 18446744073709551617-18446744073709551618 *)
Example ex_overflow :
  serve_range false (b [49;56;52;52;54;55;52;52;48;55;51;55;48;57;53;53;49;54;49;55;45;49;56;52;52;54;55;52;52;48;55;51;55;48;57;53;53;49;54;49;56]) IRNone st1000 = Full 200.
Proof. vm_compute. reflexivity. Qed.
Example ex_wf : wellformed_spec (b [48;45;52;57;57]) = Some (SFromTo 0 499).
Proof. vm_compute. reflexivity. Qed.
