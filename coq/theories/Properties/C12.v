(* C12 — Reported cache size and entry count equal what is actually stored.
   Statements only; every proof is [exact <lemma of Proofs/Store.v>].

   [run b lim acts] is the state of backend [b] (Mem | File) with size limit
   [lim] after ANY list of actions: stores split into begin / write chunk /
   abort (source failed) / commit (incl. empty bodies, which the file backend
   refuses), overwrites, Get, reads, Close, Delete (also of missing keys),
   UpdateMetadata, clock advances, cleanup cycles with arbitrary skipped keys,
   evictions removing an arbitrary key set (also the ones triggered inside a
   store), and restarts over the dirty directory (also in the middle of a
   store, leaving a partial temp file behind). *)
From Reservoir Require Import Base.Prelude Base.Amap Model.Store Proofs.Store Model.Counters Proofs.Counters.

(* The inductive invariant behind everything below holds initially and is
   preserved by every single action from every state satisfying it. *)
Theorem C12_invariant_init : forall b, Inv b init.
Proof. exact inv_init. Qed.
Print Assumptions C12_invariant_init.

Theorem C12_invariant_step : forall b lim s a, Inv b s -> Inv b (fst (step b lim s a)).
Proof. exact step_inv. Qed.
Print Assumptions C12_invariant_step.

(* In every reachable state, for both backends:
   byteSize = total number of bytes of the bodies Get actually returns,
   entry-count metric = number of keys Get returns,
   bytes metric = byteSize,
   every returned Metadata.Size is the length of the returned body,
   (file backend, no store in progress) the directory contains exactly one
   file <hex k> per retrievable key k, of exactly the body's size, nothing else,
   and no counter is negative. *)
Theorem C12_accounting : forall b lim acts,
  let s := run b lim acts in
  s_bs s = sum_data (retrievable b s) /\
  s_me s = zlen (retrievable b s) /\
  s_mb s = s_bs s /\
  (forall k d sz o, In (k, (d, sz, o)) (retrievable b s) -> sz = zlen d) /\
  (b = File -> quiescent s = true ->
     forall n sz, In (n, sz) (dir_listing s) <->
                  exists k d sz' o, n = nkey k /\ In (k, (d, sz', o)) (retrievable b s) /\ sz = zlen d) /\
  NoDup (map fst (dir_listing s)) /\
  0 <= s_bs s /\ 0 <= s_me s /\ 0 <= s_mb s.
Proof. exact accounting_run. Qed.
Print Assumptions C12_accounting.

(* A restart leaves nothing behind: empty directory, zero counters, nothing retrievable. *)
Theorem C12_restart_clean : forall b lim acts,
  let s := run b lim (acts ++ [AReopen]) in
  s_bs s = 0 /\ s_me s = 0 /\ s_mb s = 0 /\ retrievable b s = [] /\ dir_listing s = [].
Proof. exact restart_clean. Qed.
Print Assumptions C12_restart_clean.

(* ---- the hypotheses are satisfiable by non-trivial histories ---- *)
Definition ex_overwrite : list act :=
  [ ABegin 0 3600 1 []; AWrite 0 [65;65;65]; AWrite 0 [65;65]; ACommit 0;      (* 5 bytes *)
    ABegin 0 3600 2 []; AWrite 0 [66;66;66]; ACommit 0;                         (* overwrite with 3 bytes *)
    ABegin 1 3600 3 []; AWrite 1 [67]; AAbort 1;                                (* failed store *)
    ABegin 0 3600 4 []; ACommit 0;                                              (* empty store over an existing key *)
    ABegin 2 (-5) 5 []; AWrite 2 [68;68]; ACommit 2; ACleanup []; ADelete 7 ].  (* expiry, delete of a missing key *)

Example ex_overwrite_file :
  let s := run File 1000 ex_overwrite in
  (s_bs s, s_mb s, s_me s, dir_listing s, map fst (retrievable File s)) = (3, 3, 1, [(0, 3)], [0]).
Proof. vm_compute. reflexivity. Qed.

Example ex_overwrite_mem :
  let s := run Mem 1000 ex_overwrite in
  (s_bs s, s_mb s, s_me s, map fst (retrievable Mem s)) = (0, 0, 1, [0]).   (* memory accepts the empty body *)
Proof. vm_compute. reflexivity. Qed.

Example ex_dirty_restart :
  let s := run File 1000 [ABegin 0 10 1 []; AWrite 0 [1;2]; ACommit 0; ABegin 1 10 2 []; AWrite 1 [3]] in
  (dir_listing s, quiescent s) = ([(0, 2); (3, 1)], false).                 (* <hex1>.tmp with 1 byte is on disk *)
Proof. vm_compute. reflexivity. Qed.

(* The two size counters at the granularity of their individual updates: any number of concurrent
   stores and removals, each moving the cache's byte counter first and the reported bytes_cached metric
   second, interleaved in any way.  Whenever no update is half-way (quiescence), the reported metric
   equals the byte counter. *)
Theorem C12_metric_quiescent : forall l s',
  crun false c_init l = Some s' -> quiescent_c s' = true -> c_metric s' = c_bytes s'.
Proof. exact metric_quiescent. Qed.
Print Assumptions C12_metric_quiescent.

(* With the janitor overwriting the metric by the byte counter it reads (the code before the repair)
   the claim is false: one cleanup cycle between the two halves of one store. *)
Theorem C12_metric_quiescent_refuted_with_janitor_set :
  exists l s', crun true c_init l = Some s' /\ quiescent_c s' = true /\ c_metric s' <> c_bytes s'.
Proof. exact metric_quiescent_refuted_with_set. Qed.
Print Assumptions C12_metric_quiescent_refuted_with_janitor_set.
