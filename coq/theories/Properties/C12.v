From Reservoir Require Import Base.Prelude Base.Amap Model.Store.
Theorem C12_placeholder : s_bs init = 0.
Proof. exact eq_refl. Qed.
Print Assumptions C12_placeholder.
