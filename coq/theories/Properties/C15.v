(* C15 — Shared proxy state is free of data races.  Statements only. *)
From Reservoir Require Import Base.Prelude Model.Sync Model.Race Model.RaceTable Model.Lockset Model.Discipline Model.Inventory Proofs.Race Proofs.RaceTable Proofs.Discipline.

(* Lockset discipline => race freedom: ANY number of threads, EVERY schedule.
   [guarded G [] p]: every plain read of a location x in p happens while holding G x, every
   plain write while holding it in write mode.  [has_race]: two different threads are both about
   to perform a plain access to the same location and one of them writes. *)
Theorem C15_lockset_sound : forall G ps sched s',
  forallb (guarded G []) ps = true ->
  rrun (rspawn ps) sched = Some s' -> has_race s' = false.
Proof. exact lockset_sound. Qed.
Print Assumptions C15_lockset_sound.

(* The three-way sharing discipline of the shared-state inventory: every location is lock-guarded, or never
   written once the threads run, or confined to one thread.  ANY number of threads, EVERY schedule: no race.
   (C15_lockset_sound is the special case in which every location is guarded: C15_guarded_is_disciplined.) *)
Theorem C15_discipline_sound : forall C ps sched s',
  disc_all C 0%nat ps = true ->
  rrun (rspawn ps) sched = Some s' -> has_race s' = false.
Proof. exact discipline_sound. Qed.
Print Assumptions C15_discipline_sound.

Theorem C15_guarded_is_disciplined : forall G C me,
  (forall x g, G x = Some g -> C x = CGuard g) ->
  forall p h, guarded G h p = true -> disc C me h p = true.
Proof. exact guarded_disc. Qed.
Print Assumptions C15_guarded_is_disciplined.

(* Every operation of the access table obeys the discipline, for EVERY key -> shard map
   (every shard count, every hash) and every key / victim list. *)
Theorem C15_table_guarded : forall sh p, table_op sh p -> guarded (G sh) [] p = true.
Proof. exact table_guarded. Qed.
Print Assumptions C15_table_guarded.

(* Hence: cache API calls on both backends, store-triggered eviction, janitor cycles, the memory
   budget listener, event subscribe / unsubscribe / fire / delivery, SyncMap operations, session
   lookups and GC, certificate issuance — any number of each, interleaved in any way — never race. *)
Theorem C15_table_race_free : forall sh ps sched s',
  (forall p, In p ps -> table_op sh p) ->
  rrun (rspawn ps) sched = Some s' -> has_race s' = false.
Proof. exact table_race_free. Qed.
Print Assumptions C15_table_race_free.

(* The location encoding used by the table is injective (dec is a left inverse). *)
Theorem C15_locations_distinct : forall x, dec (enc x) = x.
Proof. exact dec_enc. Qed.
Print Assumptions C15_locations_distinct.

(* ------------------------------------------------------------------ *)
(* Non-vacuity and discrimination: the code BEFORE the repairs. *)
Definition sh1 : nat -> nat := fun _ => 0%nat.

(* janitor scan reading live metadata without the entry's lock, against UpdateMetadata *)
Example ex_old_scan_unguarded : guarded (G sh1) [] (old_janitor_scan [0%nat]) = false.
Proof. vm_compute. reflexivity. Qed.

Example ex_old_scan_races :
  exists s', rrun (rspawn [old_janitor_scan [0%nat]; op_update sh1 0])
                  [(0,true);(0,true);(0,true);(1,true);(1,true);(1,true);(1,true);(1,false)]%nat = Some s'
             /\ has_race s' = true.
Proof. eexists. split; vm_compute; reflexivity. Qed.

(* the repaired scan against the same writer: guarded, and the same prefix of a schedule cannot
   even be run to a conflicting state (the TryRLock fails while the writer holds the shard lock) *)
Example ex_new_scan_guarded : guarded (G sh1) [] (op_janitor_cycle sh1 [0%nat] [] [] []) = true.
Proof. vm_compute. reflexivity. Qed.

(* SyncMap iteration without the lock against a Set: the runtime's "concurrent map iteration and map write" *)
Example ex_old_iterate_races :
  exists s', rrun (rspawn [old_sm_iterate 0; op_sm_set 0]) [(1,true)]%nat = Some s' /\ has_race s' = true.
Proof. eexists. split; vm_compute; reflexivity. Qed.

(* a regenerated lockset record: field 0 read while holding the map lock in read mode is fine, a write is not *)
Example ex_access_ok :
  access_ok (fun _ => SMu) (mk_access 0 false [(SMu, AR)]) = true /\
  access_ok (fun _ => SMu) (mk_access 0 true [(SMu, AR)]) = false /\
  access_ok (fun _ => SMu) (mk_access 0 false [(SShard 1, AW)]) = false.
Proof. repeat split; reflexivity. Qed.

(* ------------------------------------------------------------------ *)
(* The discipline discriminates: a reader and a writer of a read-only location race, and the writer is rejected;
   two threads may both read it; a confined location may be written by its owner only. *)
Definition Cx : loc -> lclass := fun x => match x with O => CReadOnly | S O => COwner 1%nat | _ => CGuard Mu end.
Example ex_readonly_two_readers : disc_all Cx 0%nat [RAcc 0%nat false RDone; RAcc 0%nat false (RAcc 1%nat true RDone)] = true.
Proof. vm_compute. reflexivity. Qed.
Example ex_readonly_writer_rejected : disc_all Cx 0%nat [RAcc 0%nat false RDone; RAcc 0%nat true RDone] = false.
Proof. vm_compute. reflexivity. Qed.
Example ex_readonly_writer_races : has_race (rspawn [RAcc 0%nat false RDone; RAcc 0%nat true RDone]) = true.
Proof. vm_compute. reflexivity. Qed.
Example ex_confined_foreign_rejected : disc_all Cx 0%nat [RAcc 1%nat true RDone; RAcc 1%nat true RDone] = false.
Proof. vm_compute. reflexivity. Qed.

(* The inventory classifier: a field without post-publication writes is fine; a plain counter bumped in Get is not;
   the map of the memory backend is accepted because the lockset tables decide its accesses. *)
From Coq Require Import String.
Open Scope string_scope.
Example ex_inventory_classifier :
  unclassified [ mk_loc "cache.MemoryCache.locks" "[]sync.RWMutex" false [];
                 mk_loc "cache.MemoryCache.hits" "int" false [mk_w "cache:MemoryCache.Get" WSlot];
                 mk_loc "cache.MemoryCache.entries" "map[cache.CacheKey]*cache.memoryInternalEntry[MetadataT]" false [mk_w "cache:MemoryCache.cacheInternal" WElem] ]
  = ["cache.MemoryCache.hits"].
Proof. vm_compute. reflexivity. Qed.

(* a mutex outside the packages whose skeleton is regenerated is reported *)
Example ex_unknown_lock :
  unknown_locks [ mk_loc "cache.MemoryCache.mu" "sync.RWMutex" true [];
                  mk_loc "proxy.fetcher.mu" "sync.Mutex" true [] ] = ["proxy.fetcher.mu"].
Proof. vm_compute. reflexivity. Qed.
