(* C08 — Relayed traffic is faithful in both directions.
   This file contains only statements; every proof is [exact <lemma>].
   Vocabulary (Model/Relay.v, Proofs/Relay.v):
     hvalues n h            all values of field n (any case) in header map h, in order
     wf_hdrs h              h is a header map as net/http builds it: unique, canonical keys
     end_to_end n h         n is none of the nine hop-by-hop fields and no element of a Connection value of h names it
     response_headers x     header map the responder holds when handleHTTP writes the response of exchange x
     relay_request r        the request as it leaves the proxy for the client request r *)
From Reservoir Require Import Base.Prelude Model.Relay Proofs.Relay.

(* --- responses ---------------------------------------------------------- *)
(* Relayed (not stored) response: every end-to-end field the origin sent arrives with all of
   its values in order, for every origin header map; the only fields the proxy writes itself
   on a 2xx are Accept-Ranges, Cache-Status, X-Cache, Via ... *)
Theorem C08_response_headers_relayed : forall meth proto status origin cs body n,
  wf_hdrs origin -> end_to_end n origin -> not_in n owned_direct ->
  hvalues n (response_headers {| x_meth := meth; x_proto := proto; x_kind := KDirect status origin cs; x_body := body |})
  = hvalues n origin.
Proof. exact direct_headers_faithful. Qed.
Print Assumptions C08_response_headers_relayed.

(* ... and on any other status it writes none: the whole end-to-end header passes. *)
Theorem C08_response_headers_relayed_non2xx : forall meth proto status origin cs body n,
  wf_hdrs origin -> end_to_end n origin -> (200 <=? status) && (status <? 300) = false ->
  hvalues n (response_headers {| x_meth := meth; x_proto := proto; x_kind := KDirect status origin cs; x_body := body |})
  = hvalues n origin.
Proof. exact direct_non2xx_headers_faithful. Qed.
Print Assumptions C08_response_headers_relayed_non2xx.

(* Via, X-Cache and Cache-Status are appended after the origin's own values, never replace them. *)
Theorem C08_response_headers_appended : forall meth proto status origin cs body,
  wf_hdrs origin -> (200 <=? status) && (status <? 300) = true ->
  let x := {| x_meth := meth; x_proto := proto; x_kind := KDirect status origin cs; x_body := body |} in
  (end_to_end s_Via origin -> hvalues s_Via (response_headers x) = hvalues s_Via origin ++ [proto ++ s_sp_reservoir]) /\
  (end_to_end s_X_Cache origin -> hvalues s_X_Cache (response_headers x) = hvalues s_X_Cache origin ++ [s_MISS]) /\
  (end_to_end s_Cache_Status origin -> hvalues s_Cache_Status (response_headers x) = hvalues s_Cache_Status origin ++ [cs]).
Proof. exact direct_appends. Qed.
Print Assumptions C08_response_headers_appended.

(* Response served from the store (miss just stored, hit, revalidated). *)
Theorem C08_response_headers_stored : forall meth proto hs origin etag lm cs age body n,
  wf_hdrs origin -> end_to_end n origin -> not_in n owned_stored ->
  hvalues n (response_headers {| x_meth := meth; x_proto := proto; x_kind := KStored hs origin etag lm cs age; x_body := body |})
  = hvalues n origin.
Proof. exact stored_headers_faithful. Qed.
Print Assumptions C08_response_headers_stored.

(* 206 from the store: Content-Length / Content-Range are the slice's. *)
Theorem C08_response_headers_partial : forall meth proto origin etag lm cr clen section body n,
  wf_hdrs origin -> end_to_end n origin -> not_in n owned_partial ->
  hvalues n (response_headers {| x_meth := meth; x_proto := proto; x_kind := KPartial origin etag lm cr clen section; x_body := body |})
  = hvalues n origin.
Proof. exact partial_headers_faithful. Qed.
Print Assumptions C08_response_headers_partial.

(* Status is the origin's (a stored entry is always a 200) and the body handed to the responder
   is the origin's / the stored one, after header calls only; HEAD gets none. *)
Theorem C08_body_passthrough : forall x,
  match x_kind x with KDirect _ _ _ => True | KStored _ _ _ _ _ _ => True | _ => False end ->
  exists pre, exchange_ops x = pre ++ [RWrite (response_status x) (if x_head x then [] else x_body x)] /\
              Forall (fun o => match o with RWrite _ _ => False | RWriteError _ _ => False | _ => True end) pre.
Proof. exact body_passthrough. Qed.
Print Assumptions C08_body_passthrough.

(* --- hop-by-hop --------------------------------------------------------- *)
(* what "end to end" means, spelled out *)
Theorem C08_end_to_end_characterised : forall n h,
  end_to_end n h <->
  (forall n', In n' hop_headers -> canon_key n' <> canon_key n) /\
  (forall v e, In v (hvalues s_Connection h) -> In e (split_comma v) -> ~ element_names e n).
Proof. exact end_to_end_spec. Qed.
Print Assumptions C08_end_to_end_characterised.

(* Each of Connection, Proxy-Connection, Keep-Alive, Proxy-Authenticate, Proxy-Authorization, TE,
   Trailer, Transfer-Encoding, Upgrade, in any case, is removed from every header map. *)
Theorem C08_hop_by_hop_names : forall h n n',
  In n' hop_headers -> lower_str n' = lower_str n -> hvalues n (remove_hop_by_hop h) = [].
Proof. exact hop_name_removed. Qed.
Print Assumptions C08_hop_by_hop_names.

(* RFC 9110 7.6.1: a field named by a Connection option -- a token, in any case, with optional
   blanks around it, in any value of any Connection line -- is removed. *)
Theorem C08_hop_by_hop_nominated : forall h n v l t r,
  In v (hvalues s_Connection h) -> In (l ++ t ++ r) (split_comma v) ->
  Forall is_ows l -> Forall is_ows r -> t <> [] -> forallb valid_field_byte t = true ->
  lower_str t = lower_str n ->
  hvalues n (remove_hop_by_hop h) = [].
Proof. exact nominated_removed. Qed.
Print Assumptions C08_hop_by_hop_nominated.

(* Neither direction forwards such a field: towards the client (unless the proxy writes that field itself) ... *)
Theorem C08_hop_by_hop_response : forall x origin n,
  (match x_kind x with
   | KDirect _ o _ => o = origin | KStored _ o _ _ _ _ => o = origin | KPartial o _ _ _ _ _ => o = origin
   | _ => False end) ->
  wf_hdrs origin -> removed_by_hop (canon_key n) origin = true ->
  not_in n owned_stored -> not_in n owned_partial ->
  hvalues n (response_headers x) = [].
Proof. exact response_drops_hop. Qed.
Print Assumptions C08_hop_by_hop_response.

(* ... and towards the origin. *)
Theorem C08_hop_by_hop_request : forall r u n,
  relay_request r = Some u -> removed_by_hop (canon_key n) (c_hdrs r) = true -> hvalues n (q_hdrs u) = [].
Proof. exact request_drops_hop. Qed.
Print Assumptions C08_hop_by_hop_request.

(* --- requests ----------------------------------------------------------- *)
(* Method, body and query are unchanged and the path is byte for byte the client's,
   for every RFC 3986 path (pct-encoded octets such as %2F included) and every query. *)
Theorem C08_request : forall r,
  rfc_path (c_rawpath r) ->
  exists u, relay_request r = Some u /\
            q_method u = c_method r /\ q_body u = c_body r /\
            q_target u = with_query (c_rawpath r) (c_query r).
Proof. exact request_faithful. Qed.
Print Assumptions C08_request.

Theorem C08_request_path : forall p,
  rfc_path p -> exists path raw, set_path p = Some (path, raw) /\ escaped_path path raw = p.
Proof. exact path_preserved. Qed.
Print Assumptions C08_request_path.

(* Every end-to-end request field reaches the origin with all its values in order; only on the methods the cache may
   answer itself (GET, HEAD) are the client's conditionals consumed by the cache layer. *)
Theorem C08_request_headers : forall r u n,
  relay_request r = Some u -> end_to_end n (c_hdrs r) -> (cache_answers (c_method r) = true -> ~ is_conditional n) ->
  hvalues n (q_hdrs u) = hvalues n (c_hdrs r).
Proof. exact request_headers_faithful. Qed.
Print Assumptions C08_request_headers.

(* In particular a write (PUT, DELETE, PATCH, POST, ...) reaches the origin with its preconditions (If-Match, ...). *)
Theorem C08_write_preconditions : forall r u n,
  relay_request r = Some u -> cache_answers (c_method r) = false -> end_to_end n (c_hdrs r) ->
  hvalues n (q_hdrs u) = hvalues n (c_hdrs r).
Proof. exact write_headers_faithful. Qed.
Print Assumptions C08_write_preconditions.

(* --- non-vacuity -------------------------------------------------------- *)
Definition b_set_cookie : str := [83;101;116;45;67;111;111;107;105;101].
Definition b_x_foo : str := [88;45;70;111;111].
Definition ex_origin : hdrs :=
  [ (b_set_cookie, [[97;61;49]; [98;61;50]])                  (* Set-Cookie: a=1 / b=2 *)
  ; (s_Connection, [[32;120;45;102;79;111;32;44;99;108;111;115;101]])   (* Connection: " x-fOo ,close" *)
  ; (b_x_foo, [[115;101;99;114;101;116]])                     (* X-Foo: secret *)
  ; (s_Keep_Alive, [[116;105;109;101;111;117;116;61;53]]) ].
Definition ex_x : exchange :=
  {| x_meth := MPlain; x_proto := [72;84;84;80;47;49;46;49]; x_kind := KDirect 200 ex_origin [109]; x_body := [104;105] |}.

Example ex_wf : NoDup (hkeys ex_origin) /\ forallb (fun k => str_eqb (canon_key k) k) (hkeys ex_origin) = true.
Proof. split; [repeat constructor; cbn; intuition discriminate | vm_compute; reflexivity]. Qed.
Example ex_multi_value_kept : hvalues b_set_cookie (response_headers ex_x) = [[97;61;49]; [98;61;50]].
Proof. vm_compute. reflexivity. Qed.
Example ex_end_to_end : removed_by_hop (canon_key b_set_cookie) ex_origin = false.
Proof. vm_compute. reflexivity. Qed.
Example ex_nominated_dropped :
  hvalues b_x_foo (response_headers ex_x) = [] /\ hvalues s_Keep_Alive (response_headers ex_x) = [] /\
  hvalues s_Connection (response_headers ex_x) = [].
Proof. vm_compute. repeat split. Qed.
Example ex_via_appended : hvalues s_Via (response_headers ex_x) = [[72;84;84;80;47;49;46;49;32;114;101;115;101;114;118;111;105;114]].
Proof. vm_compute. reflexivity. Qed.
(* /a%2Fb?x=%2F keeps its escaping; before the fix the model gave /a/b *)
Example ex_pct_path : forwarded_target [47;97;37;50;70;98] [120;61;37;50;70] = Some [47;97;37;50;70;98;63;120;61;37;50;70].
Proof. vm_compute. reflexivity. Qed.
Example ex_rfc_path : rfc_path_chars [47;97;37;50;70;98] = true.
Proof. vm_compute. reflexivity. Qed.
