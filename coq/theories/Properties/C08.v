(* C08 — placeholder while the proofs are being written *)
From Reservoir Require Import Base.Prelude Model.Relay.
Theorem C08_placeholder : True.
Proof. exact I. Qed.
Print Assumptions C08_placeholder.
