(* C19 — Components follow the latest setting; unsubscribing is safe in any order.
   This file contains only statements; every proof is [exact <lemma>].

   Model/Event.v is a labelled transition system: ASub / AUnsub id / AFire v are
   the API calls, ADeliver id is one iteration of a listener's delivery
   goroutine, AReturn id is the listener function returning.  A trace is any
   list of these actions, so "for all traces" covers every sequence of
   subscribe / unsubscribe / change, every unsubscribe order (with repeats) and
   every scheduling of the asynchronous notifications. *)
From Reservoir Require Import Base.Prelude Model.Event Proofs.Event Model.ConfigProp Proofs.ConfigProp.

(* Unsubscribing in any order neither fails nor detaches the others: no trace
   panics, and the subscriber list always equals the reference set
   "subscribed and not unsubscribed" (in subscription order); subscription
   ids are never reused; the event has seen exactly the fired values. *)
Theorem C19_unsub_any_order : forall t : list act,
  exists st, run t = Ok st /\
             e_subs st = sp_live (spec_run t) /\
             length (e_heap st) = sp_next (spec_run t) /\
             e_fired st = sp_fired (spec_run t).
Proof. exact unsub_any_order_lemma. Qed.
Print Assumptions C19_unsub_any_order.

Theorem C19_no_panic : forall t : list act, run t <> Panic.
Proof. exact run_no_panic. Qed.
Print Assumptions C19_no_panic.

(* ... where the reference set is what it should be: id is live after t iff it was
   live before and never unsubscribed, or was created by a Subscribe of t and not unsubscribed since. *)
Theorem C19_reference_is_set_difference : forall t s id,
  In id (sp_live (fold_left spec_step t s)) <->
  (In id (sp_live s) /\ ~ In (AUnsub id) t) \/
  (exists t1 t2, t = t1 ++ ASub :: t2 /\ id = sp_next (fold_left spec_step t1 s) /\ ~ In (AUnsub id) t2).
Proof. exact spec_live_char. Qed.
Print Assumptions C19_reference_is_set_difference.

(* A listener that has been unsubscribed is never called again, whatever happens afterwards:
   its call log after any continuation equals its call log at the moment of the unsubscribe. *)
Theorem C19_no_late_notification : forall (t1 t2 : list act) (id : nat) (st1 st : est),
  run t1 = Ok st1 -> (id < length (e_heap st1))%nat ->
  run (t1 ++ AUnsub id :: t2) = Ok st ->
  s_log (get (e_heap st) id) = s_log (get (e_heap st1) id).
Proof. exact no_late_notification_lemma. Qed.
Print Assumptions C19_no_late_notification.

(* Every live listener has been handed exactly the values fired since it subscribed, in
   firing order, except those still queued for it - under every schedule; and whenever
   something is queued or a call is in progress its delivery goroutine exists (no lost wake-up). *)
Theorem C19_exact_fifo : forall (t : list act) (st : est) (id : nat),
  run t = Ok st -> In id (e_subs st) ->
  let s := get (e_heap st) id in
  s_log s ++ s_pending s = skipn (s_since s) (e_fired st) /\
  (s_pending s <> [] -> s_running s = true) /\ (s_incall s = true -> s_running s = true).
Proof. exact exact_fifo_lemma. Qed.
Print Assumptions C19_exact_fifo.

(* Latest wins: once nothing is queued for a live listener, the last value it was called
   with is the last value fired (if any was fired since it subscribed). *)
Theorem C19_latest_wins : forall (t : list act) (st : est) (id : nat) (d : Z),
  run t = Ok st -> In id (e_subs st) ->
  let s := get (e_heap st) id in
  s_pending s = [] -> (s_since s < length (e_fired st))%nat ->
  last (s_log s) d = last (e_fired st) d.
Proof. exact latest_wins_lemma. Qed.
Print Assumptions C19_latest_wins.

(* Progress towards that state: a live listener outside a call with a queued value is
   handed the oldest queued value by the next iteration of its goroutine. *)
Theorem C19_progress : forall (t : list act) (st : est) (id : nat) (v : Z) (rest : list Z),
  run t = Ok st -> In id (e_subs st) ->
  let s := get (e_heap st) id in
  s_pending s = v :: rest -> s_incall s = false ->
  exists st', step st (ADeliver id) = Ok st' /\
              s_log (get (e_heap st') id) = s_log s ++ [v] /\ s_pending (get (e_heap st') id) = rest.
Proof. exact progress_lemma. Qed.
Print Assumptions C19_progress.

(* Switches that are not pushed but read at use (cache policy, retry switches): the request
   path calls Read() on every request, and after every history of overrides and updates
   Read() returns the latest effective value. *)
Theorem C19_live_reads : forall (T : Type) (v0 : T) (ops : list (cop T)),
  cp_read (crun (cp_new v0) ops) = ref_read ops v0.
Proof. exact @live_read_lemma. Qed.
Print Assumptions C19_live_reads.

(* Non-vacuity.  Three listeners, unsubscribe the first and then the last (the
   history that panicked before the fix), then a change: only listener 1 gets it. *)
Definition demo := [ASub; ASub; ASub; AUnsub 0; AUnsub 2; AFire 7; ADeliver 1; ADeliver 0; ADeliver 2]%nat.
Example ex_first_then_last :
  match run demo with
  | Ok st => e_subs st = [1%nat] /\ map s_log (e_heap st) = [[]; [7]; []]
  | _ => False
  end.
Proof. vm_compute. split; reflexivity. Qed.
(* first then second: the third listener stays subscribed (it used to be detached) *)
Example ex_first_then_second :
  match run [ASub; ASub; ASub; AUnsub 0; AUnsub 1; AFire 7; ADeliver 2]%nat with
  | Ok st => e_subs st = [2%nat] /\ map s_log (e_heap st) = [[]; []; [7]]
  | _ => False
  end.
Proof. vm_compute. split; reflexivity. Qed.
(* two quick changes while the listener is still busy with the first: it sees 1 then 2 then 3 *)
Example ex_back_to_back :
  match run [ASub; AFire 1; ADeliver 0; AFire 2; AFire 3; AReturn 0; ADeliver 0; AReturn 0; ADeliver 0; AReturn 0; ADeliver 0]%nat with
  | Ok st => map s_log (e_heap st) = [[1; 2; 3]] /\ quiescent st = true
  | _ => False
  end.
Proof. vm_compute. split; reflexivity. Qed.
(* values queued at unsubscribe are dropped; the call in progress is not repeated *)
Example ex_unsub_while_busy :
  match run [ASub; AFire 1; ADeliver 0; AFire 2; AUnsub 0; AReturn 0; ADeliver 0; AFire 3; ADeliver 0]%nat with
  | Ok st => map s_log (e_heap st) = [[1]] /\ e_subs st = []
  | _ => False
  end.
Proof. vm_compute. split; reflexivity. Qed.
