(* C17 — Saved config reads back identically; CLI overrides win but are not saved.
   This file contains only statements; every proof is [exact <lemma>]. *)
From Reservoir Require Import Base.Prelude Model.ByteSize Proofs.ByteSize Model.ConfigProp Proofs.ConfigProp Model.Flags Proofs.Flags.
From Coq Require Import String.

(* Every size prints in a form that parses back to the identical value
   (all byte counts, not only unit multiples). *)
Theorem C17_bs_roundtrip : forall n, 0 <= n < 2^63 -> bs_parse (bs_string n) = Ok n.
Proof. exact bs_roundtrip_lemma. Qed.
Print Assumptions C17_bs_roundtrip.

(* A size string is accepted only in the digits-plus-unit form and means digits times unit. *)
Theorem C17_bs_parse_sound : forall s n,
  bs_parse s = Ok n ->
  exists ds c u, s = ds ++ [c] /\ ds <> [] /\ all_digits ds = true /\ unit_of c = Some u /\
                 n = dec_value ds * u /\ 0 <= n < 2^63.
Proof. exact bs_parse_sound_lemma. Qed.
Print Assumptions C17_bs_parse_sound.

(* ... and every such string whose value fits an int64 is accepted with that meaning. *)
Theorem C17_bs_parse_complete : forall ds c u,
  ds <> [] -> all_digits ds = true -> unit_of c = Some u -> dec_value ds * u <= max_int64 ->
  bs_parse (ds ++ [c]) = Ok (dec_value ds * u).
Proof. exact bs_parse_complete. Qed.
Print Assumptions C17_bs_parse_complete.

(* The printed form is itself in the documented shape and means the value. *)
Theorem C17_bs_string_shape : forall n, 0 <= n < 2^63 ->
  exists ds c u, bs_string n = ds ++ [c] /\ ds <> [] /\ all_digits ds = true /\
                 unit_of c = Some u /\ dec_value ds * u = n.
Proof. exact bs_string_shape. Qed.
Print Assumptions C17_bs_string_shape.

(* Histories of one property.  For EVERY sequence of command-line overrides
   and accepted API updates: the running process reads the last override if
   there was one, else the last update (else the initial value); the value
   written to the file is the last update (else the initial value), never an
   override; nothing stays staged. *)
Theorem C17_override_wins_not_saved : forall (T : Type) (v0 : T) (ops : list (cop T)),
  let p := crun (cp_new v0) ops in
  cp_read p = ref_read ops v0 /\ cp_marshal p = ref_base ops v0 /\ c_staged p = None.
Proof. exact @override_wins_not_saved_lemma. Qed.
Print Assumptions C17_override_wins_not_saved.

(* "also after later API updates": once given, an override is what the process reads
   after any number of further updates. *)
Theorem C17_override_survives_updates : forall (T : Type) (v0 o : T) (ops1 ops2 : list (cop T)),
  (forall v, ~ In (COverride v) ops2) ->
  cp_read (crun (cp_new v0) (ops1 ++ COverride o :: ops2)) = o.
Proof. exact @override_survives_updates. Qed.
Print Assumptions C17_override_survives_updates.

(* After every history, whatever operation comes next tells the listeners
   exactly the value Read returns after it (the override-aware value). *)
Theorem C17_told_is_read : forall (T : Type) (v0 : T) (ops : list (cop T)) (op : cop T),
  let p := crun (cp_new v0) ops in
  snd (cstep p op) = [cp_read (fst (cstep p op))].
Proof. exact @told_is_read_lemma. Qed.
Print Assumptions C17_told_is_read.

(* The same for every interleaving of the fine-grained API calls
   Overwrite / Stage / CommitStaged in which no Overwrite arrives while a value is staged. *)
Theorem C17_fine_refines : forall (T : Type) (v0 : T) (ops : list (fop T)),
  fwf false ops = true ->
  let p := fst (frun (cp_new v0) ops) in
  let r := fold_left fref_step ops {| fr_base := v0; fr_over := None; fr_staged := None |} in
  cp_read p = (match fr_over r with Some o => o | None => fr_base r end) /\
  cp_marshal p = (match fr_staged r with Some v => v | None => fr_base r end).
Proof. exact @fine_refines_lemma. Qed.
Print Assumptions C17_fine_refines.

(* Save then load.  For every configuration (any number of properties of any
   kinds, any overrides in force) whose base values are valid, loading the
   saved file succeeds and the new process reads exactly the saved base
   values; the library codecs (JSON scalars, Duration, slog.Level) enter only
   through their round-trip law. *)
Theorem C17_cfg_roundtrip :
  forall (lib_enc : fkind -> fval -> str) (lib_dec : fkind -> str -> res fval)
         (verify : list (fkind * fval) -> bool) (lib_valid : fkind -> fval -> Prop),
  (forall k v, k <> KSize -> lib_valid k v -> lib_dec k (lib_enc k v) = Ok v) ->
  forall c : config,
  Forall (field_valid lib_valid) (bases c) -> verify (bases c) = true ->
  exists c', load lib_dec verify (persist lib_enc c) = Ok c' /\
             effective c' = bases c /\ bases c' = bases c.
Proof. exact cfg_roundtrip_lemma. Qed.
Print Assumptions C17_cfg_roundtrip.

(* ... and with no override in force (and no update in flight), exactly the same effective settings. *)
Theorem C17_cfg_roundtrip_same :
  forall (lib_enc : fkind -> fval -> str) (lib_dec : fkind -> str -> res fval)
         (verify : list (fkind * fval) -> bool) (lib_valid : fkind -> fval -> Prop),
  (forall k v, k <> KSize -> lib_valid k v -> lib_dec k (lib_enc k v) = Ok v) ->
  forall c : config,
  Forall (field_valid lib_valid) (bases c) -> verify (bases c) = true ->
  (forall kp, In kp c -> o_over (c_committed (snd kp)) = None /\ c_staged (snd kp) = None) ->
  exists c', load lib_dec verify (persist lib_enc c) = Ok c' /\ effective c' = effective c.
Proof. exact cfg_roundtrip_same. Qed.
Print Assumptions C17_cfg_roundtrip_same.

(* The whole configuration under the command line.  [flag_table] (Model/Flags.v) is the documented table: which
   setting each flag addresses and how its text is read.  For EVERY configuration, every history of flags and
   accepted API updates of any settings: each setting is read as its own history says — the last flag that
   addresses it if there was one, else the last update, else the initial value — and saved as the last update,
   else the initial value. *)
Theorem C17_whole_config_history : forall vals ops c',
  wrun (fresh vals) ops = Ok c' ->
  eff_of c' = map (fun kv => (fst kv, ref_read (proj (fst kv) ops) (snd kv))) vals /\
  saved_of c' = map (fun kv => (fst kv, ref_base (proj (fst kv) ops) (snd kv))) vals.
Proof. exact whole_config_history. Qed.
Print Assumptions C17_whole_config_history.

(* Command-line values are never written into the file: what is saved is what the API updates alone produce. *)
Theorem C17_saved_independent_of_flags : forall vals ops c1,
  wrun (fresh vals) ops = Ok c1 ->
  exists c2, wrun (fresh vals) (updates_only ops) = Ok c2 /\ saved_of c1 = saved_of c2.
Proof. exact saved_independent_of_flags. Qed.
Print Assumptions C17_saved_independent_of_flags.

(* A flag wins for the running process, whatever API updates (of its own or any other setting) and flags for
   other settings come before or after it. *)
Theorem C17_flag_wins : forall vals ops1 name raw ops2 path v c',
  wrun (fresh vals) (ops1 ++ WFlag name raw :: ops2) = Ok c' ->
  flag_target name raw = Ok (path, v) ->
  (forall n r w, In (WFlag n r) ops2 -> flag_target n r <> Ok (path, w)) ->
  forall kv, In kv (eff_of c') -> fst kv = path -> snd kv = v.
Proof. exact flag_wins. Qed.
Print Assumptions C17_flag_wins.

(* A flag changes the one setting it addresses and no other, and nothing that is saved. *)
Theorem C17_flag_only_target : forall c name raw path v c',
  wstep c (WFlag name raw) = Ok c' -> flag_target name raw = Ok (path, v) ->
  eff_of c' = map (fun kv => if String.eqb (fst kv) path then (fst kv, v) else kv) (eff_of c) /\
  saved_of c' = saved_of c.
Proof. exact flag_only_target. Qed.
Print Assumptions C17_flag_only_target.

(* No flag twice in the table, no setting addressed by two flags. *)
Theorem C17_flag_table_injective :
  NoDup (map fst flag_table) /\ NoDup (map (fun e => fst (snd e)) flag_table).
Proof. exact (conj flag_names_distinct flag_targets_distinct). Qed.
Print Assumptions C17_flag_table_injective.

Example ex_1536 : bs_string 1536 = [49;53;51;54;66] /\ bs_parse (bs_string 1536) = Ok 1536.
Proof. vm_compute. split; reflexivity. Qed.
Example ex_10G : bs_string (10 * 2^30) = [49;48;71].
Proof. vm_compute. reflexivity. Qed.
Example ex_10K5 : bs_parse [49;48;75;53] = Err.
Proof. vm_compute. reflexivity. Qed.
Example ex_max : bs_parse (bs_string (2^63 - 1)) = Ok (2^63 - 1).
Proof. vm_compute. reflexivity. Qed.

(* a history: default 10G, --flag 1536, API update to 3K, API update to 5000 *)
Example ex_history :
  let p := crun (cp_new (10 * 2^30)) [COverride 1536; CUpdate 3072; CUpdate 5000] in
  cp_read p = 1536 /\ cp_marshal p = 5000 /\ bs_string (cp_marshal p) = [53;48;48;48;66].
Proof. vm_compute. repeat split; reflexivity. Qed.
Example ex_told : snd (cstep (crun (cp_new 0) [COverride 7]) (CUpdate 9)) = [7].
Proof. vm_compute. reflexivity. Qed.
(* a two-property configuration with an override in force round-trips to its bases *)
Example ex_cfg :
  let c := [(KSize, crun (cp_new (VZ 1536)) [COverride (VZ 1)]); (KSize, cp_new (VZ (2^40)))] in
  load (fun _ _ => Err) (fun _ => true) (persist (fun _ _ => []) c)
  = Ok [(KSize, cp_new (VZ 1536)); (KSize, cp_new (VZ (2^40)))].
Proof. vm_compute. reflexivity. Qed.
(* file says ssl/old.key and 10 backups; --ca-key=k, then the API sets ca_key to "n" and backups to 4, then --log-file-max-backups=+7 *)
Example ex_flags :
  let vals := [("proxy.ca_cert"%string, VS [99]); ("proxy.ca_key"%string, VS [111]); ("logging.max_backups"%string, VZ 10)] in
  match wrun (fresh vals) [WFlag "ca-key" [107]; WUpdate "proxy.ca_key" (VS [110]); WUpdate "logging.max_backups" (VZ 4);
                           WFlag "log-file-max-backups" [43;55]] with
  | Ok c => eff_of c = [("proxy.ca_cert"%string, VS [99]); ("proxy.ca_key"%string, VS [107]); ("logging.max_backups"%string, VZ 7)] /\
            saved_of c = [("proxy.ca_cert"%string, VS [99]); ("proxy.ca_key"%string, VS [110]); ("logging.max_backups"%string, VZ 4)]
  | _ => False
  end.
Proof. vm_compute. split; reflexivity. Qed.
Example ex_flag_text : conv FCBool [84] = Ok (VB true) /\ conv FCSize [53;48;48;77] = Ok (VZ (500 * 2^20)) /\
                       conv FCLevel [119;97;114;110] = Ok (VZ 4) /\ conv FCInt [45;50] = Ok (VZ (-2)) /\ conv FCBool [121] = Err.
Proof. vm_compute. repeat split; reflexivity. Qed.
