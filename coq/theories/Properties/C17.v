(* C17 — Saved config reads back identically; CLI overrides win but are not saved.
   This file contains only statements; every proof is [exact <lemma>]. *)
From Reservoir Require Import Base.Prelude Model.ByteSize Proofs.ByteSize.

(* Every size prints in a form that parses back to the identical value
   (all byte counts, not only unit multiples). *)
Theorem C17_bs_roundtrip : forall n, 0 <= n < 2^63 -> bs_parse (bs_string n) = Ok n.
Proof. exact bs_roundtrip_lemma. Qed.
Print Assumptions C17_bs_roundtrip.

(* A size string is accepted only in the digits-plus-unit form and means digits times unit. *)
Theorem C17_bs_parse_sound : forall s n,
  bs_parse s = Ok n ->
  exists ds c u, s = ds ++ [c] /\ ds <> [] /\ all_digits ds = true /\ unit_of c = Some u /\
                 n = dec_value ds * u /\ 0 <= n < 2^63.
Proof. exact bs_parse_sound_lemma. Qed.
Print Assumptions C17_bs_parse_sound.

(* ... and every such string whose value fits an int64 is accepted with that meaning. *)
Theorem C17_bs_parse_complete : forall ds c u,
  ds <> [] -> all_digits ds = true -> unit_of c = Some u -> dec_value ds * u <= max_int64 ->
  bs_parse (ds ++ [c]) = Ok (dec_value ds * u).
Proof. exact bs_parse_complete. Qed.
Print Assumptions C17_bs_parse_complete.

Example ex_1536 : bs_string 1536 = [49;53;51;54;66] /\ bs_parse (bs_string 1536) = Ok 1536.
Proof. vm_compute. split; reflexivity. Qed.
Example ex_10G : bs_string (10 * 2^30) = [49;48;71].
Proof. vm_compute. reflexivity. Qed.
Example ex_10K5 : bs_parse [49;48;75;53] = Err.
Proof. vm_compute. reflexivity. Qed.
Example ex_max : bs_parse (bs_string (2^63 - 1)) = Ok (2^63 - 1).
Proof. vm_compute. reflexivity. Qed.
