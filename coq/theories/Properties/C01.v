(* C01 — Served bodies are complete, unmixed origin bodies of the requested resource
   (cache-store part: both backends, every interleaving at lock granularity plus
   the lock-free reads of open handles between the chunks of a running store).
   Statements only; every proof is [exact <lemma of Proofs/Store.v>]. *)
From Reservoir Require Import Base.Prelude Base.Amap Model.Store Proofs.Store Model.FetchOrder Proofs.FetchOrder.

(* Handle integrity.  Take ANY history [pre]; let action [a] hand out a handle
   [h] (a Get, or the completion of a store) announcing size [sz] and origin
   metadata [o]; let ANY actions [acts] follow that do not close h or restart
   the process (stores, overwrites and failed stores of the same and other keys
   at any chunk boundary, deletes, evictions, cleanup cycles, other readers ...).
   Then there is one body such that
     - it is the version of that key that was current when h was opened
       (for a store: exactly the bytes its source delivered, see C01_store_complete),
     - the announced size is its length,
     - the chunks read through h, concatenated, are exactly its first
       [requested] bytes (so reading to EOF yields all of it, nothing else),
     - every read reports the same size and metadata. *)
Theorem C01_handle_integrity : forall b lim pre a s1 h sz o st acts,
  step b lim (run b lim pre) a = (s1, RHandle h sz o st) ->
  keeps_handle h acts = true ->
  exists body,
    opened_version b (run b lim pre) a = Some (body, o) /\
    sz = zlen body /\
    concat (chunks_read h acts (outs_from b lim s1 acts)) = zfirstn (requested h acts) body /\
    read_metas h sz o acts (outs_from b lim s1 acts).
Proof. exact handle_integrity. Qed.
Print Assumptions C01_handle_integrity.

(* One step of it: nothing but a read through h / closing h / a restart changes what h will still deliver. *)
Theorem C01_handle_stable : forall b lim s a h v,
  Inv b s -> hview s h = Some v -> reads_handle h a = false -> ends_handle h a = false ->
  hview (fst (step b lim s a)) h = Some v.
Proof. exact hview_stable. Qed.
Print Assumptions C01_handle_stable.

(* A store that runs from Begin to Commit publishes exactly the concatenation
   of the chunks its source delivered, whatever happens in between. *)
Theorem C01_store_complete : forall b lim s k ex ob ev s1 acts s2 h sz o st,
  Inv b s -> step b lim s (ABegin k ex ob ev) = (s1, RUnit) ->
  forallb (fun a => negb (ends_store k a)) acts = true ->
  step b lim (run_from b lim s1 acts) (ACommit k) = (s2, RHandle h sz o st) ->
  current b s2 k = Some (written_to k acts, sz, ob) /\ hview s2 h = Some (written_to k acts, sz, ob) /\
  sz = zlen (written_to k acts) /\ o = ob.
Proof. exact store_complete. Qed.
Print Assumptions C01_store_complete.

(* The current version of a key changes only by a completed store to that key;
   every other action leaves it alone or removes it (never another body). *)
Theorem C01_current_step : forall b lim s a k,
  Inv b s ->
  let s' := fst (step b lim s a) in
  current b s' k = current b s k \/ current b s' k = None \/
  (a = ACommit k /\ exists h sz o st, snd (step b lim s a) = RHandle h sz o st).
Proof. exact current_step. Qed.
Print Assumptions C01_current_step.

(* No resurrection: once a key has no current version (deleted, evicted,
   expired and cleaned, restart), no history without a completed store to it
   makes a Get return a handle again. *)
Theorem C01_no_resurrection : forall b lim s k acts h sz o st,
  Inv b s -> current b s k = None -> no_commit k acts = true ->
  snd (step b lim (run_from b lim s acts) (AGet k)) <> RHandle h sz o st.
Proof. exact no_resurrection. Qed.
Print Assumptions C01_no_resurrection.

(* ... and the removals do remove. *)
Theorem C01_delete_removes : forall b lim s k,
  Inv b s -> pending s k = false -> current b (fst (step b lim s (ADelete k))) k = None.
Proof. exact delete_removes. Qed.
Print Assumptions C01_delete_removes.

Theorem C01_evict_removes : forall b lim s ks k,
  Inv b s -> In k ks -> pending s k = false -> current b (fst (step b lim s (AEvict ks))) k = None.
Proof. exact evict_removes. Qed.
Print Assumptions C01_evict_removes.

Theorem C01_cleanup_removes : forall b lim s skip k e,
  Inv b s -> aget k (s_ents s) = Some e -> e_exp e < s_now s -> memb k skip = false -> pending s k = false ->
  current b (fst (step b lim s (ACleanup skip))) k = None.
Proof. exact cleanup_removes. Qed.
Print Assumptions C01_cleanup_removes.

(* After a replacement every later Get (until the next completed store) that
   returns a handle returns the NEW version, never the replaced one. *)
Theorem C01_replaced_not_served : forall b lim s k s1 h sz o st acts s2 h2 sz2 o2 st2,
  Inv b s -> step b lim s (ACommit k) = (s1, RHandle h sz o st) -> no_commit k acts = true ->
  step b lim (run_from b lim s1 acts) (AGet k) = (s2, RHandle h2 sz2 o2 st2) ->
  exists d, pending_body b s k = Some (d, o) /\ hview s2 h2 = Some (d, sz, o) /\ sz2 = sz /\ o2 = o.
Proof. exact replaced_not_served. Qed.
Print Assumptions C01_replaced_not_served.

(* An action addressed to key k does not change the current version of any other key. *)
Theorem C01_keys_independent : forall b lim s a k k',
  Inv b s -> key_of a = Some k -> k' <> k ->
  (forall ex ob ev, a = ABegin k ex ob ev -> ~ In k' ev) ->
  current b (fst (step b lim s a)) k' = current b s k'.
Proof. exact keys_independent. Qed.
Print Assumptions C01_keys_independent.

(* The invariant these theorems assume holds in every reachable state. *)
Theorem C01_reachable_inv : forall b lim acts, Inv b (run b lim acts).
Proof. exact run_inv. Qed.
Print Assumptions C01_reachable_inv.

(* ---- non-vacuity: a reader holds v1 while v2 is written chunk by chunk, then deleted ---- *)
Definition ex_pre : list act := [ABegin 0 3600 1 []; AWrite 0 [65;65;65;65;65]; ACommit 0].
Definition ex_acts : list act :=
  [ ARead 1 2; ABegin 0 3600 2 []; ARead 1 1; AWrite 0 [66;66]; ARead 1 1; AWrite 0 [66]; ACommit 0;
    ADelete 0; AEvict [0; 1]; ARead 1 100; ARead 1 5 ].

Example ex_held_reader_file :
  let s0 := run File 1000 ex_pre in
  let '(s1, o) := step File 1000 s0 (AGet 0) in
  (o, keeps_handle 1 ex_acts, requested 1 ex_acts,
   concat (chunks_read 1 ex_acts (outs_from File 1000 s1 ex_acts))) =
  (RHandle 1 5 1 false, true, 109, [65;65;65;65;65]).
Proof. vm_compute. reflexivity. Qed.

Example ex_held_reader_mem :
  let s0 := run Mem 1000 ex_pre in
  let '(s1, o) := step Mem 1000 s0 (AGet 0) in
  (o, concat (chunks_read 1 ex_acts (outs_from Mem 1000 s1 ex_acts))) = (RHandle 1 5 1 false, [65;65;65;65;65]).
Proof. vm_compute. reflexivity. Qed.

Example ex_no_resurrection :
  let s := run File 1000 (ex_pre ++ [ADelete 0; ABegin 0 10 2 []; AWrite 0 [1]; AAbort 0]) in
  (current File s 0, snd (step File 1000 s (AGet 0))) = (None, RMiss).
Proof. vm_compute. reflexivity. Qed.

(* The order in which origin answers are stored (Model/FetchOrder.v).  When the fetches of a resource are
   serialised -- what singleflight does for coalesced GETs -- no request ever receives an older version
   than an earlier request did, for every history of content changes, fetches, stores and hits
   (the clause "a request that starts after an entry was replaced never receives the replaced body"
   at the level of the proxy).  PARTIAL: the hypothesis excludes independent fetches of one key ... *)
Theorem C01_no_resurrection_serialized_partial : forall l s',
  frun true f_init l = Some s' -> monotone_log (f_served s') = true.
Proof. exact serialized_fetches_monotone. Qed.
Print Assumptions C01_no_resurrection_serialized_partial.

(* ... and without it the clause is FALSE of the code: Range requests (and the retry paths) fetch and store
   on their own, so an older answer that is stored last replaces a newer one.  This witness, replayed on
   the implementation by harness/cmd/e2e01 (forced history "late store"), is the retained finding
   C01-late-store-of-older-answer. *)
Theorem C01_no_resurrection_refuted : exists l s',
  frun false f_init l = Some s' /\ monotone_log (f_served s') = false.
Proof. exact unserialized_fetches_refuted. Qed.
Print Assumptions C01_no_resurrection_refuted.
