(* C16 — No input makes the proxy panic or leave a request unanswered.
   Statements only.  Every Go operation that can panic (indexing, slicing, fixed-size array
   decode, reflection on unexported fields, WriteHeader with an invalid status) is an explicit
   [Panic] outcome of the models; the theorems say it is never taken, for EVERY byte string /
   document.  The parsers without such operations (Cache-Control / Expires, cache key, CONNECT
   target) are total Gallina functions compared with the code under recover() by C03/C04, C02 and
   C11; the raw-socket stage of this property drives them end to end. *)
From Coq Require Import String.
From Reservoir Require Import Base.Prelude Model.Range Model.ByteSize Model.Phc Model.ConfigProp Model.ConfigTxn
  Proofs.Range Proofs.ByteSize Proofs.Phc Proofs.ConfigTxn.
Open Scope Z_scope.

(* Range header values (request line / header bytes of any client) *)
Theorem C16_range_parser_total : forall s : str, parse_range s <> Panic.
Proof. exact parse_range_no_panic. Qed.
Print Assumptions C16_range_parser_total.

(* ... and the answer built from them for every If-Range form, stored entry and retry setting
   (in particular never a response with an invalid status) *)
Theorem C16_range_answer_total : forall retry hdr ir st, serve_range retry hdr ir st <> APanic.
Proof. exact serve_range_no_panic. Qed.
Print Assumptions C16_range_answer_total.

(* size strings read from the configuration file, the command line or the API *)
Theorem C16_size_string_total : forall s : str, bs_parse s <> Panic.
Proof. exact bs_parse_no_panic. Qed.
Print Assumptions C16_size_string_total.

(* stored password-hash strings *)
Theorem C16_password_hash_total : forall s : str, phc_parse s <> Panic.
Proof. exact phc_parse_total. Qed.
Print Assumptions C16_password_hash_total.

(* the shape the hash parser had before the repair did panic: the theorem is not vacuous *)
Theorem C16_password_hash_old_shape_panics : exists s, phc_parse_fixed16 s = Panic.
Proof. exact phc_parse_fixed16_refuted. Qed.
Print Assumptions C16_password_hash_old_shape_panics.

(* configuration documents submitted through the API: every field table, state, document
   (including nil), write-fault point; library parsers as arbitrary functions *)
Theorem C16_config_update_total :
  forall lib_dur lib_level addr_ok (tbl : table) (s : st) (doc : option jmap) (fault : option Z) (wlen : Z),
  update_opt lib_dur lib_level addr_ok tbl s doc fault wlen <> Panic.
Proof. exact config_update_total. Qed.
Print Assumptions C16_config_update_total.
