(* C11 — Every tunnel gets a valid host-specific certificate from the configured CA.
   Statements only; every proof is [exact <lemma>] (Proofs/Certs.v).
   [parse_ip] is the library function net.ParseIP (any function: the theorems hold for every one).
   Signature, chain and key match are crypto/x509's and are observed by the harness, not proved:
   the claim is partial in that respect. *)
From Reservoir Require Import Base.Prelude Model.Certs Proofs.Certs.

(* The two shapes of a CONNECT target are accepted, with exactly the host text between the
   brackets / before the port ... *)
Theorem C11_split_name_port : forall name port : str,
  plain name -> plain port -> split_host_port (name ++ COLON :: port) = Some (name, port).
Proof. exact split_name_port. Qed.
Print Assumptions C11_split_name_port.

Theorem C11_split_bracket : forall inner port : str,
  ~ In LBRACK inner -> ~ In RBRACK inner -> plain port ->
  split_host_port (LBRACK :: inner ++ RBRACK :: COLON :: port) = Some (inner, port).
Proof. exact split_bracket. Qed.
Print Assumptions C11_split_bracket.

(* ... and every history (any sequence of calls and clock advances from an empty cache): a
   certificate returned for a target names exactly the host text of that target (an IP SAN when
   the text is an IP literal, else that DNS name), nothing else. *)
Theorem C11_names_exactly_host : forall parse_ip ops hp s' c,
  get_cert parse_ip hp (run parse_ip ops (init)) = (s', Ok c) ->
  exists h p, split_host_port hp = Some (h, p) /\
              (hp = h ++ COLON :: p \/ hp = LBRACK :: h ++ RBRACK :: COLON :: p) /\
              c_san c = san_of parse_ip h.
Proof. exact names_exactly_host. Qed.
Print Assumptions C11_names_exactly_host.

(* Every returned certificate, cached or new, is inside its validity period at that moment and
   lives 240 h. *)
Theorem C11_valid_when_returned : forall parse_ip ops hp s' c,
  get_cert parse_ip hp (run parse_ip ops init) = (s', Ok c) ->
  valid_at (s_now (run parse_ip ops init)) c /\ c_na c = c_nb c + LIFETIME.
Proof. exact valid_when_returned. Qed.
Print Assumptions C11_valid_when_returned.

(* Every target SplitHostPort accepts and x509 can encode gets a certificate, in every state. *)
Theorem C11_every_target_served : forall parse_ip ops hp h p,
  split_host_port hp = Some (h, p) -> creatable parse_ip h = true ->
  exists c, snd (get_cert parse_ip hp (run parse_ip ops init)) = Ok c.
Proof. exact every_target_served. Qed.
Print Assumptions C11_every_target_served.

(* Reused per host while valid: after a call returned c, whatever happens in between (any calls,
   any targets, any advances), as long as the clock has not passed c's NotAfter the same
   certificate is returned and the cache is left untouched ... *)
Theorem C11_reuse_until_expiry : forall parse_ip ops0 hp s1 c ops,
  get_cert parse_ip hp (run parse_ip ops0 init) = (s1, Ok c) ->
  s_now (run parse_ip ops s1) <= c_na c ->
  get_cert parse_ip hp (run parse_ip ops s1) = (run parse_ip ops s1, Ok c).
Proof. exact reuse_until_expiry. Qed.
Print Assumptions C11_reuse_until_expiry.

(* ... and replaced once expired: past NotAfter a different, currently valid certificate is returned. *)
Theorem C11_replaced_after_expiry : forall parse_ip ops0 hp s1 c ops s3 c',
  get_cert parse_ip hp (run parse_ip ops0 init) = (s1, Ok c) ->
  c_na c < s_now (run parse_ip ops s1) ->
  get_cert parse_ip hp (run parse_ip ops s1) = (s3, Ok c') ->
  c_id c' <> c_id c /\ valid_at (s_now (run parse_ip ops s1)) c'.
Proof. exact replaced_after_expiry. Qed.
Print Assumptions C11_replaced_after_expiry.

(* Concurrent callers, any number, any targets, EVERY interleaving of their atomic cache actions
   (Get / Delete / createCert / Set) and any passing of time in between, starting from any state a
   history can reach: each certificate handed out names its caller's host and was valid when chosen. *)
Theorem C11_concurrent_issuance : forall parse_ip ops hps sched i hp c t,
  let st := lrun parse_ip sched (linit (run parse_ip ops init) hps) in
  nth_error hps i = Some hp ->
  nth_error (l_threads st) i = Some (PDone (Ok c) t) ->
  (exists h port, split_host_port hp = Some (h, port) /\
                  (hp = h ++ COLON :: port \/ hp = LBRACK :: h ++ RBRACK :: COLON :: port) /\
                  c_san c = san_of parse_ip h) /\
  valid_at t c /\ s_now (run parse_ip ops init) <= l_now st /\ t <= l_now st /\ c_na c = c_nb c + LIFETIME.
Proof. exact concurrent_returned. Qed.
Print Assumptions C11_concurrent_issuance.

(* No caller panics; a refusal means an unsplittable target or an unencodable name. *)
Theorem C11_concurrent_refusals : forall parse_ip ops hps sched i hp r t,
  let st := lrun parse_ip sched (linit (run parse_ip ops init) hps) in
  nth_error hps i = Some hp ->
  nth_error (l_threads st) i = Some (PDone r t) ->
  match r with
  | Ok _ => True
  | Err => split_host_port hp = None \/
           exists h port, split_host_port hp = Some (h, port) /\ creatable parse_ip h = false
  | Panic => False
  end.
Proof. exact concurrent_refusals. Qed.
Print Assumptions C11_concurrent_refusals.

(* Once all callers have returned the cache holds, for every host asked for, one of the
   certificates handed to a caller for that host (or the one it held before). *)
Theorem C11_concurrent_cache_holds_one : forall parse_ip ops hps sched i hp h port,
  let s0 := run parse_ip ops init in
  let st := lrun parse_ip sched (linit s0 hps) in
  all_done st = true ->
  nth_error hps i = Some hp -> split_host_port hp = Some (h, port) -> creatable parse_ip h = true ->
  exists c, lookup h (l_cache st) = Some c /\
    (lookup h (s_cache s0) = Some c \/
     exists i' t, for_host hps i' h /\ nth_error (l_threads st) i' = Some (PDone (Ok c) t)).
Proof. exact concurrent_cache_holds_one. Qed.
Print Assumptions C11_concurrent_cache_holds_one.

(* First requests for a new host. *)
Theorem C11_concurrent_first_requests : forall parse_ip ops hps sched i hp h port,
  let s0 := run parse_ip ops init in
  let st := lrun parse_ip sched (linit s0 hps) in
  all_done st = true ->
  nth_error hps i = Some hp -> split_host_port hp = Some (h, port) -> creatable parse_ip h = true ->
  lookup h (s_cache s0) = None ->
  exists c i' t, lookup h (l_cache st) = Some c /\ for_host hps i' h /\
                 nth_error (l_threads st) i' = Some (PDone (Ok c) t).
Proof. exact concurrent_first_requests. Qed.
Print Assumptions C11_concurrent_first_requests.

(* The LTS is the sequential function when a caller runs alone. *)
Theorem C11_solo_refines_get_cert : forall parse_ip hp s,
  let st := lrun parse_ip [(O, 0); (O, 0); (O, 0); (O, 0)] (linit s [hp]) in
  exists t, l_threads st = [PDone (snd (get_cert parse_ip hp s)) t] /\
            l_cache st = s_cache (fst (get_cert parse_ip hp s)) /\
            l_next st = s_next (fst (get_cert parse_ip hp s)).
Proof. exact solo_refines_get_cert. Qed.
Print Assumptions C11_solo_refines_get_cert.

(* Non-vacuity.  example.com:443, [::1]:443 with an oracle that knows "::1". *)
Definition pip (h : str) : option str := if str_eqb h [58;58;49] then Some [58;58;49] else None.
Definition ex_hp : str := [101;120;97;109;112;108;101;46;99;111;109;58;52;52;51].
Definition ex_v6 : str := [91;58;58;49;93;58;52;52;51].
Example ex_first : snd (get_cert pip ex_hp init) =
  Ok {| c_id := 0; c_san := SanDNS [101;120;97;109;112;108;101;46;99;111;109]; c_nb := 0; c_na := 864000 |}.
Proof. vm_compute. reflexivity. Qed.
Example ex_v6_san : snd (get_cert pip ex_v6 init) =
  Ok {| c_id := 0; c_san := SanIP [58;58;49]; c_nb := 0; c_na := 864000 |}.
Proof. vm_compute. reflexivity. Qed.
(* reuse at 863 999 s, replacement at 864 001 s *)
Example ex_reuse : option_map c_id
  (match snd (get_cert pip ex_hp (run pip [Get ex_hp; Adv 863999] init)) with Ok c => Some c | _ => None end) = Some 0.
Proof. vm_compute. reflexivity. Qed.
Example ex_replace : option_map c_id
  (match snd (get_cert pip ex_hp (run pip [Get ex_hp; Adv 864001] init)) with Ok c => Some c | _ => None end) = Some 1.
Proof. vm_compute. reflexivity. Qed.
(* three concurrent first requests, interleaved so that all three create: the cache ends with the last Set *)
Example ex_concurrent :
  let st := lrun pip [(0%nat,0);(1%nat,0);(2%nat,0);(0%nat,0);(1%nat,0);(2%nat,0);(2%nat,0);(0%nat,0);(1%nat,0)]
                 (linit init [ex_hp; ex_hp; ex_hp]) in
  all_done st = true /\
  option_map c_id (lookup [101;120;97;109;112;108;101;46;99;111;109] (l_cache st)) = Some 1 /\
  map (fun p => match p with PDone (Ok c) _ => c_id c | _ => -1 end) (l_threads st) = [0; 1; 2].
Proof. vm_compute. repeat split; reflexivity. Qed.
Example ex_no_port : snd (get_cert pip [101;120;97;109;112;108;101;46;99;111;109] init) = Err.
Proof. vm_compute. reflexivity. Qed.
