From Reservoir Require Import Base.Prelude Model.Certs.
Theorem C11_placeholder : forall s : str, s = s.
Proof. reflexivity. Qed.
Print Assumptions C11_placeholder.
