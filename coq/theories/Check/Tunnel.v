(* Case types and decidable checkers for C10 (each exchange on a CONNECT tunnel is
   isolated and equals plain proxying). *)
From Reservoir Require Import Base.Prelude Model.Relay Model.Tunnel Check.Relay.

(* ------------------------------------------------------------------------ *)
(* Unit level: responder calls against the real RawHTTPResponder, one responder
   for all scripts (reuse) or one per script. *)
Inductive uraw := URaw (reuse : bool) (scripts : list script) (obs : list (list obs_resp)).

Fixpoint all2 {A B} (p : A -> B -> bool) (a : list A) (b : list B) : bool :=
  match a, b with
  | [], [] => true
  | x :: a', y :: b' => p x y && all2 p a' b'
  | _, _ => false
  end.

Definition ur_mismatch (c : uraw) : bool :=
  let '(URaw reuse scripts obs) := c in
  negb (all2 (all2 (wire_matches true)) (script_loop reuse fresh scripts) obs).

Definition ur_tag (c : uraw) : Z :=
  let '(URaw reuse scripts obs) := c in
  (if reuse then 100 else 0) + Z.of_nat (length scripts).

Definition check_raw (cases : list uraw) : report := mk_report ur_mismatch (fun _ => false) ur_tag cases.

(* ------------------------------------------------------------------------ *)
(* End to end: one history sent three ways against identically prepared proxies *)
Inductive tcase := TC (plain one each : list (exchange * obs_resp)).

Definition tunnel_matches (l : list (exchange * obs_resp)) : bool :=
  all2 (fun ws o => match ws with [w] => wire_matches true w o | _ => false end)
       (tunnel_run (map fst l)) (map snd l).
Definition plain_matches (l : list (exchange * obs_resp)) : bool :=
  all2 (fun ws o => match ws with [w] => wire_matches false w o | _ => false end)
       (plain_run (map fst l)) (map snd l).

Definition tc_mismatch (c : tcase) : bool :=
  let '(TC plain one each) := c in
  negb (plain_matches plain && tunnel_matches one && tunnel_matches each).

(* ---- the property, on the observations alone ---- *)
(* values that legitimately differ between two runs: clock readings *)
Definition ttl_mark : str := [59;32;116;116;108;61].     (* "; ttl=" *)
Fixpoint cut_ttl (s : str) : str :=
  match s with
  | [] => []
  | c :: r => if prefix_eqb ttl_mark s then [] else c :: cut_ttl r
  end.

Definition origin_of (x : exchange) : hdrs :=
  match x_kind x with
  | KDirect _ o _ => o
  | KStored _ o _ _ _ _ => o
  | KPartial o _ _ _ _ _ => o
  | _ => []
  end.

Definition norm_values (n : str) (vs : list str) : list str :=
  if ieq n n_cache_status then map cut_ttl vs
  else if ieq n n_age then map (fun _ => []) vs
  else vs.

(* same status, same fields with the same values in order (clock readings aside) *)
Definition same_fields (skip : str -> bool) (a b : hdrs) : bool :=
  forallb (fun k => skip k || strs_eqb (norm_values k (vals_ci k a)) (norm_values k (vals_ci k b)))
          (hkeys a ++ hkeys b).

Definition clock_skip (x : exchange) (k : str) : bool :=
  ieq k n_date || (ieq k n_last_modified && negb (nonempty_list (vals_ci n_last_modified (origin_of x)))).

(* one tunnel vs one tunnel per request: everything on the wire must agree *)
Definition same_on_tunnel (a b : exchange * obs_resp) : bool :=
  match snd a, snd b with
  | OResp st h fr body, OResp st' h' fr' body' =>
      (st =? st') && framing_eqb fr fr' && str_eqb body body' && same_fields (clock_skip (fst b)) h h'
  | ONone, ONone => false      (* a dropped exchange is a failure on either side *)
  | _, _ => false
  end.

(* tunnel vs plain proxying: status, end-to-end fields, X-Cache, relayed body.
   Framing fields and what net/http's server adds on its own (Date, a sniffed
   Content-Type, Connection) are the hop's business; the text of an error page
   the proxy itself generates (416, 502) is not relayed content. *)
Definition hop_skip (x : exchange) (k : str) : bool :=
  clock_skip x k || ieq k n_content_length || ieq k n_transfer_encoding || ieq k n_connection.
Definition proxy_page (x : exchange) : bool :=
  match x_kind x with KRefuse _ => true | KBadGateway => true | _ => false end.

Definition same_as_plain (t p : exchange * obs_resp) : bool :=
  match snd t, snd p with
  | OResp st h fr body, OResp st' h' fr' body' =>
      (st =? st') &&
      (proxy_page (fst p) || str_eqb body body') &&
      same_fields (fun k => hop_skip (fst p) k ||
                            (ieq k n_content_type && negb (nonempty_list (vals_ci n_content_type h)))) h h'
  | _, _ => false
  end.

Definition tc_propfail (c : tcase) : bool :=
  let '(TC plain one each) := c in
  negb (all2 same_on_tunnel one each && all2 same_as_plain one plain && all2 same_as_plain each plain).

Definition tc_tag (c : tcase) : Z :=
  let '(TC plain one each) := c in Z.of_nat (length one).

Definition check_tunnel (cases : list tcase) : report := mk_report tc_mismatch tc_propfail tc_tag cases.
