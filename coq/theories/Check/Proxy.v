(* Checkers for the case files of harness cmd/reval (C06 / C09): a case is one request
   history for one resource against a real proxy with a scripted origin; every request
   item carries what the client sent, what the origin answered (in order), which cache
   faults the harness injected, and what was observed: the client's response and the
   conditional fields of every request the origin received.

   pc_mismatch      : Model/Proxy.v (proxy_step, run over the history) predicts every
                      response and every upstream request
   pc_propfail_c06/9: reference checkers written from the property statements.  They use
                      the observations, the origin's answers and the reference
                      predicates of Model/FreshnessSpec.v - never proxy_step. *)
From Reservoir Require Import Base.Prelude Base.Strings Model.Freshness Model.FreshnessSpec Model.Proxy.

Record pobs := {
  po_status : Z;              (* -1 = no (complete) response: timeout, connection dropped, truncated *)
  po_version : Z;             (* X-Origin-Version of the response; -1 = none *)
  po_body_ok : bool;          (* the body is complete and is that version's body *)
  po_xcache : Z;              (* -1 absent/other, 0 MISS, 1 REVALIDATED, 2 HIT *)
  po_etag : str;              (* ETag field of the response *)
  po_ups : list upreq         (* what the origin received during the request, in order *)
}.

Inductive pitem :=
| IAdvance (d : Z)
| ISetConfig (c : pconfig)
| IDrop
| IRequest (rq : request) (answers : list oresult) (flt : faults) (o : pobs).

Inductive pcase := PC (cfg0 : pconfig) (now0 : Z) (items : list pitem).

(* ---- comparing conditional fields --------------------------------------------------- *)

Definition date_tol : Z := 2 * second.      (* field dates have second granularity *)

Definition cval_near (a b : cval) : bool :=
  match a, b with
  | CRaw x, CRaw y => str_eqb x y
  | CDate x, CDate y => Z.abs (x - y) <=? date_tol
  | _, _ => false
  end.

Definition cfield_near (a b : cfield) : bool :=
  (fst a =? fst b) && list_eqb cval_near (snd a) (snd b).

Definition cmap_near (a b : cmap) : bool := list_eqb cfield_near a b.

Definition meth_code (m : meth) : Z := match m with GET => 0 | HEAD => 1 | POST => 2 | OTHER => 3 end.

Definition upreq_near (a b : upreq) : bool :=
  (meth_code (u_meth a) =? meth_code (u_meth b)) && cmap_near (u_hdr a) (u_hdr b).

(* ---- correspondence --------------------------------------------------------------------- *)

Definition hs_code (h : hit_status) : Z := match h with HsMiss => 0 | HsRevalidated => 1 | HsHit => 2 end.
Definition label_code (l : option hit_status) : Z := match l with None => -1 | Some h => hs_code h end.

Definition etag_of (r : response) : option str :=
  match r with RStored _ _ e => Some (e_etag e) | RRelay a => Some (oa_etag a) | RBadGateway => None end.

Definition resp_matches (r : response) (ups : list upreq) (o : pobs) : bool :=
  (status_of r =? po_status o)
  && (version_of r =? po_version o)
  && po_body_ok o
  && (label_code (label_of r) =? po_xcache o)
  && match etag_of r with Some t => str_eqb t (po_etag o) | None => true end
  && list_eqb upreq_near ups (po_ups o).

Fixpoint pc_walk (s : hstate) (items : list pitem) : bool :=
  match items with
  | [] => true
  | IAdvance d :: r => pc_walk (fst (step s (Advance d))) r
  | ISetConfig c :: r => pc_walk (fst (step s (SetConfig c))) r
  | IDrop :: r => pc_walk (fst (step s Drop)) r
  | IRequest rq answers flt o :: r =>
      match step s (Request rq answers flt) with
      | (s', Some ev) => resp_matches (ev_resp ev) (ev_ups ev) o && pc_walk s' r
      | (_, None) => false
      end
  end.

Definition pc_mismatch (c : pcase) : bool :=
  let '(PC cfg0 now0 items) := c in negb (pc_walk (init_state cfg0 now0) items).

(* ---- reference checker, C09 ------------------------------------------------------------------ *)

Definition answers_of (l : list oresult) : list oanswer :=
  flat_map (fun r => match r with OAnswer a => [a] | OFail => [] end) l.

Definition all_good (l : list oresult) : bool := forallb good_result l.

Definition has_fail (l : list oresult) : bool :=
  existsb (fun r => match r with OFail => true | _ => false end) l.

(* the response is one of the answers the origin gave during this request *)
Definition relayed_from (l : list oresult) (o : pobs) : bool :=
  has_fail l      (* a transport failure towards the origin is not the proxy's doing *)
  || existsb (fun a => (oa_status a =? po_status o) && (oa_version a =? po_version o) && po_body_ok o) (answers_of l).

(* the response is a 200 carrying a body the origin handed out in a 200 answer (now or earlier) *)
Definition built_from_200 (issued : list oanswer) (o : pobs) : bool :=
  (po_status o =? 200)
  && existsb (fun a => (oa_status a =? 200) && (oa_version a =? po_version o)) issued.

(* "If the origin answers a request successfully the client receives that answer": whenever
   every answer the origin gave during the request is 2xx / 304, the client got a complete
   response whose status the origin gave in this request, or a 200 built from a stored 200 -
   never an error of the proxy's making, a hang or a dropped connection *)
Definition c09_request_fail (issued : list oanswer) (answers : list oresult) (o : pobs) : bool :=
  all_good answers
  && negb ((0 <=? po_status o) && po_body_ok o
           && (relayed_from answers o || built_from_200 (answers_of answers ++ issued) o)).

Fixpoint c09_walk (issued : list oanswer) (items : list pitem) : bool :=
  match items with
  | [] => false
  | IRequest rq answers flt o :: r =>
      c09_request_fail issued answers o || c09_walk (answers_of answers ++ issued) r
  | _ :: r => c09_walk issued r
  end.

Definition pc_propfail_c09 (c : pcase) : bool :=
  let '(PC _ _ items) := c in c09_walk [] items.

(* ---- reference checker, C06 -------------------------------------------------------------------- *)

(* What the statement says the store holds for this resource, as far as the history decides it. *)
Inductive cur :=
| CurNone                                   (* nothing stored: start of the history, or after a removal *)
| CurUnknown                                (* not decided by the statement (grey zone, injected cache fault) *)
| CurIs (a : oanswer) (t : Z) (lo hi : Z).  (* the 200 answer [a] received at [t]; fresh at least until [lo],
                                               at most until [hi] *)

Definition margin : Z := 1500000000.        (* generated gaps stay >= 2 s away from every boundary *)

(* the validators saved from a stored 200 answer received at t *)
Definition ref_validators (a : oanswer) (t : Z) : cmap :=
  (match oa_etag a with [] => [] | tag => [(IF_NONE_MATCH, [CRaw tag])] end)
  ++ [(IF_MODIFIED_SINCE, [CDate (match oa_lm a with Some l => l | None => t end)])].

Definition regular_of (u : upreq) : cmap := filter (fun f => is_regular (fst f)) (u_hdr u).

Definition unconditional (u : upreq) : bool := match regular_of u with [] => true | _ => false end.

Definition carries_validators (a : oanswer) (t : Z) (u : upreq) : bool :=
  cmap_near (regular_of u) (ref_validators a t).

Definition clean_faults (f : faults) : bool :=
  negb (f_lookup_err f) && negb (f_vanish f) && negb (f_store_fail f)
  && match f_reget f with RgOk => true | _ => false end.

Definition first_answer (l : list oresult) : option oanswer :=
  match l with OAnswer a :: _ => Some a | _ => None end.

Definition obs_is (o : pobs) (status version : Z) : bool :=
  (po_status o =? status) && (po_version o =? version) && po_body_ok o.

Definition served_stored (a : oanswer) (o : pobs) : bool :=
  obs_is o 200 (oa_version a) && str_eqb (po_etag o) (oa_etag a).

(* lifetime bounds of a 200 answer stored at [now] under policy [pol] *)
Definition stored_cur (pol : policy) (now : Z) (a : oanswer) : cur :=
  CurIs a now (now + lifetime_lower pol (oa_hv a) now) (now + lifetime_upper pol (oa_hv a) now).

Definition judged_hv (pol : policy) (a : oanswer) : bool :=
  force_default pol || ascii_header (oa_hv a).

(* what a first answer does to the store according to the statement: (failure, store afterwards) *)
Definition after_first (cfg : pconfig) (now : Z) (before : cur) (a1 : oanswer) (answers : list oresult) (o : pobs)
  : bool * cur :=
  let pol := pc_pol cfg in
  if oa_status a1 =? 200 then
    if must_store pol GET 200 (oa_hv a1) now && judged_hv pol a1 then
      (* "a 200 replaces it": the new body is served now and is what the store holds from here on *)
      (negb (served_stored a1 o), stored_cur pol now a1)
    else if negb (may_store pol GET 200 (oa_hv a1) now) then
      (* not storable: relayed, the store is as before *)
      (negb (relayed_from answers o), before)
    else (negb (relayed_from answers o || built_from_200 (answers_of answers) o), CurUnknown)
  else if oa_status a1 =? 416 then
    (* not decided by the statement (with retry_on_range_416 the request is repeated and whatever comes
       back is treated in its own right): the 416 or a later answer relayed, a later 200, or the stored
       body after a later 304 *)
    (negb (relayed_from answers o || built_from_200 (answers_of answers) o
           || match before with CurIs a _ _ _ => served_stored a o | _ => false end), CurUnknown)
  else
    (* "any other answer is relayed to the client and not stored" *)
    (negb (relayed_from answers o), before).

Definition c06_request (cfg : pconfig) (now : Z) (c : cur) (rq : request) (answers : list oresult)
           (flt : faults) (o : pobs) : bool * cur :=
  let ups := po_ups o in
  if negb (is_get (rq_meth rq)) then
    (* other methods are passed on: no validators, nothing stored or served from the store *)
    (negb (forallb unconditional ups) || negb (relayed_from answers o), c)
  else if negb (clean_faults flt) then
    (* cache faults are C09's subject; the statement still forbids foreign conditionals *)
    (match c with
     | CurIs a t _ _ => negb (forallb (fun u => unconditional u || carries_validators a t u) ups)
     | CurNone => negb (forallb unconditional ups)
     | CurUnknown => false
     end, CurUnknown)
  else
    match c with
    | CurNone =>
        (* nothing stored: the origin is asked, and there is no validator to send *)
        match ups, first_answer answers with
        | u :: rest, Some a1 =>
            let '(bad, c') := after_first cfg now CurNone a1 answers o in
            (negb (forallb unconditional ups) || (oa_status a1 =? 304) && negb (relayed_from answers o)
             || (negb (oa_status a1 =? 304) && bad),
             if oa_status a1 =? 304 then CurNone else c')
        | _, _ => (true, CurUnknown)
        end
    | CurUnknown =>
        match first_answer answers with
        | Some a1 =>
            if (oa_status a1 =? 200) && must_store (pc_pol cfg) GET 200 (oa_hv a1) now && judged_hv (pc_pol cfg) a1
            then (negb (served_stored a1 o), stored_cur (pc_pol cfg) now a1)
            else (false, CurUnknown)
        | None => (false, CurUnknown)
        end
    | CurIs a t lo hi =>
        if now + margin <? lo then
          (* still fresh: served from the store, the stored body and headers *)
          (negb (match ups with [] => true | _ => false end) || negb (served_stored a o) || negb (po_xcache o =? 2), c)
        else if hi + margin <? now then
          (* stale: the origin is asked with the validators saved from the stored response *)
          match ups, first_answer answers with
          | u :: rest, Some a1 =>
              if negb (carries_validators a t u) then (true, c)
              else if negb (forallb (fun u' => unconditional u' || carries_validators a t u') rest) then (true, c)
              else if oa_status a1 =? 304 then
                (* "a 304 keeps the stored body in service and renews its lifetime by the configured default" *)
                (negb (served_stored a o) || negb (po_xcache o =? 1),
                 CurIs a t (now + default_age (pc_pol cfg)) (now + default_age (pc_pol cfg)))
              else after_first cfg now c a1 answers o
          | _, _ => (true, c)
          end
        else (false, CurUnknown)
    end.

Fixpoint c06_walk (cfg : pconfig) (now : Z) (c : cur) (items : list pitem) : bool :=
  match items with
  | [] => false
  | IAdvance d :: r => c06_walk cfg (now + d) c r
  | ISetConfig cfg' :: r => c06_walk cfg' now c r
  | IDrop :: r => c06_walk cfg now (match c with CurUnknown => CurUnknown | _ => CurNone end) r
  | IRequest rq answers flt o :: r =>
      let '(bad, c') := c06_request cfg now c rq answers flt o in
      bad || c06_walk cfg now c' r
  end.

Definition pc_propfail_c06 (c : pcase) : bool :=
  let '(PC cfg0 now0 items) := c in c06_walk cfg0 now0 CurNone items.

(* ---- coverage tags --------------------------------------------------------------------------- *)

Definition step_bits (s : hstate) (rq : request) (answers : list oresult) (flt : faults) (ev : event) : Z :=
  let b1 := match ev_resp ev with
            | RStored HsHit _ _ => 1
            | RStored HsRevalidated 304 _ => 2
            | RStored HsRevalidated _ _ => 4
            | RStored HsMiss _ _ => 8
            | RRelay _ => 16
            | RBadGateway => 64
            end in
  let b2 := if is_get (rq_meth rq) then 0 else 128 in
  (* a good answer was at hand and the cache failed underneath: the fallback route *)
  let b3 := match hs_entry s with
            | Some e =>
                if is_get (rq_meth rq) && negb (f_lookup_err flt) && negb (fresh e (hs_now s)) then
                  match fetch_upstream (hs_cfg s) (hs_now s) GET (hs_entry s)
                          {| u_meth := GET; u_hdr := [] |} answers flt with
                  | (_, FNotCacheable, _, _) => 32
                  | _ => 0
                  end
                else if is_get (rq_meth rq) && f_lookup_err flt then 256 else 0
            | None =>
                if is_get (rq_meth rq) then
                  match fetch_upstream (hs_cfg s) (hs_now s) GET None {| u_meth := GET; u_hdr := [] |} answers flt with
                  | (_, FNotCacheable, _, _) => 32
                  | _ => 0
                  end
                else 0
            end in
  let b4 := match first_answer answers with
            | Some a => if (oa_status a =? 416) && pc_retry416 (hs_cfg s) then 512 else 0
            | None => 0
            end in
  let b5 := match regular_part (rq_hdr rq) with [] => 0 | _ => 1024 end in
  Z.lor b1 (Z.lor b2 (Z.lor b3 (Z.lor b4 b5))).

Fixpoint tag_walk (s : hstate) (items : list pitem) (acc : Z) : Z :=
  match items with
  | [] => acc
  | IAdvance d :: r => tag_walk (fst (step s (Advance d))) r acc
  | ISetConfig c :: r => tag_walk (fst (step s (SetConfig c))) r acc
  | IDrop :: r => tag_walk (fst (step s Drop)) r acc
  | IRequest rq answers flt o :: r =>
      match step s (Request rq answers flt) with
      | (s', Some ev) => tag_walk s' r (Z.lor acc (step_bits s rq answers flt ev))
      | (s', None) => tag_walk s' r acc
      end
  end.

Definition pc_tag (c : pcase) : Z :=
  let '(PC cfg0 now0 items) := c in tag_walk (init_state cfg0 now0) items 0.

Definition check_reval_c06 (cases : list pcase) : report :=
  mk_report pc_mismatch pc_propfail_c06 pc_tag cases.
Definition check_reval_c09 (cases : list pcase) : report :=
  mk_report pc_mismatch pc_propfail_c09 pc_tag cases.
