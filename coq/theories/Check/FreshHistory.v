(* Checkers for the end-to-end case files of C03 / C04 (harness cmd/fresh): a case is one
   request history against a real proxy with a scripted origin, with every client
   response and the origin's log of that request.

   hc_mismatch      : the history model (Model/FreshHistory.v) predicts every response
   hc_propfail_c03/4: reference checkers written from the property statements; they use
                      only the observations, the origin's answers and the reference
                      predicates of Model/FreshnessSpec.v - not the model's step function. *)
From Reservoir Require Import Base.Prelude Base.Strings Model.Freshness Model.FreshnessSpec
  Model.FreshHistory Check.Freshness.

Record hobs := {
  ho_status : Z;
  ho_version : Z;                 (* X-Origin-Version of the response (= the body's version); -1 = none *)
  ho_xcache : Z;                  (* -1 absent/other, 0 MISS, 1 REVALIDATED, 2 HIT *)
  ho_cs : option cache_status;    (* parsed Cache-Status *)
  ho_cs_ok : bool;                (* Cache-Status absent or well-formed *)
  ho_age : option Z;              (* Age field *)
  ho_origin : list Z              (* statuses the origin answered while the request was in flight *)
}.

Inductive hitem :=
| IAdvance (d : Z)
| ISetPolicy (p : policy)
| IRequest (m : meth) (oa : oanswer) (r304 : bool) (o : hobs).

Inductive hist_case := HC (pol0 : policy) (now0 : Z) (items : list hitem).

Definition contacted (o : hobs) : bool := match ho_origin o with [] => false | _ => true end.

(* ---- correspondence -------------------------------------------------------------- *)

Definition label_code (l : option hit_status) : Z :=
  match l with None => -1 | Some h => hs_code h end.

Definition resp_matches (r : response) (o : hobs) : bool :=
  (r_status r =? ho_status o)
  && (r_version r =? ho_version o)
  && (label_code (r_label r) =? ho_xcache o)
  && ho_cs_ok o && opt_eqb cs_eqb (r_cs r) (ho_cs o)
  && opt_eqb near1 (r_age r) (ho_age o)
  && Bool.eqb (r_contacted r) (contacted o).

Fixpoint hc_walk (s : hstate) (items : list hitem) : bool :=
  match items with
  | [] => true
  | IAdvance d :: r => hc_walk (fst (step s (Advance d))) r
  | ISetPolicy p :: r => hc_walk (fst (step s (SetPolicy p))) r
  | IRequest m oa r304 o :: r =>
      match step s (Request m oa r304) with
      | (s', Some ev) => resp_matches (ev_resp ev) o && hc_walk s' r
      | (_, None) => false
      end
  end.

Definition hc_mismatch (c : hist_case) : bool :=
  let '(HC pol0 now0 items) := c in negb (hc_walk (init_state pol0 now0) items).

(* ---- reference checkers ------------------------------------------------------------ *)

Record seen := { sn_now : Z; sn_pol : policy; sn_meth : meth; sn_oa : oanswer; sn_obs : hobs }.

Definition got_full (j : seen) : bool := existsb (Z.eqb (oa_status (sn_oa j))) (ho_origin (sn_obs j)).
Definition got_304 (j : seen) : bool := existsb (Z.eqb 304) (ho_origin (sn_obs j)).

(* j is an earlier GET during which the origin handed out its 200 answer, version v *)
Definition fetched_200 (v : Z) (j : seen) : bool :=
  is_get (sn_meth j) && contacted (sn_obs j) && got_full j
  && (oa_status (sn_oa j) =? 200) && (oa_version (sn_oa j) =? v).

Definition margin : Z := 1500000000.   (* generated gaps stay >= 2 s away from every boundary *)

Definition judged (j : seen) : bool :=
  force_default (sn_pol j) || ascii_header (oa_hv (sn_oa j)).

(* C04, only-if: a response served without origin contact is a 200 answer to a GET that the
   origin handed out earlier and did not mark (or the operator ignores the marks) *)
Definition c04_reuse_ok (past : list seen) (m : meth) (o : hobs) : bool :=
  is_get m && (ho_status o =? 200)
  && existsb (fun j => fetched_200 (ho_version o) j
                       && may_store (sn_pol j) GET 200 (oa_hv (sn_oa j)) (sn_now j)) past.

(* C04, converse: the last origin contact for this resource delivered a must-store response
   and we are strictly inside its lifetime: the request must be answered from the store *)
Fixpoint last_get_contact (past : list seen) : option seen :=
  match past with
  | [] => None
  | j :: r => if is_get (sn_meth j) && contacted (sn_obs j) then Some j else last_get_contact r
  end.

Definition c04_must_reuse (past : list seen) (now : Z) : option Z :=
  match last_get_contact past with
  | Some j =>
      if got_full j && negb (got_304 j)
         && must_store (sn_pol j) GET (oa_status (sn_oa j)) (oa_hv (sn_oa j)) (sn_now j)
         && judged j      (* the prescribed lifetime is only defined for ASCII directives or a forced default *)
         && (sn_now j <=? now)
         && (now - sn_now j + margin <? lifetime_lower (sn_pol j) (oa_hv (sn_oa j)) (sn_now j))
      then Some (oa_version (sn_oa j)) else None
  | None => None
  end.

Definition c04_request_fail (past : list seen) (now : Z) (m : meth) (o : hobs) : bool :=
  (negb (contacted o) && negb (c04_reuse_ok past m o))
  || (is_get m && match c04_must_reuse past now with
                  | Some v => contacted o || negb (ho_version o =? v) || negb (ho_status o =? 200)
                  | None => false
                  end).

(* C03: reuse without contact only inside the lifetime of the stored answer, or inside the
   default lifetime after a revalidation in which the origin answered 304.  The lifetime
   counts from the LATEST earlier request in which the origin handed out this version as a
   200 answer to a GET, or confirmed it with a 304. *)
Definition c03_candidate (v : Z) (j : seen) : bool :=
  is_get (sn_meth j) && contacted (sn_obs j) && (ho_version (sn_obs j) =? v)
  && (fetched_200 v j || got_304 j).

Definition secs (d : Z) : Z := Z.quot d second.

Definition c03_within (now : Z) (j : seen) : bool :=
  if got_304 j then now - sn_now j <=? default_age (sn_pol j) + margin
  else negb (judged j)
       || (now - sn_now j <=? lifetime_upper (sn_pol j) (oa_hv (sn_oa j)) (sn_now j) + margin).

Definition c03_ttl_ok (now ttl : Z) (j : seen) : bool :=
  if got_304 j then near1 ttl (Z.max 0 (secs (sn_now j + default_age (sn_pol j) - now)))
  else negb (judged j)
       || ((Z.max 0 (secs (sn_now j + lifetime_lower (sn_pol j) (oa_hv (sn_oa j)) (sn_now j) - now)) - 1 <=? ttl)
           && (ttl <=? Z.max 0 (secs (sn_now j + lifetime_upper (sn_pol j) (oa_hv (sn_oa j)) (sn_now j) - now)) + 1)).

(* Age = initial age + whole seconds since some earlier fetch of this version *)
Definition c03_age_ok (now : Z) (v age : Z) (j : seen) : bool :=
  fetched_200 v j
  && near1 age (match oa_age (sn_oa j) with Some a => Z.max 0 a | None => 0 end + secs (now - sn_now j)).

Definition c03_request_fail (past : list seen) (now : Z) (m : meth) (o : hobs) : bool :=
  (* the label says HIT exactly when the origin was not contacted *)
  negb (Bool.eqb (ho_xcache o =? 2) (negb (contacted o)))
  || negb (ho_cs_ok o)
  || negb (Bool.eqb (match ho_cs o with Some c => hit_status_eqb (cs_hit c) HsHit | None => false end)
                    (negb (contacted o)))
  || (negb (contacted o)
      && negb (is_get m
               && match find (c03_candidate (ho_version o)) past with
                  | Some j =>
                      c03_within now j
                      && match ho_cs o with
                         | Some c => match cs_ttl c with
                                     | Some t => (0 <=? t) && c03_ttl_ok now t j
                                     | None => false
                                     end
                         | None => false
                         end
                  | None => false
                  end
               && match ho_age o with
                  | Some a => existsb (c03_age_ok now (ho_version o) a) past
                  | None => false
                  end)).

Fixpoint ref_walk (fail : list seen -> Z -> meth -> hobs -> bool)
         (pol : policy) (now : Z) (past : list seen) (items : list hitem) : bool :=
  match items with
  | [] => false
  | IAdvance d :: r => ref_walk fail pol (now + d) past r
  | ISetPolicy p :: r => ref_walk fail p now past r
  | IRequest m oa r304 o :: r =>
      fail past now m o
      || ref_walk fail pol now ({| sn_now := now; sn_pol := pol; sn_meth := m; sn_oa := oa; sn_obs := o |} :: past) r
  end.

Definition hc_propfail_c03 (c : hist_case) : bool :=
  let '(HC pol0 now0 items) := c in ref_walk c03_request_fail pol0 now0 [] items.
Definition hc_propfail_c04 (c : hist_case) : bool :=
  let '(HC pol0 now0 items) := c in ref_walk c04_request_fail pol0 now0 [] items.

(* coverage: which kinds of model steps the history contains *)
Fixpoint tag_walk (s : hstate) (items : list hitem) (acc : Z) : Z :=
  match items with
  | [] => acc
  | IAdvance d :: r => tag_walk (fst (step s (Advance d))) r acc
  | ISetPolicy p :: r => tag_walk (fst (step s (SetPolicy p))) r (Z.lor acc 32)
  | IRequest m oa r304 o :: r =>
      match step s (Request m oa r304) with
      | (s', Some ev) =>
          let bit := match r_label (ev_resp ev), ev_effect ev with
                     | Some HsHit, _ => 1
                     | _, ERenewed => 2
                     | Some HsRevalidated, EStored => 4
                     | Some HsMiss, EStored => 8
                     | _, _ => 16
                     end in
          tag_walk s' r (Z.lor acc bit)
      | (s', None) => tag_walk s' r acc
      end
  end.

Definition hc_tag (c : hist_case) : Z :=
  let '(HC pol0 now0 items) := c in tag_walk (init_state pol0 now0) items 0.

Definition check_hist_c03 (cases : list hist_case) : report :=
  mk_report hc_mismatch hc_propfail_c03 hc_tag cases.
Definition check_hist_c04 (cases : list hist_case) : report :=
  mk_report hc_mismatch hc_propfail_c04 hc_tag cases.
