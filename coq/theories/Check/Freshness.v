(* Checkers for the unit-level case files of C03 / C04 (harness cmd/unit, files
   fresh.go): every case is one response header set under one cache policy,
   with what the real ParseHeaderDirective / ShouldCache / GetExpiresOrDefault /
   shouldResponseBeCached / getCurrentAge / fetchResultToCacheStatus did. *)
From Reservoir Require Import Base.Prelude Base.Strings Model.Freshness Model.FreshnessSpec.

Record fresh_obs := {
  fo_panic : bool;
  fo_cc : option (bool * Z);     (* parsed Cache-Control: (noCache, maxAge ns) *)
  fo_exp : option Z;             (* parsed Expires instant *)
  fo_should : bool;              (* ShouldCache *)
  fo_storable : bool;            (* fetcher.shouldResponseBeCached *)
  fo_expires_at : Z              (* GetExpiresOrDefault *)
}.

Inductive fresh_case :=
| FC (pol : policy) (m : meth) (status : Z) (hv : hview) (now : Z) (o : fresh_obs).

(* clock readings inside the implementation differ from the recorded [now] by the
   run time of the call; the harness repeats an observation that took > 50 ms *)
Definition tol : Z := 100000000.
Definition near (a b : Z) : bool := Z.abs (a - b) <=? tol.

Definition bz_eqb (a b : bool * Z) : bool := Bool.eqb (fst a) (fst b) && (snd a =? snd b).

Definition fc_mismatch (c : fresh_case) : bool :=
  let '(FC pol m status hv now o) := c in
  let d := parse_directives hv in
  negb (negb (fo_panic o)
        && opt_eqb bz_eqb (option_map (fun c => (no_cache c, max_age c)) (d_cc d)) (fo_cc o)
        && opt_eqb Z.eqb (d_exp d) (fo_exp o)
        && Bool.eqb (should_cache (ignore_cc pol) d (resp_range hv) now) (fo_should o)
        && Bool.eqb (storable pol m status hv now) (fo_storable o)
        && near (store_expiry pol hv now) (fo_expires_at o)).

(* C04 on the implementation's own answer *)
Definition fc_propfail_c04 (c : fresh_case) : bool :=
  let '(FC pol m status hv now o) := c in
  fo_panic o
  || (fo_storable o && negb (may_store pol m status hv now))
  || (negb (fo_storable o) && must_store pol m status hv now).

(* C03 (lifetime part) on the implementation's own answer: only the lifetime of a
   response that is stored matters *)
Definition fc_propfail_c03 (c : fresh_case) : bool :=
  let '(FC pol m status hv now o) := c in
  fo_panic o
  || (fo_storable o
      && (force_default pol || ascii_header hv)
      && let life := fo_expires_at o - now in
         let lo := lifetime_lower pol hv now in
         (lifetime_upper pol hv now + tol <? life) || ((0 <? lo) && (life <? lo - tol))).

Definition fc_tag (c : fresh_case) : Z :=
  let '(FC pol m status hv now o) := c in
  let d := parse_directives hv in
  (if ignore_cc pol then 1000 else 0) + (if force_default pol then 2000 else 0)
  + (match d_cc d with
     | None => 0
     | Some c => if no_cache c then (if 0 <? max_age c then 100 else 200)
                 else if 0 <? max_age c then 300 else 400
     end)
  + (match expires hv with ExpAbsent => 0 | ExpUnparseable => 10 | ExpAt t => if t <? now then 20 else 30 end)
  + (if storable pol m status hv now then 1 else 0)
  + (if (status =? 200) && is_get m then 0 else 2).

Definition check_fresh_c03 (cases : list fresh_case) : report :=
  mk_report fc_mismatch fc_propfail_c03 fc_tag cases.
Definition check_fresh_c04 (cases : list fresh_case) : report :=
  mk_report fc_mismatch fc_propfail_c04 fc_tag cases.

(* ---- Age / Cache-Status computation ------------------------------------------- *)

Record label_obs := {
  lo_xcache : Z;                (* 0 MISS, 1 REVALIDATED, 2 HIT, -1 anything else *)
  lo_status : cache_status;     (* parsed back from the Cache-Status field *)
  lo_age : Z                    (* getCurrentAge *)
}.

Inductive label_case :=
| LC (hs : hit_status) (upstream_status : Z) (cached : bool) (exp stored_at now : Z)
     (date up_age : option Z) (o : label_obs).

Definition hs_code (h : hit_status) : Z := match h with HsMiss => 0 | HsRevalidated => 1 | HsHit => 2 end.

Definition near1 (a b : Z) : bool := Z.abs (a - b) <=? 1.

Definition cs_eqb (a b : cache_status) : bool :=
  hit_status_eqb (cs_hit a) (cs_hit b)
  && Bool.eqb (cs_fwd_stale a) (cs_fwd_stale b)
  && opt_eqb Z.eqb (cs_fwd_status a) (cs_fwd_status b)
  && Bool.eqb (cs_stored a) (cs_stored b)
  && opt_eqb near1 (cs_ttl a) (cs_ttl b).

Definition lc_mismatch (c : label_case) : bool :=
  let '(LC hs us cached exp stored_at now date up_age o) := c in
  negb ((hs_code hs =? lo_xcache o)
        && cs_eqb (make_cache_status hs us cached exp now) (lo_status o)
        && near1 (current_age date up_age stored_at now) (lo_age o)).

(* C03, label part, on the observation alone: the label is HIT exactly for the
   hit status; Age is the initial age plus the time since the entry was stored;
   ttl is the remaining lifetime, never negative. *)
Definition lc_propfail (c : label_case) : bool :=
  let '(LC hs us cached exp stored_at now date up_age o) := c in
  negb (Bool.eqb (lo_xcache o =? 2) (hit_status_eqb hs HsHit))
  || negb (Bool.eqb (hit_status_eqb (cs_hit (lo_status o)) HsHit) (hit_status_eqb hs HsHit))
  || (match cs_ttl (lo_status o) with
      | Some t => (t <? 0) || negb (near1 t (Z.max 0 (Z.quot (exp - now) second)))
      | None => false
      end)
  || (let init := match up_age with Some a => Z.max 0 a | None => 0 end in
      let resident := Z.quot (now - stored_at) second in
      (* without a usable Date the age is exactly initial + resident; with one it is at least that *)
      (0 <=? resident) && (init + resident <? 2^62) &&
      match date with
      | None => negb (near1 (lo_age o) (init + resident))
      | Some _ => lo_age o <? init + resident - 1
      end).

Definition lc_tag (c : label_case) : Z :=
  let '(LC hs us cached exp stored_at now date up_age o) := c in
  hs_code hs + (if cached then 10 else 0)
  + (match date with Some _ => 100 | None => 0 end)
  + (match up_age with Some _ => 1000 | None => 0 end).

Definition check_label (cases : list label_case) : report :=
  mk_report lc_mismatch lc_propfail lc_tag cases.
