(* Decidable checkers for the configuration-transaction cases of C18 (and the configuration slice
   of C16): harness cmd/conf, stage txn.

   mismatch : the model (Model/ConfigTxn.v) run on the script predicts something else than what
              the real package did (status, effective values, what listeners were told, the file,
              what a fresh load of the file gives, the components, liveness).
   propfail : the observation violates the reference written from the property statement.  The
              reference never calls update / walk / verify_view: it uses the script, the previous
              observation, lookup_path (which setting a document addresses), what a JSON value
              means for a kind, and the consumers' preconditions can_run_b. *)
From Reservoir Require Import Base.Prelude Model.ByteSize Model.ConfigProp Check.ByteSize Model.ConfigTxn.

(* ---------- observations ---------- *)
(* one leaf of var/config.json, read with a generic JSON decoder: strings and sizes as text,
   integers as numbers, durations and levels parsed by their Go library (a number), LBad = absent
   or of another JSON type *)
Inductive leaf := LText (s : str) | LNum (z : Z) | LBool (b : bool) | LBad.
Inductive fobs := OGood (leaves : list leaf) | OTorn (n : Z) | OAbsent.

Inductive sin :=
| IUpdate (doc : option jmap) (limit : option Z) (wlen : Z)
| IOverride (i : Z) (v : fval).

Record sobs := SO {
  so_status : Z;                  (* 0 failed, 1 success, 2 restart required, 3 panicked *)
  so_eff : list fval;             (* Read() of every property, table order *)
  so_told : list (list fval);     (* per property: what its recording listener was told during this step *)
  so_file : fobs;
  so_load : option (list fval);   (* load(var/config.json) in a fresh Config: Read() of every property *)
  so_comp : list Z;               (* cache.maxCacheSize; cache.memoryCap; total memory; janitor interval *)
  so_alive : bool                 (* the process that runs the history is still there *)
}.

Inductive txn_case :=
| TX (dur lvl : list (str * option Z)) (addr : list (str * bool)) (live : bool) (steps : list (sin * sobs))
| VF (addr : list (str * bool)) (eff saved : list fval) (accepted : bool) (started : bool).

(* ---------- compact notation for case files ---------- *)
(* Most observations repeat the defaults; the harness prints a list as the entries that differ
   from a base list given once per case file (patch), and the per-property listener logs as the
   non-empty ones (sparse). *)
Fixpoint patch_from {A} (i : Z) (base : list A) (d : list (Z * A)) : list A :=
  match base with
  | [] => []
  | x :: r =>
      (match find (fun e => fst e =? i) d with Some e => snd e | None => x end) :: patch_from (i + 1) r d
  end.
Definition patch {A} (base : list A) (d : list (Z * A)) : list A := patch_from 0 base d.
Definition sparse {A B} (base : list B) (d : list (Z * list A)) : list (list A) :=
  patch (map (fun _ => []) base) d.

(* ---------- oracle tables ---------- *)
Fixpoint assoc {A} (l : list (str * A)) (d : A) (s : str) : A :=
  match l with [] => d | (k, v) :: r => if str_eqb k s then v else assoc r d s end.

Definition fvals_eqb := list_eqb fval_eqb.
Definition told_eqb := list_eqb fvals_eqb.

(* ---------- the model side ---------- *)
Definition leaf_matches (k : fkind) (v : fval) (l : leaf) : bool :=
  match k, v, l with
  | KSize, VZ n, LText s => str_eqb (bs_string n) s
  | KStr, VS a, LText b => str_eqb a b
  | KBool, VB a, LBool b => Bool.eqb a b
  | (KInt | KDur | KLevel), VZ a, LNum b => a =? b
  | _, _, _ => false
  end.

Fixpoint leaves_match (tbl : table) (vs : list fval) (ls : list leaf) : bool :=
  match tbl, vs, ls with
  | [], [], [] => true
  | f :: t, v :: vs', l :: ls' => leaf_matches (f_kind f) v l && leaves_match t vs' ls'
  | _, _, _ => false
  end.

Definition file_matches (tbl : table) (f : file) (o : fobs) : bool :=
  match f, o with
  | FGood vs, OGood ls => leaves_match tbl vs ls
  | FTorn _, OTorn _ => true
  | FAbsent, OAbsent => true
  | _, _ => false
  end.

Definition status_code (r : res (st * status)) : Z :=
  match r with
  | Ok (_, Failed) => 0 | Ok (_, Success) => 1 | Ok (_, RestartRequired) => 2
  | Err => 0 | Panic => 3
  end.

Fixpoint new_told (old new : list (list fval)) : list (list fval) :=
  match old, new with
  | o :: old', n :: new' => skipn (length o) n :: new_told old' new'
  | _, _ => []
  end.

(* what the components must show once everything has been delivered: the cache limit, the memory
   cap computed from the percentage (int64(total) * int64(percent) / 100), the janitor interval *)
Definition comp_expected (tbl : table) (eff : list fval) (total : Z) : option (list Z) :=
  match get tbl eff p_max_cache_size, get tbl eff p_mem_percent, get tbl eff p_cleanup_interval with
  | Some (VZ m), Some (VZ p), Some (VZ d) => Some [m; Z.quot (total * p) 100; total; d]
  | _, _, _ => None
  end.

(* comp = [] : no component exists (yet): the proxy is created after the command-line overrides;
   a memory cap of -1 : the cache is the file cache, which has none *)
Definition comp_matches (tbl : table) (live : bool) (eff : list fval) (comp : list Z) : bool :=
  match comp with
  | [] => true
  | [m; cap; total; d] =>
      live && match comp_expected tbl eff total with
              | Some [m'; cap'; _; d'] => (m =? m') && ((cap =? -1) || (cap =? cap')) && (d =? d')
              | _ => false
              end
  | _ => false
  end.

Section Run.
Variable tbl : table.
Variable dur lvl : list (str * option Z).
Variable addr : list (str * bool).
Let ldur := assoc dur None.
Let llvl := assoc lvl None.
Let laddr := assoc addr false.

Fixpoint tx_model (live : bool) (s : st) (steps : list (sin * sobs)) : bool :=
  match steps with
  | [] => true
  | (i, o) :: rest =>
      let r := match i with
               | IUpdate doc limit wlen => update_opt ldur llvl laddr tbl s doc limit wlen
               | IOverride ix v => Ok (override tbl s (Z.to_nat ix) v, Success)
               end in
      match r with
      | Ok (s', _) =>
          (so_status o =? (match i with IOverride _ _ => so_status o | _ => status_code r end)) &&
          fvals_eqb (so_eff o) (effective s') &&
          told_eqb (so_told o) (new_told (s_log s) (s_log s')) &&
          file_matches tbl (s_file s') (so_file o) &&
          match load laddr tbl (s_file s'), so_load o with
          | Ok vs, Some ws => fvals_eqb vs ws
          | Err, None => true
          | _, _ => false
          end &&
          comp_matches tbl live (effective s') (so_comp o) &&
          Bool.eqb (so_alive o) (s_alive s') &&
          tx_model live s' rest
      | _ => (so_status o =? 3) (* a panic ends the comparison: the model has no state after it *)
      end
  end.

(* ---------- the reference side ---------- *)

(* what a submitted JSON value means for a setting of kind k; null is left unspecified *)
Definition means (k : fkind) (j : json) (v : fval) : bool :=
  match j with
  | JNull => true
  | _ =>
    match k, j, v with
    | KStr, JStr s, VS t => str_eqb s t
    | KBool, JBool a, VB b => Bool.eqb a b
    | KInt, JNum z, VZ n => z =? n
    | KSize, JStr s, VZ n => opt_eqb Z.eqb (ref_size s) (Some n)
    | KDur, JStr s, VZ n => opt_eqb Z.eqb (ldur s) (Some n)
    | KLevel, JStr s, VZ n => opt_eqb Z.eqb (llvl s) (Some n)
    | _, _, _ => false
    end
  end.

Definition last_is (l : list fval) (v : fval) : bool :=
  match rev l with [] => false | x :: _ => fval_eqb x v end.

(* reference state: the saved values (what the last accepted update left in the file), the
   command-line overrides in force, the previous observation *)
Record rstate := { r_bases : list fval; r_over : list (option fval); r_prev : option sobs }.

Definition nth_fval (l : list fval) (i : nat) : fval := nth i l (VB false).

(* one accepted update, setting by setting *)
Fixpoint accepted_fields (i : nat) (fs : table) (doc : jmap) (rs : rstate) (o : sobs) (loaded : list fval) : bool :=
  match fs with
  | [] => true
  | f :: fs' =>
      let eff := nth_fval (so_eff o) i in
      let sav := nth_fval loaded i in
      let told := nth i (so_told o) [] in
      let was_eff := match r_prev rs with Some p => nth_fval (so_eff p) i | None => eff end in
      (match lookup_path doc (f_path f) with
       | Some j => means (f_kind f) j sav                        (* the addressed setting holds the submitted value *)
       | None => fval_eqb sav (nth_fval (r_bases rs) i) &&        (* every other setting is as it was *)
                 fval_eqb eff was_eff
       end) &&
      fval_eqb eff (match nth i (r_over rs) None with Some ov => ov | None => sav end) &&  (* overrides stay in force *)
      (match told with [] => fval_eqb eff was_eff                 (* a changed value is announced ... *)
                     | _ => last_is told eff end) &&              (* ... and the last announcement is the value in force *)
      accepted_fields (S i) fs' doc rs o loaded
  end.

Definition all_quiet (o : sobs) : bool := forallb (fun l => match l with [] => true | _ => false end) (so_told o).

Definition fobs_eqb (a b : fobs) : bool :=
  match a, b with
  | OGood x, OGood y => list_eqb (fun p q => match p, q with
                                             | LText s, LText t => str_eqb s t
                                             | LNum s, LNum t => s =? t
                                             | LBool s, LBool t => Bool.eqb s t
                                             | LBad, LBad => true
                                             | _, _ => false end) x y
  | OTorn x, OTorn y => x =? y
  | OAbsent, OAbsent => true
  | _, _ => false
  end.

Definition unchanged (p o : sobs) : bool :=
  fvals_eqb (so_eff p) (so_eff o) && all_quiet o && fobs_eqb (so_file p) (so_file o) &&
  opt_eqb fvals_eqb (so_load p) (so_load o) &&
  match so_comp p with [] => true (* the components were created in between *) | c => list_eqb Z.eqb c (so_comp o) end.

Fixpoint tx_ref (live : bool) (rs : rstate) (steps : list (sin * sobs)) : bool :=
  match steps with
  | [] => true
  | (i, o) :: rest =>
      so_alive o &&                                              (* "and the process alive" *)
      negb (so_status o =? 3) &&                                 (* no document makes the update panic *)
      comp_matches tbl live (so_eff o) (so_comp o) &&             (* every component follows the settings in force *)
      match i with
      | IUpdate doc _ _ =>
          if so_status o =? 0 then
            (* refused: nothing at all has changed *)
            match r_prev rs with Some p => unchanged p o | None => all_quiet o end &&
            tx_ref live {| r_bases := r_bases rs; r_over := r_over rs; r_prev := Some o |} rest
          else
            (* accepted: only if the proxy can run under it, now and after the next start;
               the file is complete and holds exactly the addressed changes *)
            match so_load o, doc with
            | Some loaded, Some m =>
                can_run_b laddr tbl (so_eff o) && can_run_b laddr tbl loaded &&
                (length loaded =? length tbl)%nat && (length (so_eff o) =? length tbl)%nat &&
                accepted_fields 0 tbl m rs o loaded &&
                tx_ref live {| r_bases := loaded; r_over := r_over rs; r_prev := Some o |} rest
            | _, _ => false
            end
      | IOverride ix v =>
          tx_ref live {| r_bases := r_bases rs;
                         r_over := upd_nth (Z.to_nat ix) (fun _ => Some v) (r_over rs);
                         r_prev := Some o |} rest
      end
  end.

End Run.

Definition txn_mismatch (tbl : table) (c : txn_case) : bool :=
  match c with
  | TX dur lvl addr live steps =>
      negb (tx_model tbl dur lvl addr live (start (assoc addr false) tbl FAbsent) steps)
  | VF addr eff saved accepted _ =>
      negb (Bool.eqb accepted (verify_view (assoc addr false) tbl eff && verify_view (assoc addr false) tbl saved))
  end.

Definition txn_propfail (tbl : table) (c : txn_case) : bool :=
  match c with
  | TX dur lvl addr live steps =>
      negb (tx_ref tbl dur lvl addr live
              {| r_bases := defaults tbl; r_over := map (fun _ => None) tbl; r_prev := None |} steps)
  | VF addr eff saved accepted started =>
      accepted && negb (can_run_b (assoc addr false) tbl eff && can_run_b (assoc addr false) tbl saved && started)
  end.

Definition has_status (z : Z) (steps : list (sin * sobs)) : bool := existsb (fun io => so_status (snd io) =? z) steps.
Definition has_fault (steps : list (sin * sobs)) : bool :=
  existsb (fun io => match fst io with IUpdate _ (Some _) _ => true | _ => false end) steps.
Definition has_override (steps : list (sin * sobs)) : bool :=
  existsb (fun io => match fst io with IOverride _ _ => true | _ => false end) steps.

Definition txn_tag (c : txn_case) : Z :=
  match c with
  | TX _ _ _ _ steps =>
      100 + (if has_status 0 steps then 1 else 0) + (if has_status 1 steps || has_status 2 steps then 2 else 0) +
      (if has_fault steps then 4 else 0) + (if has_override steps then 8 else 0)
  | VF _ _ _ accepted started => if accepted then (if started then 1 else 3) else 2
  end.

Definition check_txn (tbl : table) (cases : list txn_case) : report :=
  mk_report (txn_mismatch tbl) (txn_propfail tbl) txn_tag cases.
