(* Decidable checkers for the event cases of C19 (harness cmd/conf, stage event). *)
From Reservoir Require Import Base.Prelude Model.Event.

(* what the harness does: listener ids are 0,1,2,... in subscription order *)
Inductive hact :=
| HSub
| HUnsub (k : Z)       (* call the Unsubscribe closure of listener k (possibly again) *)
| HFire (v : Z)        (* values are distinct within a case *)
| HRelease (k : Z)     (* let the blocked call of gated listener k return *)
| HDrain.              (* keep releasing every blocked listener until nothing is left to deliver *)

(* observed at a quiescent point: listener ids in the order of Event.subscribers,
   the complete call log of every listener ever subscribed, how many actions panicked *)
Inductive eobs := EO (order : list Z) (logs : list (list Z)) (panics : Z).

(* a burst of actions executed back to back, then a wait for quiescence, then the observation *)
Inductive seg := SG (acts : list hact) (obs : eobs).

Inductive ev_case :=
| EC (gated : bool) (segs : list seg)
    (* gated: every listener logs the value and then blocks until released;
       otherwise listeners log, yield at random and return *)
| ER (fired : list Z) (final : Z) (after : Z) (len_after : Z)
| LR (steps : list lrstep)
with lrstep := LS (setting : bool) (with_range : Z) (without_range : Z).
    (* a real component (cache size limit): values set back to back, the limit it ended up with,
       the limit after Destroy() and one more change, subscriber count after Destroy() *)

Definition list_z_eqb := list_eqb Z.eqb.

(* ---------------------------------------------------------------------- *)
(* the model                                                               *)

Definition mstate := (est * Z)%type.   (* state, panics so far in this segment *)

Definition apply_act (free : nat -> bool) (m : mstate) (a : hact) : mstate :=
  let '(st, p) := m in
  let go (x : act) := match step st x with Ok st' => (st', p) | _ => (st, p + 1) end in
  match a with
  | HSub => go ASub
  | HUnsub k => go (AUnsub (Z.to_nat k))
  | HFire v => go (AFire v)
  | HRelease k => go (AReturn (Z.to_nat k))
  | HDrain => (settle_all (fun _ => true) st, p)
  end.

Fixpoint is_prefix (a b : list Z) : bool :=
  match a, b with
  | [], _ => true
  | x :: a', y :: b' => (x =? y) && is_prefix a' b'
  | _ :: _, [] => false
  end.

Fixpoint strip (pre l : list Z) : option (list Z) :=
  match pre, l with
  | [], _ => Some l
  | x :: p, y :: r => if x =? y then strip p r else None
  | _ :: _, [] => None
  end.

Definition log_ok (gated : bool) (s : sub) (impl : list Z) : bool :=
  if s_active s || gated then list_z_eqb (s_log s) impl
  else match strip (s_log s) impl with
       | Some extra => is_prefix extra (s_dropped s)
       | None => false
       end.

Fixpoint logs_ok (gated : bool) (h : list sub) (impl : list (list Z)) : bool :=
  match h, impl with
  | [], [] => true
  | s :: h', l :: impl' => log_ok gated s l && logs_ok gated h' impl'
  | _, _ => false
  end.

(* a listener that was unsubscribed while free-running may have received a few
   of the dropped values; the model continues from what it actually received *)
Fixpoint adopt (h : list sub) (impl : list (list Z)) : list sub :=
  match h, impl with
  | s :: h', l :: impl' =>
      (if s_active s then s
       else {| s_pending := s_pending s; s_running := s_running s; s_active := false;
               s_incall := s_incall s; s_log := l; s_since := s_since s; s_dropped := [] |})
      :: adopt h' impl'
  | _, _ => h
  end.

Fixpoint run_segs (gated : bool) (st : est) (segs : list seg) : bool :=
  match segs with
  | [] => true
  | SG acts (EO order logs panics) :: r =>
      let free := fun _ : nat => negb gated in
      let '(st1, p) := fold_left (apply_act free) acts (st, 0) in
      let st2 := settle_all free st1 in
      list_z_eqb (map Z.of_nat (e_subs st2)) order &&
      logs_ok gated (e_heap st2) logs && (p =? panics) &&
      run_segs gated {| e_subs := e_subs st2; e_heap := adopt (e_heap st2) logs; e_fired := e_fired st2 |} r
  end.

(* ---------------------------------------------------------------------- *)
(* the reference, written from the statement: a set of live listener ids and,
   for every listener, the values changed-to while it was live *)

Record rl := { r_live : bool; r_seen : list Z (* values fired while live, oldest first *) }.

Definition ref_act (ls : list rl) (a : hact) : list rl :=
  match a with
  | HSub => ls ++ [{| r_live := true; r_seen := [] |}]
  | HUnsub k => map (fun ir : Z * rl => let '(i, r) := ir in
                       if i =? k then {| r_live := false; r_seen := r_seen r |} else r)
                    (combine (map Z.of_nat (seq 0 (length ls))) ls)
  | HFire v => map (fun r => if r_live r then {| r_live := true; r_seen := r_seen r ++ [v] |} else r) ls
  | HRelease _ | HDrain => ls
  end.

Definition memz (x : Z) (l : list Z) : bool := existsb (Z.eqb x) l.

Definition live_ids (ls : list rl) : list Z :=
  map fst (filter (fun ir : Z * rl => r_live (snd ir)) (combine (map Z.of_nat (seq 0 (length ls))) ls)).

Definition same_set (a b : list Z) : bool :=
  (Nat.eqb (length a) (length b)) && forallb (fun x => memz x b) a && forallb (fun x => memz x a) b.

Definition ends_with_drain (acts : list hact) : bool :=
  match rev acts with HDrain :: _ => true | _ => false end.

(* every listener was only ever told values changed-to while it was subscribed;
   when [settled], every live listener's last value is the latest change *)
Fixpoint ref_logs (settled : bool) (ls : list rl) (logs : list (list Z)) : bool :=
  match ls, logs with
  | [], [] => true
  | r :: ls', l :: logs' =>
      forallb (fun v => memz v (r_seen r)) l &&
      (if settled && r_live r
       then match r_seen r with [] => true | _ => last l (-1) =? last (r_seen r) (-2) end
       else true) &&
      ref_logs settled ls' logs'
  | _, _ => false
  end.

Fixpoint ref_segs (gated : bool) (ls : list rl) (segs : list seg) : bool :=
  match segs with
  | [] => true
  | SG acts (EO order logs panics) :: r =>
      let ls' := fold_left ref_act acts ls in
      (panics =? 0) && same_set order (live_ids ls') &&
      ref_logs (negb gated || ends_with_drain acts) ls' logs &&
      ref_segs gated ls' r
  end.

Definition er_ok (fired : list Z) (final after len_after : Z) : bool :=
  match fired with
  | [] => true
  | _ => (final =? last fired (-1)) && (after =? final) && (len_after =? 0)
  end.

(* a switch read at use (proxy.retry_on_range_416): after each change of the setting one Range
   request whose origin answers 416 to ranged and 200 to plain requests; the origin counts the
   requests it got for that URL with and without a Range header.  Following the setting means:
   retried without Range iff the switch is on. *)
Definition lr_ok (steps : list lrstep) : bool :=
  forallb (fun s => let '(LS setting wr nr) := s in
                    (1 <=? wr) && (if setting then 1 <=? nr else nr =? 0)) steps.

Definition ev_mismatch (c : ev_case) : bool :=
  match c with
  | EC gated segs => negb (run_segs gated e_init segs)
  | ER fired final after len_after => negb (er_ok fired final after len_after)
  | LR steps => negb (lr_ok steps)
  end.

Definition ev_propfail (c : ev_case) : bool :=
  match c with
  | EC gated segs => negb (ref_segs gated [] segs)
  | ER fired final after len_after => negb (er_ok fired final after len_after)
  | LR steps => negb (lr_ok steps)
  end.

Definition count_acts (p : hact -> bool) (segs : list seg) : Z :=
  fold_left (fun n s => let '(SG acts _) := s in n + zlen (filter p acts)) segs 0.

Definition ev_tag (c : ev_case) : Z :=
  match c with
  | EC gated segs =>
      (if gated then 100 else 0) +
      10 * Z.min 9 (count_acts (fun a => match a with HSub => true | _ => false end) segs) +
      Z.min 9 (count_acts (fun a => match a with HUnsub _ => true | _ => false end) segs)
  | ER _ _ _ _ => 1000
  | LR _ => 2000
  end.

Definition check_ev (cases : list ev_case) : report := mk_report ev_mismatch ev_propfail ev_tag cases.
