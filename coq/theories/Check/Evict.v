(* Decidable checkers for the histories the cmd/evict harness records on the real
   MemoryCache / FileCache.  A case is a backend, the initial limits and a list of
   (operation, observation after it).

   mismatch : the observation is not an outcome the model allows (the model's
              state machine is run on the operations; at every eviction the
              observed surviving key set selects the resolution of the sort ties
              and it must satisfy Model.Evict.evict_allowed).
   propfail : the observation violates the property, judged by a reference
              checker written from the statement (it does not run the model's
              state machine: population and byte count come from the recorded
              operations and the previous observation; "80 %" is the rational
              4/5, no floating point). *)
From Reservoir Require Import Base.Prelude Model.Evict.

Inductive obs := Obs (keys : list Z) (bytes : Z) (stmax : Z) (ok : bool).
Inductive hcase := HC (b : backend) (maxb memcap : Z) (steps : list (op * obs)).

Definition keys_of (l : list entry) : list Z := map e_key l.
Definition same_keys (a b : list Z) : bool :=
  (Nat.eqb (length a) (length b)) && forallb (fun x => zmem x b) a && forallb (fun x => zmem x a) b.

(* ---------------- mismatch: the model, with the observation as tie oracle ---------------- *)
(* [maybe]: the key a store overwrites. Its OLD version may have been among the evicted although the key is
   present afterwards (the store put the new version there); that reading is tried when the plain one is not
   a legal eviction. *)
Definition obs_evictor (maybe : option Z) (keys : list Z) : evictor :=
  fun limit held ents cur =>
    let removed := filter (fun e => negb (zmem (e_key e) keys)) ents in
    if evict_allowed ents cur (evict_target limit) held (keys_of removed) then Some removed
    else match maybe with
         | Some k =>
             let removed2 := filter (fun e => negb (zmem (e_key e) keys) || (e_key e =? k)) ents in
             if evict_allowed ents cur (evict_target limit) held (keys_of removed2) then Some removed2 else None
         | None => None
         end.
Definition overwritten_key (o : op) : option Z :=
  match o with OStore e _ => Some (e_key e) | _ => None end.

(* the operation replaces an existing entry: the byte counter after it is C12's business *)
Definition ys_overwrite (l : list entry) (ys : list yop) : bool :=
  existsb (fun y => match y with
                    | YStore e => match lookup (e_key e) l with Some _ => true | None => false end
                    | _ => false end) ys.
Definition op_overwrites (s : cstate) (o : op) : bool :=
  match o with
  | OStore e _ => match lookup (e_key e) (c_ents s) with Some _ => true | None => false end
  | OCycle _ ys | OClean _ ys => ys_overwrite (c_ents s) ys
  | _ => false
  end.

Fixpoint run_mismatch (b : backend) (s : cstate) (steps : list (op * obs)) : bool :=
  match steps with
  | [] => false
  | (o, Obs keys bytes stmax ok) :: rest =>
      match step (obs_evictor (overwritten_key o) keys) b s o with
      | None => true
      | Some (s1, ok1) =>
          let skipb := op_overwrites s o in
          if same_keys (keys_of (c_ents s1)) keys
             && (skipb || (c_bytes s1 =? bytes))
             && ((c_stmax s1 =? stmax)
                 (* the listener runs in its own goroutine: right after the update either value is legal *)
                 || match o with OSetLimit n => stmax =? n | _ => false end)
             && Bool.eqb ok1 ok
          then run_mismatch b (if skipb then set_ents s1 (c_ents s1) bytes else s1) rest
          else true
      end
  end.

Definition hc_mismatch (c : hcase) : bool :=
  let '(HC b maxb memcap steps) := c in run_mismatch b (init_state maxb memcap) steps.

(* ---------------- propfail: the statement ---------------- *)
(* "evicts down to 80% of the limit, removing least-recently-used entries first
   (larger entries weighted up) and stopping as soon as the target is reached";
   held entries are exempt from the ordering claim. *)
Definition evict_prop (pop : list entry) (bytes limit : Z) (held : list Z) (survivors : list Z) : bool :=
  let gone := filter (fun e => negb (zmem (e_key e) survivors)) pop in
  let R := filter (fun e => negb (is_held held e)) gone in
  let K := filter (fun e => negb (is_held held e) && zmem (e_key e) survivors) pop in
  let final := bytes - sum_sizes gone in
  negb (
    (* least recently used (plus size weight) first *)
    forallb (fun r => forallb (fun k => priority k <=? priority r) K) R
    (* down to 80 % unless nothing evictable is left *)
    && ((5 * final <=? 4 * limit) || match K with [] => true | _ => false end)
    (* stops as soon as the target is reached *)
    && match gone with
       | [] => true
       | _ => existsb (fun l => (is_held held l || forallb (fun r => priority l <=? priority r) R)
                                && (4 * limit <? 5 * (final + e_size l))) gone
       end).

Record pstate := mkP { p_ents : list entry; p_bytes : Z; p_limit : Z; p_memcap : Z }.

Definition keys_touched (ys : list yop) : list Z :=
  map (fun y => match y with YStore e => e_key e | YRefresh k _ => k | YDelete k => k end) ys.

Definition all_present (l : list entry) (keys : list Z) : bool := forallb (fun e => zmem (e_key e) keys) l.

(* store or cycle with [bytes] bytes cached: "whenever at or over the limit ... evicts;
   below the limit nothing is evicted" *)
Definition trigger_prop (pop : list entry) (bytes limit : Z) (held : list Z) (keys : list Z) : bool :=
  if bytes <? limit then negb (all_present pop keys)
  else evict_prop pop bytes limit held keys.

Definition step_prop (b : backend) (p : pstate) (o : op) (keys : list Z) : bool :=
  match o with
  | OStore e held =>
      let limit := match b with Mem => Z.min (p_limit p) (p_memcap p) | File => p_limit p end in
      let held' := match b with Mem => e_shard e :: held | File => held end in
      (* a store that overwrites a stored key: whether the OLD version was evicted before being replaced cannot
         be seen afterwards (the key is present and its old bytes are gone either way), so the statement is judged
         under both readings and fails only if it fails under both *)
      let keysA := filter (fun k => negb (k =? e_key e)) keys in   (* the old version was among the evicted *)
      let keysB := e_key e :: keys in                              (* the old version survived until replaced *)
      trigger_prop (p_ents p) (p_bytes p) limit held' keysA
      && trigger_prop (p_ents p) (p_bytes p) limit held' keysB
  | OEvict limit held => evict_prop (p_ents p) (p_bytes p) limit held keys
  | OCycle held ys | OClean held ys =>
      let pop := p_ents p in
      let pop1 := apply_yops pop ys in
      let touched := keys_touched ys in
      (* every entry whose lifetime has elapsed (not in use, not replaced meanwhile) is removed *)
      let must_go := filter (fun e => expired e && negb (is_held held e) && negb (zmem (e_key e) touched)) pop in
      (* what cleanup took: expired, not in use, and gone *)
      let cleaned := filter (fun e => expired e && negb (is_held held e) && negb (zmem (e_key e) keys)) pop1 in
      let rest := filter (fun e => negb (expired e && negb (is_held held e) && negb (zmem (e_key e) keys))) pop1 in
      let bytes1 := p_bytes p + sum_sizes pop1 - sum_sizes pop - sum_sizes cleaned in
      existsb (fun e => zmem (e_key e) keys) must_go
      || match o with
         | OCycle _ _ => trigger_prop rest bytes1 (p_limit p) held keys
         | _ => negb (all_present rest keys)          (* and no fresh one *)
         end
  | _ => false
  end.

(* bookkeeping of the population between steps (what the harness itself did) *)
Definition book (p : pstate) (o : op) (keys : list Z) (bytes : Z) (ok : bool) : pstate :=
  let ents :=
    match o with
    | OStore e _ => if ok then e :: remove_key (e_key e) (p_ents p) else p_ents p
    | OTouch k age => touch k age (p_ents p)
    | OCycle _ ys | OClean _ ys => apply_yops (p_ents p) ys
    | OAdvance d => advance d (p_ents p)
    | _ => p_ents p
    end in
  let ents' := filter (fun e => zmem (e_key e) keys) ents in
  match o with
  | OSetLimit n => mkP ents' bytes n (p_memcap p)
  | OSetMemCap n => mkP ents' bytes (p_limit p) n
  | _ => mkP ents' bytes (p_limit p) (p_memcap p)
  end.

Fixpoint run_prop (b : backend) (p : pstate) (steps : list (op * obs)) : bool :=
  match steps with
  | [] => false
  | (o, Obs keys bytes _ ok) :: rest =>
      step_prop b p o keys || run_prop b (book p o keys bytes ok) rest
  end.

Definition hc_propfail (c : hcase) : bool :=
  let '(HC b maxb memcap steps) := c in run_prop b (mkP [] 0 maxb memcap) steps.

(* ---------------- tag: which branch the last operation exercised ---------------- *)
Definition op_code (o : op) : Z :=
  match o with
  | OStore _ _ => 1 | OTouch _ _ => 2 | ODelete _ => 3 | OEvict _ _ => 4 | OCycle _ ys => match ys with [] => 5 | _ => 6 end
  | OClean _ ys => match ys with [] => 7 | _ => 8 end
  | OSetLimit _ => 9 | ODeliver _ => 10 | OSetMemCap _ => 11 | OAdvance _ => 12
  end.
Definition op_held (o : op) : bool :=
  match o with
  | OStore _ (_ :: _) | OEvict _ (_ :: _) | OCycle (_ :: _) _ | OClean (_ :: _) _ => true
  | _ => false
  end.

Fixpoint last_two (prev : list Z) (steps : list (op * obs)) : option (list Z * op * obs) :=
  match steps with
  | [] => None
  | [(o, ob)] => Some (prev, o, ob)
  | (_, Obs keys _ _ _) :: rest => last_two keys rest
  end.

Definition hc_tag (c : hcase) : Z :=
  let '(HC b _ _ steps) := c in
  match last_two [] steps with
  | None => 0
  | Some (prev, o, Obs keys _ _ ok) =>
      let lost := existsb (fun k => negb (zmem k keys)) prev in
      op_code o + (if lost then 20 else 0) + (if op_held o then 40 else 0) + (if ok then 0 else 80)
      + (match b with Mem => 0 | File => 100 end)
  end.

Definition check_evict (cases : list hcase) : report :=
  mk_report hc_mismatch hc_propfail hc_tag cases.

(* ---------------- the real ticker: interval changes govern the following cycles -------------
   One phase = the janitor received interval [d] (constructor value or a config
   update, both in ms) at some instant; the harness then watched the cleanup_runs
   counter for [w] ms (it stops watching early once a run is seen) and reports
   whether a cycle ran.  The generator keeps d and w a factor >= 50 apart. *)
Inductive icase := IC (b : backend) (phases : list (Z * Z * bool)).

Definition phase_model (ph : Z * Z * bool) : bool :=
  let '(d, w, ran) := ph in
  match jstep (mkJ 0 0) (JInterval 0 d) with
  | Ok s => negb (Bool.eqb (j_next s <=? w) ran)
  | _ => true
  end.
Definition ic_mismatch (c : icase) : bool := let '(IC _ phs) := c in existsb phase_model phs.
Definition ic_propfail (c : icase) : bool :=
  let '(IC _ phs) := c in existsb (fun '(d, w, ran) => negb (Bool.eqb (d <=? w) ran)) phs.
Definition ic_tag (c : icase) : Z :=
  let '(IC b phs) := c in Z.of_nat (length phs) + match b with Mem => 0 | File => 100 end.
Definition check_interval (cases : list icase) : report :=
  mk_report ic_mismatch ic_propfail ic_tag cases.
