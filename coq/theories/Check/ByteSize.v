(* Decidable checkers for the ByteSize unit cases of C17. *)
From Reservoir Require Import Base.Prelude Model.ByteSize.

Inductive bs_case :=
| BP (s : str) (obs : res Z)                         (* bytesize.Parse(s) *)
| BS (n : Z) (printed : str) (reparsed : res Z).     (* ByteSize(n).String() and Parse of it *)

Definition resz_eqb := res_eqb Z.eqb.

(* Reference reading of a size string, written from the statement and not from
   the code: one or more ASCII digits followed by exactly one unit letter;
   the meaning is digits times unit, as an unbounded integer. *)
Definition ref_unit (c : Z) : option Z :=
  match c with
  | 66 => Some 1 | 75 => Some (2^10) | 77 => Some (2^20) | 71 => Some (2^30) | 84 => Some (2^40)
  | _ => None
  end.

Definition ref_size (s : str) : option Z :=
  match rev s with
  | [] => None
  | c :: rds =>
      match ref_unit c, rds with
      | Some u, _ :: _ => if forallb is_digit rds then Some (dec_value (rev rds) * u) else None
      | _, _ => None
      end
  end.

Definition accepted_ok (s : str) (obs : res Z) : bool :=
  match obs with
  | Ok n => match ref_size s with Some v => n =? v | None => false end
  | _ => true
  end.

Definition bs_mismatch (c : bs_case) : bool :=
  match c with
  | BP s obs => negb (resz_eqb (bs_parse s) obs)
  | BS n printed reparsed => negb (str_eqb (bs_string n) printed && resz_eqb (bs_parse printed) reparsed)
  end.

Definition bs_propfail (c : bs_case) : bool :=
  match c with
  | BP s obs => negb (accepted_ok s obs)
  | BS n printed reparsed =>
      (0 <=? n) && negb (resz_eqb reparsed (Ok n) && opt_eqb Z.eqb (ref_size printed) (Some n))
  end.

Definition bs_tag (c : bs_case) : Z :=
  match c with
  | BP s _ => match bs_parse s with
              | Ok n => match ref_size s with Some _ => 1 | None => 2 end
              | Err => match ref_size s with Some _ => 3 (* well-formed but too large *) | None => 4 end
              | Panic => 5
              end
  | BS n _ _ => if n <? 0 then 10 else 11 + Z.log2 (snd (pick_unit units_desc n)) / 10
  end.

Definition check_bs (cases : list bs_case) : report := mk_report bs_mismatch bs_propfail bs_tag cases.
