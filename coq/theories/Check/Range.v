(* Decidable checkers run on case files produced by the Go harnesses:
   every case carries an input and what the implementation did with it. *)
From Reservoir Require Import Base.Prelude Model.Range.

(* unit level: parseRangeHeader + SliceSize *)
Inductive unit_case :=
| UC (hdr : str) (size : Z) (parse : res (Z * Z)) (slice : option (Z * Z)).

Definition model_slice (hdr : str) (size : Z) : option (Z * Z) :=
  match parse_range hdr with
  | Ok r => slice_size r size
  | _ => None
  end.

Definition uc_mismatch (c : unit_case) : bool :=
  let '(UC hdr size parse slice) := c in
  negb (res_eqb zz_eqb (parse_range hdr) parse && opt_eqb zz_eqb (model_slice hdr size) slice).

Definition inside (a b size : Z) : bool := (0 <=? a) && (a <=? b) && (b <? size).

(* The property itself, stated on the implementation's observation only. *)
Definition uc_propfail (c : unit_case) : bool :=
  let '(UC hdr size parse slice) := c in
  is_panic parse ||
  match slice with
  | Some (a, b) =>
      negb (inside a b size) ||
      match wellformed_spec hdr with
      | Some sp => negb (zz_eqb (a, b) (spec_slice sp size))
      | None => false
      end
  | None => false
  end.

Definition uc_tag (c : unit_case) : Z :=
  let '(UC hdr size _ _) := c in
  let wf := match wellformed_spec hdr with Some _ => 100 | None => 0 end in
  wf +
  match parse_range hdr with
  | Panic => 0
  | Err => 1
  | Ok (s, e) =>
      let k := if s =? -1 then 10 else if e =? -1 then 20 else 30 in
      k + match slice_size (s, e) size with Some _ => 1 | None => 2 end
  end.

Definition check_unit (cases : list unit_case) : report :=
  mk_report uc_mismatch uc_propfail uc_tag cases.

(* end-to-end level: the answer the proxy gave for a Range request on a stored entry *)
Inductive obs_answer :=
| OPartial (a b size len : Z) (body : str)   (* 206: Content-Range a-b/size, Content-Length len, body bytes *)
| O416 (size : Z)                            (* 416: Content-Range bytes */size *)
| OFull (status : Z) (len : Z) (body : str) (has_cr : bool)  (* whole body with status; has_cr: the response carries a Content-Range header *)
| ONoResponse                                (* connection dropped / malformed *)
| OOther (status : Z).

Inductive e2e_case :=
| EC (retry : bool) (hdr : option str) (ir : if_range) (st : stored) (content : str) (obs : obs_answer).

Definition model_answer (retry : bool) (hdr : option str) (ir : if_range) (st : stored) : answer :=
  match hdr with
  | None => Full 200
  | Some h => serve_range retry h ir st
  end.

Definition ec_mismatch (c : e2e_case) : bool :=
  let '(EC retry hdr ir st content obs) := c in
  negb
  match model_answer retry hdr ir st, obs with
  | Partial a b len, OPartial a' b' sz len' body =>
      (a =? a') && (b =? b') && (sz =? st_size st) && (len =? len') && str_eqb body (section content a len)
  | Refuse416 sz, O416 sz' => sz =? sz'
  | Full s, OFull s' len body has_cr => (s =? s') && (len =? zlen content) && str_eqb body content && negb has_cr
  | _, _ => false
  end.

Definition ec_propfail (c : e2e_case) : bool :=
  let '(EC retry hdr ir st content obs) := c in
  match obs with
  | OPartial a b sz len body =>
      negb (inside a b (st_size st) && (sz =? st_size st) && (len =? b - a + 1)
            && str_eqb body (section content a len)) ||
      match hdr with
      | Some h => match wellformed_spec h with
                  | Some sp => negb (zz_eqb (a, b) (spec_slice sp (st_size st)))
                  | None => false
                  end
      | None => true   (* a 206 without a Range header *)
      end ||
      match ir with
      | IRTag t => negb (str_eqb t (st_etag st))
      | _ => false
      end
  | O416 sz => negb (sz =? st_size st)
  | OFull s len body has_cr =>
      (* the full 200: complete representation, not announced as a slice *)
      negb ((s =? 200) && (len =? zlen content) && str_eqb body content && negb has_cr)
  | ONoResponse => true
  | OOther _ => true
  end.

Definition ec_tag (c : e2e_case) : Z :=
  let '(EC retry hdr ir st content obs) := c in
  (if retry then 1000 else 0) +
  (match ir with IRNone => 0 | IRTag _ => 100 | IRTime _ => 200 end) +
  match model_answer retry hdr ir st with
  | Partial _ _ _ => 1 | Refuse416 _ => 2 | Full _ => 3 | APanic => 4
  end.

Definition check_e2e (cases : list e2e_case) : report :=
  mk_report ec_mismatch ec_propfail ec_tag cases.
