(* Decidable checkers for the config cases of C17 (harness cmd/conf, stage cfg). *)
From Reservoir Require Import Base.Prelude Model.ByteSize Model.ConfigProp Check.ByteSize.

(* --- save / load of a whole configuration -------------------------------- *)
(* one property: its kind, the value Read() returned before saving, the JSON
   leaf found in the file (string leaves unquoted), the value Read() returns
   in the process that loaded the file *)
Inductive fobs := FO (k : fkind) (saved : fval) (text : str) (loaded : fval).

Inductive cfg_case :=
| RT (fields : list fobs) (load_ok : bool)
(* one property driven through a history; values are Z (sizes, ints, log levels) *)
| SQ (k : fkind) (init : Z) (steps : list sstep)
with sstep := SS (op : sop) (read : Z) (file : fileobs) (told : list Z)
with sop := SOverride (v : Z) | SUpdate (v : Z) | SStage (v : Z) | SCommit | SSave
with fileobs := FAbsent | FText (s : str) | FNum (z : Z).

Definition list_z_eqb := list_eqb Z.eqb.

(* --- RT ------------------------------------------------------------------ *)
Definition fo_mismatch (f : fobs) : bool :=
  let '(FO k saved text loaded) := f in
  match k, saved with
  | KSize, VZ n =>
      negb (str_eqb (bs_string n) text) ||
      negb match bs_parse text with Ok m => fval_eqb loaded (VZ m) | _ => false end
  | KSize, _ => true
  | _, _ => false   (* library codecs: no model, the reference check below decides *)
  end.

Definition fo_propfail (f : fobs) : bool :=
  let '(FO k saved text loaded) := f in
  negb (fval_eqb saved loaded) ||
  match k, saved with
  | KSize, VZ n => negb (opt_eqb Z.eqb (ref_size text) (Some n))
  | _, _ => false
  end.

(* --- SQ: the model ------------------------------------------------------- *)
Definition sop_fops (op : sop) : list (fop Z) :=
  match op with
  | SOverride v => [FOverwrite v]
  | SUpdate v => [FStage v; FCommit]
  | SStage v => [FStage v]
  | SCommit => [FCommit]
  | SSave => []
  end.

Definition saves (op : sop) : bool := match op with SUpdate _ | SSave => true | _ => false end.

Definition file_matches (k : fkind) (base : Z) (f : fileobs) : bool :=
  match k, f with
  | KSize, FText s => str_eqb (bs_string base) s
  | KSize, _ => false
  | _, FNum z => z =? base
  | _, _ => false
  end.

(* file content expected by the model: None = no file yet *)
Fixpoint sq_model (k : fkind) (p : cprop Z) (file : option Z) (steps : list sstep) : bool :=
  match steps with
  | [] => true
  | SS op read f told :: r =>
      let '(q, fired) := frun p (sop_fops op) in
      let file' := if saves op then Some (cp_marshal q) else file in
      (read =? cp_read q) && list_z_eqb told fired &&
      match file' with None => match f with FAbsent => true | _ => false end
                     | Some b => file_matches k b f end &&
      sq_model k q file' r
  end.

(* --- SQ: the reference, from the statement ------------------------------- *)
(* base = what the last accepted update set (pending = staged, not yet
   committed), over = the last command-line value.  The process reads over if
   any else base; a listener is told, by every override and every update (at
   the moment it takes effect: the commit), the value the process now reads;
   whenever the file is written it holds the update in flight if there is one
   (an update is saved before it takes effect), else base, and never an
   override. *)
Definition file_means (k : fkind) (base : Z) (f : fileobs) : bool :=
  match k, f with
  | KSize, FText s => opt_eqb Z.eqb (ref_size s) (Some base)
  | KSize, _ => false
  | _, FNum z => z =? base
  | _, _ => false
  end.

Definition eff (over : option Z) (base : Z) : Z := match over with Some o => o | None => base end.

Fixpoint sq_ref (k : fkind) (base : Z) (pending : option Z) (over : option Z) (file : option Z)
                (steps : list sstep) : bool :=
  match steps with
  | [] => true
  | SS op read f told :: r =>
      let '(base', pending', over', told_ok) :=
        match op with
        | SOverride v => (base, pending, Some v, list_z_eqb told [v])
        | SUpdate v => (v, None, over, list_z_eqb told [eff over v])
        | SStage v => (base, Some v, over, list_z_eqb told [])
        | SCommit => (match pending with Some v => v | None => base end, None, over,
                      list_z_eqb told (match pending with Some v => [eff over v] | None => [] end))
        | SSave => (base, pending, over, list_z_eqb told [])
        end in
      let file' := if saves op then Some (match pending' with Some v => v | None => base' end) else file in
      (read =? eff over' base') && told_ok &&
      match file' with None => match f with FAbsent => true | _ => false end
                     | Some b => file_means k b f end &&
      sq_ref k base' pending' over' file' r
  end.

Definition cfg_mismatch (c : cfg_case) : bool :=
  match c with
  | RT fields ok => negb ok || existsb fo_mismatch fields
  | SQ k init steps => negb (sq_model k (cp_new init) None steps)
  end.

Definition cfg_propfail (c : cfg_case) : bool :=
  match c with
  | RT fields ok => negb ok || existsb fo_propfail fields
  | SQ k init steps => negb (sq_ref k init None None None steps)
  end.

Definition has_override (steps : list sstep) : bool :=
  existsb (fun s => match s with SS (SOverride _) _ _ _ => true | _ => false end) steps.
Definition has_update_after_override (steps : list sstep) : bool :=
  (fix go (seen : bool) (l : list sstep) : bool :=
     match l with
     | [] => false
     | SS (SOverride _) _ _ _ :: r => go true r
     | SS (SUpdate _) _ _ _ :: r => seen || go seen r
     | SS (SStage _) _ _ _ :: r => seen || go seen r
     | _ :: r => go seen r
     end) false steps.

Definition cfg_tag (c : cfg_case) : Z :=
  match c with
  | RT _ ok => if ok then 1 else 2
  | SQ k _ steps =>
      (match k with KSize => 10 | KInt => 20 | KLevel => 30 | _ => 40 end) +
      (if has_update_after_override steps then 2 else if has_override steps then 1 else 0)
  end.

Definition check_cfg (cases : list cfg_case) : report := mk_report cfg_mismatch cfg_propfail cfg_tag cases.
