(* C02 end to end: two requests through the real proxy against an origin that echoes the
   request-target it received.  [r_path] of the requests is the path AS ON THE WIRE (escaped). *)
From Reservoir Require Import Base.Prelude Model.Key Check.Key.

Inductive served_case :=
| SV (a b : request)
     (b_from_a_entry : bool)        (* the answer to B was A's stored body (no origin contact for B) *)
     (origin_distinguishes : bool). (* asked directly, the origin answers A and B differently *)

Definition sv_mismatch (c : served_case) : bool :=
  let '(SV a b shared _) := c in
  negb (Bool.eqb (str_eqb (key_string a) (key_string b)) shared).

(* The property on the observation alone: sharing only between the same resource, never between
   requests the origin itself tells apart; host case / dot-segment variants do share. *)
Definition sv_propfail (c : served_case) : bool :=
  let '(SV a b shared distinct) := c in
  wire_req_b a && wire_req_b b &&
  ((shared && negb (same_resource_b a b)) || (shared && distinct) || (negb shared && same_resource_b a b)).

Definition sv_tag (c : served_case) : Z :=
  let '(SV a b shared distinct) := c in
  (if same_resource_b a b then 1 else 0) + (if shared then 2 else 0) + (if distinct then 4 else 0).

Definition check_served (cases : list served_case) : report :=
  mk_report sv_mismatch sv_propfail sv_tag cases.
