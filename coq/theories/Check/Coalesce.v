(* Decidable checkers for the forced-schedule cases written by harness/cmd/coalesce.
   One case = one schedule: the key state before the episode, the action list
   the harness forced (gates, yield point, connection closes) together with the
   origin-side events it observed (which caller's own fetch reached the origin
   in which order, what the origin answered), and what every client received. *)
From Reservoir Require Import Base.Prelude Model.Coalesce.

Inductive bodyobs :=
| BComplete (v : Z)   (* a complete, byte-correct body of version v of the requested resource *)
| BTruncated          (* a proper prefix of a correct body *)
| BOther.             (* anything else (e.g. the proxy's own error text) *)

Inductive obs :=
| OGone                             (* the harness closed this client's connection *)
| OResp (status : Z) (b : bodyobs)
| ONoResponse.                      (* no response head before the watchdog / connection error *)

Inductive coal_case :=
| CC (ks : key_state) (tr : list action) (cl : list (client * obs))
     (origin_reqs cond_reqs : Z)        (* requests the origin received, of which conditional *)
     (answers : list akind)             (* what the origin answered, by request number *)
     (evicted : bool).                  (* the harness removed the entry at fetch.afterDo *)

(* ---- the model's run of the schedule ----
   The harness cannot see the callers' internal steps after Do returned (the
   private cache lookup, the write of the response); they are resolved here,
   by the model's own enabledness: a caller's own fetch is preceded by its
   failed lookup, and at the end every client does whatever it still can. *)

Definition try_step (s : state) (a : action) : state :=
  match lts_step s a with Some s' => s' | None => s end.

Fixpoint run_lenient (s : state) (tr : list action) : option state :=
  match tr with
  | [] => Some s
  | a :: tr' =>
      match lts_step s a with
      | Some s' => run_lenient s' tr'
      | None =>
          match a with
          | FollowerFallback c _ =>
              match lts_step s (FollowerReGet c) with
              | Some s1 => match lts_step s1 a with Some s2 => run_lenient s2 tr' | None => None end
              | None => None
              end
          | _ => None
          end
      end
  end.

Definition settle (s : state) (cl : list (client * obs)) : state :=
  fold_left (fun s co => try_step (try_step s (FollowerReGet (fst co))) (Respond (fst co))) cl s.

Definition bodyobs_eqb (a b : bodyobs) : bool :=
  match a, b with
  | BComplete v, BComplete w => v =? w
  | BTruncated, BTruncated => true
  | BOther, BOther => true
  | _, _ => false
  end.

Definition status_of_kind (k : akind) : Z :=
  match k with KNotFound => 404 | KNotModified => 304 | _ => 200 end.

(* what a client sees of a model response *)
Definition view (r : resp) : obs :=
  match r with
  | RStored v => OResp 200 (BComplete v)
  | RPrivate KAbortBody n => OResp 200 BTruncated
  | RPrivate k n => OResp (status_of_kind k) (BComplete n)
  | RError => OResp 502 BOther
  end.

Definition obs_eqb (a b : obs) : bool :=
  match a, b with
  | OGone, OGone => true
  | OResp s x, OResp t y => (s =? t) && bodyobs_eqb x y
  | ONoResponse, ONoResponse => true
  | _, _ => false
  end.

Definition client_agrees (s : state) (co : client * obs) : bool :=
  match ph s (fst co) with
  | Done r => obs_eqb (view r) (snd co)
  | Gone => obs_eqb OGone (snd co)
  | _ => false
  end.

Definition cc_mismatch (c : coal_case) : bool :=
  let '(CC ks tr cl n nc answers evicted) := c in
  match run_lenient (init ks) tr with
  | None => true
  | Some s0 =>
      let s := settle s0 cl in
      negb ((origin_count s =? n) && (cond_count s =? nc) && forallb (client_agrees s) cl)
  end.

(* ---- the property, on the observation alone (no call of the model) ----
   live clients = those the harness did not disconnect.
   P1  every live client received a complete answer: status 200 or 404 with a complete body
       of a version the origin really sent (or the pre-existing version 0), with the status of
       that origin answer.  Only when the origin itself cut a body short may a client see an
       error or a short body.
   P2  when everything the origin sent was cacheable (or a 304) and nothing was evicted: at most
       one origin request - exactly one, conditional iff the entry was stale, unless the entry
       was fresh (then none) - and all live clients received the same, current, version.
   P3  an answer that is not stored is never delivered to two clients. *)

Definition live (cl : list (client * obs)) : list obs :=
  filter (fun o => negb (obs_eqb o OGone)) (map snd cl).

Definition has_abort (answers : list akind) : bool :=
  existsb (fun k => negb (kind_complete k)) answers.

Definition answer_nr (answers : list akind) (v : Z) : option akind :=
  if v <=? 0 then None else nth_error answers (Z.to_nat (v - 1)).

Definition p1_one (ks : key_state) (answers : list akind) (o : obs) : bool :=
  match o with
  | OResp st (BComplete v) =>
      if v =? 0 then (st =? 200) && negb (match ks with Cold => true | _ => false end)
      else match answer_nr answers v with
           | Some KNotModified => false
           | Some k => kind_complete k && (st =? status_of_kind k)
           | None => false
           end
  | OResp _ _ => has_abort answers
  | _ => false
  end.

Definition all_storable (answers : list akind) : bool :=
  forallb (fun k => match k with KCacheable | KNotModified => true | _ => false end) answers.

Definition expected_version (ks : key_state) (answers : list akind) : Z :=
  match ks, answers with
  | Cold, _ => 1
  | Fresh, _ => 0
  | Stale, KNotModified :: _ => 0
  | Stale, _ => 1
  end.

Definition p2 (ks : key_state) (answers : list akind) (evicted : bool) (n nc : Z) (lv : list obs) : bool :=
  if all_storable answers && negb evicted then
    match ks with
    | Fresh => (n =? 0) && (nc =? 0)
    | Cold => (n =? 1) && (nc =? 0)
    | Stale => (n =? 1) && (nc =? 1)
    end &&
    forallb (fun o => obs_eqb o (OResp 200 (BComplete (expected_version ks answers)))) lv
  else true.

Definition version_of (o : obs) : option Z :=
  match o with OResp _ (BComplete v) => Some v | _ => None end.

Fixpoint count_version (v : Z) (lv : list obs) : Z :=
  match lv with
  | [] => 0
  | o :: r => (match version_of o with Some w => if w =? v then 1 else 0 | None => 0 end) + count_version v r
  end.

Definition p3 (answers : list akind) (lv : list obs) : bool :=
  forallb (fun o =>
    match version_of o with
    | Some v =>
        match answer_nr answers v with
        | Some KCacheable => true                (* a stored version may be shared *)
        | Some _ => count_version v lv =? 1
        | None => true
        end
    | None => true
    end) lv.

Definition cc_propfail (c : coal_case) : bool :=
  let '(CC ks tr cl n nc answers evicted) := c in
  let lv := live cl in
  negb (forallb (p1_one ks answers) lv && p2 ks answers evicted n nc lv && p3 answers lv
        && (n =? zlen answers)).

(* which part of the model the schedule exercised *)
Definition kind_nr (k : akind) : Z :=
  match k with KCacheable => 1 | KNoStore => 2 | KNotFound => 3 | KNotModified => 4 | KAbortBody => 5 end.

Definition cc_tag (c : coal_case) : Z :=
  let '(CC ks tr cl n nc answers evicted) := c in
  (match ks with Cold => 0 | Fresh => 1000 | Stale => 2000 end)
  + 100 * (match answers with [] => 0 | k :: _ => kind_nr k end)
  + (if evicted then 10 else 0)
  + (if existsb (fun a => match a with Disconnect _ => true | _ => false end) tr then 1 else 0)
  + (if existsb (fun a => match a with FollowerFallback _ _ => true | _ => false end) tr then 2 else 0).

Definition check_coalesce (cases : list coal_case) : report :=
  mk_report cc_mismatch cc_propfail cc_tag cases.
