(* Case type and checkers of the web stage (harness cmd/web): histories of requests
   against the real webserver (Harden -> ServeMux -> api.WrapHandler -> endpoints),
   with the session table, the password rows and the configuration observed before and
   after every request. *)
From Reservoir Require Import Base.Prelude Model.Auth.

(* ---------- instance of the abstract password hashing used on case files ----------
   A well-formed stored hash is named by the token of the password it was generated
   from (the harness generates every hash itself or identifies a server-generated one
   by verifying it); a negative token is a stored string ParsePHC rejects. *)
Definition vfy (h p : Z) : bool := (0 <=? h) && (h =? p).
Definition mkh (p : Z) : Z := p.

Definition Q (m : meth) (path : str) (cookie : option Z) (origin site : str) (b : body) (fresh hstatus : Z) : request :=
  {| q_method := m; q_path := path; q_cookie := cookie; q_origin := origin; q_site := site;
     q_body := b; q_fresh := fresh; q_hstatus := hstatus |}.
Definition R (m : meth) (path : str) (auth : bool) : route :=
  {| r_method := m; r_path := path; r_auth := auth |}.

Definition table := list (Z * (Z * Z)).     (* sid, (uid, ExpiresAt in virtual ns), sorted by sid *)

Record wobs := {
  w_status : Z;                 (* 0 = no response (connection dropped) *)
  w_new : option Z;             (* session id issued by Set-Cookie, if any *)
  w_tb : table; w_ta : table;   (* session table before / after *)
  w_hb : list (Z * Z); w_ha : list (Z * Z);   (* (uid, hash token) rows before / after *)
  w_cb : Z; w_ca : Z            (* configuration before / after: value of the probed property, negative when anything else changed *)
}.
Definition W := Build_wobs.

Inductive wstep :=
| WReq (now : Z) (q : request) (o : wobs)
| WGC (now : Z)
| WSetHash (uid tok : Z).

Inductive web_case :=
| WC (routes : list route) (users : list (str * Z * Z)) (cfg0 : Z) (steps : list wstep).

(* ---------- model vs implementation ---------- *)

Fixpoint assoc {A} (k : Z) (l : list (Z * A)) : option A :=
  match l with
  | [] => None
  | (k', v) :: r => if k =? k' then Some v else assoc k r
  end.

Definition tol : Z := 3000000000.   (* 3 s on instants *)

Definition sess_agree (m : option (Z * Z)) (o : option (Z * Z)) : bool :=
  match m, o with
  | None, None => true
  | Some (u, e), Some (u', e') => (u =? u') && (Z.abs (e - e') <=? tol)
  | _, _ => false
  end.

Definition table_agrees (univ : list Z) (s : sessions) (t : table) : bool :=
  forallb (fun sid => sess_agree (s sid) (assoc sid t)) univ.

Definition tok_of (h : option Z) : Z := match h with Some t => t | None => -1 end.

Definition hashes_agree (us : list (user Z)) (rows : list (Z * Z)) : bool :=
  forallb (fun u => match assoc (u_id Z u) rows with
                    | Some t => if t <? 0 then tok_of (u_hash Z u) <? 0 else tok_of (u_hash Z u) =? t
                    | None => false
                    end) us.

Definition mkuser (x : str * Z * Z) : user Z :=
  let '(n, id, tok) := x in
  {| u_name := n; u_id := id; u_hash := if tok <? 0 then None else Some tok |}.

Definition advance_to (st : state Z) (now : Z) : state Z :=
  {| s_now := s_now Z st + Z.max 0 (now - s_now Z st); s_sess := s_sess Z st;
     s_users := s_users Z st; s_cfg := s_cfg Z st |}.

(* every session id that occurs anywhere in the case *)
Definition step_sids (s : wstep) : list Z :=
  match s with
  | WReq _ q o =>
      (match q_cookie q with Some c => [c] | None => [] end) ++ [q_fresh q] ++
      map fst (w_tb o) ++ map fst (w_ta o) ++ (match w_new o with Some c => [c] | None => [] end)
  | _ => []
  end.

Fixpoint wc_agree (routes : list route) (univ : list Z) (st : state Z) (steps : list wstep) : bool :=
  match steps with
  | [] => true
  | WReq now q o :: r =>
      let st1 := advance_to st now in
      let '(code, es) := api_step Z vfy mkh routes st1 q in
      let st2 := apply_effects Z st1 es in
      table_agrees univ (s_sess Z st1) (w_tb o) &&
      hashes_agree (s_users Z st1) (w_hb o) && (s_cfg Z st1 =? w_cb o) &&
      (code =? w_status o) && opt_eqb Z.eqb (created Z es) (w_new o) &&
      table_agrees univ (s_sess Z st2) (w_ta o) &&
      hashes_agree (s_users Z st2) (w_ha o) && (s_cfg Z st2 =? w_ca o) &&
      wc_agree routes univ st2 r
  | WGC now :: r =>
      let st1 := advance_to st now in
      wc_agree routes univ
        {| s_now := s_now Z st1; s_sess := sess_gc (s_now Z st1) (s_sess Z st1);
           s_users := s_users Z st1; s_cfg := s_cfg Z st1 |} r
  | WSetHash uid tok :: r =>
      wc_agree routes univ
        {| s_now := s_now Z st; s_sess := s_sess Z st;
           s_users := set_hash Z (s_users Z st) uid (if tok <? 0 then None else Some tok); s_cfg := s_cfg Z st |} r
  end.

Definition first_now (steps : list wstep) : Z :=
  match steps with
  | WReq now _ _ :: _ => now
  | WGC now :: _ => now
  | _ => 0
  end.

Definition wc_mismatch (c : web_case) : bool :=
  let '(WC routes users cfg0 steps) := c in
  let univ := flat_map step_sids steps in
  let st0 := {| s_now := first_now steps; s_sess := fun _ => None; s_users := map mkuser users; s_cfg := cfg0 |} in
  negb (wc_agree routes univ st0 steps).

(* ---------- the property, on the implementation's observations only ----------
   Written from the statement of C20; does not call the model's api_step / lookup / mux. *)

Definition ck_registered (routes : list route) (m : meth) (p : str) : option route :=
  find (fun r => str_eqb (r_path r) p &&
                 (meth_eqb (r_method r) m || (meth_eqb (r_method r) GET && meth_eqb m HEAD))) routes.

Definition ck_is_login (r : route) : bool :=
  meth_eqb (r_method r) POST && str_eqb (r_path r) [47;97;112;105;47;97;117;116;104;47;108;111;103;105;110].
Definition ck_is_logout (r : route) : bool :=
  meth_eqb (r_method r) POST && str_eqb (r_path r) [47;97;112;105;47;97;117;116;104;47;108;111;103;111;117;116].

Definition nonempty (s : str) : bool := match s with [] => false | _ => true end.

(* "cross-site request" as fixed in DESIGN.md: Origin set and Sec-Fetch-Site present and not
   same-origin / same-site / none; or a CORS preflight (OPTIONS with Origin) *)
Definition ck_cross_site (q : request) : bool :=
  (nonempty (q_origin q) && nonempty (q_site q) &&
   negb (str_eqb (q_site q) [115;97;109;101;45;111;114;105;103;105;110]) &&
   negb (str_eqb (q_site q) [115;97;109;101;45;115;105;116;101]) &&
   negb (str_eqb (q_site q) [110;111;110;101])) ||
  (meth_eqb (q_method q) OPTIONS && nonempty (q_origin q)).

Definition mem (k : Z) (l : list Z) : bool := existsb (Z.eqb k) l.

Definition table_eqb (a b : table) : bool :=
  list_eqb (fun x y => (fst x =? fst y) && zz_eqb (snd x) (snd y)) a b.

Definition no_effect (o : wobs) : bool :=
  table_eqb (w_tb o) (w_ta o) && list_eqb zz_eqb (w_hb o) (w_ha o) && (w_cb o =? w_ca o) &&
  match w_new o with None => true | Some _ => false end.

(* the cookie is that of a live session: issued by an observed successful login, no accepted
   logout since, and the table says it expires after now *)
Definition ck_live (issued loggedout : list Z) (now : Z) (q : request) (o : wobs) : bool :=
  match q_cookie q with
  | Some sid =>
      mem sid issued && negb (mem sid loggedout) &&
      match assoc sid (w_tb o) with Some (_, e) => now <? e | None => false end
  | None => false
  end.

Definition lower_eqb (a b : str) : bool := str_eqb (lower_str a) (lower_str b).

(* the credentials of a login request are right: the named user's stored hash is well formed and
   was generated from the presented password *)
Definition ck_creds_ok (users : list (str * Z * Z)) (q : request) (o : wobs) : bool :=
  match q_body q with
  | BLogin name pw =>
      match find (fun x => lower_eqb (fst (fst x)) name) users with
      | Some (_, uid, _) =>
          match assoc uid (w_hb o) with
          | Some t => (0 <=? t) && (t =? pw)
          | None => false
          end
      | None => false
      end
  | _ => false
  end.

Definition new_sids (o : wobs) : list Z :=
  filter (fun k => match assoc k (w_tb o) with None => true | Some _ => false end) (map fst (w_ta o)).

(* no expired entry of the table got a later expiry (revival) *)
Definition no_revival (now : Z) (o : wobs) : bool :=
  forallb (fun x => let '(sid, (_, e)) := x in
                    if e <=? now
                    then match assoc sid (w_ta o) with
                         | None => true
                         | Some (_, e') => e' <=? e
                         end
                    else true) (w_tb o).

Definition is_nil {A} (l : list A) : bool := match l with [] => true | _ => false end.

Definition step_fails (routes : list route) (users : list (str * Z * Z)) (issued loggedout : list Z)
                      (now : Z) (q : request) (o : wobs) : bool :=
  let reg := ck_registered routes (q_method q) (q_path q) in
  let is_login := match reg with Some r => ck_is_login r | None => false end in
  (* cross-site requests are refused before they reach any handler *)
  (ck_cross_site q && negb ((w_status o =? 403) && no_effect o)) ||
  (* every route except login: 401 and no effect without the cookie of a live session.
     (A 403 is the cross-site layer refusing a request that declares an Origin and a fetch site.) *)
  (negb (ck_cross_site q) &&
   match reg with
   | Some r =>
       negb (ck_is_login r) && negb (ck_live issued loggedout now q o) &&
       negb (((w_status o =? 401) || ((w_status o =? 403) && nonempty (q_origin q) && nonempty (q_site q))) && no_effect o)
   | None => false
   end) ||
  (* a session comes into being only by a login with the password whose stored hash verifies *)
  (negb (is_nil (new_sids o)) && negb (is_login && negb (ck_cross_site q) && ck_creds_ok users q o)) ||
  (match w_new o with Some _ => negb (is_login && negb (ck_cross_site q) && ck_creds_ok users q o) | None => false end) ||
  (* an expired session is refused rather than revived *)
  negb (no_revival now o).

(* an observed successful login issues a session id; an accepted logout retires the cookie's *)
Definition issued_by (routes : list route) (q : request) (o : wobs) : list Z :=
  match ck_registered routes (q_method q) (q_path q), w_new o with
  | Some r, Some sid => if ck_is_login r && (w_status o =? 200) then [sid] else []
  | _, _ => []
  end.

Definition retired_by (routes : list route) (q : request) (o : wobs) : list Z :=
  match ck_registered routes (q_method q) (q_path q), q_cookie q with
  | Some r, Some sid => if ck_is_logout r && (w_status o =? 204) then [sid] else []
  | _, _ => []
  end.

Fixpoint steps_fail (routes : list route) (users : list (str * Z * Z)) (issued loggedout : list Z)
                    (steps : list wstep) : bool :=
  match steps with
  | [] => false
  | WReq now q o :: r =>
      step_fails routes users issued loggedout now q o ||
      steps_fail routes users (issued_by routes q o ++ issued) (retired_by routes q o ++ loggedout) r
  | _ :: r => steps_fail routes users issued loggedout r
  end.

Definition wc_propfail (c : web_case) : bool :=
  let '(WC routes users cfg0 steps) := c in
  steps_fail routes users [] [] steps.

(* coverage: which model branches the requests of a case reached.  The tag of a history is the
   bit set of the branches of its requests (bit numbers below); the driver decodes it into a
   per-branch count of histories. *)
Definition req_branch (routes : list route) (st : state Z) (q : request) : Z :=
  if harden_blocks (q_method q) (q_origin q) (q_site q) then 0
  else match mux routes (q_method q) (q_path q) with
       | MNotFound => 1
       | MNoMethod => 2
       | MFound r =>
           let k := match kind_of r with HLogin => 0 | HLogout => 1 | HChange => 2 | HConfigPatch => 3 | HOther => 4 end in
           3 + 5 * k +
           match q_cookie q with
           | None => 0
           | Some sid =>
               match s_sess Z st sid with
               | None => 1
               | Some (_, e) =>
                   if e <=? s_now Z st then 2
                   else if e - s_now Z st <=? extend_threshold then 3 else 4
               end
           end
       end.

Fixpoint wc_branches (routes : list route) (st : state Z) (steps : list wstep) (acc : Z) : Z :=
  match steps with
  | [] => acc
  | WReq now q o :: r =>
      let st1 := advance_to st now in
      let '(_, es) := api_step Z vfy mkh routes st1 q in
      wc_branches routes (apply_effects Z st1 es) r (Z.lor acc (Z.shiftl 1 (req_branch routes st1 q)))
  | WGC now :: r =>
      let st1 := advance_to st now in
      wc_branches routes {| s_now := s_now Z st1; s_sess := sess_gc (s_now Z st1) (s_sess Z st1);
                            s_users := s_users Z st1; s_cfg := s_cfg Z st1 |} r (Z.lor acc (Z.shiftl 1 28))
  | WSetHash uid tok :: r =>
      wc_branches routes {| s_now := s_now Z st; s_sess := s_sess Z st;
                            s_users := set_hash Z (s_users Z st) uid (if tok <? 0 then None else Some tok);
                            s_cfg := s_cfg Z st |} r (Z.lor acc (Z.shiftl 1 29))
  end.

Definition wc_tag (c : web_case) : Z :=
  let '(WC routes users cfg0 steps) := c in
  wc_branches routes {| s_now := first_now steps; s_sess := fun _ => None; s_users := map mkuser users; s_cfg := cfg0 |} steps 0.

Definition check_web (cases : list web_case) : report :=
  mk_report wc_mismatch wc_propfail wc_tag cases.
