(* Decidable checkers for the C11 case files (harness/cmd/certs). One case = one history
   against one fresh PrivateCA: sequential calls, clock advances (realised by the ageing hook)
   and bursts of concurrent calls for one target. *)
From Reservoir Require Import Base.Prelude Model.Certs.

(* what the harness saw for one GetCertForHost call *)
Inductive cobs :=
| OErr
| OCert (id : Z) (dns : list str) (ips : list str) (nb na : Z) (verify_ok key_ok : bool).

(* the harness's own classification of the target (net/netip and an own parser) *)
Inductive refkind :=
| RDns (name : str)                (* name:port, name an LDH host name *)
| RIp (text : str) (canon : str)   (* v4:port or [v6]:port; canonical address text *)
| ROther.                          (* anything else: the property demands nothing *)

Inductive cop :=
| CGet (hp : str) (r : refkind) (o : cobs)
| CAdv (d : Z)
| CPar (hp : str) (r : refkind) (os : list cobs) (final : option Z).  (* concurrent calls; then the cached identity *)

Inductive cert_case := CH (ipt : list (str * option str)) (ops : list cop).

Fixpoint assoc (tbl : list (str * option str)) (h : str) : option str :=
  match tbl with
  | [] => None
  | (k, v) :: r => if str_eqb k h then v else assoc r h
  end.

Definition TOL : Z := 3.       (* seconds: truncation of X.509 instants + real time spent inside a history *)
Definition near (a b : Z) : bool := (a - TOL <=? b) && (b <=? a + TOL).

Definition strs_eqb (a b : list str) : bool := list_eqb str_eqb a b.

(* ---------- model side ---------- *)

Definition obs_matches (c : cert) (o : cobs) : bool :=
  match o with
  | OErr => false
  | OCert id dns ips nb na _ _ =>
      (id =? c_id c) &&
      match c_san c with
      | SanDNS n => strs_eqb dns [n] && strs_eqb ips []
      | SanIP a => strs_eqb dns [] && strs_eqb ips [a]
      end && near (c_nb c) nb && near (c_na c) na
  end.

Definition res_matches (r : res cert) (o : cobs) : bool :=
  match r, o with
  | Ok c, _ => obs_matches c o
  | Err, OErr => true
  | _, _ => false
  end.

Definition obs_id (o : cobs) : option Z := match o with OCert id _ _ _ _ _ _ => Some id | OErr => None end.

Fixpoint max_id (os : list cobs) (acc : Z) : Z :=
  match os with
  | [] => acc
  | o :: r => max_id r (match obs_id o with Some i => Z.max acc i | None => acc end)
  end.

Definition mem_z (x : Z) (l : list Z) : bool := existsb (Z.eqb x) l.

(* The outcomes the LTS of Model/Certs.v allows for a burst of concurrent calls for one target
   at one instant (Proofs/Certs.v, concurrent_issuance): a valid cached certificate is returned to
   everybody; otherwise everybody gets a newly issued certificate for the host (identities not
   used before) and the cache ends with one of them. *)
Definition par_model (pip : str -> option str) (s : state) (hp : str) (os : list cobs) (final : option Z)
  : option state :=
  match split_host_port hp with
  | None => if forallb (fun o => match o with OErr => true | _ => false end) os then Some s else None
  | Some (h, _) =>
      let fresh (m : cache) :=
        if creatable pip h then
          let ok := forallb (fun o => match obs_id o with
                                      | Some i => (s_next s <=? i) && obs_matches (mk_cert pip i h (s_now s)) o
                                      | None => false end) os in
          match final with
          | Some f =>
              if ok && existsb (fun o => match obs_id o with Some i => i =? f | None => false end) os
              then Some {| s_now := s_now s; s_cache := set h (mk_cert pip f h (s_now s)) m;
                           s_next := max_id os (s_next s - 1) + 1 |}
              else None
          | None => None
          end
        else if forallb (fun o => match o with OErr => true | _ => false end) os
             then match final with None => Some {| s_now := s_now s; s_cache := m; s_next := s_next s |} | _ => None end
             else None in
      match lookup h (s_cache s) with
      | Some c =>
          if expired (s_now s) c then fresh (remove h (s_cache s))
          else if forallb (obs_matches c) os && opt_eqb Z.eqb final (Some (c_id c)) then Some s else None
      | None => fresh (s_cache s)
      end
  end.

(* run the model along the history; None as soon as an observation differs *)
Fixpoint model_ok (pip : str -> option str) (s : state) (ops : list cop) : bool :=
  match ops with
  | [] => true
  | CGet hp _ o :: r =>
      let '(s', res) := get_cert pip hp s in
      res_matches res o && model_ok pip s' r
  | CAdv d :: r => model_ok pip (advance d s) r
  | CPar hp _ os final :: r =>
      match par_model pip s hp os final with
      | Some s' => model_ok pip s' r
      | None => false
      end
  end.

Definition cc_mismatch (c : cert_case) : bool :=
  let '(CH ipt ops) := c in negb (model_ok (assoc ipt) init ops).

(* ---------- the property, on the observations only (no call of the model) ---------- *)

Definition MARGIN : Z := 5.

Definition names_exactly (r : refkind) (dns ips : list str) : bool :=
  match r with
  | RDns n => match dns, ips with
              | [d], [] => str_eqb (lower_str d) (lower_str n)
              | _, _ => false
              end
  | RIp _ a => strs_eqb dns [] && strs_eqb ips [a]
  | ROther => true
  end.

Definition ref_key (r : refkind) : option str :=
  match r with RDns n => Some n | RIp t _ => Some t | ROther => None end.

(* what the checker remembers: per host text the last certificate handed out (identity, NotAfter) *)
Record pstate := { p_now : Z; p_last : list (str * (Z * Z)) }.

Fixpoint plookup (h : str) (m : list (str * (Z * Z))) : option (Z * Z) :=
  match m with
  | [] => None
  | (k, v) :: r => if str_eqb k h then Some v else plookup h r
  end.

(* one certificate presented for a target that the property covers *)
Definition cert_ok (now : Z) (r : refkind) (o : cobs) : bool :=
  match o with
  | OErr => false                                        (* every CONNECT target gets a certificate *)
  | OCert _ dns ips nb na v k =>
      names_exactly r dns ips && (nb - TOL <=? now) && (now <=? na + TOL) && v && k
  end.

(* reuse while valid / replacement once expired, against the last certificate of this host *)
Definition reuse_ok (ps : pstate) (key : str) (id : Z) : bool :=
  match plookup key (p_last ps) with
  | Some (id0, na0) =>
      if p_now ps + MARGIN <=? na0 then id =? id0              (* reused while valid *)
      else if na0 + MARGIN <=? p_now ps then negb (id =? id0)  (* replaced once expired *)
      else true
  | None => true
  end.

Fixpoint prop_ok (ps : pstate) (ops : list cop) : bool :=
  match ops with
  | [] => true
  | CAdv d :: rest => prop_ok {| p_now := p_now ps + Z.max 0 d; p_last := p_last ps |} rest
  | CGet hp r o :: rest =>
      match ref_key r with
      | None => prop_ok ps rest     (* outside the statement *)
      | Some key =>
          cert_ok (p_now ps) r o &&
          match o with
          | OCert id _ _ _ na _ _ =>
              reuse_ok ps key id &&
              prop_ok {| p_now := p_now ps; p_last := (key, (id, na)) :: p_last ps |} rest
          | OErr => false
          end
      end
  | CPar hp r os final :: rest =>
      let ids := flat_map (fun o => match obs_id o with Some i => [i] | None => [] end) os in
      match ref_key r with
      | None => prop_ok ps rest
      | Some key =>
          forallb (cert_ok (p_now ps) r) os &&
          forallb (fun o => match obs_id o with Some i => reuse_ok ps key i | None => false end) os &&
          match final with
          | Some f =>
              mem_z f ids &&       (* the cache ends holding one of the certificates handed out *)
              let na := fold_left (fun acc o => match o with
                                                | OCert i _ _ _ na _ _ => if i =? f then na else acc
                                                | OErr => acc end) os 0 in
              prop_ok {| p_now := p_now ps; p_last := (key, (f, na)) :: p_last ps |} rest
          | None => false
          end
      end
  end.

Definition cc_propfail (c : cert_case) : bool :=
  let '(CH _ ops) := c in negb (prop_ok {| p_now := 0; p_last := [] |} ops).

(* coverage: which branches of the model the history reached (bit mask) *)
Fixpoint branches (pip : str -> option str) (s : state) (ops : list cop) (acc : Z) : Z :=
  match ops with
  | [] => acc
  | CGet hp _ _ :: r =>
      let b := match split_host_port hp with
               | None => 8
               | Some (h, _) =>
                   match lookup h (s_cache s) with
                   | Some c => if expired (s_now s) c then 4 else 2
                   | None => if creatable pip h then 1 else 16
                   end
               end in
      branches pip (fst (get_cert pip hp s)) r (Z.lor acc b)
  | CAdv d :: r => branches pip (advance d s) r acc
  | CPar hp _ os final :: r =>
      match par_model pip s hp os final with
      | Some s' => branches pip s' r (Z.lor acc 32)
      | None => Z.lor acc 64
      end
  end.

Definition cc_tag (c : cert_case) : Z :=
  let '(CH ipt ops) := c in branches (assoc ipt) init ops 0.

Definition check_certs (cases : list cert_case) : report :=
  mk_report cc_mismatch cc_propfail cc_tag cases.
