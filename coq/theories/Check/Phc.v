(* Case type and checkers of the PHC stage (unit harness, -prop C16phc). *)
From Reservoir Require Import Base.Prelude Model.Phc.

(* What ParsePHC did with a string: the parsed fields (read back through PHC.String()),
   an error, or a panic caught by recover(). *)
Inductive phc_obs :=
| POk (version m t p l : Z) (salt hash : str)
| PErr
| PPanic.

Inductive phc_case :=
| PC (s : str) (obs : phc_obs)                 (* ParsePHC(s) *)
| DC (cap : Z) (src : str) (obs : res str).    (* base64.RawStdEncoding.Decode(make([]byte, cap), src) *)

Definition phc_obs_eqb (m : res phc) (o : phc_obs) : bool :=
  match m, o with
  | Ok p, POk v mm t pp l salt hash =>
      (p_version p =? v) && (p_mem p =? mm) && (p_time p =? t) && (p_threads p =? pp) &&
      (p_keylen p =? l) && str_eqb (p_salt p) salt && str_eqb (p_hash p) hash
  | Err, PErr => true
  | Panic, PPanic => true
  | _, _ => false
  end.

Definition pc_mismatch (c : phc_case) : bool :=
  match c with
  | PC s obs => negb (phc_obs_eqb (phc_parse s) obs)
  | DC cap src obs => negb (res_eqb str_eqb (b64_decode_into cap src) obs)
  end.

(* The property: a stored hash string is accepted or rejected with an error, never with a panic.
   (DC cases validate the model of the library decoder; a library panic on a short buffer is
   documented behaviour, not a property failure.) *)
Definition pc_propfail (c : phc_case) : bool :=
  match c with
  | PC _ PPanic => true
  | _ => false
  end.

Definition pc_tag (c : phc_case) : Z :=
  match c with
  | PC s _ => match phc_parse s with Ok _ => 1 | Err => 2 | Panic => 3 end
  | DC cap src _ => match b64_decode_into cap src with Ok _ => 11 | Err => 12 | Panic => 13 end
  end.

Definition check_phc (cases : list phc_case) : report :=
  mk_report pc_mismatch pc_propfail pc_tag cases.
