(* Case types and decidable checkers for C08 (relayed traffic is faithful).
   [*_mismatch] compares the implementation's observation with Model/Relay.v (+ the
   responders of Model/Tunnel.v for the wire form); [*_propfail] is written from the
   property statement and RFC 9110/3986 vocabulary only and never calls the model. *)
From Reservoir Require Import Base.Prelude Model.Relay Model.Tunnel.

(* ------------------------------------------------------------------------ *)
(* Reference vocabulary (independent of the model) *)
Definition ieq (a b : str) : bool := str_eqb (lower_str a) (lower_str b).
Definition nonempty (s : str) : bool := negb (str_eqb s []).
Definition nonempty_list {A} (l : list A) : bool := match l with [] => false | _ => true end.
Definition mem_ci (n : str) (l : list str) : bool := existsb (ieq n) l.
Definition mem_str (v : str) (l : list str) : bool := existsb (str_eqb v) l.
Definition strs_eqb (a b : list str) : bool := list_eqb str_eqb a b.

(* all values of the fields whose name equals n ignoring case *)
Definition vals_ci (n : str) (h : hdrs) : list str :=
  flat_map (fun e => if ieq n (fst e) then snd e else []) h.

Fixpoint csplit_acc (cur s : str) : list str :=
  match s with
  | [] => [rev cur]
  | c :: r => if c =? 44 then rev cur :: csplit_acc [] r else csplit_acc (c :: cur) r
  end.
Definition ows (c : Z) : bool := (c =? 32) || (c =? 9).
Fixpoint drop_ows (s : str) : str :=
  match s with c :: r => if ows c then drop_ows r else s | [] => [] end.
Definition ows_trim (s : str) : str := rev (drop_ows (rev (drop_ows s))).

Definition lit (l : list Z) : str := l.
Definition n_connection : str := [99;111;110;110;101;99;116;105;111;110].
(* RFC 9110 7.6.1 + the de-facto Proxy-Connection *)
Definition ref_hop_names : list str :=
  [ n_connection
  ; [112;114;111;120;121;45;99;111;110;110;101;99;116;105;111;110]            (* proxy-connection *)
  ; [107;101;101;112;45;97;108;105;118;101]                                   (* keep-alive *)
  ; [112;114;111;120;121;45;97;117;116;104;101;110;116;105;99;97;116;101]      (* proxy-authenticate *)
  ; [112;114;111;120;121;45;97;117;116;104;111;114;105;122;97;116;105;111;110] (* proxy-authorization *)
  ; [116;101]                                                                 (* te *)
  ; [116;114;97;105;108;101;114]                                              (* trailer *)
  ; [116;114;97;110;115;102;101;114;45;101;110;99;111;100;105;110;103]         (* transfer-encoding *)
  ; [117;112;103;114;97;100;101] ].                                           (* upgrade *)

Definition ref_tokens (h : hdrs) : list str :=
  filter nonempty (map ows_trim (flat_map (csplit_acc []) (vals_ci n_connection h))).
Definition ref_hop (n : str) (h : hdrs) : bool := mem_ci n ref_hop_names || mem_ci n (ref_tokens h).

(* A Connection element that is not a well-formed option (blanks other than SP/HTAB, stray bytes)
   but contains the name: the statement does not say whether that nominates the field. *)
Fixpoint prefix_eqb (a b : str) : bool :=
  match a, b with
  | [], _ => true
  | x :: a', y :: b' => (x =? y) && prefix_eqb a' b'
  | _, [] => false
  end.
Fixpoint infix_eqb (a b : str) : bool :=
  prefix_eqb a b || match b with [] => false | _ :: b' => infix_eqb a b' end.
Definition ref_unclear (n : str) (h : hdrs) : bool :=
  existsb (fun e => infix_eqb (lower_str n) (lower_str e)) (flat_map (csplit_acc []) (vals_ci n_connection h)).

Definition disjoint (a b : list str) : bool := forallb (fun v => negb (mem_str v b)) a.
Fixpoint is_prefix (a b : list str) : bool :=
  match a, b with
  | [], _ => true
  | x :: a', y :: b' => str_eqb x y && is_prefix a' b'
  | _, [] => false
  end.

Definition n_lower (l : list Z) : str := l.
Definition names_cond : list str :=
  [ [105;102;45;109;111;100;105;102;105;101;100;45;115;105;110;99;101]
  ; [105;102;45;117;110;109;111;100;105;102;105;101;100;45;115;105;110;99;101]
  ; [105;102;45;110;111;110;101;45;109;97;116;99;104]
  ; [105;102;45;109;97;116;99;104] ].
Definition n_user_agent : str := [117;115;101;114;45;97;103;101;110;116].
Definition n_accept_encoding : str := [97;99;99;101;112;116;45;101;110;99;111;100;105;110;103].
Definition n_content_length : str := [99;111;110;116;101;110;116;45;108;101;110;103;116;104].
Definition n_transfer_encoding : str := [116;114;97;110;115;102;101;114;45;101;110;99;111;100;105;110;103].
Definition n_content_range : str := [99;111;110;116;101;110;116;45;114;97;110;103;101].
Definition n_content_type : str := [99;111;110;116;101;110;116;45;116;121;112;101].
Definition n_date : str := [100;97;116;101].
Definition n_accept_ranges : str := [97;99;99;101;112;116;45;114;97;110;103;101;115].
Definition n_age : str := [97;103;101].
Definition n_via : str := [118;105;97].
Definition n_x_cache : str := [120;45;99;97;99;104;101].
Definition n_cache_status : str := [99;97;99;104;101;45;115;116;97;116;117;115].
Definition n_etag : str := [101;116;97;103].
Definition n_last_modified : str := [108;97;115;116;45;109;111;100;105;102;105;101;100].
Definition n_range : str := [114;97;110;103;101].
Definition n_xcto : str := [120;45;99;111;110;116;101;110;116;45;116;121;112;101;45;111;112;116;105;111;110;115].

(* header-map comparison on every key of either side that is not skipped *)
Definition agree_except (skip : str -> bool) (a b : hdrs) : bool :=
  forallb (fun k => skip k || strs_eqb (hraw_get k a) (hraw_get k b)) (hkeys a ++ hkeys b).

(* ------------------------------------------------------------------------ *)
(* Unit level *)
Inductive ucase :=
| UCanon (s out : str)                                   (* http.CanonicalHeaderKey *)
| UTrim (s out : str)                                    (* strings.TrimSpace *)
| UHop (wf : bool) (h out : hdrs)                        (* removeHopByHopHeaders; wf = every key is in canonical form *)
| USetAll (src dst out : hdrs)                           (* Responder.SetHeaders(src) on a responder holding dst; src keys canonical *)
| UEsc (c : Z) (escapes : bool)                          (* does EscapedPath escape the single byte c *)
| UTarget (p q : str) (host_ok : bool) (parsed : option (str * str)) (out : res str).
   (* raw path p, raw query q: url.ParseRequestURI gave (Path, RawPath); changeRequestToTarget then RequestURI *)

Definition opt_pair_eqb (a b : option (str * str)) : bool := opt_eqb (pair_eqb str_eqb str_eqb) a b.

Definition u_mismatch (c : ucase) : bool :=
  negb
  match c with
  | UCanon s out => str_eqb (canon_key s) out
  | UTrim s out => str_eqb (trim_space s) out
  | UHop _ h out => agree_except (fun _ => false) (remove_hop_by_hop h) out
  | USetAll src dst out => agree_except (fun _ => false) (set_headers src dst) out
  | UEsc c e => Bool.eqb (should_escape_path c) e
  | UTarget p q host_ok parsed out =>
      opt_pair_eqb (set_path p) parsed &&
      match parsed with
      | Some (path, raw) =>
          res_eqb str_eqb (change_request_to_target host_ok {| u_path := path; u_raw := raw; u_query := q; u_force := false |}) out
      | None => true
      end
  end.

(* RFC 3986: path-abempty = *( "/" segment ), segment = *pchar *)
Definition ref_unreserved (c : Z) : bool :=
  is_digit c || is_upper c || is_lower c || existsb (Z.eqb c) [45;46;95;126].
Definition ref_subdelim (c : Z) : bool := existsb (Z.eqb c) [33;36;38;39;40;41;42;43;44;59;61].
Definition ref_hexdig (c : Z) : bool := is_digit c || ((65 <=? c) && (c <=? 70)) || ((97 <=? c) && (c <=? 102)).
Fixpoint ref_path_chars (s : str) : bool :=
  match s with
  | [] => true
  | c :: r =>
      if c =? 37 then
        match r with
        | a :: b :: r2 => ref_hexdig a && ref_hexdig b && ref_path_chars r2
        | _ => false
        end
      else (ref_unreserved c || ref_subdelim c || (c =? 58) || (c =? 64) || (c =? 47)) && ref_path_chars r
  end.
Definition ref_valid_path (p : str) : bool :=
  match p with 47 :: _ => ref_path_chars p | _ => false end.
Definition ref_target (p q : str) : str := if nonempty q then p ++ [63] ++ q else p.

Definition u_propfail (c : ucase) : bool :=
  match c with
  | UHop true h out =>
      negb (forallb (fun k => if ref_hop k h then negb (nonempty_list (hraw_get k out))
                              else ref_unclear k h || strs_eqb (hraw_get k out) (hraw_get k h)) (hkeys h)
            && forallb (fun k => mem_str k (hkeys h)) (hkeys out))
  | USetAll src dst out =>
      (* every field of src arrives with all its values in order; other fields of dst stay *)
      negb (forallb (fun k => strs_eqb (hraw_get k out) (hraw_get k src)) (hkeys src) &&
            forallb (fun k => mem_str k (hkeys src) || strs_eqb (hraw_get k out) (hraw_get k dst)) (hkeys dst))
  | UTarget p q true _ out =>
      ref_valid_path p && negb (res_eqb str_eqb out (Ok (ref_target p q)))
  | _ => false
  end.

Definition u_tag (c : ucase) : Z :=
  match c with
  | UCanon s _ => if forallb valid_field_byte s then 1 else 2
  | UTrim s _ => if str_eqb (trim_space s) s then 3 else 4
  | UHop _ h _ => 10 + (if nonempty_list (connection_tokens h) then 1 else 0)
  | USetAll _ _ _ => 20
  | UEsc _ _ => 30
  | UTarget p _ ok _ _ =>
      40 + (if ok then 0 else 1) +
      match set_path p with None => 2 | Some (_, []) => 4 | Some _ => 6 end
  end.

Definition check_unit (cases : list ucase) : report := mk_report u_mismatch u_propfail u_tag cases.

(* ------------------------------------------------------------------------ *)
(* End to end: one client exchange through the running proxy *)
Inductive obs_resp :=
| ONone                                                  (* no parseable response / connection dropped *)
| OResp (status : Z) (h : hdrs) (fr : framing) (body : str).

Inductive rcase :=
| RC (transport : Z)                     (* 0 plain proxying, 1 one kept-alive tunnel, 2 one tunnel per request *)
     (req : creq)                        (* what the client sent; c_hdrs as net/http parses it (canonical keys, no Host) *)
     (ostatus : Z) (ohdrs : hdrs) (obody : str) (oabort : bool) (lm_imf : bool)
                                         (* the origin's script: status, header map as net/http parses it, body;
                                            oabort = the origin closes the connection instead of answering;
                                            lm_imf = its Last-Modified (if any) is one IMF-fixdate *)
     (x : exchange)                      (* branch descriptor, see harness *)
     (ups : list ureq)                   (* requests the origin recorded during the exchange *)
     (resp : obs_resp).

Definition framing_eqb (a b : framing) : bool :=
  match a, b with
  | FLen n, FLen m => n =? m
  | FChunked, FChunked => true
  | FClose, FClose => true
  | FBare, FBare => true
  | _, _ => false
  end.

Definition has_field (k : str) (h : hdrs) : bool := nonempty_list (hraw_get k h).

(* fields the HTTP stack of the client-side hop adds on its own *)
Definition s_Date : str := [68;97;116;101].
Definition resp_stack_skip (model_h : hdrs) (k : str) : bool :=
  str_eqb k s_Connection ||
  (str_eqb k s_Date && negb (has_field s_Date model_h)) ||
  (str_eqb k s_Content_Type && negb (has_field s_Content_Type model_h)).

Definition wire_matches (check_framing : bool) (w : wire) (o : obs_resp) : bool :=
  match o with
  | ONone => false
  | OResp st h fr b =>
      (st =? w_status w) &&
      agree_except (resp_stack_skip (w_hdrs w)) (w_hdrs w) (strip_framing h) &&
      str_eqb b (w_body w) &&
      (negb check_framing || framing_eqb fr (w_framing w))
  end.

Definition model_wires (transport : Z) (x : exchange) : list wire :=
  if transport =? 0 then plain_exchange x else single_exchange x.

Definition s_User_Agent : str := [85;115;101;114;45;65;103;101;110;116].
Definition s_Accept_Encoding : str := [65;99;99;101;112;116;45;69;110;99;111;100;105;110;103].
Definition req_stack_skip (meth : str) (client_h : hdrs) (k : str) : bool :=
  str_eqb k s_Connection || str_eqb k s_Content_Length || str_eqb k s_Transfer_Encoding ||
  (str_eqb k s_User_Agent && negb (has_field s_User_Agent client_h)) ||
  (str_eqb k s_Accept_Encoding && negb (has_field s_Accept_Encoding client_h)) ||
  (cache_answers meth && existsb (str_eqb k) conditional_names).   (* on a write the conditionals are compared like any field *)

Definition up_matches (req : creq) (u : ureq) : bool :=
  match relay_request req with
  | None => false
  | Some q =>
      str_eqb (q_method q) (q_method u) && str_eqb (q_target q) (q_target u) && str_eqb (q_body q) (q_body u) &&
      agree_except (req_stack_skip (c_method req) (c_hdrs req)) (q_hdrs q) (q_hdrs u)
  end.

Definition rc_mismatch (c : rcase) : bool :=
  let '(RC transport req ostatus ohdrs obody oabort lm_imf x ups resp) := c in
  negb (forallb (up_matches req) ups &&
        match model_wires transport x with
        | [w] => wire_matches (negb (transport =? 0)) w resp
        | _ => false
        end).

(* ---- the property, on the observation alone ---- *)
Definition owned_replace : list str := [n_accept_ranges; n_age; n_content_length; n_transfer_encoding].
Definition owned_append : list str := [n_via; n_x_cache; n_cache_status].
Definition is_stored (x : exchange) : bool :=
  match x_kind x with KStored _ _ _ _ _ _ => true | KPartial _ _ _ _ _ _ => true | _ => false end.
Definition ref_body_allowed (st : Z) : bool :=
  negb (((100 <=? st) && (st <=? 199)) || (st =? 204) || (st =? 304)).

Definition resp_propfail (req : creq) (ostatus : Z) (ohdrs : hdrs) (obody : str) (lm_imf : bool) (x : exchange) (resp : obs_resp) : bool :=
  match resp with
  | ONone => true
  | OResp st h fr b =>
      let has_range := nonempty_list (vals_ci n_range (c_hdrs req)) in
      let head := ieq (c_method req) [72;69;65;68] in
      let range_answer := has_range && ((st =? 206) || (st =? 416)) && negb (st =? ostatus) in
      negb (
        ((st =? ostatus) || range_answer) &&
        ((range_answer && (st =? 416)) ||
         forallb (fun e =>
           let n := fst e in let vs := snd e in
           if ref_hop n ohdrs then disjoint (vals_ci n h) vs
           else if mem_ci n owned_replace then true
           else if mem_ci n owned_append then is_prefix vs (vals_ci n h)
           else if (st =? 206) && ieq n n_content_range then true
           else if is_stored x && ieq n n_etag then strs_eqb (vals_ci n h) vs || strs_eqb (vals_ci n h) (firstn 1 vs)
           else if is_stored x && ieq n n_last_modified then negb lm_imf || strs_eqb (vals_ci n h) vs
           else strs_eqb (vals_ci n h) vs) ohdrs) &&
        (if head then str_eqb b []
         else if range_answer then true
         else if ref_body_allowed st then str_eqb b obody else str_eqb b []))
  end.

Definition n_host : str := [104;111;115;116].
Definition allowed_extras : list str :=
  [n_user_agent; n_accept_encoding; n_content_length; n_connection] ++ names_cond.

Definition up_propfail (req : creq) (u : ureq) : bool :=
  let ch := c_hdrs req in
  negb (
    str_eqb (q_method u) (c_method req) &&
    (negb (ref_valid_path (c_rawpath req)) || str_eqb (q_target u) (ref_target (c_rawpath req) (c_query req))) &&
    str_eqb (q_body u) (c_body req) &&
    forallb (fun e =>
      let n := fst e in let vs := snd e in
      if ref_hop n ch then disjoint (vals_ci n (q_hdrs u)) vs
      else if mem_ci n names_cond || ieq n n_content_length || ieq n n_host then true
      else strs_eqb (vals_ci n (q_hdrs u)) vs) ch &&
    forallb (fun k => mem_ci k (hkeys ch) || mem_ci k allowed_extras) (hkeys (q_hdrs u))).

Definition rc_propfail (c : rcase) : bool :=
  let '(RC transport req ostatus ohdrs obody oabort lm_imf x ups resp) := c in
  existsb (up_propfail req) ups ||
  (negb oabort && resp_propfail req ostatus ohdrs obody lm_imf x resp).

Definition rc_tag (c : rcase) : Z :=
  let '(RC transport req ostatus ohdrs obody oabort lm_imf x ups resp) := c in
  transport * 100 +
  (match x_meth x with MPlain => 0 | MHead => 10 | MPost => 20 end) +
  match x_kind x with
  | KDirect st _ _ => if (200 <=? st) && (st <? 300) then 1 else 2
  | KStored HMiss _ _ _ _ _ => 3
  | KStored _ _ _ _ _ _ => 4
  | KPartial _ _ _ _ _ _ => 5
  | KRefuse _ => 6
  | KBadGateway => 7
  end.

Definition check_e2e (cases : list rcase) : report := mk_report rc_mismatch rc_propfail rc_tag cases.
