(* Decidable checkers for the C02 case files (harness/cmd/unit/c02.go). *)
From Reservoir Require Import Base.Prelude Model.Key.

Definition RQ (tls : bool) (m h p q : str) : request :=
  {| r_tls := tls; r_method := m; r_host := h; r_path := p; r_query := q |}.

Inductive key_case :=
| KClean (p cleaned : str)                   (* the real path.Clean(p) *)
| KOne (r : request) (prehash : str)         (* the string MakeFromRequest hashed for r *)
| KPair (a b : request) (hex_equal : bool).  (* MakeFromRequest(a).Hex == MakeFromRequest(b).Hex *)

Definition kc_mismatch (c : key_case) : bool :=
  match c with
  | KClean p cleaned => negb (str_eqb (clean_go p) cleaned)
  | KOne r prehash => negb (str_eqb (key_string r) prehash)
  | KPair a b heq => negb (Bool.eqb (str_eqb (key_string a) (key_string b)) heq)
  end.

(* The property, on the implementation's observation only (no [key_string], no [clean_go]):
   inside the statement's domain two requests share an entry iff they name the same
   resource; the sharing direction needs the same scheme component (always "http" in the
   proxy), the separation direction does not. *)
Definition kc_propfail (c : key_case) : bool :=
  match c with
  | KPair a b heq =>
      wire_req_b a && wire_req_b b &&
      (if Bool.eqb (r_tls a) (r_tls b)
       then negb (Bool.eqb heq (same_resource_b a b))
       else heq && negb (same_resource_b a b))
  | _ => false
  end.

Definition kc_tag (c : key_case) : Z :=
  match c with
  | KClean p _ => match p with [] => 0 | _ => if rooted p then 1 else 2 end
  | KOne r _ =>
      10 + (if str_eqb (key_path (r_path r)) (clean_go (r_path r)) then 0 else 1)
         + (if is_empty (r_path r) then 2 else 0)
  | KPair a b _ =>
      20 + (if same_resource_b a b then 1 else 0)
         + (if str_eqb (r_path a) (r_path b) then 0 else 2)
         + (if wire_req_b a && wire_req_b b then 0 else 4)
  end.

Definition check_key (cases : list key_case) : report :=
  mk_report kc_mismatch kc_propfail kc_tag cases.
