(* Decidable checkers for the command-line cases of C17 (harness cmd/conf, stage flags). *)
From Reservoir Require Import Base.Prelude Model.ByteSize Model.ConfigProp Model.Flags.
From Coq Require Import String.
Local Open Scope string_scope.

Inductive flag_case :=
(* the flags the process registers *)
| FReg (names : list string)
(* a fresh configuration whose settings are [before]; the process is given --name=raw; [after]: what it reads;
   [loaded1]: what a process without flags reads from the file saved afterwards; then the API updates [upath] to
   [uval] (accepted); [after_upd], [loaded2]: the same two observations after it *)
| FL (name : string) (raw : str) (before after loaded1 : list (string * fval))
     (upath : string) (uval : fval) (after_upd loaded2 : list (string * fval)).

Definition kv_eqb (a b : string * fval) : bool := String.eqb (fst a) (fst b) && fval_eqb (snd a) (snd b).
Definition kvs_eqb := list_eqb kv_eqb.
Definition mem (s : string) (l : list string) : bool := existsb (String.eqb s) l.

Definition documented : list string := map fst flag_table.

(* --- the model ------------------------------------------------------------ *)
Definition flag_mismatch (c : flag_case) : bool :=
  match c with
  | FReg names => negb (forallb (fun n => mem n (documented ++ other_flags)%list) names)
  | FL name raw before after loaded1 upath uval after_upd loaded2 =>
      match wrun (fresh before) [WFlag name raw]%list with
      | Ok c1 =>
          negb (kvs_eqb (eff_of c1) after && kvs_eqb (saved_of c1) loaded1) ||
          match wrun c1 [WUpdate upath uval]%list with
          | Ok c2 => negb (kvs_eqb (eff_of c2) after_upd && kvs_eqb (saved_of c2) loaded2)
          | _ => true
          end
      | _ => true     (* the process ran on; the model says it stops at start-up *)
      end
  end.

(* --- the reference, from the property text and the documented table -------- *)
Definition set_kv (path : string) (v : fval) (l : list (string * fval)) : list (string * fval) :=
  map (fun kv => if String.eqb (fst kv) path then (fst kv, v) else kv) l.

Definition flag_propfail (c : flag_case) : bool :=
  match c with
  | FReg names => negb (forallb (fun n => mem n names) documented)
  | FL name raw before after loaded1 upath uval after_upd loaded2 =>
      match flag_target name raw with
      | Ok (path, v) =>
          negb (mem path (map fst before)) ||                       (* the flag addresses a setting that exists *)
          negb (kvs_eqb after (set_kv path v before)) ||            (* it wins, and touches nothing else *)
          negb (kvs_eqb loaded1 before) ||                          (* it is not saved *)
          negb (kvs_eqb after_upd (set_kv path v (set_kv upath uval before))) ||   (* it still wins after an API update *)
          negb (kvs_eqb loaded2 (set_kv upath uval before))         (* and the file holds the API's values only *)
      | _ => false
      end
  end.

Fixpoint index_of (n : string) (l : list string) (i : Z) : Z :=
  match l with
  | nil => -1
  | x :: r => if String.eqb n x then i else index_of n r (i + 1)
  end.

Definition flag_tag (c : flag_case) : Z :=
  match c with
  | FReg _ => 100
  | FL name _ _ _ _ upath _ _ _ =>
      let i := index_of name documented 0 in
      match lookup name flag_table with
      | Some (path, _) => if String.eqb upath path then i + 50 else i    (* +50: the update addresses the flag's own setting *)
      | None => i
      end
  end.

Definition check_flags (cases : list flag_case) : report := mk_report flag_mismatch flag_propfail flag_tag cases.

(* --- the flag table against the configuration's field table ----------------------------------------------------
   [flags_fit tbl]: every flag of the documented table addresses a setting of [tbl] — the field table regenerated
   from the source by reflection (harness cmd/conf -stage fields, the table C18 uses) — and reads its text as that
   setting's kind of value.  Evaluated on every run against the regenerated table (obligation flags_fit_now). *)
From Reservoir Require Import Model.ConfigTxn.
From Coq Require Import Ascii.

Definition bytes_of (s : string) : str := map (fun b => Z.of_N (Byte.to_N b)) (list_byte_of_string s).

Fixpoint split_dot (s : str) (cur : str) : list str :=
  match s with
  | nil => [rev cur]%list
  | c :: r => if (c =? 46)%Z then (rev cur :: split_dot r nil)%list else split_dot r (c :: cur)%list
  end.
Definition path_of (s : string) : list str := split_dot (bytes_of s) nil.

Definition conv_kind (c : fconv) : fkind :=
  match c with FCStr => KStr | FCBool => KBool | FCInt => KInt | FCSize => KSize | FCLevel => KLevel end.

Definition flag_fits (tbl : table) (e : string * (string * fconv)) : bool :=
  existsb (fun f => path_eqb (f_path f) (path_of (fst (snd e))) && fkind_eqb (f_kind f) (conv_kind (snd (snd e)))) tbl.
Definition flags_fit (tbl : table) : bool := forallb (flag_fits tbl) flag_table.
Definition flags_unfit (tbl : table) : list string := map fst (filter (fun e => negb (flag_fits tbl e)) flag_table).
