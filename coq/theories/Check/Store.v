(* Decidable checkers for the histories the `cache` harness records against the
   real MemoryCache / FileCache.  A case is one history: after every action the
   harness records the result of the call and a snapshot (byteSize, the two
   metrics, the directory listing and - whenever no store is in progress - for
   every key of the universe what Get + read-to-EOF returned).

   sc_mismatch : the model (Model/Store.v) run on the same actions differs.
   c12_propfail / c01_propfail : the observation itself violates the property;
   these two never call the model. *)
From Reservoir Require Import Base.Prelude Base.Amap Model.Store.

Record snap := Snap {
  sn_retr : option (list (Z * (list Z * Z * Z)));   (* sorted by key: (k, (bytes, Metadata.Size, Metadata.Object)) *)
  sn_bs : Z; sn_mb : Z; sn_me : Z;
  sn_dir : list (Z * Z)                             (* sorted by name: (name code, size) *)
}.

Inductive store_case := SC (backend : Z) (lim : Z) (steps : list (act * out * snap)).

Definition backend_of (z : Z) : backend := if z =? 0 then Mem else File.

(* ---- generic helpers ---- *)
Fixpoint ins_sorted {V} (x : Z * V) (l : list (Z * V)) : list (Z * V) :=
  match l with
  | [] => [x]
  | y :: r => if fst x <=? fst y then x :: l else y :: ins_sorted x r
  end.
Definition sort_by_key {V} (l : list (Z * V)) : list (Z * V) := fold_right ins_sorted [] l.

Definition triple_eqb (a b : list Z * Z * Z) : bool :=
  let '(d, s, o) := a in let '(d', s', o') := b in str_eqb d d' && (s =? s') && (o =? o').

Definition retr_eqb (a b : list (Z * (list Z * Z * Z))) : bool :=
  list_eqb (pair_eqb Z.eqb triple_eqb) a b.

Definition dir_eqb (a b : list (Z * Z)) : bool := list_eqb zz_eqb a b.

Definition out_eqb (a b : out) : bool :=
  match a, b with
  | RUnit, RUnit | RErr, RErr | RMiss, RMiss | RBusy, RBusy | RBadHandle, RBadHandle => true
  | RHandle h s o st, RHandle h' s' o' st' => (h =? h') && (s =? s') && (o =? o') && Bool.eqb st st'
  | RBytes d s o, RBytes d' s' o' => str_eqb d d' && (s =? s') && (o =? o')
  | _, _ => false
  end.

(* ---- correspondence with the model ---- *)
Definition snap_matches (b : backend) (s : st) (sn : snap) : bool :=
  (s_bs s =? sn_bs sn) && (s_mb s =? sn_mb sn) && (s_me s =? sn_me sn) &&
  dir_eqb (sort_by_key (dir_listing s)) (sn_dir sn) &&
  match sn_retr sn with
  | None => true
  | Some r => retr_eqb (sort_by_key (retrievable b s)) r
  end.

Fixpoint steps_mismatch (b : backend) (lim : Z) (s : st) (l : list (act * out * snap)) : bool :=
  match l with
  | [] => false
  | (a, o, sn) :: r =>
      let '(s1, o1) := step b lim s a in
      if out_eqb o1 o && snap_matches b s1 sn then steps_mismatch b lim s1 r else true
  end.

Definition sc_mismatch (c : store_case) : bool :=
  let '(SC b lim steps) := c in steps_mismatch (backend_of b) lim init steps.

(* ---- C12: the property on the observation alone ---- *)
Definition sum_len (r : list (Z * (list Z * Z * Z))) : Z :=
  fold_right (fun x acc => zlen (fst (fst (snd x))) + acc) 0 r.

Definition expected_dir (r : list (Z * (list Z * Z * Z))) : list (Z * Z) :=
  map (fun x => (2 * fst x, zlen (fst (fst (snd x))))) r.

Definition c12_snap_bad (b : Z) (sn : snap) : bool :=
  (sn_bs sn <? 0) || (sn_mb sn <? 0) || (sn_me sn <? 0) ||
  match sn_retr sn with
  | None => false                                   (* a store is in progress: not a quiescent moment *)
  | Some r =>
      negb ((sn_bs sn =? sum_len r) && (sn_mb sn =? sum_len r) && (sn_me sn =? zlen r) &&
            ((b =? 0) || dir_eqb (sn_dir sn) (expected_dir r)))
  end.

Definition c12_propfail (c : store_case) : bool :=
  let '(SC b lim steps) := c in existsb (fun x => c12_snap_bad b (snd x)) steps.

(* ---- C01: reference tracker written from the statement ----
   cur  : for every key the body (+ origin metadata) of its current version
   pend : bodies being transferred
   hs   : for every handle what is still to be delivered through it *)
Record c01st := {
  r_cur : list (Z * (list Z * Z));
  r_pend : list (Z * (list Z * Z));
  r_hs : list (Z * (list Z * Z * Z));
  r_bad : bool
}.

Definition c01_init := {| r_cur := []; r_pend := []; r_hs := []; r_bad := false |}.

Definition del_all {V} (ks : list Z) (m : list (Z * V)) : list (Z * V) := fold_left (fun m k => adel k m) ks m.

Definition c01_act (t : c01st) (a : act) (o : out) : c01st :=
  match a, o with
  | ABegin k _ obj ev, RUnit =>
      {| r_cur := del_all ev (r_cur t); r_pend := aset k ([], obj) (r_pend t); r_hs := r_hs t; r_bad := r_bad t |}
  | ABegin k _ obj ev, _ =>
      {| r_cur := del_all ev (r_cur t); r_pend := r_pend t; r_hs := r_hs t; r_bad := r_bad t |}
  | AWrite k c, _ =>
      match aget k (r_pend t) with
      | Some (body, obj) => {| r_cur := r_cur t; r_pend := aset k (body ++ c, obj) (r_pend t); r_hs := r_hs t; r_bad := r_bad t |}
      | None => t
      end
  | AAbort k, _ => {| r_cur := r_cur t; r_pend := adel k (r_pend t); r_hs := r_hs t; r_bad := r_bad t |}
  | ACommit k, RHandle h sz ob _ =>
      match aget k (r_pend t) with
      | Some (body, obj) =>
          {| r_cur := aset k (body, obj) (r_cur t); r_pend := adel k (r_pend t);
             r_hs := aset h (body, zlen body, obj) (r_hs t);
             r_bad := r_bad t || negb ((sz =? zlen body) && (ob =? obj)) |}
      | None => {| r_cur := r_cur t; r_pend := r_pend t; r_hs := r_hs t; r_bad := true |}
      end
  | ACommit k, _ => {| r_cur := r_cur t; r_pend := adel k (r_pend t); r_hs := r_hs t; r_bad := r_bad t |}
  | AGet k, RHandle h sz ob _ =>
      match aget k (r_cur t) with
      | Some (body, obj) =>
          {| r_cur := r_cur t; r_pend := r_pend t; r_hs := aset h (body, zlen body, obj) (r_hs t);
             r_bad := r_bad t || negb ((sz =? zlen body) && (ob =? obj)) |}
      | None => {| r_cur := r_cur t; r_pend := r_pend t; r_hs := r_hs t; r_bad := true |}   (* a removed entry came back *)
      end
  | ARead h n, RBytes d sz ob =>
      match aget h (r_hs t) with
      | Some (rem, esz, eobj) =>
          {| r_cur := r_cur t; r_pend := r_pend t; r_hs := aset h (zskipn (zlen d) rem, esz, eobj) (r_hs t);
             r_bad := r_bad t || negb (str_eqb d (zfirstn n rem) && (sz =? esz) && (ob =? eobj)) |}
      | None => {| r_cur := r_cur t; r_pend := r_pend t; r_hs := r_hs t; r_bad := true |}
      end
  | ADelete k, _ => {| r_cur := adel k (r_cur t); r_pend := r_pend t; r_hs := r_hs t; r_bad := r_bad t |}
  | AEvict ks, _ => {| r_cur := del_all ks (r_cur t); r_pend := r_pend t; r_hs := r_hs t; r_bad := r_bad t |}
  | AReopen, _ => {| r_cur := []; r_pend := []; r_hs := []; r_bad := r_bad t |}
  | _, _ => t
  end.

(* at a quiescent moment every retrievable key must deliver its current version;
   keys that are no longer retrievable have been removed *)
Definition c01_snap (t : c01st) (sn : snap) : c01st :=
  match sn_retr sn with
  | None => t
  | Some r =>
      let bad := existsb (fun x =>
                   let '(k, (d, sz, ob)) := x in
                   match aget k (r_cur t) with
                   | Some (body, obj) => negb (str_eqb d body && (sz =? zlen body) && (ob =? obj))
                   | None => true
                   end) r in
      {| r_cur := filter (fun kv => ahas (fst kv) r) (r_cur t); r_pend := r_pend t; r_hs := r_hs t;
         r_bad := r_bad t || bad |}
  end.

Definition c01_propfail (c : store_case) : bool :=
  let '(SC b lim steps) := c in
  r_bad (fold_left (fun t x => let '(a, o, sn) := x in c01_snap (c01_act t a o) sn) steps c01_init).

(* ---- coverage tag ---- *)
Definition has_act (p : act -> bool) (steps : list (act * out * snap)) : bool :=
  existsb (fun x => p (fst (fst x))) steps.

Definition sc_tag (c : store_case) : Z :=
  let '(SC b lim steps) := c in
  (if b =? 0 then 0 else 16) +
  (if has_act (fun a => match a with AAbort _ => true | _ => false end) steps then 8 else 0) +
  (if has_act (fun a => match a with AReopen => true | _ => false end) steps then 4 else 0) +
  (if has_act (fun a => match a with AEvict _ | ACleanup _ => true | _ => false end) steps then 2 else 0) +
  (if has_act (fun a => match a with ARead _ _ => true | _ => false end) steps then 1 else 0).

Definition check_c12 (cases : list store_case) : report := mk_report sc_mismatch c12_propfail sc_tag cases.
Definition check_c01 (cases : list store_case) : report := mk_report sc_mismatch c01_propfail sc_tag cases.
