(* C02 — the cache key of a request.

   Code modelled: cache/cache_key.go, MakeFromRequest (after the two fix: commits)

     scheme   := "http" | "https" (r.TLS != nil)
     normHost := strings.ToLower(r.Host)
     normPath := normalizePath(r.URL.Path)      = path.Clean + trailing-slash rule
     key      := scheme | len:method | len:host | len:path | len:query     (BLAKE2b-256 of that)

   Three layers, kept apart on purpose:
   * [norm_path], [same_resource]: the REFERENCE of the property statement (RFC 3986
     remove_dot_segments with empty segments dropped, trailing slash significant).
     Nothing here mentions Go.
   * [clean_go]: a segment-level model of Go's library function path.Clean, for every
     string (rooted or not).  It is a library contract, validated bounded-exhaustively
     against the real function on every run.
   * [key_path], [key_string]: the model of reservoir's own code.

   Hosts: Go's strings.ToLower is Unicode aware; [lower_str] folds ASCII only.  The two
   agree on ASCII strings, which is the domain of the property theorem ([ascii]).
   Paths: net/http delivers r.URL.Path either empty (authority form, "http://h"), "*"
   (OPTIONS) or starting with '/' ([wire_path]). *)
From Reservoir Require Import Base.Prelude.

Definition SLASH : Z := 47.
Definition DOT : Z := 46.
Definition PIPE : Z := 124.
Definition COLON : Z := 58.

(* ---------- splitting and joining on '/' ---------- *)

Fixpoint split_slash (s : str) : list str :=
  match s with
  | [] => [[]]
  | c :: r =>
      if c =? SLASH then [] :: split_slash r
      else match split_slash r with
           | seg :: segs => (c :: seg) :: segs
           | [] => [[c]]
           end
  end.

(* strings.Join(l, "/") *)
Definition join_slash (l : list str) : str :=
  match l with
  | [] => []
  | s :: r => s ++ flat_map (fun x => SLASH :: x) r
  end.

Definition is_empty (s : str) : bool := match s with [] => true | _ => false end.
Definition is_dot (s : str) : bool := str_eqb s [DOT].
Definition is_dotdot (s : str) : bool := str_eqb s [DOT; DOT].
Definition nonempty {A} (l : list A) : bool := match l with [] => false | _ => true end.

(* ---------- the reference: what "the same path" means in the statement ---------- *)

(* One segment of RFC 3986 5.2.4 on a stack of output segments (top first):
   "." is dropped, ".." removes the last output segment (nothing above the root),
   an empty segment (duplicate slash) is dropped. *)
Definition seg_step (out : list str) (s : str) : list str :=
  if is_empty s || is_dot s then out
  else if is_dotdot s then tl out
  else s :: out.

Definition norm_segs (segs : list str) : list str := rev (fold_left seg_step segs []).

(* 5.2.4 2B/2C: a final "/." or "/.." leaves a trailing "/" (as a final "/" does). *)
Definition is_dirlike (s : str) : bool := is_empty s || is_dot s || is_dotdot s.

Definition norm_path (p : str) : str :=
  match p with
  | c :: t =>
      if c =? SLASH then
        let segs := split_slash t in
        let out := norm_segs segs in
        SLASH :: join_slash out ++ (if is_dirlike (last segs []) && nonempty out then [SLASH] else [])
      else p
  | [] => []
  end.

Record request := {
  r_tls : bool;
  r_method : str;
  r_host : str;
  r_path : str;    (* r.URL.Path  (decoded) *)
  r_query : str    (* r.URL.RawQuery *)
}.

Definition same_resource (a b : request) : Prop :=
  r_method a = r_method b /\
  lower_str (r_host a) = lower_str (r_host b) /\
  norm_path (r_path a) = norm_path (r_path b) /\
  r_query a = r_query b.

Definition same_resource_b (a b : request) : bool :=
  str_eqb (r_method a) (r_method b) &&
  str_eqb (lower_str (r_host a)) (lower_str (r_host b)) &&
  str_eqb (norm_path (r_path a)) (norm_path (r_path b)) &&
  str_eqb (r_query a) (r_query b).

(* domain of the statement *)
Definition ascii (s : str) : Prop := Forall (fun c => 0 <= c < 128) s.
Definition ascii_b (s : str) : bool := forallb (fun c => (0 <=? c) && (c <? 128)) s.
Definition rooted (p : str) : bool := match p with c :: _ => c =? SLASH | [] => false end.
Definition STAR : str := [42].
Definition wire_path (p : str) : Prop := p = [] \/ p = STAR \/ rooted p = true.
Definition wire_path_b (p : str) : bool := is_empty p || str_eqb p STAR || rooted p.
Definition wire_req (r : request) : Prop := ascii (r_host r) /\ wire_path (r_path r).
Definition wire_req_b (r : request) : bool := ascii_b (r_host r) && wire_path_b (r_path r).

(* ---------- Go's path.Clean, at segment level ---------- *)

(* State: number of leading ".." elements kept (non-rooted paths only) and the stack of
   real elements above them (top first).  Mirrors the lazybuf loop of path.Clean:
   empty and "." elements are skipped; ".." backtracks over a real element if there is
   one, else is appended when the path is not rooted, else dropped. *)
Definition clean_step (is_rooted : bool) (st : nat * list str) (s : str) : nat * list str :=
  let '(dd, stack) := st in
  if is_empty s || is_dot s then st
  else if is_dotdot s then
    match stack with
    | _ :: stack' => (dd, stack')
    | [] => if is_rooted then st else (S dd, [])
    end
  else (dd, s :: stack).

Definition clean_go (p : str) : str :=
  match p with
  | [] => [DOT]
  | c :: _ =>
      let is_rooted := c =? SLASH in
      let '(dd, stack) := fold_left (clean_step is_rooted) (split_slash p) (O, []) in
      if is_rooted then SLASH :: join_slash (rev stack)
      else match repeat [DOT; DOT] dd ++ rev stack with
           | [] => [DOT]
           | segs => join_slash segs
           end
  end.

(* ---------- reservoir's own code ---------- *)

(* strings.HasSuffix *)
Definition has_suffix (suf s : str) : bool :=
  (length suf <=? length s)%nat && str_eqb (skipn (length s - length suf) s) suf.

(* normalizePath: path.Clean, then the trailing slash path.Clean removed is put back
   when the path named a directory ("/", "/." or "/.." at the end). *)
Definition key_path (p : str) : str :=
  let c := clean_go p in
  if negb (str_eqb c [SLASH]) &&
     (has_suffix [SLASH] p || has_suffix [SLASH; DOT] p || has_suffix [SLASH; DOT; DOT] p)
  then c ++ [SLASH] else c.

(* fmt %d of a non-negative int *)
Fixpoint uint_digits (d : Decimal.uint) : str :=
  match d with
  | Decimal.Nil => []
  | Decimal.D0 r => 48 :: uint_digits r
  | Decimal.D1 r => 49 :: uint_digits r
  | Decimal.D2 r => 50 :: uint_digits r
  | Decimal.D3 r => 51 :: uint_digits r
  | Decimal.D4 r => 52 :: uint_digits r
  | Decimal.D5 r => 53 :: uint_digits r
  | Decimal.D6 r => 54 :: uint_digits r
  | Decimal.D7 r => 55 :: uint_digits r
  | Decimal.D8 r => 56 :: uint_digits r
  | Decimal.D9 r => 57 :: uint_digits r
  end.
Definition dec (n : N) : str := uint_digits (N.to_uint n).

(* "%d:%s" with len(s) *)
Definition field (s : str) : str := dec (N.of_nat (length s)) ++ COLON :: s.

Definition HTTP : str := [104; 116; 116; 112].
Definition HTTPS : str := [104; 116; 116; 112; 115].
Definition scheme_str (tls : bool) : str := if tls then HTTPS else HTTP.

(* the joined 5-tuple, as a function of its components (injectivity is about this) *)
Definition encode (tls : bool) (m h p q : str) : str :=
  scheme_str tls ++ PIPE :: field m ++ PIPE :: field h ++ PIPE :: field p ++ PIPE :: field q.

Definition key_string (r : request) : str :=
  encode (r_tls r) (r_method r) (lower_str (r_host r)) (key_path (r_path r)) (r_query r).
