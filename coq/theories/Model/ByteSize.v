(* Executable model of utils/bytesize/bytesize.go (Parse, FindLargestFittingUnit,
   ToString, String) as repaired by the two fix: commits of C17.
   Go int64 arithmetic is written with wrap64 wherever the Go code computes
   num*10+digit or num*unit; the guards in front of them are the Go guards. *)
From Reservoir Require Import Base.Prelude.

(* unitRuneMap: 'B' 'K' 'M' 'G' 'T' *)
Definition unit_of (c : Z) : option Z :=
  if c =? 66 then Some 1
  else if c =? 75 then Some 1024
  else if c =? 77 then Some (1024 * 1024)
  else if c =? 71 then Some (1024 * 1024 * 1024)
  else if c =? 84 then Some (1024 * 1024 * 1024 * 1024)
  else None.

(* Parse.  Go ranges over runes; the model ranges over bytes.  Both stop with
   an error at the first element that is neither an ASCII digit nor an ASCII
   unit letter (a byte >= 0x80 starts a rune that is neither), and everything
   consumed before is ASCII, so byte index = rune index on the consumed part
   (the i+1 != len(s) test of the Go code is "nothing follows the unit").
   [seen] = at least one digit has been consumed (digits > 0 in Go). *)
Fixpoint bs_loop (num : Z) (seen : bool) (s : str) : res Z :=
  match s with
  | [] => Err                                   (* no unit: ErrInvalidFormat *)
  | c :: r =>
      if is_digit c then
        let d := c - 48 in
        if (max_int64 - d) / 10 <? num then Err  (* would not fit in an int64 *)
        else bs_loop (wrap64 (num * 10 + d)) true r
      else
        match unit_of c with
        | None => Err                            (* ErrUnknownUnit *)
        | Some u =>
            if negb seen then Err                (* no digits before the unit *)
            else match r with
                 | _ :: _ => Err                 (* ErrCharsAfterUnit *)
                 | [] => if max_int64 / u <? num then Err
                         else Ok (wrap64 (num * u))
                 end
        end
  end.

Definition bs_parse (s : str) : res Z :=
  match s with
  | [] => Err                                   (* ErrEmptyString *)
  | _ => bs_loop 0 false s
  end.

(* fmt.Sprintf("%d", n) for an int64 *)
Fixpoint digits_rev (fuel : nat) (n : Z) : str :=
  match fuel with
  | O => []
  | S f => (48 + n mod 10) :: (if n <? 10 then [] else digits_rev f (n / 10))
  end.

Definition fmt_nat (n : Z) : str := rev (digits_rev (S (Z.to_nat (Z.log2 n))) n).

Definition fmt_int (n : Z) : str := if n <? 0 then 45 :: fmt_nat (- n) else fmt_nat n.

(* FindLargestFittingUnit: the largest unit that is <= b and divides it exactly
   ('B' when none does: zero and negative values).  Go iterates the map in
   random order and keeps the maximum, i.e. the first hit in descending order. *)
Definition units_desc : list (Z * Z) :=
  [ (84, 1024 * 1024 * 1024 * 1024); (71, 1024 * 1024 * 1024); (77, 1024 * 1024); (75, 1024); (66, 1) ].

Fixpoint pick_unit (l : list (Z * Z)) (b : Z) : Z * Z :=
  match l with
  | [] => (66, 1)
  | (c, u) :: r => if (u <=? b) && (Z.rem b u =? 0) then (c, u) else pick_unit r b
  end.

(* ToString(unit) = Sprintf("%d%c", b / unit, unit); Go's / truncates. *)
Definition bs_string (b : Z) : str :=
  let '(c, u) := pick_unit units_desc b in fmt_int (Z.quot b u) ++ [c].

(* JSON layer of ByteSize: a JSON string holding bs_string / parsed by bs_parse
   (the quoting itself is encoding/json, trusted). *)
