(* C15 — the three-way sharing discipline behind the shared-state inventory.

   Every memory location of the program is in one of three classes:
     CGuard g   — lock-guarded: read under g (any mode), written under g in write mode  (Model/Race.v: guarded);
     CReadOnly  — never written once the threads run (written only while its object is still private to the
                  function that creates it; those writes are not accesses of the concurrent system);
     COwner i   — confined: only thread i ever touches it (a by-value copy, a per-request object, the janitor's
                  own ticker interval).
   [disc C me h p]: program p of thread number [me], holding h, obeys the discipline C.
   Executable definitions only; the soundness proof is Proofs/Discipline.v. *)
From Reservoir Require Import Base.Prelude Model.Sync Model.Race.
From Coq Require Import Arith PeanoNat.

Inductive lclass := CGuard (g : lock) | CReadOnly | COwner (i : nat).

Definition acc_ok (C : loc -> lclass) (me : nat) (h : list hl) (x : loc) (w : bool) : bool :=
  match C x with
  | CGuard g => if w then hmem (g, MW) h else hmem (g, MR) h || hmem (g, MW) h
  | CReadOnly => negb w
  | COwner i => Nat.eqb i me
  end.

Fixpoint disc (C : loc -> lclass) (me : nat) (h : list hl) (p : rprog) : bool :=
  match p with
  | RDone => true
  | RAcq l m k => disc C me ((l, m) :: h) k
  | RRel l m k => hmem (l, m) h && disc C me (hremove1 (l, m) h) k
  | RTry l m kok kfail => disc C me ((l, m) :: h) kok && disc C me h kfail
  | RChoice a b => disc C me h a && disc C me h b
  | RAcc x w k => acc_ok C me h x w && disc C me h k
  | RStep k => disc C me h k
  end.

Fixpoint disc_all (C : loc -> lclass) (i : nat) (ps : list rprog) : bool :=
  match ps with [] => true | p :: r => disc C i [] p && disc_all C (S i) r end.

(* The accesses of a program that break the discipline. *)
Fixpoint undisciplined (C : loc -> lclass) (me : nat) (h : list hl) (p : rprog) : list (loc * bool) :=
  match p with
  | RDone => []
  | RAcq l m k => undisciplined C me ((l, m) :: h) k
  | RRel l m k => undisciplined C me (hremove1 (l, m) h) k
  | RTry l m kok kfail => undisciplined C me ((l, m) :: h) kok ++ undisciplined C me h kfail
  | RChoice a b => undisciplined C me h a ++ undisciplined C me h b
  | RAcc x w k => (if acc_ok C me h x w then [] else [(x, w)]) ++ undisciplined C me h k
  | RStep k => undisciplined C me h k
  end.
