(* proxy_step: what the proxy does with ONE client request for one cache key (one GET
   resource), with the environment as oracle input:

     answers : the origin's results, in the order in which this request's upstream
               requests arrive there
     faults  : what the cache does underneath the request (lookup error, entry removed
               while the upstream exchange is in flight, store refused, entry lost or
               unreadable between the 304's metadata update and the re-read)

   It mirrors, as they are AFTER the fix: commits "strip client conditionals by name" and
   "fall back to a direct fetch when the cache cannot store or refresh an entry":

     proxy/proxy.go      handleHTTP (ParseHeaderDirective + StripRegularConditionals),
                         processRequest (cached / direct branch, the 502 on a fetch error)
     proxy/headers/header_directives.go   StripRegularConditionals
     proxy/fetcher.go    dedupFetch (coalescable GET path for a request that is alone in
                         its flight; non-coalesced path for every other method),
                         getFromCacheOrFetch, handleCacheMiss, fetchUpstream,
                         handleUpstreamResponse / 200 / 304 / 416, the ErrNotCacheable ->
                         fetchDirectlyFromUpstream route
     cache.Get           Stale := Expires.Before(now)

   for requests without a Range field (Range answers are Model/Range.v, C07).  The
   storability decision and the lifetime are those of Model/Freshness.v.  Requests that
   join another request's flight are Model/Coalesce.v (C05).

   Header fields the model sees: the four "regular" conditionals and If-Range, as a
   map name -> values.  Time is Z nanoseconds; a step is instantaneous.  Definitions only. *)
From Reservoir Require Import Base.Prelude Base.Strings Model.Freshness.

(* ---- conditional request fields ------------------------------------------------- *)

(* field names *)
Definition IF_NONE_MATCH : Z := 0.
Definition IF_MODIFIED_SINCE : Z := 1.
Definition IF_MATCH : Z := 2.
Definition IF_UNMODIFIED_SINCE : Z := 3.
Definition IF_RANGE : Z := 4.

(* a field value: raw bytes, or the IMF-fixdate rendering of an instant *)
Inductive cval :=
| CRaw (s : str)
| CDate (t : Z).

Definition cfield : Type := Z * list cval.
(* the conditional part of an http.Header: at most one pair per name, ascending names *)
Definition cmap : Type := list cfield.

Definition is_regular (n : Z) : bool := (0 <=? n) && (n <=? 3).

(* StripRegularConditionals: the four regular conditionals are deleted by name; If-Range stays.
   DOMAIN: since fix bd24877 handleHTTP strips only for GET and HEAD; on every other method the client's
   preconditions are passed on to the origin (Model/Relay.v after_cache_layer, theorem C08_write_preconditions).
   This model keeps one strip for all methods: for methods other than GET/HEAD it describes the code on requests
   WITHOUT regular conditionals (strip is the identity there), and that is how the harness exercises it. *)
Definition strip_regular (h : cmap) : cmap := filter (fun f => negb (is_regular (fst f))) h.

(* http.Header.Set *)
Fixpoint set_field (n : Z) (v : cval) (h : cmap) : cmap :=
  match h with
  | [] => [(n, [v])]
  | (m, vs) :: r =>
      if n <? m then (n, [v]) :: h
      else if n =? m then (n, [v]) :: r
      else (m, vs) :: set_field n v r
  end.

Fixpoint get_field (n : Z) (h : cmap) : option (list cval) :=
  match h with
  | [] => None
  | (m, vs) :: r => if n =? m then Some vs else get_field n r
  end.

(* the regular conditionals of a header map *)
Definition regular_part (h : cmap) : cmap := filter (fun f => is_regular (fst f)) h.

(* ---- origin answers, stored entries ----------------------------------------------- *)

Record oanswer := {
  oa_status : Z;
  oa_hv : hview;             (* Cache-Control / Expires of the answer *)
  oa_version : Z;            (* which body (representation) the answer carries *)
  oa_etag : str;             (* resp.Header.Get("ETag"); [] = absent or empty *)
  oa_lm : option Z           (* http.ParseTime(Last-Modified); None = absent or unparseable *)
}.

(* result of one upstream exchange: an answer, or a transport failure *)
Inductive oresult :=
| OAnswer (a : oanswer)
| OFail.

(* cache entry = body + EntryMetadata{Expires, TimeWritten, Object: cachedRequestInfo{ETag, LastModified, Header}} *)
Record entry := {
  e_version : Z;
  e_etag : str;
  e_lm : Z;                  (* cachedRequestInfo.LastModified *)
  e_stored_at : Z;
  e_expires : Z
}.

Record pconfig := {
  pc_pol : policy;
  pc_retry416 : bool         (* proxy.retry_on_range_416 *)
}.

(* ---- the cache's misbehaviour during one request ------------------------------------ *)

Inductive reget :=
| RgOk
| RgGone        (* the entry was removed between UpdateMetadata and Get *)
| RgError.      (* the entry is still there but Get cannot read it *)

Record faults := {
  f_lookup_err : bool;     (* the first cache.Get fails with an error other than not-found *)
  f_vanish : bool;         (* the entry is removed (evicted, deleted) while the first upstream exchange of the
                              request is in flight *)
  f_store_fail : bool;     (* cache.Cache returns an error: full and nothing evictable, empty body refused,
                              create / write error *)
  f_reget : reget          (* handleUpstream304: the Get that follows the successful UpdateMetadata *)
}.

Definition no_faults : faults :=
  {| f_lookup_err := false; f_vanish := false; f_store_fail := false; f_reget := RgOk |}.

(* ---- requests, upstream requests, responses ------------------------------------------ *)

Record request := {
  rq_meth : meth;
  rq_hdr : cmap             (* conditional fields as the client sent them *)
}.

Record upreq := {
  u_meth : meth;
  u_hdr : cmap
}.

Inductive response :=
| RStored (hs : hit_status) (upstream_status : Z) (e : entry)  (* 200 built from the stored entry *)
| RRelay (a : oanswer)                                        (* an origin answer passed on *)
| RBadGateway.                                                (* the proxy's own 502 *)

(* cache.Get: Stale := Expires.Before(time.Now()) *)
Definition fresh (e : entry) (now : Z) : bool := negb (e_expires e <? now).

(* handleUpstream200: what is stored with the body *)
Definition new_entry (pol : policy) (now : Z) (a : oanswer) : entry :=
  {| e_version := oa_version a;
     e_etag := oa_etag a;
     e_lm := match oa_lm a with Some t => t | None => now end;
     e_stored_at := now;
     e_expires := store_expiry pol (oa_hv a) now |}.

(* handleUpstream304: UpdateMetadata touches Expires only *)
Definition renew (e : entry) (exp : Z) : entry :=
  {| e_version := e_version e; e_etag := e_etag e; e_lm := e_lm e;
     e_stored_at := e_stored_at e; e_expires := exp |}.

(* getFromCacheOrFetch, stale branch: the validators of the stored entry *)
Definition set_validators (e : entry) (h : cmap) : cmap :=
  let h1 := match e_etag e with [] => h | t => set_field IF_NONE_MATCH (CRaw t) h end in
  set_field IF_MODIFIED_SINCE (CDate (e_lm e)) h1.

(* the entry as it is once the first upstream exchange of the request is over *)
Definition vanished (flt : faults) (st : option entry) : option entry :=
  if f_vanish flt then None else st.

(* ---- fetchUpstream ------------------------------------------------------------------- *)

Inductive fres :=
| FCached (e : entry) (upstream_status : Z)   (* fetchTypeCached *)
| FDirect (a : oanswer)                       (* fetchTypeDirect: the response is not cacheable *)
| FNotCacheable                               (* ErrNotCacheable: the cache could not store / refresh *)
| FFail.                                      (* upstream error *)

(* handleUpstreamResponse once no further 416 retry is possible *)
Definition handle_store (cfg : pconfig) (now : Z) (m : meth) (st : option entry) (a : oanswer) (flt : faults)
  : option entry * fres :=
  if oa_status a =? 200 then
    if storable (pc_pol cfg) m 200 (oa_hv a) now then
      if f_store_fail flt then (st, FNotCacheable)
      else let e := new_entry (pc_pol cfg) now a in (Some e, FCached e 200)
    else (st, FDirect a)
  else if oa_status a =? 304 then
    match st with
    | None => (None, FNotCacheable)                      (* UpdateMetadata: entry not found *)
    | Some e =>
        let e' := renew e (now + default_age (pc_pol cfg)) in
        match f_reget flt with
        | RgOk => (Some e', FCached e' 304)
        | RgGone => (None, FNotCacheable)
        | RgError => (Some e', FNotCacheable)
        end
    end
  else (st, FDirect a).

(* handleUpstreamResponse with noRetry = false: a 416 is retried once without Range
   (the same request here: there is no Range field to remove) *)
Definition handle (cfg : pconfig) (now : Z) (m : meth) (st : option entry) (u : upreq)
           (a : oanswer) (rest : list oresult) (flt : faults)
  : option entry * fres * list oresult * list upreq :=
  if (oa_status a =? 416) && pc_retry416 cfg then
    match rest with
    | OAnswer a2 :: rest2 =>
        let '(st', r) := handle_store cfg now m st a2 flt in (st', r, rest2, [u])
    | _ => (st, FFail, tl rest, [u])
    end
  else
    let '(st', r) := handle_store cfg now m st a flt in (st', r, rest, []).

(* fetchUpstream: returns the entry afterwards, the result, the unused answers and the
   upstream requests made *)
Definition fetch_upstream (cfg : pconfig) (now : Z) (m : meth) (st : option entry) (u : upreq)
           (answers : list oresult) (flt : faults)
  : option entry * fres * list oresult * list upreq :=
  let st1 := vanished flt st in
  match answers with
  | OAnswer a :: rest =>
      let '(st', r, rest', ups) := handle cfg now m st1 u a rest flt in
      (st', r, rest', u :: ups)
  | _ => (st1, FFail, tl answers, [u])
  end.

(* fetchDirectlyFromUpstream + processRequest's direct branch *)
Definition direct_fetch (u : upreq) (answers : list oresult) : response * list upreq :=
  match answers with
  | OAnswer a :: _ => (RRelay a, [u])
  | _ => (RBadGateway, [u])
  end.

(* ---- dedupFetch + processRequest ------------------------------------------------------- *)

(* what getFromCacheOrFetch / dedupFetch / processRequest make of fetchUpstream's result for a GET *)
Definition finish_get (plain : upreq) (hs : hit_status) (o : option entry * fres * list oresult * list upreq)
  : option entry * response * list upreq :=
  let '(st', r, rest, ups) := o in
  match r with
  | FCached e us => (st', RStored hs us e, ups)
  | FDirect _ | FNotCacheable =>
      (* ErrNotCacheable: the response at hand is dropped, the client's own request is sent again *)
      let '(resp, ups2) := direct_fetch plain rest in (st', resp, ups ++ ups2)
  | FFail => (st', RBadGateway, ups)
  end.

(* GET: singleflight with this request alone in its flight, getFromCacheOrFetch *)
Definition get_step (cfg : pconfig) (now : Z) (st : option entry) (h : cmap)
           (answers : list oresult) (flt : faults)
  : option entry * response * list upreq :=
  let plain := {| u_meth := GET; u_hdr := h |} in
  match st with
  | Some e =>
      if f_lookup_err flt then
        let '(resp, ups) := direct_fetch plain answers in (vanished flt st, resp, ups)
      else if fresh e now then (st, RStored HsHit 0 e, [])
      else finish_get plain HsRevalidated
             (fetch_upstream cfg now GET st {| u_meth := GET; u_hdr := set_validators e h |} answers flt)
  | None => finish_get plain HsMiss (fetch_upstream cfg now GET None plain answers flt)
  end.

(* every other method: not coalesced, fetchUpstream under the method's own key (which never
   has an entry: only GET answers are stored); the GET entry [st] is not touched *)
Definition other_step (cfg : pconfig) (now : Z) (m : meth) (st : option entry) (h : cmap)
           (answers : list oresult) (flt : faults)
  : option entry * response * list upreq :=
  let plain := {| u_meth := m; u_hdr := h |} in
  let st := vanished flt st in
  let '(_, r, rest, ups) := fetch_upstream cfg now m None plain answers flt in
  match r with
  | FCached e us => (st, RStored HsMiss us e, ups)      (* unreachable, see Proofs/Proxy.v other_never_cached *)
  | FDirect a => (st, RRelay a, ups)
  | FNotCacheable => let '(resp, ups2) := direct_fetch plain rest in (st, resp, ups ++ ups2)
  | FFail => (st, RBadGateway, ups)
  end.

Definition proxy_step (cfg : pconfig) (now : Z) (st : option entry) (rq : request)
           (answers : list oresult) (flt : faults)
  : option entry * response * list upreq :=
  let h := strip_regular (rq_hdr rq) in
  if is_get (rq_meth rq) then get_step cfg now st h answers flt
  else other_step cfg now (rq_meth rq) st h answers flt.

(* ---- histories ---------------------------------------------------------------------------- *)

Record hstate := {
  hs_cfg : pconfig;
  hs_now : Z;
  hs_entry : option entry
}.

Inductive hstep :=
| Advance (d : Z)
| SetConfig (c : pconfig)
| Drop                                   (* the entry is evicted / deleted between two requests *)
| Request (rq : request) (answers : list oresult) (flt : faults).

Record event := {
  ev_cfg : pconfig;
  ev_now : Z;
  ev_before : option entry;
  ev_rq : request;
  ev_answers : list oresult;
  ev_flt : faults;
  ev_resp : response;
  ev_ups : list upreq;
  ev_after : option entry
}.

Definition step (s : hstate) (x : hstep) : hstate * option event :=
  match x with
  | Advance d => ({| hs_cfg := hs_cfg s; hs_now := hs_now s + d; hs_entry := hs_entry s |}, None)
  | SetConfig c => ({| hs_cfg := c; hs_now := hs_now s; hs_entry := hs_entry s |}, None)
  | Drop => ({| hs_cfg := hs_cfg s; hs_now := hs_now s; hs_entry := None |}, None)
  | Request rq answers flt =>
      let '(st', resp, ups) := proxy_step (hs_cfg s) (hs_now s) (hs_entry s) rq answers flt in
      ({| hs_cfg := hs_cfg s; hs_now := hs_now s; hs_entry := st' |},
       Some {| ev_cfg := hs_cfg s; ev_now := hs_now s; ev_before := hs_entry s; ev_rq := rq;
               ev_answers := answers; ev_flt := flt; ev_resp := resp; ev_ups := ups; ev_after := st' |})
  end.

Fixpoint run (s : hstate) (h : list hstep) : list event * hstate :=
  match h with
  | [] => ([], s)
  | x :: h' =>
      let '(s1, oev) := step s x in
      let '(evs, s2) := run s1 h' in
      (match oev with Some ev => ev :: evs | None => evs end, s2)
  end.

Definition events (s : hstate) (h : list hstep) : list event := fst (run s h).

Definition init_state (cfg : pconfig) (now : Z) : hstate :=
  {| hs_cfg := cfg; hs_now := now; hs_entry := None |}.

(* ---- vocabulary of the statements ----------------------------------------------------------- *)

(* the answers a step consumed: one per upstream request *)
Definition consumed (ev : event) : list oresult := firstn (length (ev_ups ev)) (ev_answers ev).

Definition answer_of (r : oresult) : option oanswer := match r with OAnswer a => Some a | OFail => None end.

Definition is_2xx (s : Z) : bool := (200 <=? s) && (s <? 300).

(* a good origin answer: 2xx or 304 *)
Definition good_result (r : oresult) : bool :=
  match r with OAnswer a => is_2xx (oa_status a) || (oa_status a =? 304) | OFail => false end.

Definition status_of (r : response) : Z :=
  match r with RStored _ _ _ => 200 | RRelay a => oa_status a | RBadGateway => 502 end.

Definition version_of (r : response) : Z :=
  match r with RStored _ _ e => e_version e | RRelay a => oa_version a | RBadGateway => -1 end.

Definition from_store (r : response) : bool := match r with RStored _ _ _ => true | _ => false end.

(* X-Cache: processRequest labels cached results always, relayed answers only when 2xx *)
Definition label_of (r : response) : option hit_status :=
  match r with
  | RStored hs _ _ => Some hs
  | RRelay a => if is_2xx (oa_status a) then Some HsMiss else None
  | RBadGateway => None
  end.
