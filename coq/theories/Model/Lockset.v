(* Regenerated lockset table (C15): for every access to a guarded struct field in a package,
   the locks the accessing code path holds at that point, as computed by the translator
   (harness/cmd/skel) while it walks the source.  [access_ok]: the field's guard is held,
   in write mode if the access is a write. *)
From Reservoir Require Import Base.Prelude Model.Sync.

Inductive amode := AR | AW.

Record access := mk_access { a_field : nat; a_write : bool; a_held : list (slock * amode) }.

Definition access_ok (guard : nat -> slock) (a : access) : bool :=
  existsb (fun lm : slock * amode =>
             let (l, m) := lm in
             slock_eqb l (guard (a_field a)) &&
             (negb (a_write a) || match m with AW => true | AR => false end))
          (a_held a).

Definition bad_accesses (guard : nat -> slock) (l : list access) : list Z :=
  filter_idx (fun a => negb (access_ok guard a)) 0 l.
