(* C11 — leaf certificates for CONNECT targets.

   Code modelled: proxy/certs/private_ca.go (GetCertForHost, the SAN classification of
   createCert) over utils/syncmap (Get / Set / Delete, each atomic under the map's mutex).

     host, _, err := net.SplitHostPort(hostport)          -> [split_host_port]
     cached, ok := certs.Get(host)
       ok && !cached.Leaf.NotAfter.Before(now)  -> return cached
       ok && expired                            -> certs.Delete(host), go on
     createCert([host], 240h): SAN = IP if net.ParseIP(host) != nil else DNS name;
                               NotBefore = now, NotAfter = now + 240 h      -> [mk_cert]
     certs.Set(host, cert); return cert

   Time is in whole seconds (X.509 instants have second granularity).  Signing, chain
   building and key generation are crypto/x509's; they are observed by the harness
   (x509.Verify against the CA pool, public-key match), not modelled.

   [parse_ip] is the library function net.ParseIP, an input of the model: it returns the
   canonical text of the address when the host text is an IP literal (and nothing for an
   IPv6 literal that carries a zone identifier, "fe80::1%eth0": such a host gets a DNS name).  x509.CreateCertificate refuses a
   dNSName that is not an IA5 string: [creatable]. *)
From Reservoir Require Import Base.Prelude.

Definition COLON : Z := 58.
Definition LBRACK : Z := 91.
Definition RBRACK : Z := 93.

(* ---------- net.SplitHostPort ---------- *)

(* the part before the first [c], and what follows that [c] (None when there is no [c]) *)
Fixpoint span_not (c : Z) (s : str) : str * option str :=
  match s with
  | [] => ([], None)
  | x :: r => if x =? c then ([], Some r)
              else let '(a, b) := span_not c r in (x :: a, b)
  end.

Definition contains (c : Z) (s : str) : bool := existsb (fun x => x =? c) s.

(* Some (host, port) or None for every error return of net.SplitHostPort:
   the port starts after the LAST colon; a leading '[' must be closed by the first ']'
   immediately before that colon; no other brackets; no other colon outside brackets. *)
Definition split_host_port (hp : str) : option (str * str) :=
  match span_not COLON (rev hp) with
  | (_, None) => None                                   (* missing port in address *)
  | (rport, Some rbefore) =>
      let port := rev rport in
      let before := rev rbefore in
      match hp with
      | c :: rest =>
          if c =? LBRACK then
            match span_not RBRACK rest with
            | (_, None) => None                          (* missing ']' in address *)
            | (inner, Some after) =>
                if str_eqb after (COLON :: port) then
                  if contains LBRACK rest then None      (* unexpected '[' *)
                  else if contains RBRACK after then None (* unexpected ']' *)
                  else Some (inner, port)
                else None                                (* missing port / too many colons *)
            end
          else
            if contains COLON before then None           (* too many colons *)
            else if contains LBRACK hp then None
            else if contains RBRACK hp then None
            else Some (before, port)
      | [] => None
      end
  end.

(* ---------- certificates and the per-host cache ---------- *)

Inductive san :=
| SanDNS (name : str)
| SanIP (addr : str).     (* canonical address text, from [parse_ip] *)

Definition san_eqb (a b : san) : bool :=
  match a, b with
  | SanDNS x, SanDNS y => str_eqb x y
  | SanIP x, SanIP y => str_eqb x y
  | _, _ => false
  end.

Record cert := {
  c_id : Z;        (* identity of the issued certificate (pointer / serial in the code) *)
  c_san : san;     (* the single subjectAltName *)
  c_nb : Z;        (* NotBefore, seconds *)
  c_na : Z         (* NotAfter, seconds *)
}.

Definition LIFETIME : Z := 864000.   (* 240 h *)

Definition cert_eqb (a b : cert) : bool :=
  (c_id a =? c_id b) && san_eqb (c_san a) (c_san b) && (c_nb a =? c_nb b) && (c_na a =? c_na b).

Definition cache := list (str * cert).

Fixpoint lookup (h : str) (m : cache) : option cert :=
  match m with
  | [] => None
  | (k, v) :: r => if str_eqb k h then Some v else lookup h r
  end.

Fixpoint remove (h : str) (m : cache) : cache :=
  match m with
  | [] => []
  | (k, v) :: r => if str_eqb k h then remove h r else (k, v) :: remove h r
  end.

Definition set (h : str) (c : cert) (m : cache) : cache := (h, c) :: remove h m.

Section WithParseIP.
  Variable parse_ip : str -> option str.

  (* createCert: "if ip := net.ParseIP(name); ip != nil { IPAddresses } else { DNSNames }" *)
  Definition san_of (h : str) : san :=
    match parse_ip h with
    | Some a => SanIP a
    | None => SanDNS h
    end.

  Definition is_ia5 (s : str) : bool := forallb (fun c => (0 <=? c) && (c <? 128)) s.

  (* x509.CreateCertificate fails for a DNS name that is not IA5 *)
  Definition creatable (h : str) : bool :=
    match parse_ip h with
    | Some _ => true
    | None => is_ia5 h
    end.

  Definition mk_cert (id : Z) (h : str) (now : Z) : cert :=
    {| c_id := id; c_san := san_of h; c_nb := now; c_na := now + LIFETIME |}.

  (* cert.Leaf.NotAfter.Before(time.Now()) *)
  Definition expired (now : Z) (c : cert) : bool := c_na c <? now.

  Definition valid_at (now : Z) (c : cert) : Prop := c_nb c <= now <= c_na c.
  Definition valid_at_b (now : Z) (c : cert) : bool := (c_nb c <=? now) && (now <=? c_na c).

  Record state := {
    s_now : Z;
    s_cache : cache;
    s_next : Z           (* identities handed out so far *)
  }.

  Definition init : state := {| s_now := 0; s_cache := []; s_next := 0 |}.

  (* createCert + X509KeyPair + certs.Set on the cache [m] *)
  Definition fresh (s : state) (h : str) (m : cache) : state * res cert :=
    if creatable h then
      let c := mk_cert (s_next s) h (s_now s) in
      ({| s_now := s_now s; s_cache := set h c m; s_next := s_next s + 1 |}, Ok c)
    else ({| s_now := s_now s; s_cache := m; s_next := s_next s |}, Err).

  (* one sequential call of GetCertForHost at the state's clock *)
  Definition get_cert (hp : str) (s : state) : state * res cert :=
    match split_host_port hp with
    | None => (s, Err)
    | Some (h, _) =>
        match lookup h (s_cache s) with
        | Some c => if expired (s_now s) c then fresh s h (remove h (s_cache s)) else (s, Ok c)
        | None => fresh s h (s_cache s)
        end
    end.

  (* histories: calls and the passing of time (time never runs backwards) *)
  Inductive op :=
  | Get (hp : str)
  | Adv (d : Z).

  Definition advance (d : Z) (s : state) : state :=
    {| s_now := s_now s + Z.max 0 d; s_cache := s_cache s; s_next := s_next s |}.

  Definition step (s : state) (o : op) : state :=
    match o with
    | Get hp => fst (get_cert hp s)
    | Adv d => advance d s
    end.

  Definition run (ops : list op) (s : state) : state := fold_left step ops s.

  (* ---------- concurrent callers: every map operation is one atomic action ---------- *)

  Inductive pc :=
  | PStart (hp : str)                (* not yet looked up *)
  | PDelete (h : str)                (* saw an expired entry, about to Delete *)
  | PCreate (h : str)                (* about to createCert *)
  | PSet (h : str) (c : cert)        (* created, about to Set *)
  | PDone (r : res cert) (t : Z).    (* returned r; t = the instant the returned certificate was chosen *)

  Record lstate := {
    l_now : Z;
    l_cache : cache;
    l_next : Z;
    l_threads : list pc
  }.

  Fixpoint upd {A} (i : nat) (x : A) (l : list A) : list A :=
    match l, i with
    | [], _ => []
    | _ :: r, O => x :: r
    | y :: r, S j => y :: upd j x r
    end.

  (* the next atomic action of a caller at [p], at instant [now], on the shared cache [m]
     and identity counter [n] *)
  Definition pc_step (now : Z) (p : pc) (m : cache) (n : Z) : pc * cache * Z :=
    match p with
    | PStart hp =>
        match split_host_port hp with
        | None => (PDone Err now, m, n)
        | Some (h, _) =>
            match lookup h m with                                   (* certs.Get *)
            | Some c => if expired now c then (PDelete h, m, n) else (PDone (Ok c) now, m, n)
            | None => (PCreate h, m, n)
            end
        end
    | PDelete h => (PCreate h, remove h m, n)                       (* certs.Delete *)
    | PCreate h =>                                                  (* createCert + X509KeyPair *)
        if creatable h then (PSet h (mk_cert n h now), m, n + 1)
        else (PDone Err now, m, n)
    | PSet h c => (PDone (Ok c) (c_nb c), set h c m, n)             (* certs.Set; return *)
    | PDone _ _ => (p, m, n)
    end.

  (* thread [i] performs its next atomic action after [dt] more seconds have passed *)
  Definition lstep (st : lstate) (a : nat * Z) : lstate :=
    let '(i, dt) := a in
    let now := l_now st + Z.max 0 dt in
    match nth_error (l_threads st) i with
    | None => {| l_now := now; l_cache := l_cache st; l_next := l_next st; l_threads := l_threads st |}
    | Some p =>
        let '(p', m', n') := pc_step now p (l_cache st) (l_next st) in
        {| l_now := now; l_cache := m'; l_next := n'; l_threads := upd i p' (l_threads st) |}
    end.

  Definition lrun (sched : list (nat * Z)) (st : lstate) : lstate := fold_left lstep sched st.

  Definition linit (s : state) (hps : list str) : lstate :=
    {| l_now := s_now s; l_cache := s_cache s; l_next := s_next s; l_threads := map PStart hps |}.

  Definition is_done (p : pc) : bool := match p with PDone _ _ => true | _ => false end.
  Definition all_done (st : lstate) : bool := forallb is_done (l_threads st).

End WithParseIP.
