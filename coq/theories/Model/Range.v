(* Executable model of proxy/headers/range_header.go (parseRangeNumber,
   parseRangeHeader, SliceSize, validateRange) and of the Range part of
   proxy/proxy.go (handleRangeRequest + the fall-through in processRequest).
   Every Go index expression is modelled with an explicit Panic outcome. *)
From Reservoir Require Import Base.Prelude.

(* --- parseRangeNumber ---------------------------------------------------- *)
(* Go iterates runes; every byte consumed before the loop returns is ASCII
   (digit, blank, tab), so byte position = rune position on the consumed part,
   and any byte >= 0x80 starts a rune that is "not a digit". *)
Fixpoint pn_loop (s : str) (i : Z) (num index : Z) : option (Z * Z) :=
  match s with
  | [] => Some (num, index)
  | ch :: rest =>
      if (ch =? 32) || (ch =? 9) then pn_loop rest (i + 1) num (index + 1)
      else if (ch <? 48) || (57 <? ch) then
             (if i =? 0 then None else Some (num, index))
      else
        let digit := ch - 48 in
        if (max_int64 - digit) / 10 <? num then None   (* does not fit in an int64 *)
        else pn_loop rest (i + 1) (num * 10 + digit) (index + 1)
  end.

Definition parse_number (s : str) : option (Z * Z) :=
  match s with
  | [] => None
  | c :: _ => if c =? 45 then None else pn_loop s 0 0 0
  end.

(* --- strings.SplitN(s, "=", 2) -------------------------------------------- *)
Fixpoint split_eq (s : str) : option (str * str) :=
  match s with
  | [] => None
  | c :: r =>
      if c =? 61 then Some ([], r)
      else match split_eq r with
           | Some (a, b) => Some (c :: a, b)
           | None => None
           end
  end.

Definition bytes_lit : str := [98; 121; 116; 101; 115].   (* "bytes" *)

(* valuesStr[i] with Go's bounds check *)
Definition index_at (s : str) (i : Z) : res Z :=
  if (i <? 0) then Panic
  else match nth_error s (Z.to_nat i) with
       | Some c => Ok c
       | None => Panic
       end.

(* valuesStr[i:] with Go's bounds check (i <= len) *)
Definition slice_from (s : str) (i : Z) : res str :=
  if (i <? 0) || (zlen s <? i) then Panic else Ok (zskipn i s).

(* rangeHeader: (start, end), -1 = absent *)
Definition parse_range (s : str) : res (Z * Z) :=
  match split_eq s with
  | None => Err
  | Some (unit, values) =>
      if negb (str_eqb unit bytes_lit) then Err
      else if str_eqb values [] then Err
      else
        res_bind (index_at values 0) (fun firstCh =>
        if firstCh =? 45 then
          res_bind (slice_from values 1) (fun tl1 =>
          match parse_number tl1 with
          | None => Err
          | Some (suffixLength, tail0) =>
              let suffixTail := tail0 + 1 in
              let smaller := suffixTail <? zlen values in
              if smaller then
                res_bind (index_at values suffixTail) (fun c =>
                  if c =? 44 then Err
                  else if c =? 45 then Err
                  else Ok (-1, suffixLength))
              else Ok (-1, suffixLength)
          end)
        else
          match parse_number values with
          | None => Err
          | Some (start, startTail) =>
              if zlen values <=? startTail then Err
              else
                res_bind (index_at values startTail) (fun middleCh =>
                if negb (middleCh =? 45) then Err
                else if zlen values <=? startTail + 1 then Ok (start, -1)
                else
                  res_bind (slice_from values (startTail + 1)) (fun tl2 =>
                  match parse_number tl2 with
                  | None => Err
                  | Some (e, endTail0) =>
                      let endTail := endTail0 + startTail + 1 in
                      if endTail <? zlen values then
                        res_bind (index_at values endTail) (fun c =>
                          if c =? 44 then Err else Ok (start, e))
                      else Ok (start, e)
                  end))
          end)
  end.

(* --- SliceSize + validateRange -------------------------------------------- *)
Definition validate_range (a b size : Z) : bool :=
  negb ((a <? 0) || (b <? 0) || (size <=? a) || (size <=? b) || (b <? a)).

(* int64 arithmetic of SliceSize wraps; sizes are non-negative int64s. *)
Definition slice_size (r : Z * Z) (size : Z) : option (Z * Z) :=
  let '(s, e) := r in
  if (e =? -1) && (s =? -1) then None
  else
    let '(a, b) :=
      if s =? -1 then (wrap64 (size - e), wrap64 (size - 1))
      else if negb (e =? -1) then (s, e)
      else (s, wrap64 (size - 1)) in
    if validate_range a b size then Some (a, b) else None.

(* --- handleRangeRequest / processRequest on a stored entry ----------------- *)
Inductive if_range :=
| IRNone
| IRTag (t : str)
| IRTime (t : Z).

Record stored := {
  st_size : Z;
  st_etag : str;
  st_lastmod : Z     (* instant, seconds resolution irrelevant here *)
}.

Inductive answer :=
| Partial (a b len : Z)     (* 206, Content-Range a-b/size, Content-Length len, bytes [a, a+len) *)
| Refuse416 (size : Z)      (* 416, Content-Range: bytes */size *)
| Full (status : Z)         (* whole stored body with this status *)
| APanic.

(* [retry] = retry_on_invalid_range.  [rng] = the parsed Range header as
   ParseHeaderDirective leaves it (None when absent or not parseable: the
   request is then not a range request at all). *)
Definition range_answer (retry : bool) (rng : option (Z * Z)) (ir : if_range) (st : stored) : answer :=
  match rng with
  | None => Full 200
  | Some r =>
      match slice_size r (st_size st) with
      | None => if retry then Full 200 else Refuse416 (st_size st)
      | Some (a, b) =>
          let mismatch :=
            match ir with
            | IRNone => false
            | IRTag t => negb (str_eqb t (st_etag st))
            | IRTime t => negb (t =? st_lastmod st)   (* a date matches only the stored Last-Modified itself (fix ea09bf8; was: not older) *)
            end in
          if mismatch then Full 200 else Partial a b (b - a + 1)
      end
  end.

(* What ParseHeaderDirective does with the Range header value. *)
Definition header_range (s : str) : res (option (Z * Z)) :=
  match parse_range s with
  | Ok r => Ok (Some r)
  | Err => Ok None
  | Panic => Panic
  end.

Definition serve_range (retry : bool) (hdr : str) (ir : if_range) (st : stored) : answer :=
  match header_range hdr with
  | Ok rng => range_answer retry rng ir st
  | Err => APanic
  | Panic => APanic
  end.

(* The bytes a Partial answer carries: io.NewSectionReader(data, a, len). *)
Definition section (body : str) (a len : Z) : str := zfirstn len (zskipn a body).

(* --- RFC 9110 reference grammar for a single byte-range-spec --------------- *)
(* Independent of the parser above: digits are arbitrary-length and their
   value is an unbounded integer, so "numerically overflowing" is expressible. *)
Inductive spec :=
| SFromTo (a b : Z)
| SFrom (a : Z)
| SSuffix (n : Z).

Fixpoint span_digits (s : str) : str * str :=
  match s with
  | c :: r => if is_digit c then let '(d, t) := span_digits r in (c :: d, t) else ([], s)
  | [] => ([], [])
  end.

(* "bytes=" ( 1*DIGIT "-" [ 1*DIGIT ] / "-" 1*DIGIT ), nothing else *)
Definition wellformed_spec (s : str) : option spec :=
  match split_eq s with
  | None => None
  | Some (unit, values) =>
      if negb (str_eqb unit bytes_lit) then None
      else
        match values with
        | [] => None
        | c :: r =>
            if c =? 45 then
              let '(d, t) := span_digits r in
              match d, t with
              | _ :: _, [] => Some (SSuffix (dec_value d))
              | _, _ => None
              end
            else
              let '(d1, t1) := span_digits values in
              match d1, t1 with
              | _ :: _, dash :: r2 =>
                  if dash =? 45 then
                    match r2 with
                    | [] => Some (SFrom (dec_value d1))
                    | _ =>
                        let '(d2, t2) := span_digits r2 in
                        match d2, t2 with
                        | _ :: _, [] => Some (SFromTo (dec_value d1) (dec_value d2))
                        | _, _ => None
                        end
                    end
                  else None
              | _, _ => None
              end
        end
  end.

(* The slice RFC 9110 assigns to a spec on a representation of [size] bytes,
   when the spec lies entirely inside it (the only case the proxy serves). *)
Definition spec_slice (sp : spec) (size : Z) : Z * Z :=
  match sp with
  | SFromTo a b => (a, b)
  | SFrom a => (a, size - 1)
  | SSuffix n => (size - n, size - 1)
  end.
