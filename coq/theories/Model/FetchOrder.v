(* C01 — the order in which origin answers are stored.  The origin's content of one resource moves
   through versions 0,1,2,...; a fetch is ANSWERED with the version current at that moment and its
   answer is STORED some time later; requests served from the store get the stored version.
   Coalesced GETs are serialised per key by singleflight; Range requests (and the retry paths) fetch and
   store on their own. *)
From Reservoir Require Import Base.Prelude.
From Coq Require Import Arith PeanoNat.

Record fstate := { f_origin : nat; f_cached : option nat; f_inflight : list nat; f_served : list nat (* newest first *) }.
Definition f_init : fstate := {| f_origin := 0; f_cached := None; f_inflight := []; f_served := [] |}.

Inductive faction :=
| FBump            (* the origin's content changes *)
| FAnswer          (* a fetch is answered with the origin's current version *)
| FStore (i : nat) (* the i-th outstanding answer is stored *)
| FServe.          (* a request is served from the store *)

Fixpoint drop_nth {A} (i : nat) (l : list A) : list A :=
  match l, i with [], _ => [] | _ :: r, O => r | x :: r, S j => x :: drop_nth j r end.

(* [serial]: a fetch starts only when no other answer is outstanding (what singleflight enforces for
   coalesced GETs of one key). *)
Definition fstep (serial : bool) (s : fstate) (a : faction) : option fstate :=
  match a with
  | FBump => Some {| f_origin := S (f_origin s); f_cached := f_cached s; f_inflight := f_inflight s; f_served := f_served s |}
  | FAnswer =>
      if serial && match f_inflight s with [] => false | _ => true end then None
      else Some {| f_origin := f_origin s; f_cached := f_cached s; f_inflight := f_inflight s ++ [f_origin s]; f_served := f_served s |}
  | FStore i =>
      match nth_error (f_inflight s) i with
      | Some v => Some {| f_origin := f_origin s; f_cached := Some v; f_inflight := drop_nth i (f_inflight s); f_served := f_served s |}
      | None => None
      end
  | FServe =>
      match f_cached s with
      | Some v => Some {| f_origin := f_origin s; f_cached := f_cached s; f_inflight := f_inflight s; f_served := v :: f_served s |}
      | None => None
      end
  end.

Fixpoint frun (serial : bool) (s : fstate) (l : list faction) : option fstate :=
  match l with [] => Some s | a :: r => match fstep serial s a with Some s' => frun serial s' r | None => None end end.

(* newest-first log in which no request got an older version than an earlier request *)
Fixpoint monotone_log (l : list nat) : bool :=
  match l with
  | [] => true
  | x :: r => match r with [] => true | y :: _ => Nat.leb y x && monotone_log r end
  end.
