(* Executable model of utils/event/event.go (as repaired by the C19 fixes) as a
   labelled transition system.  Every action is one critical section of
   Event.mu (or the call / return of a listener function), so every
   interleaving of Subscribe / Unsubscribe / Fire calls with the delivery
   goroutines is an action list, and "for all action lists" is "for all
   schedules".

     type subscription struct { fn; pending []T; running bool; active bool }
     type Event struct { mu; subscribers []*subscription }

   A subscription object is identified by its index in [e_heap] (objects are
   never freed in the model: the Unsubscribe closure and the delivery
   goroutine keep pointing at them).  Two fields are observations rather than
   Go state: [s_incall]/[s_log] (the listener function is running / the values
   it has been called with), and two are ghosts used only by the theorems:
   [s_since] (how many values had been fired when it subscribed) and
   [s_dropped] (what Unsubscribe threw away). *)
From Reservoir Require Import Base.Prelude.

Record sub := {
  s_pending : list Z;
  s_running : bool;
  s_active : bool;
  s_incall : bool;
  s_log : list Z;
  s_since : nat;
  s_dropped : list Z
}.

Record est := {
  e_subs : list nat;     (* Event.subscribers, as subscription ids *)
  e_heap : list sub;     (* every subscription ever created *)
  e_fired : list Z       (* ghost: every value fired so far, oldest first *)
}.

Definition e_init : est := {| e_subs := []; e_heap := []; e_fired := [] |}.

Inductive act :=
| ASub                 (* Subscribe(fn): returns the closure of subscription [length heap] *)
| AUnsub (id : nat)    (* calling the Unsubscribe closure of subscription id (any number of times) *)
| AFire (v : Z)        (* Fire(v) *)
| ADeliver (id : nat)  (* one iteration of deliver(sub): exit, or pop the oldest value and call fn *)
| AReturn (id : nat).  (* the listener function of subscription id returns *)

Definition new_sub (since : nat) : sub :=
  {| s_pending := []; s_running := false; s_active := true; s_incall := false;
     s_log := []; s_since := since; s_dropped := [] |}.

Definition dflt_sub : sub := new_sub 0.
Definition get (h : list sub) (id : nat) : sub := nth id h dflt_sub.

Fixpoint upd (h : list sub) (id : nat) (f : sub -> sub) : list sub :=
  match h, id with
  | [], _ => []
  | s :: r, O => f s :: r
  | s :: r, S n => s :: upd r n f
  end.

(* for i, s := range subscribers { if s == sub { ... } } *)
Fixpoint find_index (id : nat) (l : list nat) : option nat :=
  match l with
  | [] => None
  | x :: r => if Nat.eqb x id then Some O
              else match find_index id r with Some i => Some (S i) | None => None end
  end.

(* append(s[:i], s[i+1:]...) with Go's slice bounds checks (i+1 <= len) *)
Definition go_remove {A} (i : nat) (l : list A) : res (list A) :=
  if Nat.leb (S i) (length l) then Ok (firstn i l ++ skipn (S i) l) else Panic.

Definition unsub_fields (s : sub) : sub :=
  {| s_pending := []; s_running := s_running s; s_active := false; s_incall := s_incall s;
     s_log := s_log s; s_since := s_since s;
     s_dropped := if s_active s then s_pending s else s_dropped s |}.

Definition fire_fields (v : Z) (s : sub) : sub :=
  {| s_pending := s_pending s ++ [v]; s_running := true; s_active := s_active s;
     s_incall := s_incall s; s_log := s_log s; s_since := s_since s; s_dropped := s_dropped s |}.

Definition exit_fields (s : sub) : sub :=
  {| s_pending := s_pending s; s_running := false; s_active := s_active s; s_incall := false;
     s_log := s_log s; s_since := s_since s; s_dropped := s_dropped s |}.

Definition call_fields (v : Z) (rest : list Z) (s : sub) : sub :=
  {| s_pending := rest; s_running := true; s_active := s_active s; s_incall := true;
     s_log := s_log s ++ [v]; s_since := s_since s; s_dropped := s_dropped s |}.

Definition return_fields (s : sub) : sub :=
  {| s_pending := s_pending s; s_running := s_running s; s_active := s_active s; s_incall := false;
     s_log := s_log s; s_since := s_since s; s_dropped := s_dropped s |}.

Definition step (st : est) (a : act) : res est :=
  match a with
  | ASub =>
      Ok {| e_subs := e_subs st ++ [length (e_heap st)];
            e_heap := e_heap st ++ [new_sub (length (e_fired st))];
            e_fired := e_fired st |}
  | AUnsub id =>
      if Nat.leb (length (e_heap st)) id then Ok st      (* no such closure exists *)
      else
        let h := upd (e_heap st) id unsub_fields in
        match find_index id (e_subs st) with
        | None => Ok {| e_subs := e_subs st; e_heap := h; e_fired := e_fired st |}
        | Some i =>
            match go_remove i (e_subs st) with
            | Ok l => Ok {| e_subs := l; e_heap := h; e_fired := e_fired st |}
            | Err => Err
            | Panic => Panic
            end
        end
  | AFire v =>
      Ok {| e_subs := e_subs st;
            e_heap := fold_left (fun h id => upd h id (fire_fields v)) (e_subs st) (e_heap st);
            e_fired := e_fired st ++ [v] |}
  | ADeliver id =>
      let s := get (e_heap st) id in
      if s_running s && negb (s_incall s) then
        match s_active s, s_pending s with
        | true, v :: rest =>
            Ok {| e_subs := e_subs st; e_heap := upd (e_heap st) id (call_fields v rest); e_fired := e_fired st |}
        | _, _ =>
            Ok {| e_subs := e_subs st; e_heap := upd (e_heap st) id exit_fields; e_fired := e_fired st |}
        end
      else Ok st
  | AReturn id =>
      if s_incall (get (e_heap st) id) then
        Ok {| e_subs := e_subs st; e_heap := upd (e_heap st) id return_fields; e_fired := e_fired st |}
      else Ok st
  end.

Definition run_from (st : est) (t : list act) : res est :=
  fold_left (fun r a => res_bind r (fun s => step s a)) t (Ok st).

Definition run (t : list act) : res est := run_from e_init t.

(* ---------------------------------------------------------------------- *)
(* The trivially correct reference: a finite set of live listener ids (kept
   in subscription order) and the values fired so far. *)
Record spec := { sp_live : list nat; sp_next : nat; sp_fired : list Z }.

Definition spec_init : spec := {| sp_live := []; sp_next := O; sp_fired := [] |}.

Definition spec_step (s : spec) (a : act) : spec :=
  match a with
  | ASub => {| sp_live := sp_live s ++ [sp_next s]; sp_next := S (sp_next s); sp_fired := sp_fired s |}
  | AUnsub id => {| sp_live := filter (fun x => negb (Nat.eqb x id)) (sp_live s);
                    sp_next := sp_next s; sp_fired := sp_fired s |}
  | AFire v => {| sp_live := sp_live s; sp_next := sp_next s; sp_fired := sp_fired s ++ [v] |}
  | ADeliver _ | AReturn _ => s
  end.

Definition spec_run (t : list act) : spec := fold_left spec_step t spec_init.

(* ---------------------------------------------------------------------- *)
(* Settling: let the delivery goroutines run until nothing more can happen
   without the environment (a listener held by the harness stays in its call).
   [free id] = the listener of subscription id returns by itself. *)
Definition settle_one (free : nat -> bool) (st : est) (id : nat) : est :=
  let s := get (e_heap st) id in
  let st1 := if s_incall s && free id
             then match step st (AReturn id) with Ok x => x | _ => st end else st in
  match step st1 (ADeliver id) with Ok x => x | _ => st1 end.

Definition settle_round (free : nat -> bool) (st : est) : est :=
  fold_left (settle_one free) (seq 0 (length (e_heap st))) st.

Fixpoint settle (fuel : nat) (free : nat -> bool) (st : est) : est :=
  match fuel with
  | O => st
  | S f => settle f free (settle_round free st)
  end.

Definition total_pending (st : est) : nat :=
  fold_left (fun n s => (n + length (s_pending s))%nat) (e_heap st) O.

Definition settle_all (free : nat -> bool) (st : est) : est :=
  settle (2 + total_pending st) free st.

(* quiescent: no live listener has anything pending, no delivery goroutine is left *)
Definition quiescent (st : est) : bool :=
  forallb (fun id => let s := get (e_heap st) id in
                     match s_pending s with [] => negb (s_running s) | _ => false end) (e_subs st).
