(* C15 — data races.  A small machine in which threads take locks in read or
   write mode (sync.RWMutex; a sync.Mutex is always taken in write mode) and
   perform PLAIN (non-atomic) reads and writes of abstract memory locations.
   Atomic accesses, channel operations and everything else that is not a plain
   access or a lock operation is an [RStep].

   A RACE is a reachable state in which two different threads are both about to
   perform a plain access to the same location and at least one of them writes
   (the operational definition; for programs synchronising through locks its
   equivalence with the happens-before definition of the Go memory model is the
   classical lockset argument and is cited, not proved).

   Executable definitions only; proofs are in Proofs/Race.v. *)
From Reservoir Require Import Base.Prelude Model.Sync.
From Coq Require Import Arith PeanoNat.

Inductive mode := MR | MW.
Definition mode_eqb (a b : mode) : bool :=
  match a, b with MR, MR | MW, MW => true | _, _ => false end.

Definition loc := nat.

Inductive rprog :=
| RDone
| RAcq (l : lock) (m : mode) (k : rprog)
| RRel (l : lock) (m : mode) (k : rprog)
| RTry (l : lock) (m : mode) (kok kfail : rprog)
| RChoice (a b : rprog)
| RAcc (x : loc) (w : bool) (k : rprog)
| RStep (k : rprog).

Definition hl := (lock * mode)%type.
Definition hl_eqb (a b : hl) : bool := lock_eqb (fst a) (fst b) && mode_eqb (snd a) (snd b).

Record rthread := { rheld : list hl; rcode : rprog }.
Definition rsys := list rthread.

Fixpoint hmem (x : hl) (h : list hl) : bool :=
  match h with [] => false | y :: r => hl_eqb x y || hmem x r end.

Fixpoint hremove1 (x : hl) (h : list hl) : list hl :=
  match h with
  | [] => []
  | y :: r => if hl_eqb x y then r else y :: hremove1 x r
  end.

(* somebody holds l in mode m / in any mode *)
Definition holds_mode (t : rthread) (l : lock) (m : mode) : bool := hmem (l, m) (rheld t).
Definition holds_any (t : rthread) (l : lock) : bool := holds_mode t l MR || holds_mode t l MW.

(* A write lock needs the lock entirely free, a read lock only needs no writer.
   (Go additionally makes new readers wait behind a waiting writer; that only
   removes behaviours and cannot create a race.) *)
Definition can_acq (s : rsys) (l : lock) (m : mode) : bool :=
  match m with
  | MW => forallb (fun t => negb (holds_any t l)) s
  | MR => forallb (fun t => negb (holds_mode t l MW)) s
  end.

Definition rthread_step (s : rsys) (t : rthread) (choice : bool) : option rthread :=
  match rcode t with
  | RDone => None
  | RAcq l m k => if can_acq s l m then Some {| rheld := (l, m) :: rheld t; rcode := k |} else None
  | RRel l m k => if hmem (l, m) (rheld t) then Some {| rheld := hremove1 (l, m) (rheld t); rcode := k |} else None
  | RTry l m kok kfail =>
      if can_acq s l m then Some {| rheld := (l, m) :: rheld t; rcode := kok |}
      else Some {| rheld := rheld t; rcode := kfail |}
  | RChoice a b => Some {| rheld := rheld t; rcode := if choice then a else b |}
  | RAcc _ _ k => Some {| rheld := rheld t; rcode := k |}
  | RStep k => Some {| rheld := rheld t; rcode := k |}
  end.

Definition rsys_step (s : rsys) (i : nat) (choice : bool) : option rsys :=
  match nth_error s i with
  | None => None
  | Some t =>
      match rthread_step s t choice with
      | None => None
      | Some t' => Some (upd_nth i t' s)
      end
  end.

Fixpoint rrun (s : rsys) (sched : list (nat * bool)) : option rsys :=
  match sched with
  | [] => Some s
  | (i, c) :: r => match rsys_step s i c with None => None | Some s' => rrun s' r end
  end.

Definition rspawn (ps : list rprog) : rsys := map (fun p => {| rheld := []; rcode := p |}) ps.

(* the pending plain access of a thread *)
Definition pending (t : rthread) : option (loc * bool) :=
  match rcode t with RAcc x w _ => Some (x, w) | _ => None end.

Definition conflict (a b : option (loc * bool)) : bool :=
  match a, b with
  | Some (x, w1), Some (y, w2) => Nat.eqb x y && (w1 || w2)
  | _, _ => false
  end.

(* executable race detector on a state: some pair of distinct threads conflicts *)
Fixpoint race_with (t : rthread) (r : list rthread) : bool :=
  match r with [] => false | u :: r' => conflict (pending t) (pending u) || race_with t r' end.
Fixpoint has_race (s : rsys) : bool :=
  match s with [] => false | t :: r => race_with t r || has_race r end.

(* Lockset discipline: [G x] is the lock guarding location x.  Every plain read
   of x happens while holding G x (in any mode), every plain write while holding
   it in write mode.  A location without a guard must not be accessed plainly
   by a shared operation at all. *)
Fixpoint guarded (G : loc -> option lock) (h : list hl) (p : rprog) : bool :=
  match p with
  | RDone => true
  | RAcq l m k => guarded G ((l, m) :: h) k
  | RRel l m k => hmem (l, m) h && guarded G (hremove1 (l, m) h) k
  | RTry l m kok kfail => guarded G ((l, m) :: h) kok && guarded G h kfail
  | RChoice a b => guarded G h a && guarded G h b
  | RAcc x w k =>
      match G x with
      | None => false
      | Some g => (if w then hmem (g, MW) h else hmem (g, MR) h || hmem (g, MW) h) && guarded G h k
      end
  | RStep k => guarded G h k
  end.

(* The accesses of a program that break the discipline: (location, is-write). *)
Fixpoint unguarded (G : loc -> option lock) (h : list hl) (p : rprog) : list (loc * bool) :=
  match p with
  | RDone => []
  | RAcq l m k => unguarded G ((l, m) :: h) k
  | RRel l m k => unguarded G (hremove1 (l, m) h) k
  | RTry l m kok kfail => unguarded G ((l, m) :: h) kok ++ unguarded G h kfail
  | RChoice a b => unguarded G h a ++ unguarded G h b
  | RAcc x w k =>
      (match G x with
       | None => [(x, w)]
       | Some g => if (if w then hmem (g, MW) h else hmem (g, MR) h || hmem (g, MW) h) then [] else [(x, w)]
       end) ++ unguarded G h k
  | RStep k => unguarded G h k
  end.
