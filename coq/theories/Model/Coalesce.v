(* Request coalescing of one cache key: proxy/fetcher.go dedupFetch /
   getFromCacheOrFetch + golang.org/x/sync/singleflight, as a labelled
   transition system.  Every action is one atomic step of the proxy, of the
   origin or of a client; a trace (action list) is one interleaving.

   singleflight.Group.Do is modelled by its documented contract: at most one
   execution per key at a time; every caller that arrives while it runs waits
   for it and receives the very same (value, error), with shared = true for all
   of them (the executing caller included) as soon as one caller joined.

   What the code does, by stage (line numbers of proxy/fetcher.go):
     Arrive c          dedupFetch -> group.Do: first caller executes (leader), later ones wait
     LeaderLookup      getFromCacheOrFetch: cache.Get; fresh -> HIT result; missing -> upstream
                       request; stale -> conditional upstream request
     OriginAnswer a    the response head of that upstream request arrives
     LeaderStore       handleUpstreamResponse: 200 cacheable -> cache.Cache (reads the whole body);
                       304 -> UpdateMetadata + Get; not cacheable -> ErrNotCacheable for everybody;
                       body aborted / entry lost under a 304 -> the cache could not store or refresh:
                       ErrNotCacheable for everybody as well (the repair of C09; FError is no longer produced)
     FlightReturn      Do returns in every caller (the yield point fetch.afterDo is here)
     FollowerReGet c   shared cached result: close the shared handle, cache.Get a private one
     FollowerFallback c a   fetchDirectlyFromUpstream with the caller's own request (entry vanished,
                       or the shared answer was not cacheable); a = what the origin answers
     Respond c         processRequest writes the response
     Disconnect c      the client's connection goes away (its request context is cancelled)
     Evict             the entry is removed (janitor eviction / Delete)

   The shared fetch runs on a context detached from the leader's request
   (context.WithoutCancel, the repaired code): Disconnect never touches the
   flight.  A disconnected caller's goroutine keeps running in the code, but
   nothing it does is visible: its own upstream fetch fails before sending
   (cancelled context) and its writes go nowhere; the model stops it (Gone).

   Origin requests are numbered 1,2,3,... in arrival order; the answer to
   request n carries body "version n".  An entry present before the episode
   has version 0. *)
From Reservoir Require Import Base.Prelude.

Definition client := Z.

(* what the origin answers to one request *)
Inductive akind :=
| KCacheable     (* 200, cacheable, complete body *)
| KNoStore       (* 200, Cache-Control: no-store, complete body *)
| KNotFound      (* 404 with a body *)
| KNotModified   (* 304 (only ever sent in answer to a conditional request) *)
| KAbortBody.    (* 200 cacheable head, connection cut in the middle of the body *)

(* value/error singleflight hands to every caller *)
Inductive fresult :=
| FCached (v : Z)   (* fetchTypeCached: entry of version v *)
| FNotCacheable     (* ErrNotCacheable *)
| FError.           (* any other error -> 502 *)

Inductive stage :=
| SLookup                               (* fn entered, cache.Get not yet done *)
| SWait (n : Z) (cond : bool)           (* upstream request n sent (conditional?), no answer yet *)
| SAnswered (n : Z) (a : akind)         (* response head received, body not consumed yet *)
| SResult (r : fresult).                (* fn is returning r *)

Record flight := { fl_leader : client; fl_stage : stage; fl_shared : bool }.

(* what a client finally receives *)
Inductive resp :=
| RStored (v : Z)              (* 200 + the complete stored body of version v, through a handle of its own *)
| RPrivate (k : akind) (n : Z) (* relay of origin answer n, fetched with this client's own request *)
| RError.                      (* 502 *)

Inductive post :=
| PCached (v : Z) (shared : bool)  (* Do returned a cached result *)
| PHave (r : resp)                 (* holds its own handle / response, about to write *)
| PDirect.                         (* about to call fetchDirectlyFromUpstream *)

Inductive phase :=
| Idle
| InFlight            (* inside group.Do: executing (the flight's leader) or waiting *)
| Post (p : post)
| Done (r : resp)
| Gone.

Record state := {
  ph : client -> phase;
  flight_ : option flight;
  cache : option (Z * bool);   (* version, fresh? *)
  origin_count : Z;            (* upstream requests sent so far *)
  cond_count : Z;              (* ... of which conditional (revalidations) *)
  stored : list Z;             (* ghost: versions that were ever completely stored *)
  faults : Z                   (* ghost: shared fetches that ended in an error *)
}.

Inductive action :=
| Arrive (c : client)
| LeaderLookup
| OriginAnswer (a : akind)
| LeaderStore
| FlightReturn
| FollowerReGet (c : client)
| FollowerFallback (c : client) (a : akind)
| Respond (c : client)
| Disconnect (c : client)
| Evict.

Definition upd (f : client -> phase) (c : client) (p : phase) : client -> phase :=
  fun c' => if c' =? c then p else f c'.

Definition set_ph (s : state) (f : client -> phase) : state :=
  {| ph := f; flight_ := flight_ s; cache := cache s; origin_count := origin_count s;
     cond_count := cond_count s; stored := stored s; faults := faults s |}.

Definition set_flight (s : state) (f : option flight) : state :=
  {| ph := ph s; flight_ := f; cache := cache s; origin_count := origin_count s;
     cond_count := cond_count s; stored := stored s; faults := faults s |}.

Definition set_stage (s : state) (f : flight) (st : stage) : state :=
  set_flight s (Some {| fl_leader := fl_leader f; fl_stage := st; fl_shared := fl_shared f |}).

Definition after_do (r : fresult) (shared : bool) : phase :=
  match r with
  | FCached v => Post (PCached v shared)
  | FNotCacheable => Post PDirect
  | FError => Post (PHave RError)
  end.

Definition lts_step (s : state) (a : action) : option state :=
  match a with
  | Arrive c =>
      match ph s c with
      | Idle =>
          match flight_ s with
          | None =>
              Some (set_flight (set_ph s (upd (ph s) c InFlight))
                      (Some {| fl_leader := c; fl_stage := SLookup; fl_shared := false |}))
          | Some f =>
              Some (set_flight (set_ph s (upd (ph s) c InFlight))
                      (Some {| fl_leader := fl_leader f; fl_stage := fl_stage f; fl_shared := true |}))
          end
      | _ => None
      end
  | LeaderLookup =>
      match flight_ s with
      | Some f =>
          match fl_stage f with
          | SLookup =>
              match cache s with
              | Some (v, true) => Some (set_stage s f (SResult (FCached v)))
              | Some (v, false) =>
                  Some {| ph := ph s;
                          flight_ := Some {| fl_leader := fl_leader f;
                                             fl_stage := SWait (origin_count s + 1) true;
                                             fl_shared := fl_shared f |};
                          cache := cache s; origin_count := origin_count s + 1;
                          cond_count := cond_count s + 1; stored := stored s; faults := faults s |}
              | None =>
                  Some {| ph := ph s;
                          flight_ := Some {| fl_leader := fl_leader f;
                                             fl_stage := SWait (origin_count s + 1) false;
                                             fl_shared := fl_shared f |};
                          cache := cache s; origin_count := origin_count s + 1;
                          cond_count := cond_count s; stored := stored s; faults := faults s |}
              end
          | _ => None
          end
      | None => None
      end
  | OriginAnswer a =>
      match flight_ s with
      | Some f =>
          match fl_stage f with
          | SWait n cond =>
              match a, cond with
              | KNotModified, false => None
              | _, _ => Some (set_stage s f (SAnswered n a))
              end
          | _ => None
          end
      | None => None
      end
  | LeaderStore =>
      match flight_ s with
      | Some f =>
          match fl_stage f with
          | SAnswered n a =>
              let fl r := Some {| fl_leader := fl_leader f; fl_stage := SResult r; fl_shared := fl_shared f |} in
              match a with
              | KCacheable =>
                  Some {| ph := ph s; flight_ := fl (FCached n); cache := Some (n, true);
                          origin_count := origin_count s; cond_count := cond_count s;
                          stored := n :: stored s; faults := faults s |}
              | KNoStore | KNotFound => Some (set_stage s f (SResult FNotCacheable))
              | KNotModified =>
                  match cache s with
                  | Some (v, _) =>
                      Some {| ph := ph s; flight_ := fl (FCached v); cache := Some (v, true);
                              origin_count := origin_count s; cond_count := cond_count s;
                              stored := stored s; faults := faults s |}
                  | None =>
                      (* the entry vanished under the revalidation: ErrNotCacheable, everybody fetches directly *)
                      Some {| ph := ph s; flight_ := fl FNotCacheable; cache := cache s;
                              origin_count := origin_count s; cond_count := cond_count s;
                              stored := stored s; faults := faults s + 1 |}
                  end
              | KAbortBody =>
                  (* the store fails with the body: ErrNotCacheable as well *)
                  Some {| ph := ph s; flight_ := fl FNotCacheable; cache := cache s;
                          origin_count := origin_count s; cond_count := cond_count s;
                          stored := stored s; faults := faults s + 1 |}
              end
          | _ => None
          end
      | None => None
      end
  | FlightReturn =>
      match flight_ s with
      | Some f =>
          match fl_stage f with
          | SResult r =>
              Some (set_flight
                      (set_ph s (fun c => match ph s c with
                                          | InFlight => after_do r (fl_shared f)
                                          | p => p
                                          end))
                      None)
          | _ => None
          end
      | None => None
      end
  | FollowerReGet c =>
      match ph s c with
      | Post (PCached _ true) =>
          match cache s with
          | Some (v, _) => Some (set_ph s (upd (ph s) c (Post (PHave (RStored v)))))
          | None => Some (set_ph s (upd (ph s) c (Post PDirect)))
          end
      | _ => None
      end
  | FollowerFallback c a =>
      match ph s c with
      | Post PDirect =>
          match a with
          | KNotModified => None
          | _ =>
              Some {| ph := upd (ph s) c (Post (PHave (RPrivate a (origin_count s + 1))));
                      flight_ := flight_ s; cache := cache s; origin_count := origin_count s + 1;
                      cond_count := cond_count s; stored := stored s; faults := faults s |}
          end
      | _ => None
      end
  | Respond c =>
      match ph s c with
      | Post (PCached v false) => Some (set_ph s (upd (ph s) c (Done (RStored v))))
      | Post (PHave r) => Some (set_ph s (upd (ph s) c (Done r)))
      | _ => None
      end
  | Disconnect c =>
      match ph s c with
      | Done r => Some s
      | _ => Some (set_ph s (upd (ph s) c Gone))
      end
  | Evict =>
      Some {| ph := ph s; flight_ := flight_ s; cache := None; origin_count := origin_count s;
              cond_count := cond_count s; stored := stored s; faults := faults s |}
  end.

Fixpoint run (s : state) (tr : list action) : option state :=
  match tr with
  | [] => Some s
  | a :: tr' => match lts_step s a with Some s' => run s' tr' | None => None end
  end.

(* state of the key before the episode *)
Inductive key_state := Cold | Fresh | Stale.

Definition init_cache (ks : key_state) : option (Z * bool) :=
  match ks with Cold => None | Fresh => Some (0, true) | Stale => Some (0, false) end.

Definition init (ks : key_state) : state :=
  {| ph := fun _ => Idle; flight_ := None; cache := init_cache ks; origin_count := 0; cond_count := 0;
     stored := match ks with Cold => [] | _ => [0] end; faults := 0 |}.

(* ---- vocabulary of the statements ---- *)

Definition is_disconnect_of (D : client -> bool) (a : action) : bool :=
  match a with Disconnect c => D c | _ => false end.

(* the trace with every Disconnect of a client in D deleted *)
Definition without_disconnects (D : client -> bool) (tr : list action) : list action :=
  filter (fun a => negb (is_disconnect_of D a)) tr.

Definition answer_of (a : action) : option akind :=
  match a with OriginAnswer k => Some k | FollowerFallback _ k => Some k | _ => None end.

Definition is_evict (a : action) : bool := match a with Evict => true | _ => false end.

Definition kind_complete (k : akind) : bool := match k with KAbortBody => false | _ => true end.

(* a complete answer: the stored version, or an origin answer of the client's own that the origin completed *)
Definition complete (r : resp) : bool :=
  match r with RStored _ => true | RPrivate k _ => kind_complete k | RError => false end.

Definition kind_uncacheable (k : akind) : bool :=
  match k with KNoStore | KNotFound => true | _ => false end.

(* an answer the proxy stores (200 cacheable) or that refreshes the stale entry (304) *)
Definition storable_answer (ks : key_state) (k : akind) : bool :=
  match k, ks with
  | KCacheable, _ => true
  | KNotModified, Stale => true
  | _, _ => false
  end.

(* hypothesis of the single-fetch theorem, per action: nothing is evicted and the origin only
   gives storable answers *)
Definition single_fetch_ok (ks : key_state) (a : action) : bool :=
  negb (is_evict a) &&
  match answer_of a with Some k => storable_answer ks k | None => true end.

(* hypothesis of the private-copies theorem, per action *)
Definition uncacheable_ok (a : action) : bool :=
  match answer_of a with Some k => kind_uncacheable k | None => true end.

(* the origin completes every body it starts *)
Definition no_abort (a : action) : bool :=
  match answer_of a with Some k => kind_complete k | None => true end.

Definition is_304 (a : action) : bool :=
  match answer_of a with Some KNotModified => true | _ => false end.

(* the origin never cuts a body short, and the entry is not removed while a revalidation
   of it is possible (no eviction at all, or no 304 at all) *)
Definition fault_free (tr : list action) : bool :=
  forallb no_abort tr && (forallb (fun a => negb (is_evict a)) tr || forallb (fun a => negb (is_304 a)) tr).

(* steps of the proxy and of the origin, and client c's own steps: no arrival, no disconnect,
   no eviction, no step of any other client *)
Definition step_for (c : client) (a : action) : bool :=
  match a with
  | LeaderLookup | OriginAnswer _ | LeaderStore | FlightReturn => true
  | FollowerReGet c' | FollowerFallback c' _ | Respond c' => c' =? c
  | _ => false
  end.

(* the origin answer number a client holds as its private copy *)
Definition private_nr (p : phase) : option Z :=
  match p with
  | Post (PHave (RPrivate _ n)) | Done (RPrivate _ n) => Some n
  | _ => None
  end.
