(* C12 — the two size counters at the granularity of their individual updates.
   addCacheSize / decrementCacheSize change the cache's own byte counter first and the reported
   bytes_cached metric second; any number of stores and removals do so concurrently, and (before the
   repair) the janitor overwrote the metric with the byte counter it read at that moment.
   State: byte counter, metric, and the deltas whose second half is still outstanding. *)
From Reservoir Require Import Base.Prelude.

Record cstate := { c_bytes : Z; c_metric : Z; c_pending : list Z }.
Definition c_init : cstate := {| c_bytes := 0; c_metric := 0; c_pending := [] |}.

Inductive caction :=
| CFirst (d : Z)        (* first half of an add (d > 0) or a subtract (d < 0): the byte counter moves *)
| CSecond (i : nat)     (* second half of the i-th outstanding update: the metric moves *)
| CJanitorSet.          (* the janitor publishes the byte counter as the metric (pre-repair code only) *)

Fixpoint remove_nth {A} (i : nat) (l : list A) : list A :=
  match l, i with
  | [], _ => []
  | _ :: r, O => r
  | x :: r, S j => x :: remove_nth j r
  end.

Definition cstep (allow_set : bool) (s : cstate) (a : caction) : option cstate :=
  match a with
  | CFirst d => Some {| c_bytes := c_bytes s + d; c_metric := c_metric s; c_pending := d :: c_pending s |}
  | CSecond i =>
      match nth_error (c_pending s) i with
      | Some d => Some {| c_bytes := c_bytes s; c_metric := c_metric s + d; c_pending := remove_nth i (c_pending s) |}
      | None => None
      end
  | CJanitorSet => if allow_set then Some {| c_bytes := c_bytes s; c_metric := c_bytes s; c_pending := c_pending s |} else None
  end.

Fixpoint crun (allow_set : bool) (s : cstate) (l : list caction) : option cstate :=
  match l with
  | [] => Some s
  | a :: r => match cstep allow_set s a with Some s' => crun allow_set s' r | None => None end
  end.

Definition quiescent_c (s : cstate) : bool := match c_pending s with [] => true | _ => false end.
Definition zsum (l : list Z) : Z := fold_right Z.add 0 l.
