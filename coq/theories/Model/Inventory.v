(* C15 — shared-state inventory.  The translator harness/cmd/inventory lists EVERY struct field declared in the
   repository and EVERY package-level variable, with the places that write it after its object can have been
   published (writes to an object still private to the function that creates it are not listed).  A location is
     - read-only after publication  when that list is empty            (class CReadOnly of Model/Discipline.v),
     - lock-guarded                 when it is in [guarded]: the regenerated lockset tables (Model/Lockset.v) and
                                    the access table (Model/RaceTable.v) decide every access     (class CGuard),
     - confined                     when it is in [confined], with the reason why one goroutine at a time can
                                    reach it                                                     (class COwner).
   [unclassified]: the locations that are written after publication and are in neither list — a new mutable field,
   or a new post-construction write to a field that used to be immutable.  [stale]: list entries that name no
   location of the repository any more (renamed or removed: the lists no longer describe the code). *)
From Reservoir Require Import Base.Prelude.
From Coq Require Import String.
Open Scope string_scope.

Inductive wkind := WSlot | WElem | WAddr.
Record inv_write := mk_w { w_func : string; w_kind : wkind }.
Record inv_loc := mk_loc { l_id : string; l_type : string; l_selfsync : bool; l_writes : list inv_write }.

(* lock-guarded locations: (id, guard, where the accesses are checked) *)
Definition guarded_locs : list (string * string) :=
  [ ("cache.FileCache.entriesMetadata", "FileCache.mu — regenerated lockset table AccCache");
    ("cache.MemoryCache.entries", "MemoryCache.mu — regenerated lockset table AccCache");
    ("utils/syncmap.SyncMap.ma", "SyncMap.mu — regenerated lockset table AccSyncMap");
    ("utils/event.Event.subscribers", "Event.mu — regenerated lockset table AccEvent");
    ("utils/event.subscription.pending", "Event.mu — regenerated lockset table AccEvent");
    ("utils/event.subscription.running", "Event.mu — regenerated lockset table AccEvent");
    ("cache.EntryMetadata.LastAccess", "the entry's shard lock in write mode — access table Model/RaceTable.v (op_get, op_update, op_getmeta) and the race detector; callers and the janitor only see snapshots")
  ].

(* confined locations: (id prefix, why at most one goroutine at a time reaches it) *)
Definition confined : list (string * string) :=
  [ ("cache.cacheJanitor.interval", "written and read by the janitor goroutine only (source obligation janitor_interval_confined re-checks it on the regenerated access records)");
    ("cache.cacheJanitor.running", "lifecycle flag: start() is called by the cache constructor before the cache is returned, stop() by Destroy(), after which the cache is not used");
    ("config.ConfigProp.onChange", "lazily created only for a zero ConfigProp; NewConfigProp and UnmarshalJSON create it before the configuration is published");
    ("config.ConfigProp.requiresRestart", "set while the default configuration is built, before it is published");
    ("config.ConfigSubscriber.unsubs", "filled by the owning component's constructor, cleared by its Destroy");
    ("config.commitable.", "value type: ConfigProp keeps it by value inside an atomics.Value; every method call is on a local copy taken with Load() and published with Store()");
    ("config.overwritable.", "value type held inside commitable (see there)");
    ("utils/typeutils.Optional.", "value type; UnmarshalJSON is called on a fresh local or on a field of a local copy");
    ("config/flags.", "command-line flags: registered and parsed in main() before any goroutine is started");
    ("logging.", "logger set-up: Init is called once from main() before any goroutine is started; the level itself is a slog.LevelVar (atomic)");
    ("proxy.cachedFetchResult.fetchInfo", "fetchResult is passed and returned by value; getFetchInfoRef points into the caller's own copy");
    ("proxy.directFetchResult.fetchInfo", "as cachedFetchResult.fetchInfo");
    ("proxy.fetchInfo.", "as cachedFetchResult.fetchInfo");
    ("proxy/headers.Header.", "header directives are parsed per request into an object owned by that request's goroutine");
    ("utils/atomics.Time.timeMicro", "pointer created by the constructor; Set re-creates it only for a zero Time, which the repository never shares");
    ("utils/atomics.Value.v", "pointer created by the constructor; Store re-creates it only for a zero Value (unmarshalling into a fresh configuration)");
    ("utils/countingreader.CountingReader.", "wraps one response body, read by one goroutine");
    ("utils/set.Set.", "plain set, used as a local value");
    ("utils/writesynced.WriteSynced.val", "accessor returns a pointer the caller uses under the embedded lock");
    ("webserver/api/endpoints/log.logStreamStore.", "one store per SSE connection, driven by that connection's goroutine");
    ("webserver/auth.gcRunning", "set once by StartSessionGC, called from main() at start-up");
    ("webserver/streaming.SseStream.", "one stream object per SSE connection, driven by that connection's goroutine")
  ].

Definition is_guarded (id : string) : bool := existsb (fun e => String.eqb (fst e) id) guarded_locs.
Definition is_confined (id : string) : bool := existsb (fun e => String.prefix (fst e) id) confined.

Definition classified (l : inv_loc) : bool :=
  match l_writes l with [] => true | _ => is_guarded (l_id l) || is_confined (l_id l) end.

Definition unclassified (ls : list inv_loc) : list string :=
  map l_id (filter (fun l => negb (classified l)) ls).

(* list entries that no longer name a location *)
Definition stale (ls : list inv_loc) : list string :=
  map fst (filter (fun e => negb (existsb (fun l => String.eqb (fst e) (l_id l)) ls)) guarded_locs) ++
  map fst (filter (fun e => negb (existsb (fun l => String.prefix (fst e) (l_id l)) ls)) confined).

(* Locks.  Every location whose type is a mutex (or a slice of mutexes) must be one of the locks the deadlock model
   of C14 knows: the regenerated skeletons cover packages cache, utils/event and utils/syncmap, whose locks are
   ranked Mu < Shard i < Leaf n (Model/Sync.v).  A mutex that appears anywhere else is outside that model. *)
Fixpoint contains (needle hay : string) : bool :=
  match hay with
  | EmptyString => String.prefix needle hay
  | String _ rest => String.prefix needle hay || contains needle rest
  end.
Definition is_lock_type (t : string) : bool := contains "sync.Mutex" t || contains "sync.RWMutex" t.

Definition known_locks : list (string * string) :=
  [ ("cache.FileCache.mu", "index lock: Mu");
    ("cache.FileCache.locks", "entry shard locks: Shard i");
    ("cache.MemoryCache.mu", "index lock: Mu");
    ("cache.MemoryCache.locks", "entry shard locks: Shard i");
    ("cache.cacheFunctions.getLock", "accessor of the owning cache's shard locks");
    ("utils/event.Event.mu", "leaf lock: Leaf");
    ("utils/syncmap.SyncMap.mu", "leaf lock: Leaf");
    ("utils/writesynced.WriteSynced.mu", "generic wrapper, not instantiated anywhere in the repository");
    ("utils/writesynced.ReadLock.mu", "as WriteSynced.mu");
    ("utils/writesynced.WriteLock.mu", "as WriteSynced.mu")
  ].

Definition unknown_locks (ls : list inv_loc) : list string :=
  map l_id (filter (fun l => is_lock_type (l_type l)
                             && negb (existsb (fun e => String.eqb (fst e) (l_id l)) known_locks)) ls).
Definition missing_locks (ls : list inv_loc) : list string :=
  map fst (filter (fun e => negb (existsb (fun l => String.eqb (fst e) (l_id l) && is_lock_type (l_type l)) ls)) known_locks).

Definition inventory_ok (ls : list inv_loc) : bool :=
  match unclassified ls, stale ls, unknown_locks ls, missing_locks ls with
  | [], [], [], [] => true
  | _, _, _, _ => false
  end.
