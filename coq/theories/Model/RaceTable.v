(* C15 — the access table: for every operation that touches shared mutable
   state, the lock operations and PLAIN memory accesses it performs, written
   from the Go sources (after the C15 repairs) as programs of Model/Race.v.

   Locations (encoded as naturals)
     LMapC        the cache's key -> entry map (entries / entriesMetadata)
     LMemCap      MemoryCache.memoryCap
     LMeta k      the live metadata record of the entry stored under key k
                  (Expires, LastAccess, Size, TimeWritten: one location — the
                  coarsest, hence strongest, choice)
     LSubs e      the subscriber list of event e and the pending/running/active
                  fields of its subscriptions
     LSyncMap m   the Go map inside SyncMap m (certificate cache, session table)
   Guards
     LMapC, LMemCap   the cache's map lock  mu
     LMeta k          the shard lock of k:  Shard (sh k), for the key -> shard map sh
     LSubs e          the event's mutex     Leaf (100 + e)
     LSyncMap m       the map's RWMutex     Leaf (200 + m)
   byteSize, maxCacheSize, the metrics and the configuration values are atomics;
   the metadata handed to callers and to the janitor is a private copy; session
   records are immutable once published: none of these is a shared plain access. *)
From Reservoir Require Import Base.Prelude Model.Sync Model.Race.
From Coq Require Import Arith PeanoNat.

Local Open Scope nat_scope.

Inductive sloc := LMapC | LMemCap | LMeta (k : nat) | LSubs (e : nat) | LSyncMap (m : nat).

Definition enc (x : sloc) : loc :=
  match x with
  | LMapC => 0
  | LMemCap => 1
  | LMeta k => 3 * k + 2
  | LSubs e => 3 * e + 3
  | LSyncMap m => 3 * m + 4
  end.

Definition dec (n : loc) : sloc :=
  match n with
  | 0 => LMapC
  | 1 => LMemCap
  | _ => match (n - 2) mod 3 with
         | 0 => LMeta ((n - 2) / 3)
         | 1 => LSubs ((n - 2) / 3)
         | _ => LSyncMap ((n - 2) / 3)
         end
  end.

Section Table.
  Variable sh : nat -> nat.          (* key -> shard index: arbitrary (every shard count, every hash) *)

  Definition shard_of (k : nat) : lock := Shard (sh k).
  Definition ev_lock (e : nat) : lock := Leaf (100 + e).
  Definition sm_lock (m : nat) : lock := Leaf (200 + m).

  Definition guard_of (x : sloc) : lock :=
    match x with
    | LMapC | LMemCap => Mu
    | LMeta k => shard_of k
    | LSubs e => ev_lock e
    | LSyncMap m => sm_lock m
    end.

  Definition G (n : loc) : option lock := Some (guard_of (dec n)).

  Definition acc (x : sloc) (w : bool) (k : rprog) : rprog := RAcc (enc x) w k.

  (* --- cache API (both backends have the same locking shape) --- *)
  Definition lookup (cont : rprog) : rprog :=                    (* c.mu.RLock(); entries[key]; RUnlock *)
    RAcq Mu MR (acc LMapC false (RRel Mu MR cont)).

  Definition op_get (k : nat) : rprog :=
    RAcq (shard_of k) MW
      (lookup
        (RChoice
           (RRel (shard_of k) MW RDone)                             (* miss *)
           (acc (LMeta k) false                                     (* Expires *)
             (acc (LMeta k) true                                    (* LastAccess *)
               (acc (LMeta k) false                                 (* snapshot for the caller *)
                 (RRel (shard_of k) MW RDone)))))).

  Definition op_get_metadata := op_get.

  Definition op_update (k : nat) : rprog :=
    RAcq (shard_of k) MW
      (lookup
        (RChoice
           (RRel (shard_of k) MW RDone)
           (acc (LMeta k) true (acc (LMeta k) true (RRel (shard_of k) MW RDone))))).

  (* removal of key k' while its shard lock is held (deleteInternal / ensureRemove) *)
  Definition remove_entry (k' : nat) (cont : rprog) : rprog :=
    RAcq Mu MW (acc LMapC false
      (RChoice (RRel Mu MW cont)
               (acc LMapC true (RRel Mu MW (acc (LMeta k') false cont))))).

  Definition op_delete (k : nat) : rprog :=
    RAcq (shard_of k) MW (remove_entry k (RRel (shard_of k) MW RDone)).

  (* the janitor's scan: clone the map under mu, then read each entry's
     metadata under its shard lock (TryRLock), handing a copy to the body *)
  Fixpoint scan (ks : list nat) (cont : rprog) : rprog :=
    match ks with
    | [] => cont
    | k' :: r =>
        RTry (shard_of k') MR
          (acc (LMeta k') false (RRel (shard_of k') MR (scan r cont)))
          (scan r cont)
    end.

  Definition snapshot (ks : list nat) (cont : rprog) : rprog :=
    RAcq Mu MR (acc LMapC false (RRel Mu MR (scan ks cont))).

  (* removal loop of evict / cleanExpiredEntries: the loop may stop at any victim; try-lock the
     victim's shard, (cleanup: re-read its metadata under the lock), remove, unlock *)
  Fixpoint remove_loop (vs : list nat) (cont : rprog) : rprog :=
    match vs with
    | [] => cont
    | v :: r =>
        RChoice cont
          (RTry (shard_of v) MW
             (lookup
               (acc (LMeta v) false
                 (RChoice (remove_entry v (RRel (shard_of v) MW (remove_loop r cont)))
                          (RRel (shard_of v) MW (remove_loop r cont)))))
             (remove_loop r cont))
    end.

  (* getCacheLen + scan + removal loop *)
  Definition evict (ks vs : list nat) (cont : rprog) : rprog :=
    lookup (snapshot ks (remove_loop vs cont)).

  Definition op_janitor_cycle (ks1 vs1 ks2 vs2 : list nat) : rprog :=
    snapshot ks1 (remove_loop vs1 (RChoice RDone (evict ks2 vs2 RDone))).

  (* a store: (file backend: eviction before taking the lock;) shard lock; (memory backend: read
     memoryCap under mu, eviction while holding the shard lock;) insert under mu *)
  Definition insert (k : nat) (cont : rprog) : rprog :=
    RAcq Mu MW (acc LMapC false (acc LMapC true (RRel Mu MW
      (RChoice cont (acc (LMeta k) false cont))))).              (* replaced entry's size *)

  Definition read_memcap (cont : rprog) : rprog :=
    RAcq Mu MR (acc LMemCap false (RRel Mu MR cont)).

  Definition op_store_memory (k : nat) (ks vs : list nat) : rprog :=
    let unlock := RRel (shard_of k) MW RDone in
    RAcq (shard_of k) MW
      (read_memcap
        (RChoice
           (insert k unlock)
           (evict ks vs
              (read_memcap
                 (RChoice unlock                                   (* still full: refused *)
                          (insert k unlock)))))).

  Definition op_store_file (k : nat) (ks vs : list nat) : rprog :=
    RChoice
      (RAcq (shard_of k) MW (RChoice (RRel (shard_of k) MW RDone) (insert k (RRel (shard_of k) MW RDone))))
      (evict ks vs
        (RAcq (shard_of k) MW (RChoice (RRel (shard_of k) MW RDone) (insert k (RRel (shard_of k) MW RDone))))).

  Definition op_budget_listener : rprog :=
    RAcq Mu MW (acc LMemCap true (acc LMemCap false (RRel Mu MW RDone))).

  (* --- utils/event (one mutex per event) --- *)
  Definition crit (e : nat) (body : rprog -> rprog) (cont : rprog) : rprog :=
    RAcq (ev_lock e) MW (body (RRel (ev_lock e) MW cont)).

  Definition op_subscribe (e : nat) : rprog := crit e (fun c => acc (LSubs e) true c) RDone.
  Definition op_unsubscribe (e : nat) : rprog :=
    crit e (fun c => acc (LSubs e) true (acc (LSubs e) false (acc (LSubs e) true c))) RDone.
  Definition op_fire (e : nat) : rprog :=
    crit e (fun c => acc (LSubs e) false (acc (LSubs e) true c)) RDone.
  (* the delivery goroutine: pop under the lock, call the listener outside it, [n] times, then retire *)
  Fixpoint op_deliver (e n : nat) : rprog :=
    match n with
    | O => crit e (fun c => acc (LSubs e) false (acc (LSubs e) true c)) RDone
    | S n' => crit e (fun c => acc (LSubs e) false (acc (LSubs e) true c)) (RStep (op_deliver e n'))
    end.

  (* --- utils/syncmap (one RWMutex per map) --- *)
  Definition op_sm_get (m : nat) : rprog :=
    RAcq (sm_lock m) MR (acc (LSyncMap m) false (RRel (sm_lock m) MR RDone)).
  Definition op_sm_set (m : nat) : rprog :=
    RAcq (sm_lock m) MW (acc (LSyncMap m) true (RRel (sm_lock m) MW RDone)).
  Definition op_sm_getorset (m : nat) : rprog :=
    RAcq (sm_lock m) MW (acc (LSyncMap m) false (RChoice (RRel (sm_lock m) MW RDone)
                                                         (acc (LSyncMap m) true (RRel (sm_lock m) MW RDone)))).
  Definition op_sm_delete := op_sm_set.
  Definition op_sm_iterate (m : nat) : rprog :=                   (* Keys / Items: snapshot under RLock *)
    RAcq (sm_lock m) MR (acc (LSyncMap m) false (RRel (sm_lock m) MR RDone)).

  (* sessions and certificates are sequences of SyncMap operations on immutable values *)
  Definition op_get_session (m : nat) : rprog :=
    RAcq (sm_lock m) MR (acc (LSyncMap m) false (RRel (sm_lock m) MR
      (RChoice RDone (RAcq (sm_lock m) MW (acc (LSyncMap m) true (RRel (sm_lock m) MW RDone)))))).
  Fixpoint op_session_gc_loop (m n : nat) : rprog :=
    match n with
    | O => RDone
    | S n' => RChoice (op_session_gc_loop m n')
                      (RAcq (sm_lock m) MW (acc (LSyncMap m) true (RRel (sm_lock m) MW (op_session_gc_loop m n'))))
    end.
  Definition op_session_gc (m n : nat) : rprog :=
    RAcq (sm_lock m) MR (acc (LSyncMap m) false (RRel (sm_lock m) MR (op_session_gc_loop m n))).
  Definition op_get_cert (m : nat) : rprog :=
    RAcq (sm_lock m) MR (acc (LSyncMap m) false (RRel (sm_lock m) MR
      (RChoice RDone
         (RChoice (RAcq (sm_lock m) MW (acc (LSyncMap m) true (RRel (sm_lock m) MW
                     (RStep (RAcq (sm_lock m) MW (acc (LSyncMap m) true (RRel (sm_lock m) MW RDone)))))))
                  (RStep (RAcq (sm_lock m) MW (acc (LSyncMap m) true (RRel (sm_lock m) MW RDone)))))))).

  (* The table: every program an operation of the running proxy can be. *)
  Inductive table_op : rprog -> Prop :=
  | T_get k : table_op (op_get k)
  | T_update k : table_op (op_update k)
  | T_delete k : table_op (op_delete k)
  | T_store_memory k ks vs : table_op (op_store_memory k ks vs)
  | T_store_file k ks vs : table_op (op_store_file k ks vs)
  | T_janitor ks1 vs1 ks2 vs2 : table_op (op_janitor_cycle ks1 vs1 ks2 vs2)
  | T_budget : table_op op_budget_listener
  | T_subscribe e : table_op (op_subscribe e)
  | T_unsubscribe e : table_op (op_unsubscribe e)
  | T_fire e : table_op (op_fire e)
  | T_deliver e n : table_op (op_deliver e n)
  | T_sm_get m : table_op (op_sm_get m)
  | T_sm_set m : table_op (op_sm_set m)
  | T_sm_getorset m : table_op (op_sm_getorset m)
  | T_sm_iterate m : table_op (op_sm_iterate m)
  | T_get_session m : table_op (op_get_session m)
  | T_session_gc m n : table_op (op_session_gc m n)
  | T_get_cert m : table_op (op_get_cert m).

  (* --- the code BEFORE the repairs, for the refutation examples --- *)
  Fixpoint scan_unlocked (ks : list nat) (cont : rprog) : rprog :=
    match ks with [] => cont | k' :: r => acc (LMeta k') false (scan_unlocked r cont) end.
  Definition old_janitor_scan (ks : list nat) : rprog :=
    RAcq Mu MR (acc LMapC false (RRel Mu MR (scan_unlocked ks RDone))).
  Definition old_sm_iterate (m : nat) : rprog := acc (LSyncMap m) false RDone.
End Table.
