(* Executable model of the freshness / storability decision of reservoir:
     proxy/headers/cache_control.go       parseCacheControl
     proxy/headers/header_directives.go   ParseHeaderDirective (Cache-Control, Expires), ShouldCache, GetExpiresOrDefault
     proxy/fetcher.go                     shouldResponseBeCached
     proxy/cache_status_headers.go        fetchResultToCacheStatus, makeCacheStatusHeader, getCurrentAge, X-Cache
   as they are AFTER the fix: commits of branch agent/hdr (private, case folding,
   all header lines, malformed max-age, oversized max-age, HTTP-date forms of
   Expires, unparseable Expires).  Definitions only.

   Time: instants and durations are Z nanoseconds (instants relative to the Unix
   epoch).  time.Time is not an int64 of nanoseconds, so [now + d] does not wrap;
   time.Duration is, so [max-age * time.Second] is written with wrap64. *)
From Reservoir Require Import Base.Prelude Base.Strings.

Definition second : Z := 1000000000.

(* ---- what the model sees of a response header set ------------------------ *)

(* Result of http.ParseTime on the first Expires line: an oracle input recorded
   by the harness (the harness builds the date strings from known instants). *)
Inductive expires_view :=
| ExpAbsent
| ExpUnparseable
| ExpAt (t : Z).

Record hview := {
  cc_lines : list str;        (* every Cache-Control field line, in order *)
  expires : expires_view;     (* first Expires field line *)
  resp_range : bool           (* the response carries a Range field that parseRangeHeader accepts *)
}.

Record policy := {
  ignore_cc : bool;           (* cache_policy.ignore_cache_control *)
  force_default : bool;       (* cache_policy.force_default_max_age *)
  default_age : Z             (* cache_policy.default_max_age, nanoseconds (any int64) *)
}.

(* ---- strings.TrimSpace / strings.ToLower ---------------------------------- *)

(* UTF-8 encodings of the runes for which unicode.IsSpace holds *)
Definition uni_spaces : list str :=
  [ [9]; [10]; [11]; [12]; [13]; [32];
    [194;133]; [194;160]; [225;154;128];
    [226;128;128]; [226;128;129]; [226;128;130]; [226;128;131]; [226;128;132]; [226;128;133];
    [226;128;134]; [226;128;135]; [226;128;136]; [226;128;137]; [226;128;138];
    [226;128;168]; [226;128;169]; [226;128;175]; [226;129;159]; [227;128;128] ].

Fixpoint cut_any (ps : list str) (s : str) : option str :=
  match ps with
  | [] => None
  | p :: ps' => match cut_prefix p s with Some r => Some r | None => cut_any ps' s end
  end.

Fixpoint uni_drop (ps : list str) (fuel : nat) (s : str) : str :=
  match fuel with
  | O => s
  | S f => match cut_any ps s with Some r => uni_drop ps f r | None => s end
  end.

(* TrimFunc(s, unicode.IsSpace): leading runes are decoded forwards, trailing
   runes backwards; every space rune starts with a non-continuation byte, so a
   suffix match on the encodings is exactly what DecodeLastRune sees. *)
Definition uni_trim (s : str) : str :=
  let l := uni_drop uni_spaces (length s) s in
  rev (uni_drop (map (@rev Z) uni_spaces) (length l) (rev l)).

(* strings.TrimSpace has an ASCII fast path and falls back to TrimFunc when it
   meets a byte >= 0x80; both agree on ASCII strings. *)
Definition go_trim (s : str) : str := if all_ascii s then ascii_trim s else uni_trim s.

(* strings.ToLower on a string with non-ASCII bytes maps every rune through
   unicode.ToLower.  Exactly two non-ASCII runes lower to ASCII letters:
   U+0130 (C4 B0) -> 'i' and U+212A (E2 84 AA) -> 'k'.  All other non-ASCII
   runes (and invalid bytes, which become U+FFFD) stay non-ASCII; the model
   leaves their bytes unchanged, which is indistinguishable for the only uses
   made of the result: equality with ASCII constants, an ASCII prefix test, and
   strconv.ParseInt (any non-ASCII byte is a syntax error). *)
Fixpoint uni_lower (s : str) : str :=
  match s with
  | [] => []
  | c :: r =>
      match r with
      | [] => [to_lower c]
      | c2 :: r2 =>
          if (c =? 196) && (c2 =? 176) then 105 :: uni_lower r2
          else match r2 with
               | [] => to_lower c :: uni_lower r
               | c3 :: r3 =>
                   if (c =? 226) && (c2 =? 132) && (c3 =? 170) then 107 :: uni_lower r3
                   else to_lower c :: uni_lower r
               end
      end
  end.

Definition go_lower (s : str) : str := if all_ascii s then lower_str s else uni_lower s.

(* ---- strconv.ParseInt(s, 10, 64) ------------------------------------------ *)

(* strconv.ParseUint(s, 10, 64): the digits are consumed left to right and the
   range error is reported as soon as the accumulator overflows, BEFORE the rest
   of the string has been looked at (so "99999999999999999999x" is a range error,
   not a syntax error). *)
Inductive puint := PUSyntax | PURange | PUVal (n : Z).

Definition max_uint64 : Z := 2^64 - 1.
Definition uint_cutoff : Z := max_uint64 / 10 + 1.

Fixpoint pu_loop (s : str) (n : Z) : puint :=
  match s with
  | [] => PUVal n
  | c :: r =>
      if is_digit c then
        if uint_cutoff <=? n then PURange
        else let n1 := n * 10 + (c - 48) in
             if max_uint64 <? n1 then PURange else pu_loop r n1
      else PUSyntax
  end.

Definition parse_uint64 (s : str) : puint :=
  match s with [] => PUSyntax | _ => pu_loop s 0 end.

Inductive pint :=
| PSyntax              (* ErrSyntax *)
| PRange (v : Z)       (* ErrRange, v = the saturated value ParseInt returns with it *)
| PVal (v : Z).

Definition parse_int64 (s : str) : pint :=
  match s with
  | [] => PSyntax
  | c :: r =>
      let neg := c =? 45 in
      let ds := if (c =? 43) || (c =? 45) then r else s in
      match parse_uint64 ds with
      | PUSyntax => PSyntax
      | PURange => if neg then PRange min_int64 else PRange max_int64
      | PUVal n =>
          if negb neg && (2^63 <=? n) then PRange max_int64
          else if neg && (2^63 <? n) then PRange min_int64
          else PVal (if neg then - n else n)
      end
  end.

(* the value parseCacheControl goes on with: a range error is accepted (with the
   saturated value) only when everything after the first byte is a digit *)
Definition max_age_number (after : str) : option Z :=
  match parse_int64 after with
  | PSyntax => None
  | PVal v => Some v
  | PRange v => if forallb is_digit (tl after) then Some v else None
  end.

(* ---- parseCacheControl ------------------------------------------------------ *)

Record cc := { no_cache : bool; max_age : Z (* time.Duration *) }.

Definition lit_no_cache : str := [110;111;45;99;97;99;104;101].
Definition lit_no_store : str := [110;111;45;115;116;111;114;101].
Definition lit_private : str := [112;114;105;118;97;116;101].
Definition lit_max_age_eq : str := [109;97;120;45;97;103;101;61].

(* math.MaxInt64 / int64(time.Second) *)
Definition max_age_cap : Z := max_int64 / second.

(* one iteration of the loop on the trimmed, lower-cased directive; the bool is
   "a max-age value failed to parse" (the error parseCacheControl returns) *)
Definition cc_tok (acc : cc * bool) (d : str) : cc * bool :=
  let '(c, bad) := acc in
  if str_eqb d lit_no_cache || str_eqb d lit_no_store || str_eqb d lit_private then
    ({| no_cache := true; max_age := max_age c |}, bad)
  else
    match cut_prefix lit_max_age_eq d with
    | None => acc
    | Some after =>
        match max_age_number after with
        | None => ({| no_cache := true; max_age := max_age c |}, true)
        | Some v =>
            if v <? 1 then ({| no_cache := true; max_age := max_age c |}, bad)
            else ({| no_cache := no_cache c; max_age := wrap64 (Z.min v max_age_cap * second) |}, bad)
        end
    end.

Definition directive_of (raw : str) : str := go_lower (go_trim raw).

Definition cc_step (acc : cc * bool) (raw : str) : cc * bool := cc_tok acc (directive_of raw).

(* returns the directives and whether the Go function returns a non-nil error *)
Definition parse_cc (h : str) : cc * bool :=
  fold_left cc_step (split_on 44 h) ({| no_cache := false; max_age := 0 |}, false).

(* ---- ParseHeaderDirective, as far as Cache-Control / Expires go ------------- *)

Record directives := { d_cc : option cc; d_exp : option Z }.

(* time.Time{} *)
Definition zero_time : Z := -62135596800 * second.

Definition parse_directives (hv : hview) : directives :=
  {| d_cc := match cc_lines hv with
             | [] => None
             | ls => Some (fst (parse_cc (join_with 44 ls)))
             end;
     d_exp := match expires hv with
              | ExpAbsent => None
              | ExpUnparseable => Some zero_time
              | ExpAt t => Some t
              end |}.

(* ---- ShouldCache / GetExpiresOrDefault -------------------------------------- *)

Definition should_cache (ignore : bool) (d : directives) (range_present : bool) (now : Z) : bool :=
  if negb ignore && match d_cc d with Some c => no_cache c || (max_age c <? 1) | None => false end
  then false
  else if negb ignore && match d_exp d with Some t => t <? now | None => false end
  then false
  else negb range_present.

Definition expires_or_default (force : bool) (dflt : Z) (d : directives) (now : Z) : Z :=
  let fallback := match d_exp d with Some t => t | None => now + dflt end in
  if force then now + dflt
  else match d_cc d with
       | Some c => if 0 <? max_age c then now + max_age c else fallback
       | None => fallback
       end.

(* ---- fetcher.shouldResponseBeCached ------------------------------------------ *)

Inductive meth := GET | HEAD | POST | OTHER.
Definition is_get (m : meth) : bool := match m with GET => true | _ => false end.

Definition storable (pol : policy) (m : meth) (status : Z) (hv : hview) (now : Z) : bool :=
  should_cache (ignore_cc pol) (parse_directives hv) (resp_range hv) now
  && (status =? 200) && is_get m.

(* absolute expiry instant given to cache.Cache when the response is stored *)
Definition store_expiry (pol : policy) (hv : hview) (now : Z) : Z :=
  expires_or_default (force_default pol) (default_age pol) (parse_directives hv) now.

(* ---- cache_status_headers.go -------------------------------------------------- *)

Inductive hit_status := HsMiss | HsRevalidated | HsHit.
Definition hit_status_eqb (a b : hit_status) : bool :=
  match a, b with HsMiss, HsMiss | HsRevalidated, HsRevalidated | HsHit, HsHit => true | _, _ => false end.

(* int(d.Seconds()): truncation toward zero *)
Definition trunc_secs (d : Z) : Z := Z.quot d second.

Record cache_status := {
  cs_hit : hit_status;
  cs_fwd_stale : bool;            (* fwd=stale present *)
  cs_fwd_status : option Z;       (* fwd-status=NNN *)
  cs_stored : bool;
  cs_ttl : option Z               (* ttl=N, only on hit / revalidated with an entry *)
}.

(* fetchResultToCacheStatus + the ttl part of makeCacheStatusHeader.
   [cached] = the result carries a cache entry (fetchTypeCached); [exp] its Expires. *)
Definition make_cache_status (hs : hit_status) (upstream_status : Z) (cached : bool) (exp now : Z) : cache_status :=
  {| cs_hit := hs;
     cs_fwd_stale := hit_status_eqb hs HsRevalidated;
     cs_fwd_status := match hs with HsHit => None | _ => Some upstream_status end;
     cs_stored := cached && hit_status_eqb hs HsMiss;
     cs_ttl := if cached && negb (hit_status_eqb hs HsMiss)
               then Some (Z.max 0 (trunc_secs (exp - now))) else None |}.

(* getCurrentAge: [date] = parsed Date of the stored header, [up_age] = strconv.Atoi of its Age *)
Definition current_age (date up_age : option Z) (stored_at now : Z) : Z :=
  let apparent := match date with Some dt => Z.max 0 (trunc_secs (stored_at - dt)) | None => 0 end in
  let corrected := match up_age with Some a => Z.max apparent a | None => apparent end in
  Z.max 0 (wrap64 (corrected + trunc_secs (now - stored_at))).
